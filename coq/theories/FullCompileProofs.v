(* FullCompile, part 4: theorems.

   PART A - structural theorems for ALL programs (no restriction on the syntax tree):
     compile_wf            every function of the tree FullCompile returns is well formed (wf_func):
       lines_parallel        code length = line-table length
       code_bytes_in_range   every code byte is < 256 - in particular (jumps_in_range) every jump / loop /
                             handler operand fits 16 bits, every constant index fits 16 bits, every count and
                             slot operand fits 8 bits: otherwise the compile FAILS (CErr), it never truncates
       consts_bounded        at most 65536 constants, upvalue_count <= 256
     (all for the function itself and, recursively, for every function in its constant table)
   plus the local facts the brief asks for, stated at the emission sites:
     make_constant_lt        the index make_constant returns is < the number of constants afterwards
     resolve_local_lt        the slot resolve_local returns is < the number of declared locals
     closure_descriptors     emit_closure writes exactly 2 * upvalue_count descriptor bytes after the operand
   PART B - bridging to the fragment compilers: see the end of the file. *)
From Coq Require Import Strings.Byte Strings.String.
From Coq Require Import List NArith ZArith Bool Arith Lia.
From Coq Require Import Floats.SpecFloat.
From YV Require Import Show Utf8 Num Ast Bytecode ParseLoc FullCompile.
Import ListNotations.
Local Open Scope nat_scope.
Local Open Scope list_scope.
Local Open Scope comp_scope.

Scheme lexpr_mind := Induction for lexpr Sort Prop
with lexprs_mind := Induction for lexprs Sort Prop
with lparts_mind := Induction for lparts Sort Prop
with lkvs_mind := Induction for lkvs Sort Prop
with lstmt_mind := Induction for lstmt Sort Prop
with lstmts_mind := Induction for lstmts Sort Prop
with lmethods_mind := Induction for lmethods Sort Prop.
Combined Scheme lsyntax_mutind from lexpr_mind, lexprs_mind, lparts_mind, lkvs_mind, lstmt_mind,
  lstmts_mind, lmethods_mind.

(* ------------------------------------------------------------------ *)
(* well-formedness                                                      *)
Definition byte_ok (b : N) : Prop := (b < 256)%N.

Inductive wf_const : const -> Prop :=
| wf_KNum x : wf_const (KNum x)
| wf_KStr s : wf_const (KStr s)
| wf_KFun f : wf_func f -> wf_const (KFun f)
with wf_func : func -> Prop :=
| wf_Mk a u n code ks lines :
    length code = length lines ->
    Forall byte_ok code ->
    Forall wf_const ks ->
    (N.of_nat (length ks) <= 65536)%N ->
    (u <= 256)%N ->
    wf_func (MkFunc a u n code ks lines).

Definition uv_ok (u : N * bool) : Prop := (fst u < 256)%N.

Record wf_comp (c : comp) : Prop := mkWf {
  wf_par : length (k_code c) = length (k_lines c);
  wf_bytes : Forall byte_ok (k_code c);
  wf_consts : Forall wf_const (k_consts c);
  wf_nconsts : (N.of_nat (length (k_consts c)) <= 65536)%N;
  wf_nlocals : length (k_locals c) <= 256;
  wf_nups : length (k_upvalues c) <= 256;
  wf_ups : Forall uv_ok (k_upvalues c)
}.

Definition wf_state (s : cstate) : Prop := wf_comp (s_cur s) /\ Forall wf_comp (s_outer s).

(* ------------------------------------------------------------------ *)
(* a Hoare triple with the fixed invariant wf_state and a postcondition on the value *)
Definition spec {A} (m : C A) (Q : A -> Prop) : Prop :=
  forall s a s', wf_state s -> m s = COk (a, s') -> wf_state s' /\ Q a.

Lemma spec_ret {A} (a : A) (Q : A -> Prop) : Q a -> spec (cret a) Q.
Proof. intros HQ s a' s' Hs H. inversion H; subst. auto. Qed.

Lemma spec_bind {A B} (m : C A) (k : A -> C B) (Q : A -> Prop) (R : B -> Prop) :
  spec m Q -> (forall a, Q a -> spec (k a) R) -> spec (cbind m k) R.
Proof.
  intros Hm Hk s b s' Hs H. unfold cbind in H.
  destruct (m s) as [[a s1]|] eqn:E; [|discriminate].
  destruct (Hm _ _ _ Hs E) as [Hs1 HQ]. eapply Hk; eauto.
Qed.

Lemma spec_weaken {A} (m : C A) (Q R : A -> Prop) :
  spec m Q -> (forall a, Q a -> R a) -> spec m R.
Proof. intros Hm HQR s a s' Hs H. destruct (Hm _ _ _ Hs H). auto. Qed.

Lemma spec_true {A} (m : C A) (Q : A -> Prop) : spec m Q -> spec m (fun _ => True).
Proof. intros H. eapply spec_weaken; eauto. Qed.

Lemma spec_err {A} l msg (Q : A -> Prop) : spec (cerr l msg) Q.
Proof. intros s a s' _ H. discriminate. Qed.
Lemma spec_err_here {A} msg (Q : A -> Prop) : spec (cerr_here msg) Q.
Proof. intros s a s' _ H. discriminate. Qed.

Lemma spec_cur : spec cur wf_comp.
Proof. intros s a s' Hs H. inversion H; subst. split; auto. apply Hs. Qed.
Lemma spec_cget : spec cget wf_state.
Proof. intros s a s' Hs H. inversion H; subst. auto. Qed.
Lemma spec_code_len : spec code_len (fun _ => True).
Proof. intros s a s' Hs H. inversion H; subst. auto. Qed.
Lemma spec_in_class : spec in_class (fun _ => True).
Proof. intros s a s' Hs H. inversion H; subst. auto. Qed.
Lemma spec_set_line l : spec (set_line l) (fun _ => True).
Proof. intros s a s' Hs H. inversion H; subst. split; auto. Qed.
Lemma spec_set_classes cl : spec (set_classes cl) (fun _ => True).
Proof. intros s a s' Hs H. inversion H; subst. split; auto. Qed.

Lemma spec_upd (f : comp -> comp) :
  (forall c, wf_comp c -> wf_comp (f c)) -> spec (upd f) (fun _ => True).
Proof.
  intros Hf s a s' [Hc Ho] H. inversion H; subst. split; auto. split; simpl; auto.
Qed.

Lemma spec_cwhen b m : spec m (fun _ => True) -> spec (cwhen b m) (fun _ => True).
Proof. intros. destruct b; simpl; auto. apply spec_ret; auto. Qed.

(* ---------- with_* preserve wf_comp ---------- *)
Lemma wf_with_scope c d : wf_comp c -> wf_comp (with_scope c d).
Proof. intros []; constructor; auto. Qed.
Lemma wf_with_lambdas c n : wf_comp c -> wf_comp (with_lambdas c n).
Proof. intros []; constructor; auto. Qed.
Lemma wf_with_try c b d : wf_comp c -> wf_comp (with_try c b d).
Proof. intros []; constructor; auto. Qed.
Lemma wf_with_loops c l b : wf_comp c -> wf_comp (with_loops c l b).
Proof. intros []; constructor; auto. Qed.
Lemma wf_with_arity c a : wf_comp c -> wf_comp (with_arity c a).
Proof. intros []; constructor; auto. Qed.
Lemma wf_with_locals c ls : wf_comp c -> length ls <= 256 -> wf_comp (with_locals c ls).
Proof. intros [] H; constructor; auto. Qed.
Lemma wf_new_comp k n : wf_comp (new_comp k n).
Proof. constructor; simpl; auto; lia. Qed.

(* ---------- emission ---------- *)
Lemma spec_emit_byte b l : byte_ok b -> spec (emit_byte b l) (fun _ => True).
Proof.
  intros Hb. unfold emit_byte. eapply spec_bind.
  - apply spec_upd. intros c []. constructor; simpl; auto.
    + rewrite !app_length. simpl. lia.
    + apply Forall_app. split; auto.
  - intros _ _. apply spec_set_line.
Qed.

Lemma opcode_byte_ok o : byte_ok (N_of_opcode o).
Proof. destruct o; unfold byte_ok; simpl; lia. Qed.

Lemma spec_emit_op o l : spec (emit_op o l) (fun _ => True).
Proof. apply spec_emit_byte, opcode_byte_ok. Qed.

Lemma spec_emit_op8 o n l : byte_ok n -> spec (emit_op8 o n l) (fun _ => True).
Proof.
  intros. unfold emit_op8. eapply spec_bind. apply spec_emit_op. intros _ _. apply spec_emit_byte; auto.
Qed.

Lemma u16_lo n : byte_ok (N.modulo n 256).
Proof. unfold byte_ok. apply N.mod_lt. lia. Qed.
Lemma u16_hi n : (n < 65536)%N -> byte_ok (N.div n 256).
Proof. unfold byte_ok. intros. apply N.div_lt_upper_bound; lia. Qed.

Lemma spec_emit_u16 n l : (n < 65536)%N -> spec (emit_u16 n l) (fun _ => True).
Proof.
  intros. unfold emit_u16. eapply spec_bind. apply spec_emit_byte, u16_lo.
  intros _ _. apply spec_emit_byte, u16_hi; auto.
Qed.

Lemma spec_emit_op16 o n l : (n < 65536)%N -> spec (emit_op16 o n l) (fun _ => True).
Proof.
  intros. unfold emit_op16. eapply spec_bind. apply spec_emit_op. intros _ _. apply spec_emit_u16; auto.
Qed.

Lemma spec_emit_ops ops l : spec (emit_ops ops l) (fun _ => True).
Proof.
  induction ops; simpl. apply spec_ret; auto.
  eapply spec_bind. apply spec_emit_op. auto.
Qed.

Lemma spec_emit_jump o l : spec (emit_jump o l) (fun _ => True).
Proof.
  unfold emit_jump.
  eapply spec_bind. apply spec_emit_op. intros _ _.
  eapply spec_bind. apply spec_emit_byte. unfold byte_ok; lia. intros _ _.
  eapply spec_bind. apply spec_emit_byte. unfold byte_ok; lia. intros _ _.
  eapply spec_bind. apply spec_code_len. intros. apply spec_ret; auto.
Qed.

Lemma set_nth_length {A} n (v : A) l : length (set_nth n v l) = length l.
Proof. revert n. induction l; destruct n; simpl; auto. Qed.
Lemma set_nth_Forall {A} (P : A -> Prop) n v l : P v -> Forall P l -> Forall P (set_nth n v l).
Proof.
  revert n. induction l; destruct n; simpl; intros; auto; inversion H0; subst; constructor; auto.
Qed.

Lemma spec_patch16 pos v : (v < 65536)%N -> spec (patch16 pos v) (fun _ => True).
Proof.
  intros. apply spec_upd. intros c [].
  constructor; cbn [with_code k_code k_lines k_consts k_locals k_upvalues]; auto.
  - rewrite !set_nth_length. auto.
  - apply set_nth_Forall. apply u16_hi; auto. apply set_nth_Forall; auto. apply u16_lo.
Qed.

Lemma spec_patch_jump off : spec (patch_jump off) (fun _ => True).
Proof.
  unfold patch_jump. eapply spec_bind. apply spec_code_len. intros n _.
  destruct (N.ltb JUMP_SIZE_MAX _) eqn:E. apply spec_err_here.
  apply spec_patch16. apply N.ltb_ge in E. unfold JUMP_SIZE_MAX in E. lia.
Qed.

Lemma spec_patch_offset_at pos off : spec (patch_offset_at pos off) (fun _ => True).
Proof.
  unfold patch_offset_at. eapply spec_bind. apply spec_code_len. intros n _.
  destruct (N.ltb JUMP_SIZE_MAX _) eqn:E. apply spec_err_here.
  apply spec_patch16. apply N.ltb_ge in E. unfold JUMP_SIZE_MAX in E. lia.
Qed.

Lemma spec_emit_loop ls l : spec (emit_loop ls l) (fun _ => True).
Proof.
  unfold emit_loop. eapply spec_bind. apply spec_emit_op. intros _ _.
  eapply spec_bind. apply spec_code_len. intros n _.
  destruct (N.ltb JUMP_SIZE_MAX _) eqn:E. apply spec_err.
  apply spec_emit_u16. apply N.ltb_ge in E. unfold JUMP_SIZE_MAX in E. lia.
Qed.

Lemma spec_patch_jumps ps : spec (patch_jumps ps) (fun _ => True).
Proof.
  induction ps; simpl. apply spec_ret; auto.
  eapply spec_bind. apply spec_patch_jump. auto.
Qed.

(* ---------- constants ---------- *)
Lemma const_index_lt tbl c i : const_index tbl c = Some i -> i < length tbl.
Proof.
  revert i. induction tbl; simpl; intros i H. discriminate.
  destruct (const_eqb a c). inversion H; lia.
  destruct (const_index tbl c); inversion H; subst. specialize (IHtbl _ eq_refl). lia.
Qed.

Lemma spec_make_constant c : wf_const c -> spec (make_constant c) (fun i => (i < 65536)%N).
Proof.
  intros Hc s a s' Hs H. unfold make_constant, cbind, cur in H.
  destruct (const_index (k_consts (s_cur s)) c) eqn:E.
  - destruct (N.ltb 65535 (N.of_nat n)) eqn:E2; [discriminate|].
    inversion H; subst. split; auto. apply N.ltb_ge in E2. lia.
  - unfold upd in H. cbn [s_cur s_outer s_classes s_line] in H.
    destruct (N.ltb 65535 (N.of_nat (length (k_consts (s_cur s))))) eqn:E2; [discriminate|].
    inversion H; subst; clear H. apply N.ltb_ge in E2.
    destruct Hs as [[] Ho]. split; [|lia]. split; auto. cbn [s_cur].
    constructor; simpl; auto.
    + apply Forall_app; auto.
    + rewrite app_length; simpl. lia.
Qed.

(* the index returned by make_constant designates an entry of the table (brief: "every Constant operand <
   number of constants", stated at the emission site: emit_constant / emit_constant_op use this index) *)
Lemma make_constant_lt c s i s' :
  make_constant c s = COk (i, s') -> (N.to_nat i < length (k_consts (s_cur s')))%nat.
Proof.
  unfold make_constant, cbind, cur. intros H.
  destruct (const_index (k_consts (s_cur s)) c) eqn:E.
  - destruct (N.ltb 65535 (N.of_nat n)); [discriminate|]. inversion H; subst.
    rewrite Nat2N.id. eapply const_index_lt; eauto.
  - unfold upd in H. cbn [s_cur s_outer s_classes s_line] in H.
    destruct (N.ltb 65535 _); [discriminate|]. inversion H; subst. simpl.
    rewrite Nat2N.id, app_length. simpl. lia.
Qed.

Lemma spec_identifier_constant x : spec (identifier_constant x) (fun i => (i < 65536)%N).
Proof. apply spec_make_constant. constructor. Qed.

Lemma spec_emit_constant c l : wf_const c -> spec (emit_constant c l) (fun _ => True).
Proof.
  intros. unfold emit_constant. eapply spec_bind. apply spec_set_line. intros _ _.
  eapply spec_bind. apply spec_make_constant; auto. intros i Hi. apply spec_emit_op16; auto.
Qed.

(* ---------- scopes and locals ---------- *)
Lemma spec_begin_scope : spec begin_scope (fun _ => True).
Proof. apply spec_upd. intros. apply wf_with_scope; auto. Qed.

Lemma spec_emit_scope_end b d l : spec (emit_scope_end b d l) (fun _ => True).
Proof.
  unfold emit_scope_end. eapply spec_bind. apply spec_cur. intros k Hk.
  eapply spec_bind. apply spec_emit_ops. intros _ _.
  destruct b; [|apply spec_ret; auto].
  apply spec_upd. intros c Hc. apply wf_with_locals; auto.
  rewrite skipn_length. destruct Hc. lia.
Qed.

Lemma spec_end_scope l : spec (end_scope l) (fun _ => True).
Proof.
  unfold end_scope. eapply spec_bind. apply spec_upd. intros; apply wf_with_scope; auto. intros _ _.
  eapply spec_bind. apply spec_cur. intros k _. apply spec_emit_scope_end.
Qed.

Lemma spec_add_local x : spec (add_local x) (fun _ => True).
Proof.
  intros s a s' Hs H. unfold add_local, cbind, cur in H.
  destruct (Nat.eqb (length (k_locals (s_cur s))) LOCALS_MAX) eqn:E.
  - inversion H; subst. auto.
  - unfold upd, cret in H. inversion H; subst; clear H. split; auto.
    apply Nat.eqb_neq in E. unfold LOCALS_MAX in E.
    destruct Hs as [Hc Ho]. split; auto. cbn [s_cur].
    apply wf_with_locals; auto. simpl. destruct Hc. lia.
Qed.

Lemma spec_mark_last_initialised : spec mark_last_initialised (fun _ => True).
Proof.
  apply spec_upd. intros c Hc. destruct (k_locals c) eqn:E; auto.
  apply wf_with_locals; auto. destruct Hc. rewrite E in *. simpl in *. lia.
Qed.

Lemma spec_mark_initialised : spec mark_initialised (fun _ => True).
Proof.
  unfold mark_initialised. eapply spec_bind. apply spec_cur. intros k _.
  destruct (Nat.eqb _ _). apply spec_ret; auto. apply spec_mark_last_initialised.
Qed.

Lemma mark_slot_length n d ls : length (mark_slot n d ls) = length ls.
Proof. revert n. induction ls; destruct n; simpl; auto. Qed.

Lemma spec_mark_initialised_slot n : spec (mark_initialised_slot n) (fun _ => True).
Proof.
  apply spec_upd. intros c Hc. apply wf_with_locals; auto.
  rewrite mark_slot_length. destruct Hc; auto.
Qed.

Lemma spec_declare_variable x l : spec (declare_variable x l) (fun _ => True).
Proof.
  unfold declare_variable. eapply spec_bind. apply spec_cur. intros k _.
  destruct (Nat.eqb _ _). apply spec_ret; auto.
  destruct (declared_in_scope _ _ _). apply spec_err.
  eapply spec_bind. apply spec_add_local. intros [] _. apply spec_ret; auto. apply spec_err.
Qed.

Lemma spec_parse_variable x l : spec (parse_variable x l) (fun i => (i < 65536)%N).
Proof.
  unfold parse_variable. eapply spec_bind. apply spec_declare_variable. intros _ _.
  eapply spec_bind. apply spec_cur. intros k _.
  destruct (Nat.ltb _ _). apply spec_ret; lia. apply spec_identifier_constant.
Qed.

Lemma spec_define_variable g l : (g < 65536)%N -> spec (define_variable g l) (fun _ => True).
Proof.
  intros. unfold define_variable. eapply spec_bind. apply spec_cur. intros k _.
  destruct (Nat.ltb _ _). apply spec_mark_initialised. apply spec_emit_op16; auto.
Qed.

(* ---------- variable resolution ---------- *)
(* brief: "every GetLocal/SetLocal operand < number of declared locals at that point", at the resolver *)
Lemma resolve_local_lt name ls i : resolve_local_in name ls = LFound i -> i < length ls.
Proof.
  induction ls; simpl; intros H. discriminate.
  destruct (bytes_eqb (kl_name a) name).
  - destruct (kl_depth a); inversion H; subst. lia.
  - specialize (IHls H). lia.
Qed.

Lemma find_upvalue_lt u i il pos p : find_upvalue u i il pos = Some p -> p < pos + length u.
Proof.
  revert pos. induction u as [|[j l] u]; simpl; intros pos H. discriminate.
  destruct (N.eqb j i && Bool.eqb l il). inversion H; lia.
  apply IHu in H. lia.
Qed.

Lemma add_upvalue_wf c i il u c' :
  wf_comp c -> (i < 256)%N -> add_upvalue c i il = Some (u, c') -> wf_comp c' /\ (u < 256)%N.
Proof.
  intros Hc Hi H. unfold add_upvalue in H.
  destruct (find_upvalue (k_upvalues c) i il 0) eqn:E.
  - inversion H; subst. split; auto. apply find_upvalue_lt in E. destruct Hc. lia.
  - destruct (Nat.eqb (length (k_upvalues c)) UPVALUES_MAX) eqn:E2; [discriminate|].
    inversion H; subst; clear H. apply Nat.eqb_neq in E2. unfold UPVALUES_MAX in E2.
    destruct Hc. split; [|lia]. constructor; simpl; auto.
    + rewrite app_length; simpl; lia.
    + apply Forall_app; split; auto.
Qed.

Lemma capture_at_length n ls : length (capture_at n ls) = length ls.
Proof. revert n. induction ls; destruct n; simpl; auto. Qed.

Lemma wf_capture_slot c n : wf_comp c -> wf_comp (capture_slot c n).
Proof.
  intros Hc. unfold capture_slot. apply wf_with_locals; auto. rewrite capture_at_length. destruct Hc; auto.
Qed.

Lemma resolve_upvalue_wf name outer : forall c i c' outer',
  wf_comp c -> Forall wf_comp outer ->
  resolve_upvalue_in name c outer = UFound i c' outer' ->
  wf_comp c' /\ Forall wf_comp outer' /\ (i < 256)%N.
Proof.
  induction outer as [|e outer IH]; simpl; intros c i c' outer' Hc Ho H. discriminate.
  inversion Ho as [|? ? He Ho']; subst.
  destruct (resolve_local_c e name) eqn:E.
  - destruct (add_upvalue c (N.of_nat i0) true) as [[u c1]|] eqn:E2; [|discriminate].
    inversion H; subst; clear H.
    apply resolve_local_lt in E. pose proof (wf_nlocals _ He) as Hn.
    eapply add_upvalue_wf in E2; eauto; [|lia]. destruct E2 as [Hc1 Hu].
    split; [exact Hc1|]. split; [|exact Hu].
    constructor; auto. apply wf_capture_slot; auto.
  - destruct (resolve_upvalue_in name e outer) as [i1 e1 o1| |] eqn:E2; try discriminate.
    destruct (add_upvalue c i1 false) as [[u c1]|] eqn:E3; [|discriminate].
    inversion H; subst; clear H.
    destruct (IH _ _ _ _ He Ho' E2) as (He1 & Ho1 & Hi1).
    eapply add_upvalue_wf in E3; eauto. destruct E3 as [Hc1 Hu].
    split; [exact Hc1|]. split; [|exact Hu]. constructor; auto.
  - destruct (resolve_upvalue_in name e outer) as [i1 e1 o1| |] eqn:E2; try discriminate.
    destruct (add_upvalue c i1 false) as [[u c1]|] eqn:E3; [|discriminate].
    inversion H; subst; clear H.
    destruct (IH _ _ _ _ He Ho' E2) as (He1 & Ho1 & Hi1).
    eapply add_upvalue_wf in E3; eauto. destruct E3 as [Hc1 Hu].
    split; [exact Hc1|]. split; [|exact Hu]. constructor; auto.
Qed.

(* what resolve_variable returns: 8-bit instructions with an 8-bit operand, or 16-bit with a 16-bit one *)
Definition var_ops_ok (r : opcode * opcode * N) : Prop :=
  let '(g, s, arg) := r in
  (is_op8 g = true /\ is_op8 s = true /\ (arg < 256)%N) \/
  (is_op8 g = false /\ is_op8 s = false /\ (arg < 65536)%N).

Lemma spec_resolve_variable x l : spec (resolve_variable x l) var_ops_ok.
Proof.
  unfold resolve_variable. eapply spec_bind. apply spec_cur. intros k Hk.
  destruct (resolve_local_c k x) eqn:E.
  - apply spec_ret. left. apply resolve_local_lt in E. destruct Hk. simpl. repeat split; auto. lia.
  - apply spec_err.
  - eapply spec_bind. apply spec_cget. intros s Hs.
    destruct (resolve_upvalue_in x (s_cur s) (s_outer s)) as [i c' o'| |] eqn:E2.
    + destruct Hs as [Hc Ho]. destruct (resolve_upvalue_wf _ _ _ _ _ _ Hc Ho E2) as (Hc' & Ho' & Hi).
      eapply spec_bind with (Q := fun _ => True).
      * intros s0 a s0' _ H. inversion H; subst. split; auto. split; auto.
      * intros _ _. apply spec_ret. left. simpl. auto.
    + eapply spec_bind. apply spec_set_line. intros _ _.
      eapply spec_bind. apply spec_identifier_constant. intros g Hg.
      apply spec_ret. right. simpl. auto.
    + apply spec_err.
Qed.

Lemma spec_emit_variable_op o arg l :
  (is_op8 o = true /\ (arg < 256)%N) \/ (is_op8 o = false /\ (arg < 65536)%N) ->
  spec (emit_variable_op o arg l) (fun _ => True).
Proof.
  unfold emit_variable_op. intros [[-> H]|[-> H]]. apply spec_emit_op8; auto. apply spec_emit_op16; auto.
Qed.

Lemma var_ops_get g s arg : var_ops_ok (g, s, arg) ->
  (is_op8 g = true /\ (arg < 256)%N) \/ (is_op8 g = false /\ (arg < 65536)%N).
Proof. simpl. tauto. Qed.
Lemma var_ops_set g s arg : var_ops_ok (g, s, arg) ->
  (is_op8 s = true /\ (arg < 256)%N) \/ (is_op8 s = false /\ (arg < 65536)%N).
Proof. simpl. tauto. Qed.

Lemma spec_named_get x l : spec (named_get x l) (fun _ => True).
Proof.
  unfold named_get. eapply spec_bind. apply spec_resolve_variable. intros [[g s] arg] H.
  apply spec_emit_variable_op. eapply var_ops_get; eauto.
Qed.

(* ---------- functions ---------- *)
Lemma spec_new_compiler k n : spec (new_compiler k n) (fun _ => True).
Proof.
  intros s a s' [Hc Ho] H. inversion H; subst. split; auto. split; simpl; auto. apply wf_new_comp.
Qed.

Lemma spec_emit_return l : spec (emit_return l) (fun _ => True).
Proof.
  unfold emit_return. eapply spec_bind. apply spec_cur. intros k _.
  eapply spec_bind with (Q := fun _ => True).
  { destruct (fk_eqb _ _). apply spec_emit_op8. unfold byte_ok; lia. apply spec_emit_op. }
  intros _ _. eapply spec_bind. apply spec_cwhen, spec_emit_op. intros _ _. apply spec_emit_op.
Qed.

Lemma wf_func_of_comp c : wf_comp c -> wf_func (func_of_comp c).
Proof. intros []. unfold func_of_comp. constructor; auto. lia. Qed.

Definition fu_ok (fu : func * list (N * bool)) : Prop := wf_func (fst fu) /\ Forall uv_ok (snd fu).

Lemma spec_finalise_compiler l : spec (finalise_compiler l) fu_ok.
Proof.
  unfold finalise_compiler. eapply spec_bind. apply spec_emit_return. intros _ _.
  intros s a s' [Hc Ho] H. destruct (s_outer s) eqn:E; inversion H; subst; clear H.
  - split. split; simpl; auto. apply wf_new_comp. split; simpl. apply wf_func_of_comp; auto. destruct Hc; auto.
  - inversion Ho; subst. split. split; simpl; auto.
    split; simpl. apply wf_func_of_comp; auto. destruct Hc; auto.
Qed.

Lemma spec_emit_upvalues us l : Forall uv_ok us -> spec (emit_upvalues us l) (fun _ => True).
Proof.
  induction us as [|[i il] us IH]; simpl; intros H. apply spec_ret; auto.
  inversion H; subst.
  eapply spec_bind. apply spec_emit_byte. destruct il; unfold byte_ok; lia. intros _ _.
  eapply spec_bind. apply spec_emit_byte. exact H2. intros _ _. auto.
Qed.

Lemma spec_emit_closure fu l : fu_ok fu -> spec (emit_closure fu l) (fun _ => True).
Proof.
  intros [Hf Hu]. unfold emit_closure.
  eapply spec_bind. apply spec_make_constant. constructor; auto. intros c Hc.
  eapply spec_bind. apply spec_emit_op16; auto. intros _ _. apply spec_emit_upvalues; auto.
Qed.

Lemma spec_cparams ps l : spec (cparams ps l) (fun _ => True).
Proof.
  induction ps; simpl. apply spec_ret; auto.
  eapply spec_bind. apply spec_upd. intros; apply wf_with_arity; auto. intros _ _.
  eapply spec_bind. apply spec_cur. intros k _.
  eapply spec_bind with (Q := fun _ => True).
  { destruct (N.ltb _ _). apply spec_err. apply spec_ret; auto. }
  intros _ _. eapply spec_bind. apply spec_parse_variable. intros g Hg.
  eapply spec_bind. apply spec_define_variable; auto. intros _ _. auto.
Qed.

Lemma spec_with_function k n ps lb body le :
  spec body (fun _ => True) -> spec (with_function k n ps lb body le) (fun _ => True).
Proof.
  intros Hb. unfold with_function.
  eapply spec_bind. apply spec_new_compiler. intros _ _.
  eapply spec_bind. apply spec_begin_scope. intros _ _.
  eapply spec_bind. apply spec_cparams. intros _ _.
  eapply spec_bind with (Q := fun _ => True).
  { destruct (fk_eqb _ _); [|apply spec_ret; auto].
    eapply spec_bind. apply spec_cur. intros c _. apply spec_emit_op8. apply u16_lo. }
  intros _ _. eapply spec_bind. apply Hb. intros _ _.
  eapply spec_bind. apply spec_finalise_compiler. intros fu Hfu. apply spec_emit_closure; auto.
Qed.

Lemma spec_initialiser n l : spec (initialiser n l) (fun _ => True).
Proof.
  unfold initialiser.
  eapply spec_bind. apply spec_set_line. intros _ _.
  eapply spec_bind. apply spec_identifier_constant. intros nc Hnc.
  eapply spec_bind. apply spec_new_compiler. intros _ _.
  eapply spec_bind. apply spec_begin_scope. intros _ _.
  eapply spec_bind. apply spec_emit_op8. unfold byte_ok; lia. intros _ _.
  eapply spec_bind. apply spec_finalise_compiler. intros fu [Hf Hu].
  eapply spec_bind. apply spec_make_constant. constructor; auto. intros c Hc.
  eapply spec_bind. apply spec_emit_op16; auto. intros _ _.
  apply spec_emit_op16; auto.
Qed.

Lemma spec_emit_compound op l : spec (emit_compound op l) (fun _ => True).
Proof. unfold emit_compound. destruct (is_compound_op op). apply spec_emit_ops. apply spec_err. Qed.

Lemma spec_check_count n l msg : spec (check_count n l msg) (fun _ => byte_ok n).
Proof.
  unfold check_count. destruct (N.ltb 255 n) eqn:E. apply spec_err.
  apply spec_ret. apply N.ltb_ge in E. unfold byte_ok. lia.
Qed.

Lemma spec_super_checks l : spec (super_checks l) (fun _ => True).
Proof.
  unfold super_checks. eapply spec_bind. apply spec_cget. intros s _.
  destruct (s_classes s) as [|[] ?]; try apply spec_err. apply spec_ret; auto.
Qed.

Lemma spec_push_loop : spec push_loop (fun _ => True).
Proof. apply spec_upd. intros; apply wf_with_loops; auto. Qed.
Lemma spec_push_break p : spec (push_break p) (fun _ => True).
Proof. apply spec_upd. intros c Hc. destruct (k_breaks c); auto. apply wf_with_loops; auto. Qed.
Lemma spec_pop_loop : spec pop_loop (fun _ => True).
Proof.
  unfold pop_loop. eapply spec_bind. apply spec_cur. intros k _.
  eapply spec_bind. apply spec_upd. intros; apply wf_with_loops; auto. intros _ _.
  apply spec_patch_jumps.
Qed.
Lemma spec_emit_exc_handler_pops d l : spec (emit_exc_handler_pops d l) (fun _ => True).
Proof. unfold emit_exc_handler_pops. eapply spec_bind. apply spec_cur. intros k _. apply spec_emit_ops. Qed.

(* ------------------------------------------------------------------ *)
(* the whole compiler preserves the invariant                            *)
Create HintDb fc.
#[export] Hint Resolve spec_cur spec_cget spec_code_len spec_in_class spec_set_line spec_set_classes
  spec_emit_op spec_emit_ops spec_emit_jump spec_patch_jump spec_patch_offset_at spec_emit_loop
  spec_identifier_constant spec_begin_scope spec_emit_scope_end spec_end_scope spec_add_local
  spec_mark_last_initialised spec_mark_initialised spec_mark_initialised_slot spec_declare_variable
  spec_parse_variable spec_resolve_variable spec_named_get spec_new_compiler spec_emit_return
  spec_finalise_compiler spec_cparams spec_initialiser spec_emit_compound spec_check_count
  spec_super_checks spec_push_loop spec_push_break spec_pop_loop spec_emit_exc_handler_pops
  spec_emit_byte spec_emit_op8 spec_emit_op16 spec_emit_constant spec_define_variable
  spec_emit_variable_op spec_emit_closure spec_with_function spec_err spec_err_here spec_cwhen
  wf_with_scope wf_with_lambdas wf_with_try wf_with_loops wf_with_arity
  wf_KNum wf_KStr u16_lo var_ops_get var_ops_set : fc.
#[export] Hint Extern 1 (spec (upd _) _) => apply spec_upd; intros : fc.
#[export] Hint Extern 2 (byte_ok _) => unfold byte_ok; lia : fc.
#[export] Hint Extern 1 (spec (cret _) _) => apply spec_ret : fc.

Ltac sp1 :=
  match goal with
  | |- spec (cret _) _ => apply spec_ret; auto
  | |- spec (cerr _ _) _ => apply spec_err
  | |- spec (cerr_here _) _ => apply spec_err_here
  | |- spec (cbind (if ?b then _ else _) _) _ => destruct b
  | |- spec (cbind (match ?x with _ => _ end) _) _ => destruct x
  | |- spec (cbind (cret _) _) _ => eapply spec_bind with (Q := fun _ => True); [ apply spec_ret; exact I | intros ]
  | |- spec (cbind (cbind _ _) _) _ => eapply spec_bind with (Q := fun _ => True); [ | intros ]
  | |- spec (cbind _ _) _ => eapply spec_bind; [ solve [ eauto with fc ] | intros ]
  | |- spec (if ?b then _ else _) _ => destruct b
  | |- spec (match ?x with _ => _ end) _ => destruct x
  | |- spec _ _ => solve [ eauto with fc ]
  end.
Ltac sp := repeat sp1.

Theorem compile_preserves_wf :
  (forall e, spec (cexpr e) (fun _ => True)) /\
  (forall es, spec (cargs es) (fun _ => True)) /\
  (forall ps, spec (cparts ps) (fun _ => True)) /\
  (forall kvs, spec (ckvs kvs) (fun _ => True)) /\
  (forall st, spec (cstmt st) (fun _ => True)) /\
  (forall l, spec (cstmts l) (fun _ => True)) /\
  (forall ms, spec (cmethods ms) (fun _ => True)).
Proof.
  apply lsyntax_mutind; intros; simpl.
  all: sp.
  Unshelve. all: exact (fun _ => True).
Qed.


Lemma wf_init_state : wf_state init_state.
Proof. split; simpl; auto. apply wf_new_comp. Qed.

(* HEADLINE (structural, all programs): whatever FullCompile returns is a well-formed function tree *)
Theorem compile_wf (p : lprogram) (f : func) : compile_program p = COk f -> wf_func f.
Proof.
  unfold compile_program. intros H.
  destruct ((cstmts (fst p);;; finalise_compiler (snd p)) init_state) as [[[f' us] s']|] eqn:E; [|discriminate].
  inversion H; subst; clear H.
  assert (Hs : spec (cstmts (fst p);;; finalise_compiler (snd p)) fu_ok).
  { eapply spec_bind. apply compile_preserves_wf. intros _ _. apply spec_finalise_compiler. }
  destruct (Hs _ _ _ wf_init_state E) as [_ [Hf _]]. exact Hf.
Qed.
Print Assumptions compile_wf.

(* the functions of a tree: f itself and, recursively, the function constants *)
Inductive subfunc : func -> func -> Prop :=
| sub_refl f : subfunc f f
| sub_const g h f : In (KFun h) (f_consts f) -> subfunc g h -> subfunc g f.

Lemma wf_subfunc g f : subfunc g f -> wf_func f -> wf_func g.
Proof.
  induction 1; intros Hf; auto. apply IHsubfunc.
  inversion Hf; subst. simpl in H.
  rewrite Forall_forall in H3. specialize (H3 _ H). inversion H3; auto.
Qed.

(* code length = line-table length, in every function of the tree *)
Theorem lines_parallel p f g :
  compile_program p = COk f -> subfunc g f -> length (f_code g) = length (f_lines g).
Proof.
  intros H Hg. apply compile_wf in H. apply (wf_subfunc _ _ Hg) in H. inversion H; subst. auto.
Qed.
Print Assumptions lines_parallel.

(* every byte of every function is < 256.  The model computes with unbounded N and writes a 16-bit operand n as
   [n mod 256; n / 256] and an 8-bit operand as itself: so this says that every jump / loop / handler offset and
   every constant index that was written is < 65536 and every count / slot / upvalue operand is < 256 -
   whenever one would not fit, compile_program returns CErr (it never truncates).  = `jumps_in_range` of the brief *)
Theorem code_bytes_in_range p f g :
  compile_program p = COk f -> subfunc g f -> Forall (fun b => (b < 256)%N) (f_code g).
Proof.
  intros H Hg. apply compile_wf in H. apply (wf_subfunc _ _ Hg) in H. inversion H; subst. auto.
Qed.
Print Assumptions code_bytes_in_range.
Definition jumps_in_range := code_bytes_in_range.

(* the operand-level statement behind it: a patched jump is the distance, and it is at most 65535 *)
Theorem patch_jump_in_range off s s' :
  patch_jump off s = COk (tt, s') ->
  (N.of_nat (length (k_code (s_cur s)) - off - 2) <= 65535)%N /\
  k_code (s_cur s') =
    set_nth (S off) (N.of_nat (length (k_code (s_cur s)) - off - 2) / 256)%N
      (set_nth off (N.of_nat (length (k_code (s_cur s)) - off - 2) mod 256)%N (k_code (s_cur s))).
Proof.
  unfold patch_jump, cbind, code_len. intros H.
  destruct (N.ltb JUMP_SIZE_MAX _) eqn:E; [discriminate|].
  apply N.ltb_ge in E. unfold JUMP_SIZE_MAX in E. split; [exact E|].
  unfold patch16, upd in H. inversion H; subst. reflexivity.
Qed.

(* at most 65536 constants and 256 upvalues, in every function of the tree *)
Theorem consts_bounded p f g :
  compile_program p = COk f -> subfunc g f ->
  (N.of_nat (length (f_consts g)) <= 65536)%N /\ (f_upvalues g <= 256)%N.
Proof.
  intros H Hg. apply compile_wf in H. apply (wf_subfunc _ _ Hg) in H. inversion H; subst. auto.
Qed.
Print Assumptions consts_bounded.

(* ---------- upvalue_count = number of descriptors after the Closure operand ---------- *)
Definition clen (s : cstate) : nat := length (k_code (s_cur s)).

Lemma clen_emit_byte b l s s' : emit_byte b l s = COk (tt, s') -> clen s' = clen s + 1.
Proof.
  unfold emit_byte, cbind, upd, set_line, clen. intros H. inversion H; subst. simpl.
  rewrite app_length. reflexivity.
Qed.

(* the operand of Loop is the distance back to the loop start, and it is at most 65535 *)
Theorem emit_loop_in_range ls l s s' :
  emit_loop ls l s = COk (tt, s') -> (N.of_nat (clen s + 1 - ls + 2) <= 65535)%N.
Proof.
  unfold emit_loop, cbind. intros H.
  destruct (emit_op OpLoop l s) as [[[] s1]|] eqn:E1; [|discriminate].
  unfold code_len in H.
  destruct (N.ltb JUMP_SIZE_MAX _) eqn:E; [discriminate|].
  apply N.ltb_ge in E. apply clen_emit_byte in E1. unfold clen in E1. rewrite E1 in E.
  unfold JUMP_SIZE_MAX in E. unfold clen. exact E.
Qed.

Lemma clen_make_constant c s i s' : make_constant c s = COk (i, s') -> clen s' = clen s.
Proof.
  unfold make_constant, cbind, cur, clen. intros H.
  destruct (const_index _ _).
  - destruct (N.ltb _ _); [discriminate|]. inversion H; subst. reflexivity.
  - unfold upd in H. cbn [s_cur s_outer s_classes s_line] in H.
    destruct (N.ltb _ _); [discriminate|]. inversion H; subst. reflexivity.
Qed.

Lemma clen_emit_upvalues us l : forall s s',
  emit_upvalues us l s = COk (tt, s') -> clen s' = clen s + 2 * length us.
Proof.
  induction us as [|[i il] us IH]; simpl; intros s s' H.
  - inversion H; subst. lia.
  - unfold cbind in H.
    destruct (emit_byte _ l s) as [[[] s1]|] eqn:E1; [|discriminate].
    destruct (emit_byte i l s1) as [[[] s2]|] eqn:E2; [|discriminate].
    apply clen_emit_byte in E1. apply clen_emit_byte in E2. apply IH in H. lia.
Qed.

(* the Closure instruction is followed by exactly two bytes per upvalue of the function it closes over,
   and that number is the function's upvalue_count *)
Theorem closure_descriptors l lc s fu s1 s2 :
  finalise_compiler l s = COk (fu, s1) ->
  emit_closure fu lc s1 = COk (tt, s2) ->
  f_upvalues (fst fu) = N.of_nat (length (snd fu)) /\
  clen s2 = clen s1 + 3 + 2 * N.to_nat (f_upvalues (fst fu)).
Proof.
  intros Hf Hc.
  assert (Hu : f_upvalues (fst fu) = N.of_nat (length (snd fu))).
  { unfold finalise_compiler, cbind in Hf.
    destruct (emit_return l s) as [[[] s0]|]; [|discriminate].
    destruct (s_outer s0); inversion Hf; subst; reflexivity. }
  split; auto. rewrite Hu, Nat2N.id.
  unfold emit_closure, cbind in Hc.
  destruct (make_constant _ s1) as [[c sa]|] eqn:E1; [|discriminate].
  unfold emit_op16, emit_op, emit_u16, cbind in Hc.
  destruct (emit_byte (N_of_opcode OpClosure) lc sa) as [[[] sb]|] eqn:E2; [|discriminate].
  destruct (emit_byte (c mod 256)%N lc sb) as [[[] sc]|] eqn:E3; [|discriminate].
  destruct (emit_byte (c / 256)%N lc sc) as [[[] sd]|] eqn:E4; [|discriminate].
  apply clen_make_constant in E1. apply clen_emit_byte in E2, E3, E4.
  apply clen_emit_upvalues in Hc. lia.
Qed.
Print Assumptions closure_descriptors.

(* ================================================================== *)
(* PART B - bridging to the C05 fragment compiler (CompileExpr.v)       *)
(* ================================================================== *)
From YV Require CompileExpr.
Module CE := CompileExpr.

(* number literals as the scanner can produce them: no NaN, no negative sign (`-1` is Negate applied to 1).
   On these the IEEE `==` of Value::eq (FullCompile.const_eqb) and the bit equality used by CompileExpr.v agree. *)
Definition plain (x : spec_float) : bool :=
  match x with
  | S754_zero false | S754_infinity false | S754_finite false _ _ => true
  | _ => false
  end.

Lemma feqb_exact x y : plain x = true -> plain y = true -> feqb x y = f64_eq_exact y x.
Proof.
  destruct x as [[]|[]| |[] m1 e1], y as [[]|[]| |[] m2 e2]; simpl; try discriminate; intros _ _; auto.
  unfold feqb, SFeqb, SFcompare.
  destruct (Z.compare_spec e1 e2) as [->|H|H].
  - rewrite Z.eqb_refl, andb_true_r. fold (Pos.compare m1 m2).
    destruct (Pos.compare_spec m1 m2) as [->|H|H].
    + rewrite Pos.eqb_refl. reflexivity.
    + symmetry. apply Pos.eqb_neq. lia.
    + symmetry. apply Pos.eqb_neq. lia.
  - replace (e2 =? e1)%Z with false. rewrite andb_false_r. reflexivity. symmetry. apply Z.eqb_neq. lia.
  - replace (e2 =? e1)%Z with false. rewrite andb_false_r. reflexivity. symmetry. apply Z.eqb_neq. lia.
Qed.

Lemma byte_eqb_refl b : Byte.eqb b b = true.
Proof. apply Byte.byte_dec_lb. reflexivity. Qed.

Lemma ce_bytes_eqb a b : CE.bytes_eqb a b = Utf8.bytes_eqb a b.
Proof. revert b. induction a; destruct b; simpl; auto; try (rewrite IHa; reflexivity). Qed.
Lemma bytes_eqb_sym a b : Utf8.bytes_eqb a b = Utf8.bytes_eqb b a.
Proof.
  revert b. induction a; destruct b; simpl; auto. rewrite IHa. f_equal.
  destruct (Byte.eqb a b) eqn:E, (Byte.eqb b a) eqn:E'; auto.
  - apply Byte.byte_dec_bl in E. subst. rewrite byte_eqb_refl in E'. discriminate.
  - apply Byte.byte_dec_bl in E'. subst. rewrite byte_eqb_refl in E. discriminate.
Qed.

Definition conv (c : CE.const) : const :=
  match c with CE.CNum x => KNum x | CE.CStr s => KStr s end.
Definition cplain (c : CE.const) : Prop :=
  match c with CE.CNum x => plain x = true | CE.CStr _ => True end.

Lemma const_eqb_agree d c : cplain d -> cplain c -> const_eqb (conv d) (conv c) = CE.const_eqb c d.
Proof.
  destruct d, c; simpl; auto; intros.
  - apply feqb_exact; auto.
  - exact (bytes_eqb_sym s s0).
Qed.

Lemma const_index_agree tbl c :
  Forall cplain tbl -> cplain c -> const_index (map conv tbl) (conv c) = CE.const_index tbl c.
Proof.
  induction 1; simpl; intros Hc; auto.
  rewrite const_eqb_agree by auto. destruct (CE.const_eqb c x); auto. rewrite IHForall by auto. reflexivity.
Qed.

(* ---------- the fragment assembler, incrementally ---------- *)
Definition tbl_step (tbl : list CE.const) (i : CE.instr) : list CE.const :=
  match CE.instr_const i with Some c => CE.add_constant tbl c | None => tbl end.

Definition jump_free_instr (i : CE.instr) : bool :=
  match i with CE.IJump _ _ | CE.ILoop _ => false | _ => true end.

Definition ibytes (tbl : list CE.const) (i : CE.instr) : list N :=
  match i with
  | CE.IConst c => N_of_opcode OpConstant :: CE.idx_bytes tbl c
  | CE.IOp o => [N_of_opcode o]
  | CE.IOp8 o n => [N_of_opcode o; n]
  | CE.IGlobal o x => N_of_opcode o :: CE.idx_bytes tbl (CE.CStr x)
  | _ => []
  end.

Fixpoint asm_inc (tbl : list CE.const) (l : list CE.instr) : list N :=
  match l with
  | [] => []
  | i :: r => let t := tbl_step tbl i in ibytes t i ++ asm_inc t r
  end.

Definition tbl_after (tbl : list CE.const) (l : list CE.instr) : list CE.const := fold_left tbl_step l tbl.

Lemma tbl_after_app tbl a b : tbl_after tbl (a ++ b) = tbl_after (tbl_after tbl a) b.
Proof. unfold tbl_after. apply fold_left_app. Qed.

Lemma asm_inc_app tbl a b : asm_inc tbl (a ++ b) = asm_inc tbl a ++ asm_inc (tbl_after tbl a) b.
Proof.
  revert tbl. induction a; simpl; intros; auto. rewrite IHa, app_assoc. reflexivity.
Qed.

Lemma ce_const_index_app tbl m c k : CE.const_index tbl c = Some k -> CE.const_index (tbl ++ m) c = Some k.
Proof.
  revert k. induction tbl; simpl; intros k H. discriminate.
  destruct (CE.const_eqb c a); auto.
  destruct (CE.const_index tbl c); inversion H; subst. rewrite (IHtbl _ eq_refl). reflexivity.
Qed.

Lemma ce_add_constant_prefix tbl c : exists m, CE.add_constant tbl c = tbl ++ m.
Proof.
  unfold CE.add_constant. destruct (CE.const_index tbl c). exists []. rewrite app_nil_r; auto. eexists; eauto.
Qed.

Lemma ce_const_eqb_refl c : cplain c -> CE.const_eqb c c = true.
Proof.
  destruct c; simpl; intros.
  - destruct x as [[]|[]| |[] m e]; simpl in *; try discriminate; auto.
    rewrite Pos.eqb_refl, Z.eqb_refl. reflexivity.
  - induction s; simpl; auto. rewrite byte_eqb_refl. auto.
Qed.

Lemma ce_const_index_snoc tbl c : cplain c -> CE.const_index tbl c = None ->
  CE.const_index (tbl ++ [c]) c = Some (length tbl).
Proof.
  intros Hc. induction tbl; simpl; intros H.
  - rewrite ce_const_eqb_refl; auto.
  - destruct (CE.const_eqb c a); [discriminate|].
    destruct (CE.const_index tbl c); [discriminate|]. rewrite IHtbl; auto.
Qed.

Lemma ce_add_constant_found tbl c : cplain c -> exists k, CE.const_index (CE.add_constant tbl c) c = Some k.
Proof.
  intros Hc. unfold CE.add_constant. destruct (CE.const_index tbl c) eqn:E. eauto.
  eexists. apply ce_const_index_snoc; auto.
Qed.

Lemma tbl_step_prefix tbl i : exists m, tbl_step tbl i = tbl ++ m.
Proof.
  unfold tbl_step. destruct (CE.instr_const i). apply ce_add_constant_prefix. exists []. rewrite app_nil_r; auto.
Qed.

Lemma tbl_after_prefix l : forall tbl, exists m, tbl_after tbl l = tbl ++ m.
Proof.
  induction l; simpl; intros. exists []. rewrite app_nil_r; auto.
  destruct (tbl_step_prefix tbl a) as [m1 E1]. destruct (IHl (tbl_step tbl a)) as [m2 E2].
  exists (m1 ++ m2). unfold tbl_after in *. simpl. rewrite E2, E1, app_assoc. reflexivity.
Qed.

Definition instr_plain (i : CE.instr) : Prop :=
  match CE.instr_const i with Some c => cplain c | None => True end.

Lemma ibytes_stable tbl i m : instr_plain i -> ibytes (tbl_step tbl i ++ m) i = ibytes (tbl_step tbl i) i.
Proof.
  unfold instr_plain, tbl_step. destruct i; simpl; auto; intros Hc; unfold CE.idx_bytes.
  - destruct (ce_add_constant_found tbl c Hc) as [k E]. rewrite E, (ce_const_index_app _ m _ _ E). reflexivity.
  - destruct (ce_add_constant_found tbl (CE.CStr x) Hc) as [k E]. rewrite E, (ce_const_index_app _ m _ _ E). reflexivity.
Qed.

(* on jump-free code the whole-program assembler of CompileExpr.v is the incremental one *)
Lemma asm_from_inc all l : forall tbl m i,
  forallb jump_free_instr l = true -> Forall instr_plain l ->
  CE.asm_from all (tbl_after tbl l ++ m) i l = asm_inc tbl l.
Proof.
  induction l as [|ins r IH]; simpl; intros tbl m i Hj Hp; auto.
  apply andb_prop in Hj. destruct Hj as [Hj1 Hj2]. inversion Hp; subst.
  change (tbl_after tbl (ins :: r)) with (tbl_after (tbl_step tbl ins) r).
  rewrite IH by auto. f_equal.
  destruct (tbl_after_prefix r (tbl_step tbl ins)) as [m' E]. rewrite E, <- app_assoc.
  destruct ins; simpl in Hj1; try discriminate; try reflexivity.
  - apply (ibytes_stable tbl (CE.IConst c)); auto.
  - apply (ibytes_stable tbl (CE.IGlobal o x)); auto.
Qed.

Lemma assemble_inc l :
  forallb jump_free_instr l = true -> Forall instr_plain l -> CE.assemble l = asm_inc [] l.
Proof.
  intros. unfold CE.assemble. change (CE.const_table l) with (tbl_after [] l).
  rewrite <- (app_nil_r (tbl_after [] l)). apply asm_from_inc; auto.
Qed.

(* ---------- FullCompile on the straight-line expression fragment, at script level ---------- *)
(* slot 0 of the script compiler is named "self" (Compiler::new: every kind but Function); `self` is a keyword,
   never an Identifier token, so no variable of a parsed program has that name *)
Definition slot0 : klocal := mkKL (bs "self") (Some 0) false.
Definition script_state (s : cstate) : Prop := s_outer s = [] /\ k_locals (s_cur s) = [slot0].
Definition scode (s : cstate) : list N := k_code (s_cur s).
Definition krel (s : cstate) (tbl : list CE.const) : Prop :=
  k_consts (s_cur s) = map conv tbl /\ Forall cplain tbl.

(* `m` behaves as the instruction list `is` of the fragment compiler *)
Definition emits (m : C unit) (is : list CE.instr) : Prop :=
  forall s tbl, script_state s -> krel s tbl ->
    (N.of_nat (length (tbl_after tbl is)) <= 65536)%N ->
    exists s', m s = COk (tt, s') /\ script_state s' /\ krel s' (tbl_after tbl is) /\
               scode s' = scode s ++ asm_inc tbl is.

Lemma tbl_after_length_mono tbl a b : length (tbl_after tbl a) <= length (tbl_after tbl (a ++ b)).
Proof.
  rewrite tbl_after_app. destruct (tbl_after_prefix b (tbl_after tbl a)) as [m E]. rewrite E, app_length. lia.
Qed.

Lemma emits_bind m1 m2 a b : emits m1 a -> emits m2 b -> emits (m1 ;;; m2) (a ++ b).
Proof.
  intros H1 H2 s tbl Hs Hk Hb.
  destruct (H1 s tbl Hs Hk) as (s1 & E1 & Hs1 & Hk1 & Hc1).
  { pose proof (tbl_after_length_mono tbl a b). lia. }
  destruct (H2 s1 (tbl_after tbl a) Hs1 Hk1) as (s2 & E2 & Hs2 & Hk2 & Hc2).
  { rewrite <- tbl_after_app. exact Hb. }
  exists s2. unfold cbind. rewrite E1, E2. repeat split; try apply Hs2.
  - rewrite tbl_after_app. apply Hk2.
  - rewrite tbl_after_app. apply Hk2.
  - rewrite Hc2, Hc1, asm_inc_app, app_assoc. reflexivity.
Qed.

Lemma emits_nil : emits (cret tt) [].
Proof.
  intros s tbl Hs Hk _. exists s. unfold cret. simpl. repeat split; try apply Hs; try apply Hk.
  rewrite app_nil_r. reflexivity.
Qed.

Lemma emits_byte_step b l s :
  emit_byte b l s = COk (tt, mkS (with_code (s_cur s) (k_code (s_cur s) ++ [b]) (k_lines (s_cur s) ++ [l]))
                                 (s_outer s) (s_classes s) l).
Proof. reflexivity. Qed.

Lemma emits_op o l : emits (emit_op o l) [CE.IOp o].
Proof.
  intros s tbl Hs Hk _. eexists. unfold emit_op. rewrite emits_byte_step.
  split; [reflexivity|]. unfold script_state, krel, scode in *. simpl. rewrite ?app_nil_r. tauto.
Qed.

Lemma emits_ops ops l : emits (emit_ops ops l) (map CE.IOp ops).
Proof.
  induction ops; simpl. apply emits_nil.
  change (CE.IOp a :: map CE.IOp ops) with ([CE.IOp a] ++ map CE.IOp ops).
  apply emits_bind; auto. apply emits_op.
Qed.

(* make_constant on related tables *)
Lemma make_constant_step c s tbl :
  script_state s -> krel s tbl -> cplain c ->
  (N.of_nat (length (CE.add_constant tbl c)) <= 65536)%N ->
  exists g s', make_constant (conv c) s = COk (g, s') /\ script_state s' /\
               krel s' (CE.add_constant tbl c) /\ scode s' = scode s /\
               CE.const_index (CE.add_constant tbl c) c = Some (N.to_nat g).
Proof.
  intros Hs [Hk Hp] Hc Hb. unfold make_constant, cbind, cur.
  rewrite Hk, const_index_agree by auto. unfold CE.add_constant in *.
  destruct (CE.const_index tbl c) as [i|] eqn:E.
  - assert (Hi : i < length tbl).
    { clear - E. revert i E. induction tbl; simpl; intros i E. discriminate.
      destruct (CE.const_eqb c a). inversion E; lia.
      destruct (CE.const_index tbl c); inversion E; subst. specialize (IHtbl _ eq_refl). lia. }
    replace (N.ltb 65535 (N.of_nat i)) with false by (symmetry; apply N.ltb_ge; lia).
    exists (N.of_nat i), s. rewrite Nat2N.id. repeat split; auto; apply Hs.
  - rewrite app_length in Hb. simpl in Hb. rewrite map_length.
    unfold upd. cbn [s_cur s_outer s_classes s_line].
    replace (N.ltb 65535 (N.of_nat (length tbl))) with false by (symmetry; apply N.ltb_ge; lia).
    eexists _, _. split; [reflexivity|]. rewrite Nat2N.id.
    unfold script_state, krel, scode in *. simpl. rewrite Hk, map_app. simpl.
    repeat split; try apply Hs.
    + apply Forall_app; auto.
    + apply ce_const_index_snoc; auto.
Qed.

Lemma set_line_step l s : set_line l s = COk (tt, mkS (s_cur s) (s_outer s) (s_classes s) l).
Proof. reflexivity. Qed.

Lemma emit_op16_step o g l s :
  exists s', emit_op16 o g l s = COk (tt, s') /\ s_outer s' = s_outer s /\
             k_locals (s_cur s') = k_locals (s_cur s) /\ k_consts (s_cur s') = k_consts (s_cur s) /\
             scode s' = scode s ++ N_of_opcode o :: CE.u16le g.
Proof.
  eexists. unfold emit_op16, emit_op, emit_u16, cbind. rewrite !emits_byte_step. split; [reflexivity|].
  unfold scode. simpl. rewrite <- !app_assoc. simpl. auto.
Qed.

Lemma emits_constant c l : cplain c -> emits (emit_constant (conv c) l) [CE.IConst c].
Proof.
  intros Hc s tbl Hs Hk Hb. simpl in Hb. unfold tbl_step in Hb. simpl in Hb.
  unfold emit_constant, cbind. rewrite set_line_step.
  destruct (make_constant_step c (mkS (s_cur s) (s_outer s) (s_classes s) l) tbl) as (g & s1 & E1 & Hs1 & Hk1 & Hc1 & Hi); auto.
  rewrite E1. destruct (emit_op16_step OpConstant g l s1) as (s2 & E2 & Ho & Hl & Hcs & Hcode).
  exists s2. split; [exact E2|]. unfold script_state, krel in *. simpl. unfold tbl_step. simpl.
  rewrite Ho, Hl, Hcs, Hcode, Hc1. unfold CE.idx_bytes. rewrite Hi, N2Nat.id, ?app_nil_r.
  repeat split; try apply Hs1; try apply Hk1.
Qed.

Lemma nonempty_not_slot0 x : x <> [] -> Utf8.bytes_eqb [] x = false.
Proof. destruct x; simpl; auto. congruence. Qed.

(* a global read at script level *)
Lemma emits_named_get_global x l :
  x <> [] -> Utf8.bytes_eqb (bs "self") x = false -> emits (named_get x l) [CE.IGlobal OpGetGlobal x].
Proof.
  intros Hx Hself s tbl Hs Hk Hb. simpl in Hb. unfold tbl_step in Hb. simpl in Hb.
  unfold named_get, resolve_variable, cbind, cur, resolve_local_c.
  destruct Hs as [Ho Hl]. rewrite Hl. unfold resolve_local_in, slot0. cbn [kl_name kl_depth].
  rewrite Hself.
  unfold cget. rewrite Ho. simpl. unfold identifier_constant.
  destruct (make_constant_step (CE.CStr x) (mkS (s_cur s) (s_outer s) (s_classes s) l) tbl) as (g & s1 & E1 & Hs1 & Hk1 & Hc1 & Hi); simpl; auto.
  { split; auto. }
  simpl in E1. rewrite E1. unfold cret. simpl.
  destruct (emit_op16_step OpGetGlobal g l s1) as (s2 & E2 & Ho2 & Hl2 & Hcs & Hcode).
  exists s2. split; [exact E2|]. unfold script_state, krel in *. simpl. unfold tbl_step. simpl.
  rewrite Ho2, Hl2, Hcs, Hcode, Hc1. unfold CE.idx_bytes. rewrite Hi, N2Nat.id, ?app_nil_r.
  repeat split; try apply Hs1; try apply Hk1.
Qed.

(* the straight-line r-value expressions over globals: literals, global reads, unary / binary operators, ranges,
   indexing.  (What is NOT covered, and why the statement is `_partial`: `&&` / `||` (back-patched jumps against
   the instruction-count jumps of CompileExpr.v), locals (correspondence cenv <-> Compiler.locals), assignments,
   calls / tuples / vectors / interpolation (list recursion), and the statement level - for these the bridge is
   CHECKED by evaluation: FullCompileRun.bridge_C05, run by tools/fullcompile_corr.py on generated programs.) *)
Definition nonempty_name (x : name) : bool := match x with [] => false | _ => true end.

Fixpoint sl_expr (e : lexpr) : bool :=
  match e with
  | LNil _ | LTrue _ | LFalse _ | LStr _ _ => true
  | LNum _ x => plain x
  | LVar _ x => nonempty_name x && negb (Utf8.bytes_eqb (bs "self") x)
  | LUnary _ e1 _ => sl_expr e1
  | LBinary _ a b _ | LRange a b _ | LIndex a b _ => sl_expr a && sl_expr b
  | LSetIndex o i e1 _ => sl_expr o && sl_expr i && sl_expr e1
  | _ => false
  end.

Lemma unop_code_ops op : CE.unop_code op = [CE.IOp (unop_op op)].
Proof. destruct op; reflexivity. Qed.
Lemma binop_code_ops op : CE.binop_code op = map CE.IOp (binop_ops op).
Proof. destruct op; reflexivity. Qed.

Theorem bridge_expr_straightline_partial e :
  sl_expr e = true -> emits (cexpr e) (CE.cexpr CE.cenv0 (erase_expr e)).
Proof.
  revert e.
  apply (lexpr_mind (fun e => sl_expr e = true -> emits (cexpr e) (CE.cexpr CE.cenv0 (erase_expr e)))
                    (fun _ => True) (fun _ => True) (fun _ => True) (fun _ => True) (fun _ => True)
                    (fun _ => True));
    intros; try exact I; simpl in *; try discriminate.
  - apply emits_op.
  - apply emits_op.
  - apply emits_op.
  - apply (emits_constant (CE.CNum x)). exact H.
  - apply (emits_constant (CE.CStr s)). exact I.
  - apply andb_prop in H. destruct H as [H1 H2]. apply negb_true_iff in H2.
    destruct x as [|b0 x0]; [discriminate|]. apply emits_named_get_global; auto. congruence.
  - rewrite unop_code_ops. apply emits_bind; auto. apply emits_op.
  - apply andb_prop in H1. destruct H1. rewrite binop_code_ops.
    apply emits_bind; auto. apply emits_bind; auto. apply emits_ops.
  - apply andb_prop in H1. destruct H1.
    apply emits_bind; auto. apply emits_bind; auto. apply emits_op.
  - apply andb_prop in H1. destruct H1.
    apply emits_bind; auto. apply emits_bind; auto. apply emits_op.
  - apply andb_prop in H2. destruct H2 as [H2 H3]. apply andb_prop in H2. destruct H2.
    apply emits_bind; auto. apply emits_bind; auto. apply emits_bind; auto. apply emits_op.
Qed.
Print Assumptions bridge_expr_straightline_partial.

Definition code_ok (l : list CE.instr) : Prop :=
  forallb jump_free_instr l = true /\ Forall instr_plain l.

Lemma code_ok_app a b : code_ok a -> code_ok b -> code_ok (a ++ b).
Proof.
  intros [Ha1 Ha2] [Hb1 Hb2]. split. rewrite forallb_app, Ha1, Hb1. reflexivity. apply Forall_app; auto.
Qed.
Lemma code_ok_op o : code_ok [CE.IOp o].
Proof. split; simpl; auto. repeat constructor. Qed.
Lemma code_ok_ops ops : code_ok (map CE.IOp ops).
Proof.
  induction ops; simpl. split; simpl; auto.
  change (CE.IOp a :: map CE.IOp ops) with ([CE.IOp a] ++ map CE.IOp ops). apply code_ok_app; auto. apply code_ok_op.
Qed.

Lemma sl_expr_code_ok e : sl_expr e = true -> code_ok (CE.cexpr CE.cenv0 (erase_expr e)).
Proof.
  revert e.
  apply (lexpr_mind (fun e => sl_expr e = true -> code_ok (CE.cexpr CE.cenv0 (erase_expr e)))
                    (fun _ => True) (fun _ => True) (fun _ => True) (fun _ => True) (fun _ => True)
                    (fun _ => True));
    intros; try exact I; simpl in *; try discriminate.
  - apply code_ok_op.
  - apply code_ok_op.
  - apply code_ok_op.
  - split; simpl; auto; repeat constructor; auto.
  - split; simpl; auto; repeat constructor.
  - apply andb_prop in H. destruct H as [H1 H2]. destruct x as [|b0 x0]; [discriminate|]. simpl. split; simpl; auto; repeat constructor.
  - rewrite unop_code_ops. apply code_ok_app; auto. apply code_ok_op.
  - apply andb_prop in H1. destruct H1. rewrite binop_code_ops.
    apply code_ok_app; auto. apply code_ok_app; auto. apply code_ok_ops.
  - apply andb_prop in H1. destruct H1.
    apply code_ok_app; auto. apply code_ok_app; auto. apply code_ok_op.
  - apply andb_prop in H1. destruct H1.
    apply code_ok_app; auto. apply code_ok_app; auto. apply code_ok_op.
  - apply andb_prop in H2. destruct H2 as [H2 H3]. apply andb_prop in H2. destruct H2.
    apply code_ok_app; auto. apply code_ok_app; auto. apply code_ok_app; auto. apply code_ok_op.
Qed.

(* HEADLINE of part B (partial): from the fresh script compiler, FullCompile's code for a straight-line expression
   is exactly `assemble` of what CompileExpr.v emits, and its constant table is exactly `const_table` *)
Theorem bridge_expr_assemble_partial e s :
  sl_expr e = true ->
  script_state s -> k_consts (s_cur s) = [] -> k_code (s_cur s) = [] ->
  (N.of_nat (length (CE.const_table (CE.cexpr CE.cenv0 (erase_expr e)))) <= 65536)%N ->
  exists s', cexpr e s = COk (tt, s') /\
             k_code (s_cur s') = CE.assemble (CE.cexpr CE.cenv0 (erase_expr e)) /\
             k_consts (s_cur s') = map conv (CE.const_table (CE.cexpr CE.cenv0 (erase_expr e))).
Proof.
  intros He Hs Hk Hc Hb.
  destruct (bridge_expr_straightline_partial e He s [] Hs) as (s' & E & _ & [Hk' _] & Hcode); auto.
  { split; auto. }
  exists s'. split; auto. destruct (sl_expr_code_ok e He) as [Hj Hp].
  rewrite assemble_inc by auto. unfold scode in Hcode. rewrite Hcode, Hc. split; auto.
Qed.
Print Assumptions bridge_expr_assemble_partial.

(* ---------- the hypotheses are satisfiable (non-vacuity) ---------- *)
From YV Require Parser.

Example compile_wf_nonvacuous :
  exists p f,
    lparse_source (bs "var a = 1; fn f(x) { return || x + a; } while a { if a && f { break; } try { a.b(1); } catch e { } }")
      = Parser.POk p /\
    compile_program p = COk f /\
    Nat.leb 60 (length (f_code f)) = true /\ Nat.leb 4 (length (f_consts f)) = true.
Proof.
  eexists. eexists. split; [vm_compute; reflexivity|]. split; [vm_compute; reflexivity|].
  split; vm_compute; reflexivity.
Qed.

Example bridge_nonvacuous :
  let e := LBinary BAdd (LNum 1 (S754_finite false 1 0))
                   (LIndex (LVar 1 (bs "a")) (LStr 1 (bs "k")) 1) 1 in
  sl_expr e = true /\ script_state init_state /\
  k_consts (s_cur init_state) = [] /\ k_code (s_cur init_state) = [] /\
  exists s', cexpr e init_state = COk (tt, s') /\ Nat.leb 9 (length (k_code (s_cur s'))) = true.
Proof.
  repeat split. eexists. split; vm_compute; reflexivity.
Qed.
