(* FullCompile, part 3: the wire entry.  source text -> Scanner.scan_all -> ParseLoc.lparse_program ->
   FullCompile.compile_program -> the dump text that the harness command `compile` prints
   (harness/src/main.rs, fn dump_function), as ONE printable string with '|' between the lines:

     R ok|F idx arity upvalues name codehex|...children...|C idx consts...|LN idx lines
     R err <line> <message>          (first error of the model: parser or code generator)
     R fuel                          (parser out of fuel; does not happen with default_fuel)

   Function indices are allotted in pre-order over the constant tables, children are printed between
   the parent's F line and its C / LN lines, exactly as dump_function does.  DEFINITIONS ONLY. *)
From Coq Require Import Strings.Byte Strings.String Strings.Ascii.
From Coq Require Import List NArith ZArith Bool Arith.
From Coq Require Import Floats.SpecFloat.
From YV Require Import Show Utf8 Num Ast Scanner Parser ParseRun Bytecode ParseLoc FullCompile.
Import ListNotations.
Local Open Scope string_scope.
Local Open Scope list_scope.
Local Infix "+++" := String.append (at level 55, right associativity).

Definition hex_of_Ns (l : list N) : string := hex_of_bytes (map Nb l).

Definition dash_or (s : string) : string := match s with EmptyString => "-" | _ => s end.

(* (lines of f and of its descendants, next free index) *)
Fixpoint dump_func (f : func) (idx : N) {struct f} : list string * N :=
  match f with
  | MkFunc a u n code ks lines =>
    let '(cs, children, next) :=
      (fix go (ks : list const) (next : N) {struct ks} : list string * list string * N :=
         match ks with
         | [] => ([], [], next)
         | KNum x :: r =>
           let '(cs, ch, nx) := go r next in ("n" +++ show_Z (bits_of_f64 x) :: cs, ch, nx)
         | KStr s :: r =>
           let '(cs, ch, nx) := go r next in ("s" +++ hex_of_bytes s :: cs, ch, nx)
         | KFun g :: r =>
           let '(lg, nx1) := dump_func g next in
           let '(cs, ch, nx) := go r nx1 in
           ("f" +++ show_N next :: cs, lg ++ ch, nx)
         end) ks (idx + 1)%N in
    (("F " +++ show_N idx +++ " " +++ show_N a +++ " " +++ show_N u +++ " " +++ dash_or (hex_of_bytes n)
          +++ " " +++ dash_or (hex_of_Ns code))
       :: children ++
       ["C " +++ show_N idx +++ " " +++ show_sep " " (fun x => x) cs;
        "LN " +++ show_N idx +++ " " +++ show_sep "," show_N lines],
     next)
  end.

Definition show_cres (r : cres func) : string :=
  match r with
  | COk f => "R ok|" +++ show_sep "|" (fun x => x) (fst (dump_func f 0%N))
  | CErr l msg => "R err " +++ show_N l +++ " " +++ msg
  end.

Definition fullcompile_tokens (toks : list token) : string :=
  match lparse_program toks with
  | POk p => show_cres (compile_program p)
  | PErr l _ msg => "R err " +++ show_N l +++ " " +++ msg
  | POutOfFuel => "R fuel"
  end.

Definition fullcompile_source (src : list byte) : string := fullcompile_tokens (scan_all src).

(* the entry the driver uses: the source as a hex string *)
Definition fullcompile_hex (h : string) : string := fullcompile_source (bytes_of_hex h).

(* does the located parser agree with Parser.v after erasure? (checked by the driver on every input) *)
Definition erase_program (p : lprogram) : Ast.program := erase_stmts (fst p).

(* ------------------------------------------------------------------ *)
(* Bridging to the C05 fragment compiler, as a CHECK (evaluated by the driver on generated programs of the
   fragment; the proved part is in FullCompileProofs.v): on a script of the fragment of CompileExpr.v
   (program_ok) whose code fits (fits), the script function FullCompile builds has exactly the code bytes
   `assemble (cprogram true p)` and the constant table `const_table (cprogram true p)`.
   (bpf = true: compiler.rs emits the scope-end pops of `break` before the Jump.) *)
From YV Require CompileExpr.

Fixpoint Ns_eqb (a b : list N) : bool :=
  match a, b with
  | [], [] => true
  | x :: a', y :: b' => N.eqb x y && Ns_eqb a' b'
  | _, _ => false
  end.

Definition kconst_eqb (k : const) (c : CompileExpr.const) : bool :=
  match k, c with
  | KNum x, CompileExpr.CNum y => f64_eq_exact x y
  | KStr s, CompileExpr.CStr t => bytes_eqb s t
  | _, _ => false
  end.

Fixpoint kconsts_eqb (a : list const) (b : list CompileExpr.const) : bool :=
  match a, b with
  | [], [] => true
  | x :: a', y :: b' => kconst_eqb x y && kconsts_eqb a' b'
  | _, _ => false
  end.

Definition bridge_C05 (lp : lprogram) : string :=
  let p := erase_program lp in
  if negb (CompileExpr.program_ok p) then "notfrag" else
  let code := CompileExpr.cprogram true p in
  if negb (CompileExpr.fits code) then "nofit" else
  match compile_program lp with
  | COk f =>
    if Ns_eqb (f_code f) (CompileExpr.assemble code) && kconsts_eqb (f_consts f) (CompileExpr.const_table code)
    then "same" else "DIFF"
  | CErr _ _ => "cerr"
  end.

Definition bridge_C05_hex (h : string) : string :=
  match lparse_source (bytes_of_hex h) with
  | POk lp => bridge_C05 lp
  | PErr _ _ _ => "parse"
  | POutOfFuel => "fuel"
  end.
