(* FullCompile-WF, part 1: the code FullCompile emits is a concatenation of well-formed instructions, for ALL
   programs (deliverables 1 and 2 of notes/briefs/fullcompile-verify.txt).

   Ghost state: the code of the current compiler is [flat g] for a list [g] of abstract instructions
   (opcode, operand bytes).  Every emission appends a whole instruction; every back-patch rewrites the two
   operand bytes of a Jump / JumpIfFalse / JumpIfStopIter or two of the four operand bytes of a PushExcHandler.
   Per instruction ([iok]): operand length = the layout the VM decodes (Bytecode.layout_of), a constant
   operand designates an existing constant of the kind the opcode expects (string for names, non-function for
   Constant, function for Closure), a Closure is followed by exactly 2 * upvalue_count descriptor bytes,
   a GetUpvalue/SetUpvalue operand is < the function's upvalue count.

   This is a proofs file (the model is FullCompile.v, not edited). *)
From Coq Require Import Strings.Byte Strings.String.
From Coq Require Import List NArith ZArith Bool Arith Lia.
From Coq Require Import Floats.SpecFloat.
From YV Require Import Show Utf8 Num Ast Bytecode ParseLoc FullCompile FullCompileProofs.
Import ListNotations.
Local Open Scope nat_scope.
Local Open Scope list_scope.
Local Open Scope comp_scope.

(* ------------------------------------------------------------------ *)
(* abstract instructions                                                *)
Definition ainstr : Type := (opcode * list N)%type.
Definition enc (i : ainstr) : list N := N_of_opcode (fst i) :: snd i.
Definition flat (g : list ainstr) : list N := flat_map enc g.

Lemma flat_app a b : flat (a ++ b) = flat a ++ flat b.
Proof. unfold flat. apply flat_map_app. Qed.
Lemma flat_cons i g : flat (i :: g) = enc i ++ flat g.
Proof. reflexivity. Qed.

Definition u16 (a b : N) : N := (a + 256 * b)%N.
Lemma u16_split c : u16 (c mod 256) (c / 256) = c.
Proof. unfold u16. rewrite N.add_comm. symmetry. apply N.div_mod. lia. Qed.

Definition kstr (ks : list const) (c : N) : Prop := exists x, nth_error ks (N.to_nat c) = Some (KStr x).
Definition knotfun (ks : list const) (c : N) : Prop :=
  exists k, nth_error ks (N.to_nat c) = Some k /\ forall f, k <> KFun f.

Definition str_op (o : opcode) : bool :=
  match o with
  | OpGetGlobal | OpDefineGlobal | OpSetGlobal | OpGetProperty | OpSetProperty | OpGetSuper
  | OpDeclareClass | OpMethod | OpStaticMethod | OpStartImport => true
  | _ => false
  end.

Definition upv_op (o : opcode) : bool :=
  match o with OpGetUpvalue | OpSetUpvalue => true | _ => false end.

(* the descriptor bytes of a Closure: (is_local, index) pairs; a non-local one names an upvalue of the enclosing function *)
Fixpoint dok (bs : list N) (nu : nat) : Prop :=
  match bs with
  | il :: ix :: r => (il = 0%N -> N.to_nat ix < nu) /\ dok r nu
  | _ => True
  end.
Lemma dok_mono bs : forall nu nu', nu <= nu' -> dok bs nu -> dok bs nu'.
Proof.
  assert (H : forall n (bs : list N), length bs <= n -> forall nu nu', nu <= nu' -> dok bs nu -> dok bs nu').
  { induction n; intros bs0 Hl nu nu' Hle Hd.
    - destruct bs0; simpl in *; auto. lia.
    - destruct bs0 as [|il [|ix r]]; simpl in *; auto. destruct Hd as [H1 H2]. split.
      intros E. specialize (H1 E). lia. apply (IHn r) with (nu := nu); auto. lia. }
  intros. eapply (H (length bs)); eauto.
Qed.

(* well-formed instruction of a function with constants [ks] and [nu] upvalues *)
Definition iok (ks : list const) (nu : nat) (i : ainstr) : Prop :=
  match layout_of (fst i) with
  | L0 => snd i = []
  | L8 => exists a, snd i = [a] /\ (upv_op (fst i) = true -> N.to_nat a < nu)
  | L16 => exists a b, snd i = [a; b] /\
             (str_op (fst i) = true -> kstr ks (u16 a b)) /\
             (fst i = OpConstant -> knotfun ks (u16 a b))
  | L16_16 => exists a b c d, snd i = [a; b; c; d]
  | L16_8 => exists a b c, snd i = [a; b; c] /\ kstr ks (u16 a b)
  | LClosure => exists a b f uvs, snd i = a :: b :: uvs /\
                  nth_error ks (N.to_nat (u16 a b)) = Some (KFun f) /\
                  length uvs = 2 * N.to_nat (f_upvalues f) /\ dok uvs nu
  end.

Lemma nth_error_app_some {A} (l m : list A) n x : nth_error l n = Some x -> nth_error (l ++ m) n = Some x.
Proof. intros H. rewrite nth_error_app1; auto. apply nth_error_Some. congruence. Qed.

Lemma kstr_app ks more c : kstr ks c -> kstr (ks ++ more) c.
Proof. intros [x H]. exists x. apply nth_error_app_some; auto. Qed.
Lemma knotfun_app ks more c : knotfun ks c -> knotfun (ks ++ more) c.
Proof. intros [k [H H2]]. exists k. split; auto. apply nth_error_app_some; auto. Qed.

Lemma iok_mono ks more nu nu' i : nu <= nu' -> iok ks nu i -> iok (ks ++ more) nu' i.
Proof.
  intros Hn. unfold iok. destruct (layout_of (fst i)); auto.
  - intros [a [H1 H2]]. exists a. split; auto. intros. specialize (H2 H). lia.
  - intros (a & b & H1 & H2 & H3). exists a, b. split; auto. split; intros.
    apply kstr_app; auto. apply knotfun_app; auto.
  - intros (a & b & c & H1 & H2). exists a, b, c. split; auto. apply kstr_app; auto.
  - intros (a & b & f & uvs & H1 & H2 & H3 & H4). exists a, b, f, uvs. split; auto. split.
    apply nth_error_app_some; auto. split; auto. eapply dok_mono; eauto.
Qed.

(* ------------------------------------------------------------------ *)
(* the functions whose code is a list of well-formed instructions, recursively through the constants *)
Inductive good_const : const -> Prop :=
| gc_num x : good_const (KNum x)
| gc_str x : good_const (KStr x)
| gc_fun f : good_func f -> good_const (KFun f)
with good_func : func -> Prop :=
| gf_mk a u n code ks lines g :
    code = flat g ->
    Forall (iok ks (N.to_nat u)) g ->
    Forall good_const ks ->
    good_func (MkFunc a u n code ks lines).

(* ------------------------------------------------------------------ *)
(* back-patching: which instructions may have their operand rewritten *)
Definition patchable (o : opcode) : bool :=
  match o with OpJump | OpJumpIfFalse | OpJumpIfStopIter | OpPushExcHandler => true | _ => false end.
Definition is_jump16 (o : opcode) : bool :=
  match o with OpJump | OpJumpIfFalse | OpJumpIfStopIter => true | _ => false end.

Definition sp (i j : ainstr) : Prop :=
  i = j \/ (patchable (fst i) = true /\ fst j = fst i /\ length (snd j) = length (snd i)).

Lemma sp_refl i : sp i i.
Proof. left; auto. Qed.
Lemma sp_trans i j k : sp i j -> sp j k -> sp i k.
Proof.
  intros [->|(H1 & H2 & H3)] [->|(H4 & H5 & H6)]; unfold sp; auto.
  right. rewrite H2 in *. repeat split; congruence.
Qed.
Lemma sp_len i j : sp i j -> length (enc i) = length (enc j).
Proof. intros [->|(H1 & H2 & H3)]; auto. unfold enc. simpl. lia. Qed.

Lemma F2sp_refl g : Forall2 sp g g.
Proof. induction g; constructor; auto. apply sp_refl. Qed.
Lemma F2sp_trans a : forall b c, Forall2 sp a b -> Forall2 sp b c -> Forall2 sp a c.
Proof.
  induction a; intros b c H1 H2; inversion H1; subst; inversion H2; subst; constructor.
  eapply sp_trans; eauto. eauto.
Qed.
Lemma F2sp_len a b : Forall2 sp a b -> length (flat a) = length (flat b).
Proof.
  induction 1; auto. rewrite !flat_cons, !app_length. erewrite sp_len; eauto.
Qed.

(* g' extends g: a same-shape copy of g followed by new instructions *)
Definition ext (g g' : list ainstr) : Prop := exists g1 new, g' = g1 ++ new /\ Forall2 sp g g1.

Lemma ext_refl g : ext g g.
Proof. exists g, []. rewrite app_nil_r. split; auto. apply F2sp_refl. Qed.
Lemma ext_app g new : ext g (g ++ new).
Proof. exists g, new. split; auto. apply F2sp_refl. Qed.
Lemma ext_trans a b c : ext a b -> ext b c -> ext a c.
Proof.
  intros (b1 & n1 & -> & H1) (c1 & n2 & -> & H2).
  apply Forall2_app_inv_l in H2. destruct H2 as (c11 & c12 & H3 & H4 & ->).
  exists c11, (c12 ++ n2). rewrite app_assoc. split; auto. eapply F2sp_trans; eauto.
Qed.

Definition hole_at (g : list ainstr) (p : nat) : Prop :=
  exists pre o a b post, g = pre ++ (o, [a; b]) :: post /\ is_jump16 o = true /\ p = length (flat pre) + 1.
Definition handler_at (g : list ainstr) (p : nat) : Prop :=
  exists pre a b c d post, g = pre ++ (OpPushExcHandler, [a; b; c; d]) :: post /\ p = length (flat pre) + 1.

Lemma len2 {A} (l : list A) : length l = 2 -> exists a b, l = [a; b].
Proof. destruct l as [|a [|b [|]]]; simpl; try discriminate. eauto. Qed.
Lemma len4 {A} (l : list A) : length l = 4 -> exists a b c d, l = [a; b; c; d].
Proof. destruct l as [|a [|b [|c [|d [|]]]]]; simpl; try discriminate. eauto 6. Qed.

Lemma hole_ext g g' p : ext g g' -> hole_at g p -> hole_at g' p.
Proof.
  intros (g1 & new & -> & H) (pre & o & a & b & post & -> & Ho & ->).
  apply Forall2_app_inv_l in H. destruct H as (pre1 & r1 & Hp & Hr & ->).
  inversion Hr as [|x y l l' Hxy Hpost]; subst.
  assert (exists a' b', y = (o, [a'; b'])) as (a' & b' & ->).
  { destruct Hxy as [<-|(H1 & H2 & H3)]; eauto. destruct y as [o' args]. simpl in *. subst.
    apply len2 in H3. destruct H3 as (a' & b' & ->). eauto. }
  exists pre1, o, a', b', (l' ++ new). rewrite <- app_assoc. simpl. repeat split; auto.
  rewrite (F2sp_len _ _ Hp). reflexivity.
Qed.

Lemma handler_ext g g' p : ext g g' -> handler_at g p -> handler_at g' p.
Proof.
  intros (g1 & new & -> & H) (pre & a & b & c & d & post & -> & ->).
  apply Forall2_app_inv_l in H. destruct H as (pre1 & r1 & Hp & Hr & ->).
  inversion Hr as [|x y l l' Hxy Hpost]; subst.
  assert (exists a' b' c' d', y = (OpPushExcHandler, [a'; b'; c'; d'])) as (a' & b' & c' & d' & ->).
  { destruct Hxy as [<-|(H1 & H2 & H3)]. eauto 6. destruct y as [o' args]. simpl in *. subst.
    apply len4 in H3. destruct H3 as (a' & b' & c' & d' & ->). eauto 6. }
  exists pre1, a', b', c', d', (l' ++ new). rewrite <- app_assoc. simpl. split; auto.
  rewrite (F2sp_len _ _ Hp). reflexivity.
Qed.

(* set_nth on a split list *)
Lemma set_nth_app {A} (l1 : list A) x l2 v : set_nth (length l1) v (l1 ++ x :: l2) = l1 ++ v :: l2.
Proof. induction l1; simpl; auto. rewrite IHl1. reflexivity. Qed.

Lemma set_nth_app' {A} (l1 : list A) x l2 v n : n = length l1 -> set_nth n v (l1 ++ x :: l2) = l1 ++ v :: l2.
Proof. intros ->. apply set_nth_app. Qed.

(* patching the 16-bit operand at byte position p *)
Lemma patch_hole g p lo hi :
  hole_at g p ->
  exists g', set_nth (S p) hi (set_nth p lo (flat g)) = flat g' /\ Forall2 sp g g' /\
             (forall ks nu, Forall (iok ks nu) g -> Forall (iok ks nu) g').
Proof.
  intros (pre & o & a & b & post & -> & Ho & ->).
  exists (pre ++ (o, [lo; hi]) :: post). split; [|split].
  - rewrite !flat_app, !flat_cons. unfold enc. simpl fst. simpl snd.
    replace (flat pre ++ (N_of_opcode o :: [a; b]) ++ flat post)
      with ((flat pre ++ [N_of_opcode o]) ++ a :: (b :: flat post)) by (rewrite <- app_assoc; reflexivity).
    rewrite set_nth_app' by (rewrite app_length; simpl; lia).
    replace ((flat pre ++ [N_of_opcode o]) ++ lo :: b :: flat post)
      with ((flat pre ++ [N_of_opcode o; lo]) ++ b :: flat post) by (rewrite <- !app_assoc; reflexivity).
    rewrite set_nth_app' by (rewrite app_length; simpl; lia).
    rewrite <- !app_assoc. reflexivity.
  - apply Forall2_app. apply F2sp_refl. constructor; [|apply F2sp_refl].
    right. simpl. destruct o; try discriminate; auto.
  - intros ks nu H. apply Forall_app in H. destruct H as [H1 H2]. inversion H2; subst.
    apply Forall_app. split; auto. constructor; auto.
    unfold iok in *. simpl fst in *. simpl snd in *. destruct o; try discriminate; simpl in *.
    all: exists lo, hi; split; auto; split; intros; discriminate.
Qed.

Lemma patch_handler g p k lo hi :
  handler_at g p -> (k = 0 \/ k = 2) ->
  exists g', set_nth (S (p + k)) hi (set_nth (p + k) lo (flat g)) = flat g' /\ Forall2 sp g g' /\
             (forall ks nu, Forall (iok ks nu) g -> Forall (iok ks nu) g').
Proof.
  intros (pre & a & b & c & d & post & -> & ->) Hk.
  destruct Hk as [->| ->].
  - exists (pre ++ (OpPushExcHandler, [lo; hi; c; d]) :: post). split; [|split].
    + rewrite !flat_app, !flat_cons. unfold enc. simpl fst. simpl snd.
      replace (flat pre ++ (N_of_opcode OpPushExcHandler :: [a; b; c; d]) ++ flat post)
        with ((flat pre ++ [N_of_opcode OpPushExcHandler]) ++ a :: (b :: c :: d :: flat post))
        by (rewrite <- app_assoc; reflexivity).
      rewrite set_nth_app' by (rewrite app_length; simpl; lia).
      replace ((flat pre ++ [N_of_opcode OpPushExcHandler]) ++ lo :: b :: c :: d :: flat post)
        with ((flat pre ++ [N_of_opcode OpPushExcHandler; lo]) ++ b :: c :: d :: flat post)
        by (rewrite <- !app_assoc; reflexivity).
      rewrite set_nth_app' by (rewrite app_length; simpl; lia).
      rewrite <- !app_assoc. reflexivity.
    + apply Forall2_app. apply F2sp_refl. constructor; [|apply F2sp_refl]. right. simpl. auto.
    + intros ks nu H. apply Forall_app in H. destruct H as [H1 H2]. inversion H2; subst.
      apply Forall_app. split; auto. constructor; auto. unfold iok. simpl. eauto 6.
  - exists (pre ++ (OpPushExcHandler, [a; b; lo; hi]) :: post). split; [|split].
    + rewrite !flat_app, !flat_cons. unfold enc. simpl fst. simpl snd.
      replace (flat pre ++ (N_of_opcode OpPushExcHandler :: [a; b; c; d]) ++ flat post)
        with ((flat pre ++ [N_of_opcode OpPushExcHandler; a; b]) ++ c :: (d :: flat post))
        by (rewrite <- app_assoc; reflexivity).
      rewrite set_nth_app' by (rewrite app_length; simpl; lia).
      replace ((flat pre ++ [N_of_opcode OpPushExcHandler; a; b]) ++ lo :: d :: flat post)
        with ((flat pre ++ [N_of_opcode OpPushExcHandler; a; b; lo]) ++ d :: flat post)
        by (rewrite <- !app_assoc; reflexivity).
      rewrite set_nth_app' by (rewrite app_length; simpl; lia).
      rewrite <- !app_assoc. reflexivity.
    + apply Forall2_app. apply F2sp_refl. constructor; [|apply F2sp_refl]. right. simpl. auto.
    + intros ks nu H. apply Forall_app in H. destruct H as [H1 H2]. inversion H2; subst.
      apply Forall_app. split; auto. constructor; auto. unfold iok. simpl. eauto 6.
Qed.

(* ------------------------------------------------------------------ *)
(* invariants                                                           *)
Record cinv (c : comp) (g : list ainstr) : Prop := mkCinv {
  ci_code : k_code c = flat g;
  ci_iok : Forall (iok (k_consts c) (length (k_upvalues c))) g;
  ci_consts : Forall good_const (k_consts c);
  ci_breaks : Forall (hole_at g) (concat (k_breaks c))
}.

(* every non-local upvalue descriptor of a compiler names an upvalue of the compiler that encloses it *)
Definition uok (c : comp) (n : nat) : Prop :=
  Forall (fun u : N * bool => snd u = false -> N.to_nat (fst u) < n) (k_upvalues c).
Fixpoint uchain (l : list comp) : Prop :=
  match l with
  | [] => True
  | c :: r => uok c (match r with e :: _ => length (k_upvalues e) | [] => 0 end) /\ uchain r
  end.

Definition GS : Type := (list ainstr * list (list ainstr))%type.
Definition sinv (s : cstate) (G : GS) : Prop :=
  cinv (s_cur s) (fst G) /\ Forall2 cinv (s_outer s) (snd G) /\ uchain (s_cur s :: s_outer s).

Lemma uchain_same l : forall l', map k_upvalues l' = map k_upvalues l -> uchain l -> uchain l'.
Proof.
  induction l as [|c r IH]; intros [|c' r'] E H; simpl in *; try discriminate; auto.
  inversion E as [[E1 E2]]. destruct H as [H1 H2]. split; [|apply IH; auto].
  unfold uok in *. rewrite E1.
  destruct r as [|e r0], r' as [|e' r0']; simpl in *; try discriminate; auto.
  inversion E2 as [[E3 E4]]. rewrite E3. auto.
Qed.

Definition cgrow (c c' : comp) : Prop :=
  (exists more, k_consts c' = k_consts c ++ more) /\ length (k_upvalues c) <= length (k_upvalues c').
Definition ofix (c c' : comp) : Prop :=
  k_code c' = k_code c /\ k_consts c' = k_consts c /\ k_breaks c' = k_breaks c /\
  k_scope c' = k_scope c /\ k_loops c' = k_loops c /\ length (k_upvalues c) <= length (k_upvalues c').
Definition le (s : cstate) (G : GS) (s' : cstate) (G' : GS) : Prop :=
  cgrow (s_cur s) (s_cur s') /\ ext (fst G) (fst G') /\ Forall2 ofix (s_outer s) (s_outer s') /\ snd G' = snd G.

Lemma cgrow_refl c : cgrow c c.
Proof. split; auto. exists []. rewrite app_nil_r; auto. Qed.
Lemma cgrow_trans a b c : cgrow a b -> cgrow b c -> cgrow a c.
Proof.
  intros [[m1 H1] H2] [[m2 H3] H4]. split; [|lia]. exists (m1 ++ m2). rewrite H3, H1, app_assoc. auto.
Qed.
Lemma ofix_refl c : ofix c c.
Proof. repeat split; auto. Qed.
Lemma ofix_trans a b c : ofix a b -> ofix b c -> ofix a c.
Proof. intros (A1 & A2 & A3 & A4 & A6 & A5) (B1 & B2 & B3 & B4 & B6 & B5). repeat split; try congruence. lia. Qed.
Lemma ofix_cgrow a b : ofix a b -> cgrow a b.
Proof. intros (A1 & A2 & A3 & A4 & A6 & A5). split; auto. exists []. rewrite app_nil_r; auto. Qed.
Lemma F2ofix_refl l : Forall2 ofix l l.
Proof. induction l; constructor; auto. apply ofix_refl. Qed.
Lemma F2ofix_trans a : forall b c, Forall2 ofix a b -> Forall2 ofix b c -> Forall2 ofix a c.
Proof.
  induction a; intros b c H1 H2; inversion H1; subst; inversion H2; subst; constructor.
  eapply ofix_trans; eauto. eauto.
Qed.

Lemma le_refl s G : le s G s G.
Proof. repeat split; auto using ext_refl, F2ofix_refl. apply cgrow_refl. Qed.
Lemma le_trans s1 G1 s2 G2 s3 G3 : le s1 G1 s2 G2 -> le s2 G2 s3 G3 -> le s1 G1 s3 G3.
Proof.
  intros (A1 & A2 & A3 & A4) (B1 & B2 & B3 & B4). split; [|split; [|split]].
  eapply cgrow_trans; eauto. eapply ext_trans; eauto. eapply F2ofix_trans; eauto. congruence.
Qed.

Lemma iok_mono_nu ks nu nu' i : nu <= nu' -> iok ks nu i -> iok ks nu' i.
Proof. intros. rewrite <- (app_nil_r ks). eapply iok_mono; eauto. Qed.

Lemma cinv_ofix c c' g : ofix c c' -> cinv c g -> cinv c' g.
Proof.
  intros (A1 & A2 & A3 & A4 & A6 & A5) []. constructor; try congruence.
  rewrite A2. eapply Forall_impl; [|eauto]. intros. eapply iok_mono_nu; eauto.
Qed.
Lemma F2cinv_ofix l : forall l' gs, Forall2 ofix l l' -> Forall2 cinv l gs -> Forall2 cinv l' gs.
Proof.
  induction l; intros l' gs H1 H2; inversion H1; subst; inversion H2; subst; constructor.
  eapply cinv_ofix; eauto. eauto.
Qed.

(* n is the start of an instruction of g, or its end *)
Definition boundary (g : list ainstr) (n : nat) : Prop := exists pre post, g = pre ++ post /\ length (flat pre) = n.

Lemma boundary_ext g g' n : ext g g' -> boundary g n -> boundary g' n.
Proof.
  intros (g1 & new & -> & H) (pre & post & -> & <-).
  apply Forall2_app_inv_l in H. destruct H as (pre1 & post1 & Hp & Hq & ->).
  exists pre1, (post1 ++ new). rewrite <- app_assoc. split; auto. symmetry. apply F2sp_len; auto.
Qed.

(* ------------------------------------------------------------------ *)
(* facts carried between the steps of a construct                       *)
Inductive fact :=
| FStr (c : N)                      (* constant c of the current chunk is a string *)
| FFun (c : N) (f : func)           (* constant c of the current chunk is the function f *)
| FUpv (i : N)                      (* i < number of upvalues of the current function *)
| FHole (p : nat)                   (* p = position of the operand of a Jump / JumpIfFalse / JumpIfStopIter *)
| FHandler (p : nat)                (* p = position of the operands of a PushExcHandler *)
| FVar (g s : opcode) (arg : N)     (* what resolve_variable returned *)
| FDef (g : N)                      (* what parse_variable returned *)
| FBound (n : nat)                  (* n is an instruction boundary *)
| FLoopsOf (k : comp)                (* used by FullCompileWFJ.v only: k_loops of the current compiler = k_loops k *)
| FCatch (p t : nat)                (* used by FullCompileWFJ.v only: the PushExcHandler whose operands start at p has catch target t *)
| FDesc (us : list (N * bool))      (* the non-local descriptors in us name upvalues of the current function *)
| FPure (X : Prop).

Definition sem (f : fact) (s : cstate) (g : list ainstr) : Prop :=
  let c := s_cur s in
  match f with
  | FStr i => kstr (k_consts c) i
  | FFun i f => nth_error (k_consts c) (N.to_nat i) = Some (KFun f)
  | FUpv i => N.to_nat i < length (k_upvalues c)
  | FHole p => hole_at g p
  | FHandler p => handler_at g p
  | FVar go so arg =>
      (go = OpGetLocal /\ so = OpSetLocal) \/
      (go = OpGetUpvalue /\ so = OpSetUpvalue /\ N.to_nat arg < length (k_upvalues c)) \/
      (go = OpGetGlobal /\ so = OpSetGlobal /\ kstr (k_consts c) arg)
  | FDef i => 0 < k_scope c \/ kstr (k_consts c) i
  | FBound n => boundary g n
  | FLoopsOf _ => True
  | FCatch _ _ => True
  | FDesc us => Forall (fun u : N * bool => snd u = false -> N.to_nat (fst u) < length (k_upvalues c)) us
  | FPure X => X
  end.

Definition holds (fs : list fact) (s : cstate) (G : GS) : Prop := Forall (fun f => sem f s (fst G)) fs.
Definition nodef (fs : list fact) : bool := forallb (fun f => match f with FDef _ => false | _ => true end) fs.

Lemma holds_le fs s G s' G' :
  le s G s' G' -> (k_scope (s_cur s') = k_scope (s_cur s) \/ nodef fs = true) ->
  holds fs s G -> holds fs s' G'.
Proof.
  intros ([[more Hk] Hu] & He & _ & _) Hsc H. unfold holds in *.
  induction H as [|f fs Hf Hfs IH]; constructor.
  - destruct f; simpl in *; auto.
    + rewrite Hk. apply kstr_app; auto.
    + rewrite Hk. apply nth_error_app_some; auto.
    + lia.
    + eapply hole_ext; eauto.
    + eapply handler_ext; eauto.
    + destruct Hf as [?|[(?&?&?)|(?&?&?)]]; auto.
      * right; left. repeat split; auto. lia.
      * right; right. repeat split; auto. rewrite Hk. apply kstr_app; auto.
    + destruct Hsc as [Hsc|Hsc]; [|discriminate]. rewrite Hsc. destruct Hf; auto.
      right. rewrite Hk. apply kstr_app; auto.
    + eapply boundary_ext; eauto.
    + eapply Forall_impl; [|exact Hf]. intros u0 Hu0 Hs'. specialize (Hu0 Hs'). lia.
  - apply IH. destruct Hsc; auto. right. simpl in H. destruct f; auto; discriminate.
Qed.

(* ------------------------------------------------------------------ *)
(* the triple                                                           *)
Definition T {A} (fs : list fact) (m : C A) (Q : A -> list fact) : Prop :=
  forall s G a s', sinv s G -> holds fs s G -> m s = COk (a, s') ->
    exists G', sinv s' G' /\ le s G s' G' /\ holds (Q a) s' G'.

Lemma T_bind {A B} fs (m : C A) (k : A -> C B) Q R :
  T fs m Q -> (forall a, T (Q a) (k a) R) -> T fs (cbind m k) R.
Proof.
  intros Hm Hk s G b s' Hs Hf H. unfold cbind in H.
  destruct (m s) as [[a s1]|] eqn:E; [|discriminate].
  destruct (Hm _ _ _ _ Hs Hf E) as (G1 & Hs1 & Hle1 & Hq).
  destruct (Hk a _ _ _ _ Hs1 Hq H) as (G2 & Hs2 & Hle2 & Hr).
  exists G2. split; auto. split; auto. eapply le_trans; eauto.
Qed.

Lemma T_post {A} fs (m : C A) Q R :
  T fs m Q -> (forall a, incl (R a) (Q a)) -> T fs m R.
Proof.
  intros Hm Hi s G a s' Hs Hf H. destruct (Hm _ _ _ _ Hs Hf H) as (G1 & Hs1 & Hle1 & Hq).
  exists G1. split; auto. split; auto. unfold holds in *. rewrite Forall_forall in *.
  intros f Hin. apply Hq. apply Hi. auto.
Qed.

Lemma T_pre {A} fs fs' (m : C A) Q : T fs' m Q -> incl fs' fs -> T fs m Q.
Proof.
  intros Hm Hi s G a s' Hs Hf H. apply (Hm _ _ _ _ Hs); auto.
  unfold holds in *. rewrite Forall_forall in *. auto.
Qed.

Lemma T_ext {A} fs (m m' : C A) Q : T fs m Q -> (forall s, m' s = m s) -> T fs m' Q.
Proof. intros Hm He s G a s' Hs Hf H. rewrite He in H. eauto. Qed.

Lemma T_err {A} fs l msg (Q : A -> list fact) : T fs (cerr l msg) Q.
Proof. intros s G a s' _ _ H. discriminate. Qed.
Lemma T_err_here {A} fs msg (Q : A -> list fact) : T fs (cerr_here msg) Q.
Proof. intros s G a s' _ _ H. discriminate. Qed.
Lemma T_ret {A} fs (a : A) : T fs (cret a) (fun _ => fs).
Proof. intros s G a' s' Hs Hf H. inversion H; subst. exists G. split; auto. split; auto. apply le_refl. Qed.

Lemma holds_in fs s G f : holds fs s G -> In f fs -> sem f s (fst G).
Proof. unfold holds. rewrite Forall_forall. auto. Qed.

(* ---------- steps that touch neither code nor constants nor upvalues nor breaks ---------- *)
Definition same_core (c c' : comp) : Prop :=
  k_code c' = k_code c /\ k_consts c' = k_consts c /\ k_upvalues c' = k_upvalues c /\ k_breaks c' = k_breaks c.
Definition quiet {A} (sc : bool) (m : C A) : Prop :=
  forall s a s', m s = COk (a, s') ->
    same_core (s_cur s) (s_cur s') /\ s_outer s' = s_outer s /\
    (sc = true -> k_scope (s_cur s') = k_scope (s_cur s)).

Lemma T_quiet {A} sc fs (m : C A) : quiet sc m -> (sc = true \/ nodef fs = true) -> T fs m (fun _ => fs).
Proof.
  intros Hq Hsc s G a s' [Hc [Ho Hu]] Hf H. destruct (Hq _ _ _ H) as ((A1 & A2 & A3 & A4) & A5 & A6).
  exists G.
  assert (Hle : le s G s' G).
  { split; [|split; [|split]]; auto using ext_refl.
    - split. exists []. rewrite app_nil_r; auto. rewrite A3; auto.
    - rewrite A5. apply F2ofix_refl. }
  split; [|split]; auto.
  - split; [|split; [rewrite A5; auto|]].
    + destruct Hc. constructor; [congruence | rewrite A2, A3; auto | rewrite A2; auto | rewrite A4; auto].
    + eapply uchain_same; [|exact Hu]. simpl. rewrite A3, A5. reflexivity.
  - eapply holds_le; eauto. destruct Hsc as [->|?]; auto.
Qed.

Ltac qt_break H :=
  repeat match type of H with
  | context [if ?b then _ else _] => destruct b
  | context [match ?x with _ => _ end] => destruct x
  end.
Ltac qt :=
  let s := fresh "s" in let a := fresh "a" in let s' := fresh "s'" in let H := fresh "H" in
  intros s a s' H;
  unfold cbind, cret, cur, cget, upd, set_line, set_classes, cerr, cerr_here, cwhen, code_len, in_class in H;
  cbn in H; qt_break H; try discriminate; inversion H; subst; clear H;
  cbn; unfold same_core; cbn; repeat split; auto; try discriminate.

Lemma q_cur : quiet true cur. Proof. qt. Qed.
Lemma q_cget : quiet true cget. Proof. qt. Qed.
Lemma q_code_len : quiet true code_len. Proof. qt. Qed.
Lemma q_in_class : quiet true in_class. Proof. qt. Qed.
Lemma q_set_line l : quiet true (set_line l). Proof. qt. Qed.
Lemma q_set_classes l : quiet true (set_classes l). Proof. qt. Qed.
Lemma q_begin_scope : quiet false begin_scope. Proof. unfold begin_scope. qt. Qed.
Lemma q_scope_pred : quiet false (upd (fun c => with_scope c (pred (k_scope c)))). Proof. qt. Qed.
Lemma q_add_local x : quiet true (add_local x). Proof. unfold add_local. qt. Qed.
Lemma q_mark_last : quiet true mark_last_initialised.
Proof. unfold mark_last_initialised. intros s a s' H. unfold upd in H. inversion H; subst. cbn.
  destruct (k_locals (s_cur s)); cbn; unfold same_core; cbn; auto. Qed.
Lemma q_mark_initialised : quiet true mark_initialised.
Proof.
  unfold mark_initialised. intros s a s' H. unfold cbind, cur in H.
  destruct (Nat.eqb _ _). inversion H; subst. unfold same_core; auto. apply q_mark_last in H. auto.
Qed.
Lemma q_mark_slot n : quiet true (mark_initialised_slot n). Proof. unfold mark_initialised_slot. qt. Qed.
Lemma q_declare x l : quiet true (declare_variable x l).
Proof. unfold declare_variable, add_local. qt. Qed.
Lemma q_check_count n l msg : quiet true (check_count n l msg). Proof. unfold check_count. qt. Qed.
Lemma q_super_checks l : quiet true (super_checks l). Proof. unfold super_checks. qt. Qed.
Lemma q_lambdas : quiet true (upd (fun c => with_lambdas c (k_lambdas c + 1)%N)). Proof. qt. Qed.
Lemma q_arity : quiet true (upd (fun c => with_arity c (k_arity c + 1)%N)). Proof. qt. Qed.
Lemma q_try b f : quiet true (upd (fun c => with_try c (b c) (f c))). Proof. qt. Qed.
Lemma q_if {A} sc (b : bool) (m1 m2 : C A) : quiet sc m1 -> quiet sc m2 -> quiet sc (if b then m1 else m2).
Proof. destruct b; auto. Qed.
Lemma q_ret {A} (a : A) : quiet true (cret a). Proof. qt. Qed.
Lemma q_err {A} l msg : quiet true (@cerr A l msg). Proof. qt. Qed.

(* ------------------------------------------------------------------ *)
(* emission = appending whole instructions                              *)
Definition pushb (s : cstate) (bs : list N) (l : N) : cstate :=
  mkS (with_code (s_cur s) (k_code (s_cur s) ++ bs) (k_lines (s_cur s) ++ repeat l (length bs)))
      (s_outer s) (s_classes s) l.

Lemma emit_byte_push b l s : emit_byte b l s = COk (tt, pushb s [b] l).
Proof. reflexivity. Qed.
Lemma pushb_pushb s a b l : pushb (pushb s a l) b l = pushb s (a ++ b) l.
Proof.
  unfold pushb. cbn. f_equal. unfold with_code. cbn. f_equal.
  - rewrite app_assoc. reflexivity.
  - rewrite app_length, repeat_app, app_assoc. reflexivity.
Qed.
Lemma bind_push {A} b l (k : unit -> C A) s : cbind (emit_byte b l) k s = k tt (pushb s [b] l).
Proof. reflexivity. Qed.

Lemma emit_op_push o l s : emit_op o l s = COk (tt, pushb s (enc (o, [])) l).
Proof. reflexivity. Qed.
Lemma emit_op8_push o n l s : emit_op8 o n l s = COk (tt, pushb s (enc (o, [n])) l).
Proof. unfold emit_op8, emit_op. rewrite bind_push, emit_byte_push, pushb_pushb. reflexivity. Qed.
Lemma emit_op16_push o n l s :
  emit_op16 o n l s = COk (tt, pushb s (enc (o, [(n mod 256)%N; (n / 256)%N])) l).
Proof.
  unfold emit_op16, emit_op, emit_u16. rewrite !bind_push, emit_byte_push, !pushb_pushb. reflexivity.
Qed.

Lemma push_ok fs s G i l :
  sinv s G -> holds fs s G -> iok (k_consts (s_cur s)) (length (k_upvalues (s_cur s))) i ->
  let s' := pushb s (enc i) l in let G' := (fst G ++ [i], snd G) in
  sinv s' G' /\ le s G s' G' /\ holds fs s' G'.
Proof.
  intros [Hc Ho] Hf Hi s' G'.
  assert (Hle : le s G s' G').
  { split; [|split; [|split]]; simpl; auto using ext_app, F2ofix_refl.
    split; cbn; auto. exists []. rewrite app_nil_r; auto. }
  split; [|split]; auto.
  - split; simpl; auto. destruct Hc. constructor; cbn.
    + rewrite flat_app, ci_code0. simpl. rewrite app_nil_r. reflexivity.
    + apply Forall_app. split; auto.
    + auto.
    + eapply Forall_impl; [|eauto]. intros p Hp. eapply hole_ext; eauto. apply ext_app.
  - eapply holds_le; eauto.
Qed.

Lemma T_push {A} fs (m : C A) (Q : A -> list fact) :
  (forall s G a s', sinv s G -> holds fs s G -> m s = COk (a, s') ->
     exists i l, s' = pushb s (enc i) l /\ iok (k_consts (s_cur s)) (length (k_upvalues (s_cur s))) i /\
       (forall G', G' = (fst G ++ [i], snd G) -> holds fs s' G' -> holds (Q a) s' G')) ->
  T fs m Q.
Proof.
  intros Hm s G a s' Hs Hf H. destruct (Hm _ _ _ _ Hs Hf H) as (i & l & -> & Hi & Hq).
  destruct (push_ok fs s G i l Hs Hf Hi) as (A1 & A2 & A3).
  eexists. split; eauto.
Qed.

Lemma T_emit_op fs o l : layout_of o = L0 -> T fs (emit_op o l) (fun _ => fs).
Proof.
  intros Ho. apply T_push. intros s G a s' Hs Hf H. rewrite emit_op_push in H. inversion H; subst.
  exists (o, []), l. split; auto. split; auto. unfold iok. simpl. rewrite Ho. auto.
Qed.

Lemma T_emit_ops fs ops l : Forall (fun o => layout_of o = L0) ops -> T fs (emit_ops ops l) (fun _ => fs).
Proof.
  induction 1; simpl. apply T_ret. eapply T_bind. apply T_emit_op; auto. auto.
Qed.

Lemma T_emit_op8 fs o n l : layout_of o = L8 -> upv_op o = false -> T fs (emit_op8 o n l) (fun _ => fs).
Proof.
  intros Ho Hu. apply T_push. intros s G a s' Hs Hf H. rewrite emit_op8_push in H. inversion H; subst.
  exists (o, [n]), l. split; auto. split; auto. unfold iok. simpl. rewrite Ho. exists n. split; auto.
  rewrite Hu. discriminate.
Qed.

Lemma T_emit_op16 fs o n l :
  layout_of o = L16 -> o <> OpConstant -> (str_op o = true -> In (FStr n) fs) ->
  T fs (emit_op16 o n l) (fun _ => fs).
Proof.
  intros Ho Hc Hstr. apply T_push. intros s G a s' Hs Hf H. rewrite emit_op16_push in H. inversion H; subst.
  eexists _, l. split; [reflexivity|]. split; auto. unfold iok. simpl. rewrite Ho.
  eexists _, _. split; [reflexivity|]. rewrite u16_split. split; [|intros; contradiction].
  intros Hs'. apply (holds_in _ _ _ _ Hf (Hstr Hs')).
Qed.

(* op16 followed by one more operand byte: Invoke / SuperInvoke *)
Lemma emit_op16_8_push o n b l s :
  (emit_op16 o n l ;;; emit_byte b l) s = COk (tt, pushb s (enc (o, [(n mod 256)%N; (n / 256)%N; b])) l).
Proof.
  unfold cbind. rewrite emit_op16_push, emit_byte_push, pushb_pushb. reflexivity.
Qed.
Lemma T_emit_op16_8 fs o n b l :
  layout_of o = L16_8 -> In (FStr n) fs -> T fs (emit_op16 o n l ;;; emit_byte b l) (fun _ => fs).
Proof.
  intros Ho Hstr. apply T_push. intros s G a s' Hs Hf H. rewrite emit_op16_8_push in H. inversion H; subst.
  eexists _, l. split; [reflexivity|]. split; auto. unfold iok. simpl. rewrite Ho.
  eexists _, _, _. split; [reflexivity|]. rewrite u16_split. apply (holds_in _ _ _ _ Hf Hstr).
Qed.
Lemma T_emit_op16_8_k {A} fs o n b l (k : C A) R :
  layout_of o = L16_8 -> In (FStr n) fs -> T fs k R ->
  T fs (cbind (emit_op16 o n l) (fun _ => cbind (emit_byte b l) (fun _ => k))) R.
Proof.
  intros Ho Hstr Hk.
  eapply T_ext with (m := cbind (emit_op16 o n l ;;; emit_byte b l) (fun _ => k)).
  - eapply T_bind. apply T_emit_op16_8; auto. intros u. exact Hk.
  - intros s. unfold cbind. destruct (emit_op16 o n l s) as [[[] s1]|]; auto.
Qed.

(* variable instructions *)
Lemma T_emit_variable_op fs o arg l g s_ :
  In (FVar g s_ arg) fs -> (o = g \/ o = s_) -> T fs (emit_variable_op o arg l) (fun _ => fs).
Proof.
  intros Hin Ho. apply T_push. intros s G a s' Hs Hf H.
  pose proof (holds_in _ _ _ _ Hf Hin) as Hv. simpl in Hv.
  unfold emit_variable_op in H.
  assert (Hcase : (is_op8 o = true /\ layout_of o = L8 /\ (upv_op o = true -> N.to_nat arg < length (k_upvalues (s_cur s)))) \/
                  (is_op8 o = false /\ layout_of o = L16 /\ str_op o = true /\ o <> OpConstant /\ kstr (k_consts (s_cur s)) arg)).
  { destruct Hv as [(->&->)|[(->&->&Hu)|(->&->&Hk)]]; destruct Ho as [->| ->]; simpl.
    all: try (left; repeat split; auto; discriminate).
    all: right; repeat split; auto; discriminate. }
  destruct Hcase as [(E & Hl & Hu)|(E & Hl & Hso & Hc & Hk)]; rewrite E in H.
  - rewrite emit_op8_push in H. inversion H; subst. eexists _, l. split; [reflexivity|]. split; auto.
    unfold iok. simpl. rewrite Hl. eauto.
  - rewrite emit_op16_push in H. inversion H; subst. eexists _, l. split; [reflexivity|]. split; auto.
    unfold iok. simpl. rewrite Hl. eexists _, _. split; [reflexivity|]. rewrite u16_split.
    split; auto. intros; contradiction.
Qed.

(* jumps *)
Lemma emit_jump_push o l s :
  emit_jump o l s = COk (length (k_code (s_cur s)) + 1, pushb s (enc (o, [255%N; 255%N])) l).
Proof.
  unfold emit_jump, emit_op. rewrite !bind_push. unfold cbind, code_len, cret.
  rewrite !pushb_pushb. f_equal. f_equal. cbn. rewrite app_length. simpl. lia.
Qed.
Lemma T_emit_jump fs o l : is_jump16 o = true -> T fs (emit_jump o l) (fun p => FHole p :: fs).
Proof.
  intros Ho. apply T_push. intros s G a s' Hs Hf H. rewrite emit_jump_push in H. inversion H; subst.
  eexists _, l. split; [reflexivity|]. split.
  - unfold iok. simpl. destruct o; try discriminate; simpl; eexists _, _; split; auto; split; intros; discriminate.
  - intros G' -> Hh. constructor; auto. simpl.
    exists (fst G), o, 255%N, 255%N, []. split; auto. split; auto.
    destruct Hs as [[] _]. congruence.
Qed.

Lemma patch16_run pos v s :
  patch16 pos v s = COk (tt, mkS (with_code (s_cur s) (set_nth (S pos) (N.div v 256) (set_nth pos (N.modulo v 256) (k_code (s_cur s)))) (k_lines (s_cur s))) (s_outer s) (s_classes s) (s_line s)).
Proof. reflexivity. Qed.

Lemma patched_ok fs s G g' code' :
  sinv s G -> holds fs s G -> code' = flat g' -> Forall2 sp (fst G) g' ->
  (forall ks nu, Forall (iok ks nu) (fst G) -> Forall (iok ks nu) g') ->
  let s' := mkS (with_code (s_cur s) code' (k_lines (s_cur s))) (s_outer s) (s_classes s) (s_line s) in
  let G' := (g', snd G) in
  sinv s' G' /\ le s G s' G' /\ holds fs s' G'.
Proof.
  intros [Hc Ho] Hf Hcode Hsp Hiok s' G'.
  assert (Hext : ext (fst G) g'). { exists g', []. rewrite app_nil_r. auto. }
  assert (Hle : le s G s' G').
  { split; [|split; [|split]]; simpl; auto using F2ofix_refl.
    split; cbn; auto. exists []. rewrite app_nil_r; auto. }
  split; [|split]; auto.
  - split; simpl; auto. destruct Hc. constructor; cbn; auto.
    eapply Forall_impl; [|eauto]. intros p Hp. eapply hole_ext; eauto.
  - eapply holds_le; eauto.
Qed.

Lemma T_patch_jump fs p : In (FHole p) fs -> T fs (patch_jump p) (fun _ => fs).
Proof.
  intros Hin s G a s' Hs Hf H. unfold patch_jump, cbind, code_len in H.
  destruct (N.ltb _ _); [discriminate|]. rewrite patch16_run in H. inversion H; subst; clear H.
  pose proof (holds_in _ _ _ _ Hf Hin) as Hh. simpl in Hh.
  destruct (patch_hole _ _ (N.of_nat (length (k_code (s_cur s)) - p - 2) mod 256)%N
                       (N.of_nat (length (k_code (s_cur s)) - p - 2) / 256)%N Hh) as (g' & E & Hsp & Hiok).
  destruct Hs as [Hc Ho]. pose proof (ci_code _ _ Hc) as Hcode.
  eexists. eapply patched_ok; eauto. split; auto. rewrite Hcode in E |- *. exact E.
Qed.

Lemma T_patch_offset_at fs pos off p :
  In (FHandler p) fs -> (pos = p + 0 \/ pos = p + 2) -> T fs (patch_offset_at pos off) (fun _ => fs).
Proof.
  intros Hin Hpos s G a s' Hs Hf H. unfold patch_offset_at, cbind, code_len in H.
  destruct (N.ltb _ _); [discriminate|]. rewrite patch16_run in H. inversion H; subst; clear H.
  pose proof (holds_in _ _ _ _ Hf Hin) as Hh. simpl in Hh.
  assert (exists k, pos = p + k /\ (k = 0 \/ k = 2)) as (k & -> & Hk) by (destruct Hpos; eauto).
  destruct (patch_handler _ _ k (N.of_nat (length (k_code (s_cur s)) - off) mod 256)%N
                       (N.of_nat (length (k_code (s_cur s)) - off) / 256)%N Hh Hk) as (g' & E & Hsp & Hiok).
  destruct Hs as [Hc Ho]. pose proof (ci_code _ _ Hc) as Hcode.
  eexists. eapply patched_ok; eauto. split; auto. rewrite Hcode in E |- *. exact E.
Qed.

Lemma T_patch_jumps fs ps : (forall p, In p ps -> In (FHole p) fs) -> T fs (patch_jumps ps) (fun _ => fs).
Proof.
  induction ps; simpl; intros H. apply T_ret.
  eapply T_bind. apply T_patch_jump. apply H; auto. intros u. apply IHps. auto.
Qed.

Lemma T_emit_loop fs ls l : T fs (emit_loop ls l) (fun _ => fs).
Proof.
  apply T_push. intros s G a s' Hs Hf H. unfold emit_loop, emit_op in H. rewrite bind_push in H.
  unfold cbind, code_len in H. destruct (N.ltb _ _); [discriminate|].
  unfold emit_u16 in H. rewrite bind_push, emit_byte_push, !pushb_pushb in H. inversion H; subst.
  eexists (OpLoop, [_; _]), l. split; [reflexivity|]. split; auto.
  unfold iok. simpl. eexists _, _. split; auto. split; intros; discriminate.
Qed.

(* ------------------------------------------------------------------ *)
(* constants                                                            *)
Lemma const_index_nth tbl c i : const_index tbl c = Some i -> exists d, nth_error tbl i = Some d /\ const_eqb d c = true.
Proof.
  revert i. induction tbl; simpl; intros i H. discriminate.
  destruct (const_eqb a c) eqn:E. inversion H; subst. simpl. eauto.
  destruct (const_index tbl c); inversion H; subst. simpl. eauto.
Qed.

Lemma bytes_eqb_eq a b : bytes_eqb a b = true -> a = b.
Proof.
  revert b. induction a; destruct b; simpl; intros H; try discriminate; auto.
  apply andb_true_iff in H. destruct H as [H1 H2]. apply Byte.byte_dec_bl in H1. subst. f_equal. auto.
Qed.

Definition knd (c : const) (ks : list const) (i : N) : Prop :=
  match c with
  | KStr _ => kstr ks i
  | KNum _ => knotfun ks i
  | KFun f => nth_error ks (N.to_nat i) = Some (KFun f)
  end.

Lemma make_constant_run c s i s' :
  good_const c -> make_constant c s = COk (i, s') ->
  exists more, s' = mkS (with_consts (s_cur s) (k_consts (s_cur s) ++ more)) (s_outer s) (s_classes s) (s_line s) /\
               Forall good_const more /\ knd c (k_consts (s_cur s) ++ more) i.
Proof.
  intros Hc H. unfold make_constant, cbind, cur in H.
  destruct (const_index (k_consts (s_cur s)) c) eqn:E.
  - destruct (N.ltb 65535 (N.of_nat n)); [discriminate|]. inversion H; subst; clear H.
    exists []. rewrite app_nil_r. split; [|split]; auto.
    + destruct s' as [c0 o cl ln]. destruct c0. reflexivity.
    + apply const_index_nth in E. destruct E as (d & Hn & He).
      destruct c as [x|x|x], d as [y|y|y]; simpl in He; try discriminate; unfold knd, kstr, knotfun; rewrite Nat2N.id.
      * exists (KNum y). split; auto. intros; discriminate.
      * exists y. auto.
  - unfold upd in H. cbn [s_cur s_outer s_classes s_line] in H.
    destruct (N.ltb 65535 _); [discriminate|]. inversion H; subst; clear H.
    exists [c]. split; [|split]; auto.
    assert (Hn : nth_error (k_consts (s_cur s) ++ [c]) (length (k_consts (s_cur s))) = Some c).
    { rewrite nth_error_app2 by lia. rewrite Nat.sub_diag. reflexivity. }
    destruct c as [x|x|x]; unfold knd, kstr, knotfun; rewrite Nat2N.id; auto.
    + exists (KNum x). split; auto. intros; discriminate.
    + exists x. auto.
Qed.

Lemma consts_step fs s G more :
  sinv s G -> holds fs s G -> Forall good_const more ->
  let s' := mkS (with_consts (s_cur s) (k_consts (s_cur s) ++ more)) (s_outer s) (s_classes s) (s_line s) in
  sinv s' G /\ le s G s' G /\ holds fs s' G.
Proof.
  intros [Hc Ho] Hf Hm s'.
  assert (Hle : le s G s' G).
  { split; [|split; [|split]]; simpl; auto using ext_refl, F2ofix_refl. split; cbn; eauto. }
  split; [|split]; auto.
  - split; simpl; auto. destruct Hc. constructor; cbn; auto.
    + eapply Forall_impl; [|eauto]. intros. eapply iok_mono; eauto.
    + apply Forall_app; auto.
  - eapply holds_le; eauto.
Qed.

Definition kfacts (c : const) (i : N) : list fact :=
  match c with KStr _ => [FStr i] | KFun f => [FFun i f] | KNum _ => [] end.

Lemma T_make_constant fs c : good_const c -> T fs (make_constant c) (fun i => kfacts c i ++ fs).
Proof.
  intros Hc s G i s' Hs Hf H. destruct (make_constant_run _ _ _ _ Hc H) as (more & -> & Hm & Hk).
  destruct (consts_step fs s G more Hs Hf Hm) as (A1 & A2 & A3).
  exists G. split; auto. split; auto. unfold holds. apply Forall_app. split; auto.
  destruct c; simpl; auto.
Qed.

Lemma T_identifier_constant fs x : T fs (identifier_constant x) (fun i => FStr i :: fs).
Proof. apply (T_make_constant fs (KStr x)). constructor. Qed.

Lemma T_emit_constant fs c l : (forall f, c <> KFun f) -> T fs (emit_constant c l) (fun _ => fs).
Proof.
  intros Hnf s G a s' Hs Hf H. unfold emit_constant, cbind, set_line in H.
  destruct (make_constant c _) as [[i s1]|] eqn:E; [|discriminate].
  assert (Hgc : good_const c) by (destruct c; try constructor; exfalso; eapply Hnf; eauto).
  destruct (make_constant_run _ _ _ _ Hgc E) as (more & -> & Hm & Hk).
  set (s0 := mkS (s_cur s) (s_outer s) (s_classes s) l) in *.
  assert (Hs0 : sinv s0 G) by (destruct Hs; split; auto).
  assert (Hf0 : holds fs s0 G) by exact Hf.
  destruct (consts_step fs s0 G more Hs0 Hf0 Hm) as (A1 & A2 & A3).
  rewrite emit_op16_push in H. inversion H; subst; clear H.
  match goal with |- context [pushb ?s1 (enc ?i) ?l] =>
    destruct (push_ok fs s1 G i l A1 A3) as (B1 & B2 & B3) end.
  { unfold iok. simpl. eexists _, _. split; [reflexivity|]. rewrite u16_split. split; [intros; discriminate|].
    intros _. destruct c; simpl in Hk; auto. destruct Hk as [x Hx]. exists (KStr x). split; auto. intros; discriminate.
    exfalso. eapply Hnf; eauto. }
  eexists. split; eauto. split; eauto.
  eapply le_trans; [|exact B2]. exact A2.
Qed.

(* ------------------------------------------------------------------ *)
(* loops and breaks                                                     *)
Lemma brk_step fs s G bs :
  sinv s G -> holds fs s G -> Forall (hole_at (fst G)) (concat bs) ->
  let s' := mkS (with_loops (s_cur s) (k_loops (s_cur s)) bs) (s_outer s) (s_classes s) (s_line s) in
  forall ls, let s'' := mkS (with_loops (s_cur s) ls bs) (s_outer s) (s_classes s) (s_line s) in
  sinv s'' G /\ le s G s'' G /\ holds fs s'' G.
Proof.
  intros [Hc Ho] Hf Hb s' ls s''.
  assert (Hle : le s G s'' G).
  { split; [|split; [|split]]; simpl; auto using ext_refl, F2ofix_refl. split; cbn; auto. exists []. rewrite app_nil_r; auto. }
  split; [|split]; auto.
  split; simpl; auto. destruct Hc. constructor; cbn; auto.
Qed.

Lemma T_push_loop fs : T fs push_loop (fun _ => fs).
Proof.
  intros s G a s' Hs Hf H. unfold push_loop, upd in H. inversion H; subst; clear H.
  exists G. eapply (brk_step fs s G ([] :: k_breaks (s_cur s))); eauto. simpl. destruct Hs as [[] _]; auto.
Qed.

Lemma T_push_break fs p : In (FHole p) fs -> T fs (push_break p) (fun _ => fs).
Proof.
  intros Hin s G a s' Hs Hf H. unfold push_break, upd in H. inversion H; subst; clear H.
  pose proof (holds_in _ _ _ _ Hf Hin) as Hh. simpl in Hh.
  destruct (k_breaks (s_cur s)) as [|b r] eqn:E.
  - exists G. split; [|split]. { destruct Hs; split; auto. } { destruct s; apply le_refl. } { exact Hf. }
  - exists G. eapply (brk_step fs s G ((p :: b) :: r)); eauto. simpl. constructor; auto.
    destruct Hs as [[] _]. rewrite E in ci_breaks0. auto.
Qed.

Lemma T_pop_loop fs : T fs pop_loop (fun _ => fs).
Proof.
  intros s G a s' Hs Hf H. unfold pop_loop in H. unfold cbind at 1 in H. unfold cur in H.
  unfold cbind at 1 in H. unfold upd at 1 in H.
  set (bps := match k_breaks (s_cur s) with b :: _ => rev b | [] => [] end) in *.
  set (s1 := mkS (with_loops (s_cur s) (tl (k_loops (s_cur s))) (tl (k_breaks (s_cur s)))) (s_outer s) (s_classes s) (s_line s)) in *.
  assert (Hb : Forall (hole_at (fst G)) bps /\ Forall (hole_at (fst G)) (concat (tl (k_breaks (s_cur s))))).
  { destruct Hs as [[] _]. destruct (k_breaks (s_cur s)) as [|b r]; simpl in *; auto.
    apply Forall_app in ci_breaks0. destruct ci_breaks0. split; auto. apply Forall_rev. auto. }
  destruct Hb as [Hb1 Hb2].
  destruct (brk_step fs s G (tl (k_breaks (s_cur s))) Hs Hf Hb2 (tl (k_loops (s_cur s)))) as (A1 & A2 & A3).
  fold s1 in A1, A2, A3.
  assert (HT : T (map FHole bps ++ fs) (patch_jumps bps) (fun _ => map FHole bps ++ fs)).
  { apply T_patch_jumps. intros p Hp. apply in_or_app. left. apply in_map. auto. }
  assert (Hf1 : holds (map FHole bps ++ fs) s1 G).
  { unfold holds. apply Forall_app. split; auto. apply Forall_map. eapply Forall_impl; [|exact Hb1]. auto. }
  destruct (HT _ _ _ _ A1 Hf1 H) as (G2 & B1 & B2 & B3).
  exists G2. split; auto. split. eapply le_trans; [exact A2|exact B2].
  unfold holds in B3. apply Forall_app in B3. exact (proj2 B3).
Qed.

(* ------------------------------------------------------------------ *)
(* scope ends                                                           *)
Lemma scope_end_ops_L0 d ls : Forall (fun o => layout_of o = L0) (scope_end_ops d ls).
Proof.
  induction ls; simpl; auto. destruct (kl_depth a); auto. destruct (Nat.leb n d); auto.
  constructor; auto. destruct (kl_captured a); reflexivity.
Qed.

Lemma q_with_locals f : quiet true (upd (fun c => with_locals c (f c))). Proof. qt. Qed.

Lemma T_emit_scope_end fs b d l : T fs (emit_scope_end b d l) (fun _ => fs).
Proof.
  unfold emit_scope_end. eapply T_bind. apply (T_quiet true); auto using q_cur. intros k.
  eapply T_bind. apply T_emit_ops, scope_end_ops_L0. intros u.
  destruct b. apply (T_quiet true); auto. apply q_with_locals. apply T_ret.
Qed.

Lemma T_end_scope fs l : nodef fs = true -> T fs (end_scope l) (fun _ => fs).
Proof.
  intros Hn. unfold end_scope. eapply T_bind. apply (T_quiet false); auto using q_scope_pred. intros u.
  eapply T_bind. apply (T_quiet true); auto using q_cur. intros k. apply T_emit_scope_end.
Qed.

(* ------------------------------------------------------------------ *)
(* variable resolution                                                  *)
Lemma add_upvalue_rel c i il u c' :
  add_upvalue c i il = Some (u, c') -> ofix c c' /\ N.to_nat u < length (k_upvalues c').
Proof.
  unfold add_upvalue. destruct (find_upvalue (k_upvalues c) i il 0) eqn:E.
  - intros H; inversion H; subst. split. apply ofix_refl. apply find_upvalue_lt in E. lia.
  - destruct (Nat.eqb _ _); [discriminate|]. intros H; inversion H; subst; clear H. cbn.
    split. repeat split; cbn; auto. rewrite app_length; simpl; lia.
    rewrite Nat2N.id, app_length. simpl. lia.
Qed.

Lemma capture_slot_rel e i : ofix e (capture_slot e i).
Proof. unfold capture_slot. repeat split; cbn; auto. Qed.

Lemma resolve_upvalue_rel name outer : forall c i c' outer',
  resolve_upvalue_in name c outer = UFound i c' outer' ->
  ofix c c' /\ Forall2 ofix outer outer' /\ N.to_nat i < length (k_upvalues c').
Proof.
  induction outer as [|e outer IH]; simpl; intros c i c' outer' H. discriminate.
  destruct (resolve_local_c e name) eqn:E.
  - destruct (add_upvalue c (N.of_nat i0) true) as [[u c1]|] eqn:E2; [|discriminate].
    inversion H; subst; clear H. apply add_upvalue_rel in E2. destruct E2. split; auto. split; auto.
    constructor. apply capture_slot_rel. apply F2ofix_refl.
  - destruct (resolve_upvalue_in name e outer) as [i1 e1 o1| |] eqn:E2; try discriminate.
    destruct (add_upvalue c i1 false) as [[u c1]|] eqn:E3; [|discriminate].
    inversion H; subst; clear H. apply add_upvalue_rel in E3. destruct E3.
    destruct (IH _ _ _ _ E2) as (A1 & A2 & A3). split; auto.
  - destruct (resolve_upvalue_in name e outer) as [i1 e1 o1| |] eqn:E2; try discriminate.
    destruct (add_upvalue c i1 false) as [[u c1]|] eqn:E3; [|discriminate].
    inversion H; subst; clear H. apply add_upvalue_rel in E3. destruct E3.
    destruct (IH _ _ _ _ E2) as (A1 & A2 & A3). split; auto.
Qed.

Lemma uok_mono c n n' : n <= n' -> uok c n -> uok c n'.
Proof. intros Hn H. unfold uok in *. eapply Forall_impl; [|exact H]. intros u Hu Hs. specialize (Hu Hs). lia. Qed.

Lemma add_upvalue_uok c i il u c' n :
  add_upvalue c i il = Some (u, c') -> uok c n -> (il = false -> N.to_nat i < n) -> uok c' n.
Proof.
  unfold add_upvalue. destruct (find_upvalue (k_upvalues c) i il 0).
  - intros H; inversion H; subst. auto.
  - destruct (Nat.eqb _ _); [discriminate|]. intros H; inversion H; subst; clear H. intros Hc Hi.
    unfold uok in *. cbn. apply Forall_app. split; auto.
Qed.

Lemma resolve_upvalue_chain name outer : forall c i c' outer',
  resolve_upvalue_in name c outer = UFound i c' outer' -> uchain (c :: outer) -> uchain (c' :: outer').
Proof.
  induction outer as [|e outer IH]; simpl; intros c i c' outer' H Hu. discriminate.
  destruct Hu as [Hc Hr].
  destruct (resolve_local_c e name) eqn:E.
  - destruct (add_upvalue c (N.of_nat i0) true) as [[u c1]|] eqn:E2; [|discriminate].
    inversion H; subst; clear H. split.
    + eapply add_upvalue_uok; eauto. discriminate.
    + eapply (uchain_same (e :: outer)); [|exact Hr]. reflexivity.
  - destruct (resolve_upvalue_in name e outer) as [i1 e1 o1| |] eqn:E2; try discriminate.
    destruct (add_upvalue c i1 false) as [[u c1]|] eqn:E3; [|discriminate].
    inversion H; subst; clear H.
    destruct (resolve_upvalue_rel _ _ _ _ _ _ E2) as (A1 & A2 & A3).
    split; [|eapply IH; eauto].
    eapply add_upvalue_uok; eauto. eapply uok_mono; [|exact Hc]. destruct A1 as (_ & _ & _ & _ & _ & A). exact A.
  - destruct (resolve_upvalue_in name e outer) as [i1 e1 o1| |] eqn:E2; try discriminate.
    destruct (add_upvalue c i1 false) as [[u c1]|] eqn:E3; [|discriminate].
    inversion H; subst; clear H.
    destruct (resolve_upvalue_rel _ _ _ _ _ _ E2) as (A1 & A2 & A3).
    split; [|eapply IH; eauto].
    eapply add_upvalue_uok; eauto. eapply uok_mono; [|exact Hc]. destruct A1 as (_ & _ & _ & _ & _ & A). exact A.
Qed.

Lemma T_resolve_global fs x l :
  T fs (set_line l ;;; g <- identifier_constant x ;; cret (OpGetGlobal, OpSetGlobal, g))
    (fun r => FVar (fst (fst r)) (snd (fst r)) (snd r) :: fs).
Proof.
  eapply T_bind. apply (T_quiet true); auto using q_set_line. intros u.
  eapply T_bind. apply T_identifier_constant. intros g.
  intros s G a s' Hs Hf H. inversion H; subst; clear H. exists G. split; auto. split. apply le_refl.
  inversion Hf; subst. constructor; auto. simpl. right; right. auto.
Qed.

Lemma T_resolve_variable fs x l :
  T fs (resolve_variable x l) (fun r => FVar (fst (fst r)) (snd (fst r)) (snd r) :: fs).
Proof.
  intros s G a s' Hs Hf H. unfold resolve_variable in H. unfold cbind at 1 in H. unfold cur at 1 in H.
  destruct (resolve_local_c (s_cur s) x).
  - inversion H; subst; clear H. exists G. split; auto. split. apply le_refl. constructor; auto. simpl. auto.
  - discriminate.
  - unfold cbind at 1 in H. unfold cget at 1 in H.
    destruct (resolve_upvalue_in x (s_cur s) (s_outer s)) as [i c' o'| |] eqn:E.
    + unfold cbind, cret in H. inversion H; subst; clear H.
      destruct (resolve_upvalue_rel _ _ _ _ _ _ E) as (A1 & A2 & A3).
      destruct Hs as [Hc [Ho Hu]].
      assert (Hle : le s G (mkS c' o' (s_classes s) (s_line s)) G).
      { split; [|split; [|split]]; simpl; auto using ext_refl. apply ofix_cgrow; auto. }
      exists G. split; [|split]; auto.
      * split; [|split]; simpl. eapply cinv_ofix; eauto. eapply F2cinv_ofix; eauto.
        eapply resolve_upvalue_chain; eauto.
      * constructor. simpl. right; left. auto.
        eapply holds_le; eauto. left. simpl. apply A1.
    + eapply T_resolve_global; eauto.
    + discriminate.
Qed.

Lemma T_named_get fs x l : T fs (named_get x l) (fun _ => fs).
Proof.
  unfold named_get. eapply T_bind. apply T_resolve_variable. intros [[g s_] arg]. simpl.
  eapply T_post. eapply T_emit_variable_op. left; reflexivity. auto. intros u. apply incl_tl, incl_refl.
Qed.

Lemma T_parse_variable fs x l : T fs (parse_variable x l) (fun g => FDef g :: fs).
Proof.
  unfold parse_variable. eapply T_bind. apply (T_quiet true); auto using q_declare. intros u.
  intros s G a s' Hs Hf H. unfold cbind at 1 in H. unfold cur at 1 in H.
  destruct (Nat.ltb 0 (k_scope (s_cur s))) eqn:E.
  - inversion H; subst; clear H. exists G. split; auto. split. apply le_refl. constructor; auto.
    simpl. left. apply Nat.ltb_lt; auto.
  - destruct (T_identifier_constant fs x _ _ _ _ Hs Hf H) as (G' & A1 & A2 & A3).
    exists G'. split; auto. split; auto. inversion A3; subst. constructor; auto. simpl. right. auto.
Qed.

Lemma T_define_variable fs g l : In (FDef g) fs -> T fs (define_variable g l) (fun _ => fs).
Proof.
  intros Hin s G a s' Hs Hf H. unfold define_variable in H. unfold cbind at 1 in H. unfold cur at 1 in H.
  destruct (Nat.ltb 0 (k_scope (s_cur s))) eqn:E.
  - eapply (T_quiet true); eauto using q_mark_initialised.
  - pose proof (holds_in _ _ _ _ Hf Hin) as Hd. simpl in Hd. apply Nat.ltb_ge in E.
    destruct Hd as [Hd|Hd]; [lia|].
    assert (HT : T (FStr g :: fs) (emit_op16 OpDefineGlobal g l) (fun _ => FStr g :: fs)).
    { apply T_emit_op16; auto. discriminate. simpl; auto. }
    destruct (HT s G a s') as (G' & A1 & A2 & A3); auto. constructor; auto.
    exists G'. split; auto. split; auto. inversion A3; auto.
Qed.

Lemma T_define_variable_str fs g l : In (FStr g) fs -> T fs (define_variable g l) (fun _ => fs).
Proof.
  intros Hin s G a s' Hs Hf H. unfold define_variable in H. unfold cbind at 1 in H. unfold cur at 1 in H.
  destruct (Nat.ltb 0 (k_scope (s_cur s))) eqn:E.
  - eapply (T_quiet true); eauto using q_mark_initialised.
  - eapply T_emit_op16; eauto. reflexivity. discriminate.
Qed.

(* ------------------------------------------------------------------ *)
(* functions                                                            *)
Lemma T_emit_return fs l : T fs (emit_return l) (fun _ => fs).
Proof.
  unfold emit_return. eapply T_bind. apply (T_quiet true); auto using q_cur. intros k.
  eapply T_bind. { destruct (fk_eqb _ _). apply T_emit_op8; reflexivity. apply T_emit_op; reflexivity. }
  intros u. eapply T_bind.
  { unfold cwhen. destruct (k_in_try k). apply T_emit_op; reflexivity. apply T_ret. }
  intros u2. apply T_emit_op; reflexivity.
Qed.

Definition fu_good (fu : func * list (N * bool)) : Prop :=
  good_func (fst fu) /\ f_upvalues (fst fu) = N.of_nat (length (snd fu)).

Definition in_function {A} (k : fk) (name : list byte) (body : C unit) (l : N)
           (K : func * list (N * bool) -> C A) : C A :=
  new_compiler k name ;;; body ;;; fu <- finalise_compiler l ;; K fu.

Lemma T_in_function {A} fs k name body l (K : func * list (N * bool) -> C A) R (Pu : list (N * bool) -> Prop) :
  T [] body (fun _ => []) ->
  (forall s a s', k_upvalues (s_cur s) = [] -> (body ;;; emit_return l) s = COk (a, s') -> Pu (k_upvalues (s_cur s'))) ->
  (forall fu, T (FPure (fu_good fu /\ Pu (snd fu)) :: FDesc (snd fu) :: fs) (K fu) R) ->
  T fs (in_function k name body l K) R.
Proof.
  intros Hb Hpu HK s G a s' Hs Hf H. destruct Hs as [Hc [Ho Hu]]. unfold in_function in H.
  unfold cbind at 1 in H. unfold new_compiler at 1 in H.
  set (s1 := mkS (new_comp k name) (s_cur s :: s_outer s) (s_classes s) (s_line s)) in *.
  set (G1 := ([], fst G :: snd G) : GS).
  assert (Hs1 : sinv s1 G1).
  { split; [|split]; simpl. constructor; simpl; auto. constructor; auto. split; auto. constructor. }
  unfold cbind at 1 in H. destruct (body s1) as [[[] s2]|] eqn:E2; [|discriminate].
  destruct (Hb _ _ _ _ Hs1 (Forall_nil _) E2) as (G2 & Hs2 & Hle2 & _).
  unfold cbind at 1 in H. unfold finalise_compiler in H. unfold cbind at 1 in H.
  destruct (emit_return l s2) as [[[] s3]|] eqn:E3; [|discriminate].
  assert (Hpu3 : Pu (k_upvalues (s_cur s3))).
  { apply (Hpu s1 tt s3). reflexivity. unfold cbind. rewrite E2. exact E3. }
  destruct (T_emit_return [] l _ _ _ _ Hs2 (Forall_nil _) E3) as (G3 & Hs3 & Hle3 & _).
  pose proof (le_trans _ _ _ _ _ _ Hle2 Hle3) as Hle. destruct Hle as (_ & _ & Hof & Hsnd).
  simpl in Hof, Hsnd. destruct Hs3 as [Hc3 [Ho3 Hu3]]. rewrite Hsnd in Ho3.
  destruct (s_outer s3) as [|e3 o3]; [inversion Hof|].
  inversion Hof as [|x1 x2 x3 x4 Hxe Hoo]; subst.
  inversion Ho3 as [|y1 y2 y3 y4 Hce Hco]; subst.
  destruct Hu3 as [Hu3a Hu3b].
  set (fu := (func_of_comp (s_cur s3), k_upvalues (s_cur s3))) in *.
  set (s4 := mkS e3 o3 (s_classes s3) (s_line s3)) in *.
  assert (Hs4 : sinv s4 G) by (split; [|split]; auto).
  assert (Hle4 : le s G s4 G).
  { split; [|split; [|split]]; simpl; auto using ext_refl. apply ofix_cgrow; auto. }
  assert (Hfu : fu_good fu).
  { split; simpl; auto. destruct Hc3. unfold func_of_comp. econstructor; eauto. rewrite Nat2N.id. auto. }
  assert (Hf4 : holds (FPure (fu_good fu /\ Pu (snd fu)) :: FDesc (snd fu) :: fs) s4 G).
  { constructor. simpl. split; auto. constructor. simpl. exact Hu3a. eapply holds_le; eauto. left. simpl. apply Hxe. }
  destruct (HK fu _ _ _ _ Hs4 Hf4 H) as (G5 & A1 & A2 & A3).
  exists G5. split; auto. split; auto. eapply le_trans; eauto.
Qed.

Lemma T_pure_impl {A} (X Y : Prop) fs (m : C A) Q : (X -> Y) -> T (FPure Y :: fs) m Q -> T (FPure X :: fs) m Q.
Proof.
  intros HXY Hm s G a s' Hs Hf H. apply (Hm s G a s'); auto. inversion Hf; subst. constructor; auto. simpl. auto.
Qed.

Definition uvb (us : list (N * bool)) : list N :=
  flat_map (fun u : N * bool => [if snd u then 1%N else 0%N; fst u]) us.

Lemma emit_upvalues_push us l : forall s pre,
  emit_upvalues us l (pushb s pre l) = COk (tt, pushb s (pre ++ uvb us) l).
Proof.
  induction us as [|[i il] us IH]; intros s pre; simpl.
  - rewrite app_nil_r. reflexivity.
  - rewrite !bind_push, !pushb_pushb, IH. rewrite <- !app_assoc. reflexivity.
Qed.

Lemma uvb_length us : length (uvb us) = 2 * length us.
Proof. induction us; simpl; auto. lia. Qed.

Lemma dok_uvb us nu :
  Forall (fun u : N * bool => snd u = false -> N.to_nat (fst u) < nu) us -> dok (uvb us) nu.
Proof.
  induction 1 as [|[i il] us Hu Hr IH]; simpl; auto. split; auto. destruct il; simpl in *; auto. discriminate.
Qed.

Lemma T_emit_closure fs fu l :
  In (FPure (fu_good fu)) fs -> In (FDesc (snd fu)) fs -> T fs (emit_closure fu l) (fun _ => fs).
Proof.
  intros Hin Hind s G a s' Hs Hf H.
  pose proof (holds_in _ _ _ _ Hf Hind) as Hdesc. simpl in Hdesc.
  pose proof (holds_in _ _ _ _ Hf Hin) as Hg. simpl in Hg. destruct Hg as [Hg Hu].
  unfold emit_closure in H. unfold cbind at 1 in H.
  destruct (make_constant (KFun (fst fu)) s) as [[c s1]|] eqn:E; [|discriminate].
  assert (Hgc : good_const (KFun (fst fu))) by (constructor; auto).
  destruct (make_constant_run _ _ _ _ Hgc E) as (more & -> & Hm & Hk). simpl in Hk.
  destruct (consts_step fs s G more Hs Hf Hm) as (A1 & A2 & A3).
  unfold cbind in H. rewrite emit_op16_push in H. rewrite emit_upvalues_push in H.
  inversion H; subst; clear H.
  match goal with |- context [pushb ?s1 ?bs ?l] =>
    destruct (push_ok fs s1 G (OpClosure, [(c mod 256)%N; (c / 256)%N] ++ uvb (snd fu)) l A1 A3) as (B1 & B2 & B3) end.
  { unfold iok. simpl. eexists _, _, (fst fu), _. split; [reflexivity|]. rewrite u16_split. split; auto.
    split. rewrite uvb_length, Hu, Nat2N.id. reflexivity. apply dok_uvb. exact Hdesc. }
  eexists. split; [exact B1|]. split; [|exact B3]. eapply le_trans; [exact A2|exact B2].
Qed.

(* PushExcHandler and its four placeholder bytes *)
Lemma T_push_handler {A} fs l (K : nat -> C A) R :
  (forall hp, T (FHandler hp :: fs) (K hp) R) ->
  T fs (cbind (emit_op OpPushExcHandler l) (fun _ => cbind code_len (fun hp =>
        cbind (emit_byte 255%N l) (fun _ => cbind (emit_byte 255%N l) (fun _ =>
        cbind (emit_byte 255%N l) (fun _ => cbind (emit_byte 255%N l) (fun _ => K hp))))))) R.
Proof.
  intros HK s G a s' Hs Hf H. unfold emit_op in H. rewrite bind_push in H.
  unfold cbind at 1 in H. unfold code_len at 1 in H.
  rewrite !bind_push, !pushb_pushb in H.
  destruct (push_ok fs s G (OpPushExcHandler, [255; 255; 255; 255]%N) l Hs Hf) as (B1 & B2 & B3).
  { unfold iok. simpl. eauto 6. }
  match type of H with K ?hp _ = _ => set (hp0 := hp) in * end.
  assert (Hh : holds (FHandler hp0 :: fs) (pushb s (enc (OpPushExcHandler, [255; 255; 255; 255]%N)) l)
                     (fst G ++ [(OpPushExcHandler, [255; 255; 255; 255]%N)], snd G)).
  { constructor; auto. simpl. exists (fst G), 255%N, 255%N, 255%N, 255%N, []. split; auto.
    destruct Hs as [[] _]. unfold hp0. cbn. rewrite app_length. simpl. congruence. }
  destruct (HK hp0 _ _ _ _ B1 Hh H) as (G5 & A1 & A2 & A3).
  exists G5. split; auto. split; auto. eapply le_trans; eauto.
Qed.

Lemma T_cparams fs ps l : T fs (cparams ps l) (fun _ => fs).
Proof.
  revert fs. induction ps; simpl; intros fs. apply T_ret.
  eapply T_bind. apply (T_quiet true); auto using q_arity. intros u.
  eapply T_bind. apply (T_quiet true); auto using q_cur. intros k.
  eapply T_bind. { destruct (N.ltb _ _). apply T_err. apply T_ret. } intros u2.
  eapply T_bind. apply T_parse_variable. intros g.
  eapply T_bind. apply T_define_variable. simpl; auto. intros u3.
  eapply T_post. apply IHps. intros u4. apply incl_tl, incl_refl.
Qed.

Lemma T_assume {A} (X : Prop) fs (m : C A) Q : (X -> T (FPure X :: fs) m Q) -> T (FPure X :: fs) m Q.
Proof. intros HX s G a s' Hs Hf H. inversion Hf; subst. simpl in *. eapply HX; eauto. Qed.

Lemma T_closure_tail fs fu l (Pu : Prop) :
  T (FPure (fu_good fu /\ Pu) :: FDesc (snd fu) :: fs) (emit_closure fu l) (fun _ => fs).
Proof.
  eapply T_pure_impl with (Y := fu_good fu). tauto.
  eapply T_post. apply T_emit_closure; simpl; auto. intros u. apply incl_tl, incl_tl, incl_refl.
Qed.

Lemma cbind_assoc {A B D} (m : C A) (f : A -> C B) (g : B -> C D) s :
  cbind (cbind m f) g s = cbind m (fun x => cbind (f x) g) s.
Proof. unfold cbind. destruct (m s) as [[a s1]|]; auto. Qed.

Lemma T_with_function fs k n ps lb body le :
  T [] body (fun _ => []) -> T fs (with_function k n ps lb body le) (fun _ => fs).
Proof.
  intros Hb.
  eapply T_ext with (m := in_function k n
     (begin_scope ;;; cparams ps lb ;;;
      (if fk_eqb k KInitialiser then c <- cur ;; emit_op8 OpConstruct (N.modulo (k_arity c - 1) 256)%N lb else cret tt) ;;;
      body) le (fun fu => emit_closure fu le)).
  - apply T_in_function with (Pu := fun _ => True); auto.
    + eapply T_bind. apply (T_quiet false); auto using q_begin_scope. intros u.
      eapply T_bind. apply T_cparams. intros u2.
      eapply T_bind with (Q := fun _ => []).
                     { destruct (fk_eqb _ _). eapply T_bind. apply (T_quiet true); auto using q_cur. intros c.
                       apply T_emit_op8; reflexivity. apply T_ret. }
      intros u3. exact Hb.
    + intros fu. apply T_closure_tail.
  - intros s. unfold with_function, in_function. unfold cbind.
    repeat match goal with |- context [match ?m ?s with _ => _ end] => destruct (m s) as [[? ?]|]; auto end.
Qed.

Lemma emit_return_upv l s a s' : emit_return l s = COk (a, s') -> k_upvalues (s_cur s') = k_upvalues (s_cur s).
Proof.
  unfold emit_return, cbind, cur, cwhen, cret. intros H.
  destruct (fk_eqb _ _), (k_in_try _); rewrite ?emit_op8_push, ?emit_op_push in H; inversion H; reflexivity.
Qed.

Lemma T_initialiser fs n l : T fs (initialiser n l) (fun _ => fs).
Proof.
  unfold initialiser.
  eapply T_bind. apply (T_quiet true); auto using q_set_line. intros u.
  eapply T_bind. apply T_identifier_constant. intros nc.
  eapply T_ext with (m := in_function KInitialiser n (begin_scope ;;; emit_op8 OpConstruct 0%N l) l
     (fun fu => c <- make_constant (KFun (fst fu)) ;; emit_op16 OpClosure c l ;;; emit_op16 OpStaticMethod nc l)).
  - apply T_in_function with (Pu := fun us => us = []).
    + eapply T_bind. apply (T_quiet false); auto using q_begin_scope. intros u1. apply T_emit_op8; reflexivity.
    + intros s a s' Hu H. unfold cbind at 1 2 in H. unfold begin_scope, upd in H. rewrite emit_op8_push in H.
      apply emit_return_upv in H. rewrite H. cbn. exact Hu.
    + intros fu. apply T_assume. intros [_ H3]. destruct fu as [f0 us]. simpl in H3. subst us.
      eapply T_ext with (m := emit_closure (f0, []) l ;;; emit_op16 OpStaticMethod nc l).
      * eapply T_bind. apply T_closure_tail. intros u2.
        eapply T_post. apply T_emit_op16. reflexivity. discriminate. simpl; auto.
        intros u3. apply incl_tl, incl_refl.
      * intros s. unfold emit_closure, cbind. simpl.
        destruct (make_constant _ s) as [[c s2]|]; auto.
  - intros s. unfold in_function. unfold cbind.
    repeat match goal with |- context [match ?m ?s with _ => _ end] => destruct (m s) as [[? ?]|]; auto end.
Qed.

Lemma T_lambdaB_shape fs nm ps lend (body : C unit) :
  T [] body (fun _ => []) ->
  T fs (new_compiler KFunction nm ;;; begin_scope ;;; cparams ps lend ;;; body ;;;
        fu <- finalise_compiler lend ;; emit_closure fu lend) (fun _ => fs).
Proof.
  intros Hb.
  eapply T_ext with (m := in_function KFunction nm (begin_scope ;;; cparams ps lend ;;; body) lend
                                      (fun fu => emit_closure fu lend)).
  - apply T_in_function with (Pu := fun _ => True); auto.
    + eapply T_bind. apply (T_quiet false); auto using q_begin_scope. intros u.
      eapply T_bind. apply T_cparams. intros u2. exact Hb.
    + intros fu. apply T_closure_tail.
  - intros s. unfold in_function. unfold cbind.
    repeat match goal with |- context [match ?m ?s with _ => _ end] => destruct (m s) as [[? ?]|]; auto end.
Qed.

Lemma T_lambdaE_shape fs nm ps lend (body : C unit) :
  T [] body (fun _ => []) ->
  T fs (new_compiler KFunction nm ;;; begin_scope ;;; cparams ps lend ;;; body ;;; emit_op OpReturn lend ;;;
        fu <- finalise_compiler lend ;; emit_closure fu lend) (fun _ => fs).
Proof.
  intros Hb.
  eapply T_ext with (m := new_compiler KFunction nm ;;; begin_scope ;;; cparams ps lend ;;;
                          (body ;;; emit_op OpReturn lend) ;;;
                          fu <- finalise_compiler lend ;; emit_closure fu lend).
  - apply T_lambdaB_shape. eapply T_bind. exact Hb. intros u. apply T_emit_op; reflexivity.
  - intros s. unfold cbind.
    repeat match goal with |- context [match ?m ?s with _ => _ end] => destruct (m s) as [[? ?]|]; auto end.
Qed.

Lemma binop_ops_L0 op : Forall (fun o => layout_of o = L0) (binop_ops op).
Proof. destruct op; simpl; repeat constructor. Qed.
Lemma repeat_pop_L0 n : Forall (fun o => layout_of o = L0) (repeat OpPopExcHandler n).
Proof. induction n; simpl; constructor; auto. Qed.

Lemma T_emit_compound fs op l : T fs (emit_compound op l) (fun _ => fs).
Proof. unfold emit_compound. destruct (is_compound_op op). apply T_emit_ops, binop_ops_L0. apply T_err. Qed.
Lemma T_emit_exc_handler_pops fs d l : T fs (emit_exc_handler_pops d l) (fun _ => fs).
Proof.
  unfold emit_exc_handler_pops. eapply T_bind. apply (T_quiet true); auto using q_cur. intros k.
  apply T_emit_ops, repeat_pop_L0.
Qed.
Lemma T_emit_unop fs op l : T fs (emit_op (unop_op op) l) (fun _ => fs).
Proof. apply T_emit_op. destruct op; reflexivity. Qed.

