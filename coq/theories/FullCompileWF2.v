(* FullCompile-WF, part 2: the main induction (all programs) and the headline theorems. *)
From Coq Require Import Strings.Byte Strings.String.
From Coq Require Import List NArith ZArith Bool Arith Lia.
From YV Require Import Show Utf8 Num Ast Bytecode ParseLoc FullCompile FullCompileProofs FullCompileWF.
Import ListNotations.
Local Open Scope nat_scope.
Local Open Scope list_scope.
Local Open Scope comp_scope.

(* ------------------------------------------------------------------ *)
(* the whole compiler                                                   *)
Ltac inc := let x := fresh in let Hx := fresh in intros x Hx; simpl in *; tauto.
Ltac infs := solve [ simpl; auto 20 ].
Ltac ndf := first [ reflexivity | simpl; assumption ].

Ltac qsolve := solve [ auto using q_cur, q_cget, q_code_len, q_in_class, q_set_line, q_set_classes,
        q_add_local, q_mark_initialised, q_mark_slot, q_declare, q_check_count, q_super_checks, q_lambdas, q_try ].
Ltac leaf :=
  cbv beta;
  lazymatch goal with
  | |- T _ (cret _) _ => apply T_ret
  | |- T _ (cerr _ _) _ => apply T_err
  | |- T _ (cerr_here _) _ => apply T_err_here
  | |- T _ (emit_op (unop_op _) _) _ => apply T_emit_unop
  | |- T _ (emit_op _ _) _ => apply T_emit_op; reflexivity
  | |- T _ (emit_ops (binop_ops _) _) _ => apply T_emit_ops; apply binop_ops_L0
  | |- T _ (emit_compound _ _) _ => apply T_emit_compound
  | |- T _ (emit_exc_handler_pops _ _) _ => apply T_emit_exc_handler_pops
  | |- T _ (emit_op8 _ _ _) _ => apply T_emit_op8; reflexivity
  | |- T _ (cbind (emit_op16 _ _ _) (fun _ => emit_byte _ _)) _ => apply T_emit_op16_8; [ reflexivity | infs ]
  | |- T _ (emit_op16 _ _ _) _ => apply T_emit_op16; [ reflexivity | discriminate | intros; infs ]
  | |- T _ (emit_variable_op _ _ _) _ => eapply T_emit_variable_op; [ infs | first [ left; reflexivity | right; reflexivity ] ]
  | |- T _ (emit_jump _ _) _ => apply T_emit_jump; reflexivity
  | |- T _ (patch_jump _) _ => apply T_patch_jump; infs
  | |- T _ (patch_offset_at _ _) _ => eapply T_patch_offset_at; [ infs | first [ left; lia | right; lia ] ]
  | |- T _ (emit_loop _ _) _ => apply T_emit_loop
  | |- T _ (identifier_constant _) _ => apply T_identifier_constant
  | |- T _ (emit_constant _ _) _ => apply T_emit_constant; discriminate
  | |- T _ push_loop _ => apply T_push_loop
  | |- T _ (push_break _) _ => apply T_push_break; infs
  | |- T _ pop_loop _ => apply T_pop_loop
  | |- T _ (emit_scope_end _ _ _) _ => apply T_emit_scope_end
  | |- T _ (end_scope _) _ => apply T_end_scope; ndf
  | |- T _ (resolve_variable _ _) _ => apply T_resolve_variable
  | |- T _ (named_get _ _) _ => apply T_named_get
  | |- T _ (parse_variable _ _) _ => apply T_parse_variable
  | |- T _ (define_variable _ _) _ => first [ apply T_define_variable; infs | apply T_define_variable_str; infs ]
  | |- T _ (emit_return _) _ => apply T_emit_return
  | |- T _ (initialiser _ _) _ => apply T_initialiser
  | |- T _ (cparams _ _) _ => apply T_cparams
  | |- T _ begin_scope _ => apply (T_quiet false); [ apply q_begin_scope | right; ndf ]
  | H : forall fs, nodef fs = true -> T fs ?b _ |- T _ (with_function _ _ _ _ ?b _) _ =>
      apply T_with_function; apply H; reflexivity
  | H : forall fs, T fs ?m _ |- T _ ?m _ => apply H
  | H : forall fs, nodef fs = true -> T fs ?m _ |- T _ ?m _ => apply H; ndf
  | |- T _ _ _ => apply (T_quiet true); [ qsolve | left; reflexivity ]
  end.

Lemma T_bind_err {A B} fs l msg (k : A -> C B) R : T fs (cbind (cerr l msg) k) R.
Proof. intros s G a s' _ _ H. discriminate. Qed.
Lemma T_bind_err_here {A B} fs msg (k : A -> C B) R : T fs (cbind (cerr_here msg) k) R.
Proof. intros s G a s' _ _ H. discriminate. Qed.

Ltac leafp := first [ leaf | eapply T_post; [ leaf | intros ?; inc ] ].

Ltac step :=
  cbv beta zeta;
  match goal with
  | |- T _ (cbind (if ?b then _ else _) _) _ => destruct b
  | |- T _ (cbind (match ?x with _ => _ end) _) _ => destruct x
  | |- T _ (if ?b then _ else _) _ => destruct b
  | |- T _ (match ?x with _ => _ end) _ => destruct x
  | |- T _ (cbind (cerr _ _) _) _ => apply T_bind_err
  | |- T _ (cbind (cerr_here _) _) _ => apply T_bind_err_here
  | |- T _ (cbind (cwhen _ _) _) _ => unfold cwhen
  | |- T _ (cbind (emit_op OpPushExcHandler _) _) _ => apply T_push_handler; intros ?
  | |- T _ (cbind (emit_op16 _ _ _) (fun _ => emit_byte _ _)) _ => leafp
  | |- T _ (cbind (emit_op16 _ _ _) (fun _ => cbind (emit_byte _ _) _)) _ =>
      apply T_emit_op16_8_k; [ reflexivity | infs | ]
  | H : forall fs, T fs ?b _ |- T _ (cbind (new_compiler _ _) (fun _ => cbind begin_scope (fun _ => cbind (cparams _ _) (fun _ => cbind ?b (fun _ => cbind (emit_op OpReturn _) _))))) _ =>
      eapply T_post; [ apply T_lambdaE_shape; apply H | intros ?; inc ]
  | H : forall fs, nodef fs = true -> T fs ?b _ |- T _ (cbind (new_compiler _ _) (fun _ => cbind begin_scope (fun _ => cbind (cparams _ _) (fun _ => cbind ?b _)))) _ =>
      eapply T_post; [ apply T_lambdaB_shape; apply H; reflexivity | intros ?; inc ]
  | |- T _ (cbind (cbind _ _) _) _ => eapply T_bind; [ | intros ? ]
  | |- T _ (cbind _ _) _ => eapply T_bind; [ solve [ leaf ] | intros ? ]
  | |- T _ _ _ => solve [ leafp ]
  end.
Ltac go := repeat step.

Theorem compile_T :
  (forall e fs, T fs (cexpr e) (fun _ => fs)) /\
  (forall es fs, T fs (cargs es) (fun _ => fs)) /\
  (forall ps fs, T fs (cparts ps) (fun _ => fs)) /\
  (forall kvs fs, T fs (ckvs kvs) (fun _ => fs)) /\
  (forall st fs, nodef fs = true -> T fs (cstmt st) (fun _ => fs)) /\
  (forall l fs, nodef fs = true -> T fs (cstmts l) (fun _ => fs)) /\
  (forall ms fs, T fs (cmethods ms) (fun _ => fs)).
Proof.
  apply lsyntax_mutind; intros; simpl.
  all: try solve [ timeout 600 go ].
  all: try solve [ destruct kind; timeout 600 go ].
Qed.
Print Assumptions compile_T.

Lemma sinv_init : sinv init_state ([], []).
Proof. split; [|split]; simpl; auto. constructor; simpl; auto. split; auto. constructor. Qed.

Lemma good_func_of_comp c g : cinv c g -> good_func (func_of_comp c).
Proof. intros []. unfold func_of_comp. econstructor; eauto. rewrite Nat2N.id. auto. Qed.

(* HEADLINE 0: whatever FullCompile returns is a tree of functions whose code is a concatenation of
   well-formed instructions *)
Theorem compile_good (p : lprogram) (f : func) : compile_program p = COk f -> good_func f.
Proof.
  unfold compile_program. intros H.
  destruct ((cstmts (fst p);;; finalise_compiler (snd p)) init_state) as [[[f' us] s']|] eqn:E; [|discriminate].
  inversion H; subst; clear H.
  unfold cbind at 1 in E.
  destruct (cstmts (fst p) init_state) as [[[] s1]|] eqn:E1; [|discriminate].
  destruct (proj1 (proj2 (proj2 (proj2 (proj2 (proj2 compile_T))))) (fst p) [] eq_refl _ _ _ _ sinv_init (Forall_nil _) E1)
    as (G1 & Hs1 & _ & _).
  unfold finalise_compiler, cbind in E.
  destruct (emit_return (snd p) s1) as [[[] s2]|] eqn:E2; [|discriminate].
  destruct (T_emit_return [] _ _ _ _ _ Hs1 (Forall_nil _) E2) as (G2 & [Hc2 _] & _ & _).
  destruct (s_outer s2); inversion E; subst; eapply good_func_of_comp; eauto.
Qed.
Print Assumptions compile_good.

Lemma good_subfunc g f : subfunc g f -> good_func f -> good_func g.
Proof.
  induction 1; intros Hf; auto. apply IHsubfunc.
  inversion Hf; subst. simpl in H. rewrite Forall_forall in H3. specialize (H3 _ H). inversion H3; auto.
Qed.

(* DELIVERABLE 1 (all programs, every function of the tree): instruction boundaries exist and the code ends at one *)
Theorem code_decodes (p : lprogram) (f g : func) :
  compile_program p = COk f -> subfunc g f ->
  exists is_ : list ainstr,
    f_code g = flat is_ /\ Forall (iok (f_consts g) (N.to_nat (f_upvalues g))) is_.
Proof.
  intros H Hg. apply compile_good in H. apply (good_subfunc _ _ Hg) in H. inversion H; subst. simpl. eauto.
Qed.
Print Assumptions code_decodes.

(* ------------------------------------------------------------------ *)
(* the VM's own decoder (Bytecode.decode) finds exactly these instructions *)
Fixpoint uv_pairs (bs : list N) : list (bool * N) :=
  match bs with
  | il :: ix :: r => (negb (N.eqb il 0), ix) :: uv_pairs r
  | _ => []
  end.

Definition instr_of (i : ainstr) : instr :=
  let o := fst i in
  match layout_of o, snd i with
  | L8, [a] => mkInstr o a 0 []
  | L16, [a; b] => mkInstr o (u16 a b) 0 []
  | L16_16, [a; b; c; d] => mkInstr o (u16 a b) (u16 c d) []
  | L16_8, [a; b; c] => mkInstr o (u16 a b) c []
  | LClosure, a :: b :: uvs => mkInstr o (u16 a b) 0 (uv_pairs uvs)
  | _, _ => mkInstr o 0 0 []
  end.

(* a Bytecode.fn / Bytecode.program that represents the function g of the tree *)
Record models (P : program) (F : fn) (g : func) : Prop := mkModels {
  m_code : code F = f_code g;
  m_arity : arity F = f_arity g;
  m_upv : upvalue_count F = f_upvalues g;
  m_str : forall c x, nth_error (f_consts g) c = Some (KStr x) -> nth_error (consts F) c = Some CStr;
  m_num : forall c x, nth_error (f_consts g) c = Some (KNum x) -> nth_error (consts F) c = Some CNum;
  m_fun : forall c h, nth_error (f_consts g) c = Some (KFun h) ->
            exists i H, nth_error (consts F) c = Some (CFunc i) /\ nth_error P i = Some H /\
                        upvalue_count H = f_upvalues h
}.

Lemma byte_at_mid code pre bs post j b :
  code = pre ++ bs ++ post -> Forall (fun x => (x < 256)%N) code -> nth_error bs j = Some b ->
  byte_at code (N.of_nat (length pre + j)) = Some b.
Proof.
  intros -> Hlt Hn. unfold byte_at. rewrite Nat2N.id.
  assert (E : nth_error (pre ++ bs ++ post) (length pre + j) = Some b).
  { rewrite nth_error_app2 by lia. replace (length pre + j - length pre) with j by lia.
    apply nth_error_app_some; auto. }
  rewrite E. rewrite Forall_forall in Hlt. apply nth_error_In in E. apply Hlt in E.
  apply N.ltb_lt in E. rewrite E. reflexivity.
Qed.

Lemma read_uvs_mid code pre post : forall uvs k0 front,
  Forall (fun x => (x < 256)%N) code ->
  code = pre ++ (front ++ uvs) ++ post -> length uvs = 2 * k0 ->
  read_uvs (byte_at code) k0 (N.of_nat (length pre + length front)) = Some (uv_pairs uvs).
Proof.
  intros uvs k0. revert uvs. induction k0 as [|k0 IH]; intros uvs front Hlt Hc Hl.
  - destruct uvs; [reflexivity|discriminate].
  - destruct uvs as [|il [|ix r]]; try (simpl in Hl; lia). cbn [read_uvs uv_pairs].
    rewrite (byte_at_mid code pre (front ++ il :: ix :: r) post (length front) il Hc Hlt)
      by (rewrite nth_error_app2 by lia; rewrite Nat.sub_diag; reflexivity).
    replace (N.of_nat (length pre + length front) + 1)%N with (N.of_nat (length pre + S (length front))) by lia.
    rewrite (byte_at_mid code pre (front ++ il :: ix :: r) post (S (length front)) ix Hc Hlt)
      by (rewrite nth_error_app2 by lia; replace (S (length front) - length front) with 1 by lia; reflexivity).
    replace (N.of_nat (length pre + length front) + 2)%N with (N.of_nat (length pre + length (front ++ [il; ix])))
      by (rewrite app_length; simpl; lia).
    rewrite (IH r (front ++ [il; ix])); auto.
    + replace ((front ++ [il; ix]) ++ r) with (front ++ il :: ix :: r) by (rewrite <- app_assoc; reflexivity).
      exact Hc.
    + simpl in Hl. lia.
Qed.

Lemma opcode_roundtrip o : opcode_of_N (N_of_opcode o) = Some o.
Proof. destruct o; reflexivity. Qed.

Theorem decode_at_boundary P F g is_ pre i post :
  models P F g ->
  Forall (fun x => (x < 256)%N) (f_code g) ->
  f_code g = flat is_ -> Forall (iok (f_consts g) (N.to_nat (f_upvalues g))) is_ ->
  is_ = pre ++ i :: post ->
  decode P F (N.of_nat (length (flat pre))) =
    Some (instr_of i, N.of_nat (length (flat pre) + length (enc i))).
Proof.
  intros HM Hlt Hcode Hok ->.
  assert (Hi : iok (f_consts g) (N.to_nat (f_upvalues g)) i).
  { apply Forall_app in Hok. destruct Hok as [_ Hok]. inversion Hok; auto. }
  assert (Hc : code F = flat pre ++ enc i ++ flat post).
  { rewrite (m_code _ _ _ HM), Hcode, flat_app, flat_cons. reflexivity. }
  assert (Hlt' : Forall (fun x => (x < 256)%N) (code F)) by (rewrite (m_code _ _ _ HM); auto).
  assert (B : forall j b, nth_error (enc i) j = Some b ->
                byte_at (code F) (N.of_nat (length (flat pre) + j)) = Some b).
  { intros. eapply byte_at_mid; eauto. }
  unfold decode, decode_at.
  replace (N.of_nat (length (flat pre))) with (N.of_nat (length (flat pre) + 0)) by (f_equal; lia).
  rewrite (B 0 (N_of_opcode (fst i))) by reflexivity. rewrite opcode_roundtrip.
  replace (N.of_nat (length (flat pre) + 0)) with (N.of_nat (length (flat pre))) by (f_equal; lia).
  assert (P1 : (N.of_nat (length (flat pre)) + 1 = N.of_nat (length (flat pre) + 1))%N) by lia.
  assert (P2 : (N.of_nat (length (flat pre) + 1) + 1 = N.of_nat (length (flat pre) + 2))%N) by lia.
  assert (P3 : (N.of_nat (length (flat pre)) + 3 = N.of_nat (length (flat pre) + 3))%N) by lia.
  assert (P4 : (N.of_nat (length (flat pre) + 3) + 1 = N.of_nat (length (flat pre) + 4))%N) by lia.
  destruct i as [o args]. unfold iok in Hi. unfold instr_of. simpl fst in *. simpl snd in *.
  destruct (layout_of o) eqn:EL.
  - subst args. cbn [enc fst snd length]. f_equal. f_equal. lia.
  - destruct Hi as (a & -> & _). rewrite P1. rewrite (B 1 a) by reflexivity.
    cbn [enc fst snd length]. f_equal. f_equal. lia.
  - destruct Hi as (a & b & -> & _). unfold get16. rewrite P1, P2.
    rewrite (B 1 a), (B 2 b) by reflexivity. cbn [enc fst snd length]. unfold u16. f_equal. f_equal. lia.
  - destruct Hi as (a & b & c & d & ->). unfold get16. rewrite P1, P2, P3, P4.
    rewrite (B 1 a), (B 2 b), (B 3 c), (B 4 d) by reflexivity. cbn [enc fst snd length]. unfold u16. f_equal. f_equal. lia.
  - destruct Hi as (a & b & c & -> & _). unfold get16. rewrite P1, P2, P3.
    rewrite (B 1 a), (B 2 b), (B 3 c) by reflexivity. cbn [enc fst snd length]. unfold u16. f_equal. f_equal. lia.
  - destruct Hi as (a & b & f & uvs & -> & Hf & Hl & _). unfold get16. rewrite P1, P2.
    rewrite (B 1 a), (B 2 b) by reflexivity.
    destruct (m_fun _ _ _ HM _ _ Hf) as (ix & H & E1 & E2 & E3).
    unfold closure_arity, const_at. fold (u16 a b). rewrite E1, E2, E3.
    replace (N.of_nat (length (flat pre)) + 3)%N with (N.of_nat (length (flat pre) + length [N_of_opcode o; a; b]))
      by (cbn [length]; lia).
    rewrite (read_uvs_mid (code F) (flat pre) (flat post) uvs (N.to_nat (f_upvalues f)) [N_of_opcode o; a; b]); auto.
    cbn [enc fst snd length]. f_equal. f_equal. rewrite Hl. lia.
Qed.
Print Assumptions decode_at_boundary.

(* the whole code decodes, instruction after instruction, and ends at a boundary *)
Fixpoint decode_seq (P : program) (F : fn) (fuel : nat) (pc : N) : option (list instr) :=
  if N.eqb pc (Bytecode.code_len F) then Some []
  else match fuel with
       | O => None
       | S k => match decode P F pc with
                | Some (i, nx) => match decode_seq P F k nx with Some r => Some (i :: r) | None => None end
                | None => None
                end
       end.

Lemma decode_seq_suffix P F g is_ :
  models P F g -> Forall (fun x => (x < 256)%N) (f_code g) ->
  f_code g = flat is_ -> Forall (iok (f_consts g) (N.to_nat (f_upvalues g))) is_ ->
  forall post pre, is_ = pre ++ post ->
  decode_seq P F (length post) (N.of_nat (length (flat pre))) = Some (map instr_of post).
Proof.
  intros HM Hlt Hcode Hok. induction post as [|i post IH]; intros pre E.
  - simpl. rewrite app_nil_r in E. subst pre. unfold Bytecode.code_len.
    rewrite (m_code _ _ _ HM), Hcode, N.eqb_refl. reflexivity.
  - cbn [decode_seq length map].
    assert (Hne : N.eqb (N.of_nat (length (flat pre))) (Bytecode.code_len F) = false).
    { apply N.eqb_neq. unfold Bytecode.code_len. rewrite (m_code _ _ _ HM), Hcode, E, flat_app, flat_cons, !app_length.
      unfold enc. simpl. lia. }
    rewrite Hne. rewrite (decode_at_boundary P F g is_ pre i post HM Hlt Hcode Hok E).
    replace (length (flat pre) + length (enc i)) with (length (flat (pre ++ [i])))
      by (rewrite flat_app, app_length; simpl; rewrite app_nil_r; reflexivity).
    rewrite (IH (pre ++ [i])). reflexivity. rewrite <- app_assoc. exact E.
Qed.

(* DELIVERABLE 1, in the VM's vocabulary: for every function g of the tree and every Bytecode-level
   representation (P, F) of it, Bytecode.decode started at 0 runs through the whole code and stops exactly at its end. *)
Theorem code_decodes_vm (p : lprogram) (f g : func) P F :
  compile_program p = COk f -> subfunc g f -> models P F g ->
  exists is_ : list ainstr,
    f_code g = flat is_ /\ Forall (iok (f_consts g) (N.to_nat (f_upvalues g))) is_ /\
    decode_seq P F (length is_) 0 = Some (map instr_of is_) /\
    (forall pre i post, is_ = pre ++ i :: post ->
       decode P F (N.of_nat (length (flat pre))) = Some (instr_of i, N.of_nat (length (flat pre) + length (enc i)))).
Proof.
  intros H Hg HM. pose proof (code_bytes_in_range _ _ _ H Hg) as Hlt.
  destruct (code_decodes _ _ _ H Hg) as (is_ & Hc & Hok). exists is_. split; auto. split; auto. split.
  - apply (decode_seq_suffix P F g is_ HM Hlt Hc Hok is_ []). reflexivity.
  - intros. eapply decode_at_boundary; eauto.
Qed.
Print Assumptions code_decodes_vm.

(* DELIVERABLE 2 (the operand facts that are local to one instruction), at the decoded level *)
Definition operand_ok (g : func) (i : instr) : Prop :=
  (str_op (iop i) = true \/ layout_of (iop i) = L16_8 -> kstr (f_consts g) (ia i)) /\
  (iop i = OpConstant -> knotfun (f_consts g) (ia i)) /\
  (iop i = OpClosure -> exists h, nth_error (f_consts g) (N.to_nat (ia i)) = Some (KFun h) /\
                                  length (iuvs i) = N.to_nat (f_upvalues h)) /\
  (upv_op (iop i) = true -> (ia i < f_upvalues g)%N) /\
  (iop i = OpClosure -> Forall (fun u : bool * N => fst u = false -> (snd u < f_upvalues g)%N) (iuvs i)).

Lemma uv_pairs_length bs k : length bs = 2 * k -> length (uv_pairs bs) = k.
Proof.
  revert bs. induction k; intros bs H. destruct bs; [reflexivity|discriminate].
  destruct bs as [|a [|b r]]; try (simpl in H; lia). simpl. f_equal. apply IHk. simpl in H. lia.
Qed.

Lemma dok_uv_pairs nu : forall n (bs : list N), length bs <= n -> dok bs nu ->
  Forall (fun u : bool * N => fst u = false -> N.to_nat (snd u) < nu) (uv_pairs bs).
Proof.
  induction n; intros bs Hl Hd.
  - destruct bs; simpl in *; auto. lia.
  - destruct bs as [|il [|ix r]]; simpl in *; auto. destruct Hd as [H1 H2]. constructor.
    + simpl. intros E. apply H1. apply negb_false_iff in E. apply N.eqb_eq in E. exact E.
    + apply IHn; auto. lia.
Qed.

Lemma iok_operand_ok g i : iok (f_consts g) (N.to_nat (f_upvalues g)) i -> operand_ok g (instr_of i).
Proof.
  destruct i as [o args]. unfold iok, instr_of, operand_ok. simpl fst. simpl snd.
  destruct (layout_of o) eqn:EL.
  - intros ->. simpl. split; [|split; [|split; [|split]]]; intros H; try (destruct H as [H|H]); destruct o; try discriminate.
  - intros (a & -> & Hu). simpl. split; [|split; [|split; [|split]]]; intros H; try (destruct H as [H|H]);
      try (destruct o; discriminate). specialize (Hu H). lia.
  - intros (a & b & -> & H1 & H2). simpl. split; [|split; [|split; [|split]]]; intros H; try (destruct H as [H|H]); auto;
      try (destruct o; discriminate); try congruence.
  - intros (a & b & c & d & ->). simpl. split; [|split; [|split; [|split]]]; intros H; try (destruct H as [H|H]);
      destruct o; try discriminate.
  - intros (a & b & c & -> & H1). simpl. split; [|split; [|split; [|split]]]; intros H; try (destruct H as [H|H]); auto;
      destruct o; discriminate.
  - intros (a & b & h & uvs & -> & H1 & H2 & H3). simpl. split; [|split; [|split; [|split]]]; intros H; try (destruct H as [H|H]);
      try (destruct o; discriminate).
    + exists h. split; auto. apply uv_pairs_length. auto.
    + eapply Forall_impl; [|apply (dok_uv_pairs _ (length uvs) uvs (le_n _) H3)].
      intros u Hu E. specialize (Hu E). lia.
Qed.

Theorem operands_valid_local (p : lprogram) (f g : func) P F :
  compile_program p = COk f -> subfunc g f -> models P F g ->
  exists is_ : list instr,
    decode_seq P F (length is_) 0 = Some is_ /\ Forall (operand_ok g) is_.
Proof.
  intros H Hg HM. destruct (code_decodes_vm _ _ _ P F H Hg HM) as (is_ & Hc & Hok & Hd & _).
  exists (map instr_of is_). rewrite map_length. split; auto.
  apply Forall_map. eapply Forall_impl; [|exact Hok]. intros. apply iok_operand_ok; auto.
Qed.
Print Assumptions operands_valid_local.

(* ------------------------------------------------------------------ *)
(* the function tree as a Bytecode.program (pre-order; index 0 = the root) *)
Fixpoint fl (f : func) (base : nat) {struct f} : list fn :=
  match f with
  | MkFunc a u n code ks lines =>
    let r := (fix go (ks : list const) (next : nat) {struct ks} : list ckind * list fn :=
                match ks with
                | [] => ([], [])
                | KNum _ :: r => let q := go r next in (CNum :: fst q, snd q)
                | KStr _ :: r => let q := go r next in (CStr :: fst q, snd q)
                | KFun h :: r =>
                  let sub := fl h next in
                  let q := go r (next + length sub) in (CFunc next :: fst q, sub ++ snd q)
                end) ks (S base) in
    mkFn code (fst r) a u :: snd r
  end.

Fixpoint go_of (ks : list const) (next : nat) : list ckind * list fn :=
  match ks with
  | [] => ([], [])
  | KNum _ :: r => let q := go_of r next in (CNum :: fst q, snd q)
  | KStr _ :: r => let q := go_of r next in (CStr :: fst q, snd q)
  | KFun h :: r =>
    let sub := fl h next in
    let q := go_of r (next + length sub) in (CFunc next :: fst q, sub ++ snd q)
  end.

Definition flatten (f : func) : program := fl f 0.

Lemma fl_eq a u n code ks lines base :
  fl (MkFunc a u n code ks lines) base =
  mkFn code (fst (go_of ks (S base))) a u :: snd (go_of ks (S base)).
Proof.
  cbn [fl]. generalize (S base) as next.
  assert (E : forall next,
    (fix go (ks0 : list const) (next : nat) {struct ks0} : list ckind * list fn :=
       match ks0 with
       | [] => ([], [])
       | KNum _ :: r => let q := go r next in (CNum :: fst q, snd q)
       | KStr _ :: r => let q := go r next in (CStr :: fst q, snd q)
       | KFun h :: r => let sub := fl h next in let q := go r (next + length sub) in (CFunc next :: fst q, sub ++ snd q)
       end) ks next = go_of ks next).
  { induction ks as [|[x|x|h] r IH]; intros next; cbn [go_of]; try reflexivity; rewrite IH; reflexivity. }
  intros next. rewrite E. reflexivity.
Qed.

Lemma fl_head h i : exists rest, fl h i = mkFn (f_code h) (fst (go_of (f_consts h) (S i))) (f_arity h) (f_upvalues h) :: rest.
Proof. destruct h. rewrite fl_eq. simpl. eauto. Qed.

Lemma go_of_str ks : forall next c x, nth_error ks c = Some (KStr x) -> nth_error (fst (go_of ks next)) c = Some CStr.
Proof.
  induction ks as [|[y|y|h] r IH]; intros next [|c] x H; simpl in *; try discriminate; eauto.
Qed.
Lemma go_of_num ks : forall next c x, nth_error ks c = Some (KNum x) -> nth_error (fst (go_of ks next)) c = Some CNum.
Proof.
  induction ks as [|[y|y|h] r IH]; intros next [|c] x H; simpl in *; try discriminate; eauto.
Qed.
Lemma go_of_fun ks : forall next c h, nth_error ks c = Some (KFun h) ->
  exists i s1 s2, nth_error (fst (go_of ks next)) c = Some (CFunc i) /\
                  snd (go_of ks next) = s1 ++ fl h i ++ s2 /\ i = next + length s1.
Proof.
  induction ks as [|[y|y|h'] r IH]; intros next [|c] h H; simpl in *; try discriminate; eauto.
  - inversion H; subst. exists next, [], (snd (go_of r (next + length (fl h next)))). simpl. repeat split; auto.
  - destruct (IH (next + length (fl h' next)) c h H) as (i & s1 & s2 & A1 & A2 & A3).
    exists i, (fl h' next ++ s1), s2. split; auto. split.
    + rewrite A2, <- app_assoc. reflexivity.
    + rewrite app_length. lia.
Qed.

Theorem flatten_models_gen g f : subfunc g f ->
  forall P front back base, P = front ++ fl f base ++ back -> length front = base ->
  exists F idx, nth_error P idx = Some F /\ models P F g.
Proof.
  induction 1 as [f|g h f Hin Hsub IH]; intros P front back base HP Hb.
  - destruct f as [a u n code ks lines]. rewrite fl_eq in HP.
    exists (mkFn code (fst (go_of ks (S base))) a u), base. split.
    + rewrite HP. rewrite nth_error_app2 by lia. rewrite Hb, Nat.sub_diag. reflexivity.
    + constructor; simpl; auto.
      * intros. eapply go_of_str; eauto.
      * intros. eapply go_of_num; eauto.
      * intros c h Hc. destruct (go_of_fun ks (S base) c h Hc) as (i & s1 & s2 & A1 & A2 & A3).
        destruct (fl_head h i) as [rest Hh].
        exists i, (mkFn (f_code h) (fst (go_of (f_consts h) (S i))) (f_arity h) (f_upvalues h)).
        split; [exact A1|]. split; [|reflexivity].
        rewrite HP, A2, Hh. 
        replace (front ++ (mkFn code (fst (go_of ks (S base))) a u :: s1 ++ (mkFn (f_code h) (fst (go_of (f_consts h) (S i))) (f_arity h) (f_upvalues h) :: rest) ++ s2) ++ back)
          with ((front ++ mkFn code (fst (go_of ks (S base))) a u :: s1) ++
                (mkFn (f_code h) (fst (go_of (f_consts h) (S i))) (f_arity h) (f_upvalues h) :: rest ++ s2 ++ back)).
        2:{ simpl. rewrite <- ?app_assoc. simpl. rewrite <- ?app_assoc. reflexivity. }
        rewrite nth_error_app2 by (rewrite app_length; simpl; lia).
        replace (i - length (front ++ mkFn code (fst (go_of ks (S base))) a u :: s1)) with 0
          by (rewrite app_length; simpl; lia).
        reflexivity.
  - destruct f as [a u n code ks lines]. simpl in Hin. rewrite fl_eq in HP.
    apply In_nth_error in Hin. destruct Hin as [c Hc].
    destruct (go_of_fun ks (S base) c h Hc) as (i & s1 & s2 & A1 & A2 & A3).
    apply (IH P (front ++ mkFn code (fst (go_of ks (S base))) a u :: s1) (s2 ++ back) i).
    + rewrite HP, A2. simpl. rewrite <- ?app_assoc. simpl. rewrite <- ?app_assoc. reflexivity.
    + rewrite app_length. simpl. lia.
Qed.

(* every function of the tree is represented in the flattened program *)
Theorem flatten_models g f : subfunc g f -> exists F idx, nth_error (flatten f) idx = Some F /\ models (flatten f) F g.
Proof.
  intros H. apply (flatten_models_gen g f H (flatten f) [] [] 0); auto. unfold flatten. rewrite app_nil_r. reflexivity.
Qed.
Print Assumptions flatten_models.

(* DELIVERABLES 1 + 2(local part) for the concrete flattening *)
Theorem fullcompile_decodes (p : lprogram) (f g : func) :
  compile_program p = COk f -> subfunc g f ->
  exists F idx is_,
    nth_error (flatten f) idx = Some F /\ code F = f_code g /\
    decode_seq (flatten f) F (length is_) 0 = Some is_ /\ Forall (operand_ok g) is_.
Proof.
  intros H Hg. destruct (flatten_models g f Hg) as (F & idx & Hn & HM).
  destruct (operands_valid_local p f g _ F H Hg HM) as (is_ & Hd & Hok).
  exists F, idx, is_. split; auto. split; auto. apply (m_code _ _ _ HM).
Qed.
Print Assumptions fullcompile_decodes.

(* non-vacuity: a program with a closure (one upvalue), a loop with break, &&, try/catch, a method call *)
Example fullcompile_decodes_nonvacuous :
  exists p f,
    lparse_source (bs "var a = 1; fn f(x) { return || x + a; } while a { if a && f { break; } try { a.b(1); } catch e { } }")
      = Parser.POk p /\
    compile_program p = COk f /\
    Nat.leb 3 (length (flatten f)) = true /\
    match flatten f with
    | F :: _ => match decode_seq (flatten f) F 100 0 with Some is_ => Nat.leb 25 (length is_) | None => false end
    | [] => false
    end = true.
Proof.
  eexists. eexists. split; [vm_compute; reflexivity|]. split; [vm_compute; reflexivity|].
  split; vm_compute; reflexivity.
Qed.
