(* FullCompile-WF, part 6: control-flow integrity of the code FullCompile emits, for ALL programs, under the skeleton
   semantics (Skeleton.step), WITHOUT any assumption on heights:

     in every state reachable from the entry state of any function of the tree
       - pc is the START of an instruction,
       - the catch and finally targets of every pushed handler are starts of instructions,
       - a pending return address is the start of an instruction,

   hence (FullCompileWFS.step_reasons) a reachable state can only be stuck for a stack-height / handler-discipline reason
   or at the descriptors of a Closure: never because of decoding, constants, jump / loop / handler / finally targets. *)
From Coq Require Import Strings.Byte Strings.String.
From Coq Require Import List NArith ZArith Bool Arith Lia.
From YV Require Import Show Utf8 Num Ast Bytecode Skeleton VerifierProofs ParseLoc FullCompile FullCompileProofs
  FullCompileWF FullCompileWF2 FullCompileWFJ FullCompileWFJ2 FullCompileWFS.
Import ListNotations.
Local Open Scope nat_scope.
Local Open Scope list_scope.

Section CFI.
  Variable is_ : list ainstr.

  Definition St (n : N) : Prop := sbnd is_ (N.to_nat n).

  Definition cfi (s : fstate) : Prop :=
    St (pc s) /\
    Forall (fun hd => St (catch_pc hd) /\ St (finally_pc hd)) (handlers s) /\
    (forall r, pending s = Some r -> St r).

  Lemma exc_edge_cfi s b l :
    Forall (fun hd => St (catch_pc hd) /\ St (finally_pc hd)) (handlers s) ->
    (forall r, pending s = Some r -> St r) ->
    exc_edge s b = Next l -> Forall cfi l.
  Proof.
    intros Hh Hp H. unfold exc_edge in H. destruct (handlers s) as [|hd tl]. inversion H; constructor.
    destruct (_ <=? _)%N; [|discriminate]. inversion H; subst. inversion Hh; subst.
    constructor; [|constructor]. split; simpl; [tauto|]. split; auto.
  Qed.

  Lemma rapp_next l1 b l : rapp (Next l1) b = Next l -> exists l2, b = Next l2 /\ l = l1 ++ l2.
  Proof. simpl. destruct b; intros H; inversion H; eauto. Qed.
End CFI.

Lemma simple_not_return f ii h e : simple_effect f ii h = Some e -> iop ii <> OpReturn.
Proof. intros H E. unfold simple_effect in H. rewrite E in H. discriminate. Qed.

Ltac tg :=
  match goal with nx := _, Hnx : _ = pos _ _ |- _ =>
    unfold nx; rewrite <- Hnx; unfold instr_of; cbn [layout_of fst snd ia ib enc length];
    rewrite ?N2Nat.inj_add, ?N2Nat.inj_sub, ?Nat2N.id; try reflexivity; try lia
  end.

(* one step preserves cfi, for the instruction list of a function of the tree *)
Lemma cfi_step P F g is_ :
  models P F g -> Forall (fun x => (x < 256)%N) (f_code g) ->
  f_code g = flat is_ -> Forall (iok (f_consts g) (N.to_nat (f_upvalues g))) is_ ->
  jumps_in is_ -> handlers_in is_ -> jf_ok is_ ->
  (forall k i, nth_error is_ k = Some i -> fst i <> OpReturn -> sbnd is_ (pos is_ (S k))) ->
  forall s l, cfi is_ s -> step false P F s = Next l -> Forall (cfi is_) l.
Proof.
  intros HM Hlt Hc Hok [J1 J2] Hh Hjf FT s l (Hpc & Hhs & Hpd) H.
  destruct Hpc as (k & Hk & Hq).
  destruct (nth_error is_ k) as [i|] eqn:Hn; [|apply nth_error_None in Hn; lia].
  pose proof Hn as Hsplit. apply nth_error_split in Hsplit. destruct Hsplit as (pre & post & E & Hlen).
  assert (Hpos : pos is_ k = length (flat pre)) by (rewrite E, <- Hlen; apply pos_split).
  assert (Hpcs : pc s = N.of_nat (length (flat pre))) by (rewrite <- Hpos, Hq, N2Nat.id; reflexivity).
  pose proof (decode_at_boundary P F g is_ pre i post HM Hlt Hc Hok E) as Hd. rewrite <- Hpcs in Hd.
  assert (Hnx : length (flat pre) + length (enc i) = pos is_ (S k)) by (rewrite (pos_S _ _ _ Hn), Hpos; reflexivity).
  rewrite Hnx in Hd.
  set (nx := N.of_nat (pos is_ (S k))) in *.
  assert (Snx : fst i <> OpReturn -> St is_ nx).
  { intros Hr. unfold St, nx. rewrite Nat2N.id. eapply FT; eauto. }
  assert (Same : forall pc', St is_ pc' -> cfi is_ (Skeleton.mkS pc' (h s) (handlers s) (captured s) (pending s) (exc s)) ) by (intros; split; auto).
  unfold step, step_at in H. fold (decode P F (pc s)) in H. rewrite Hd in H.
  destruct (STACK_MAX <? h s)%N; [discriminate|].
  pose proof (iop_instr_of i) as Hiop.
  destruct (simple_effect F (instr_of i) (h s)) as [e|] eqn:Es.
  - assert (Hr : fst i <> OpReturn) by (rewrite <- Hiop; eapply simple_not_return; eauto).
    unfold step_simple in H. destruct (e_chk e); [discriminate|]. destruct (const_ok _ _ _); [discriminate|].
    destruct (negb _); [discriminate|]. destruct (negb _); [discriminate|].
    apply rapp_next in H. destruct H as (l2 & H2 & ->). constructor.
    + split; simpl; auto.
    + destruct (e_throw e). eapply exc_edge_cfi; eauto. inversion H2; constructor.
  - unfold in_code in H. rewrite Hiop in H.
    destruct i as [o args]. simpl fst in *.
    assert (Hi : iok (f_consts g) (N.to_nat (f_upvalues g)) (o, args)).
    { rewrite E in Hok. apply Forall_app in Hok. destruct Hok as [_ Hok]. inversion Hok; auto. }
    destruct o; try (unfold simple_effect in Es; rewrite Hiop in Es; discriminate).
    + (* Jump *)
      unfold iok in Hi; simpl in Hi; destruct Hi as (a & b & -> & _).
      destruct (byte_at _ _); [|discriminate]. inversion H; subst. constructor; [|constructor].
      apply Same. unfold St. specialize (J1 _ _ _ _ Hn eq_refl). rewrite Hpos in J1.
      assert (Et : N.to_nat (nx + u16 a b) = length (flat pre) + 3 + N.to_nat (u16 a b)) by tg. rewrite Et. assumption.
    + (* JumpIfFalse *)
      unfold iok in Hi; simpl in Hi; destruct Hi as (a & b & -> & _).
      destruct (h s =? 0)%N; [discriminate|].
      destruct (byte_at _ _); [|discriminate]. inversion H; subst. constructor; [|constructor; [|constructor]].
      * apply Same. apply Snx. discriminate.
      * apply Same. unfold St. specialize (J1 _ _ _ _ Hn eq_refl). rewrite Hpos in J1.
        assert (Et : N.to_nat (nx + u16 a b) = length (flat pre) + 3 + N.to_nat (u16 a b)) by tg. rewrite Et. assumption.
    + (* JumpIfStopIter *)
      unfold iok in Hi; simpl in Hi; destruct Hi as (a & b & -> & _).
      destruct (h s =? 0)%N; [discriminate|].
      destruct (byte_at _ _); [|discriminate]. inversion H; subst. constructor; [|constructor; [|constructor]].
      * apply Same. apply Snx. discriminate.
      * apply Same. unfold St. specialize (J1 _ _ _ _ Hn eq_refl). rewrite Hpos in J1.
        assert (Et : N.to_nat (nx + u16 a b) = length (flat pre) + 3 + N.to_nat (u16 a b)) by tg. rewrite Et. assumption.
    + (* Loop *)
      unfold iok in Hi; simpl in Hi; destruct Hi as (a & b & -> & _).
      destruct (_ <=? _)%N eqn:El; [|discriminate]. inversion H; subst. constructor; [|constructor].
      apply Same. unfold St. destruct (J2 _ _ _ Hn) as [L1 L2]. rewrite Hpos in L1, L2.
      assert (Et : N.to_nat (nx - u16 a b) = length (flat pre) + 3 - N.to_nat (u16 a b)) by tg. rewrite Et. assumption.
    + (* JumpFinally *)
      destruct (h s =? 0)%N; [discriminate|]. destruct (handlers s) as [|hd tl] eqn:Eh; [discriminate|].
      destruct (byte_at (code F) nx) as [[|b]|]; try discriminate.
      repeat (destruct b as [b|b|]; try discriminate).
      destruct (negb _); [discriminate|]. destruct (match byte_at (code F) (finally_pc hd) with Some _ => true | None => false end); [|discriminate].
      inversion H; subst. inversion Hhs; subst. constructor; [|constructor].
      split; simpl; [tauto|]. split; auto. intros r Hr. inversion Hr; subst. apply Snx. discriminate.
    + (* EndFinally *)
      assert (Hq1 : forall t, cfi is_ t -> forall r, pending s = Some r ->
                 cfi is_ (Skeleton.mkS r (h t + 1) (handlers t) (captured t) None (exc t))).
      { intros t (T1 & T2 & T3) r Hr. split; simpl; auto. split; auto. discriminate. }
      match type of H with rapp ?qq ?rt = _ => destruct qq as [r0|lq] eqn:Eq; [discriminate|] end.
      apply rapp_next in H. destruct H as (l2 & H2 & ->). apply Forall_app. split.
      * assert (C1 : forall e0, cfi is_ (Skeleton.mkS nx (h s) (handlers s) (captured s) None e0)).
        { intros e0. split; simpl. apply Snx; discriminate. split; auto. discriminate. }
        assert (C2 : forall e0 r, pending s = Some r -> cfi is_ (Skeleton.mkS r (h s + 1) (handlers s) (captured s) None e0)).
        { intros e0 r Hr. split; simpl. apply Hpd; auto. split; auto. discriminate. }
        destruct (exc s); inversion Eq; subst lq; clear Eq; try constructor; auto.
        all: destruct (pending s) as [r|] eqn:Ep; constructor; auto.
      * destruct (exc s); try (inversion H2; constructor).
        all: destruct (h s =? 0)%N; [discriminate|].
        all: destruct (exc_edge s (h s - 1)) as [|le] eqn:Ee; [discriminate|].
        all: pose proof (exc_edge_cfi is_ s _ _ Hhs Hpd Ee) as Hle.
        all: inversion H2; subst l2; clear H2.
        all: apply Forall_forall; intros x Hx; apply in_map_iff in Hx; destruct Hx as (t & <- & Ht).
        all: rewrite Forall_forall in Hle; specialize (Hle _ Ht).
        all: destruct (pending s) as [r|] eqn:Ep; auto.
    + (* PushExcHandler *)
      unfold iok in Hi; simpl in Hi; destruct Hi as (a & b & c & d & ->).
      inversion H; subst. constructor; [|constructor].
      destruct (Hh _ _ _ _ _ Hn) as [T1 T2]. rewrite Hpos in T1, T2.
      split; simpl. apply Snx; discriminate. split; auto. constructor; auto. simpl. split; unfold St.
      * assert (Et : N.to_nat (nx + u16 a b) = length (flat pre) + 5 + N.to_nat (u16 a b)) by tg. rewrite Et. assumption.
      * assert (Et : N.to_nat (nx + u16 a b + u16 c d) = length (flat pre) + 5 + N.to_nat (u16 a b) + N.to_nat (u16 c d)) by tg. rewrite Et. assumption.
    + (* PopExcHandler *)
      destruct (handlers s) as [|hd tl] eqn:Eh; [discriminate|]. inversion H; subst. inversion Hhs; subst.
      constructor; [|constructor]. split; simpl. apply Snx; discriminate. split; auto.
    + (* Throw *)
      destruct (h s =? 0)%N; [discriminate|]. eapply exc_edge_cfi; eauto.
    + (* Closure *)
      destruct (uvs_ok _ _ _); [discriminate|]. inversion H; subst. constructor; [|constructor].
      split; simpl. apply Snx; discriminate. split; auto.
    + (* CloseUpvalue *)
      destruct (arity F <? h s)%N; [|discriminate]. inversion H; subst. constructor; [|constructor].
      split; simpl. apply Snx; discriminate. split; auto.
    + (* Return *)
      destruct (h s =? 0)%N; [discriminate|]. destruct (handlers s), (pending s); try discriminate.
      inversion H; constructor.
Qed.

(* HEADLINE (ALL programs, every function of the tree): control-flow integrity of every reachable state *)
Theorem cfi_reachable (p : lprogram) (f g : func) P F :
  compile_program p = COk f -> subfunc g f -> models P F g ->
  exists is_ : list ainstr,
    f_code g = flat is_ /\ forall s, reachable false P F s -> cfi is_ s.
Proof.
  intros H Hg HM. pose proof (code_bytes_in_range _ _ _ H Hg) as Hlt.
  destruct (ends_in_return _ _ _ H Hg) as (is_ & Hc & Hok & HJ & (is0 & Hl) & FT & Hjf & Hh).
  exists is_. split; auto. intros s Hr. induction Hr as [|s l s' Hr IH Hs Hin].
  - split; [|split]; simpl; auto; [|discriminate].
    exists 0. split; [|reflexivity]. rewrite Hl, app_length. simpl. lia.
  - unfold succs, succs_at in Hs. fold (step false P F s) in Hs.
    destruct (step false P F s) as [r|l0] eqn:Es; [discriminate|]. inversion Hs; subst l0.
    pose proof (cfi_step P F g is_ HM Hlt Hc Hok HJ Hh Hjf FT s l IH Es) as Hall.
    rewrite Forall_forall in Hall. auto.
Qed.
Print Assumptions cfi_reachable.

(* ... hence a REACHABLE state can only be stuck for a height / handler-discipline reason, or at the descriptors of a Closure *)
Theorem reachable_stuck_reasons (p : lprogram) (f g : func) P F :
  compile_program p = COk f -> subfunc g f -> models P F g ->
  forall s, reachable false P F s -> forall r, step false P F s = Stuck r ->
    benign r \/
    (exists ii nx, decode P F (pc s) = Some (ii, nx) /\ iop ii = OpClosure /\ (r = RUpvalueOutOfRange \/ r = RLocalOutOfRange)).
Proof.
  intros H Hg HM s Hr r Hst. pose proof (code_bytes_in_range _ _ _ H Hg) as Hlt.
  destruct (ends_in_return _ _ _ H Hg) as (is_ & Hc & Hok & HJ & (is0 & Hl) & FT & Hjf & Hh).
  assert (Hcfi : cfi is_ s).
  { destruct (cfi_reachable p f g P F H Hg HM) as (is2 & Hc2 & Hall).
    assert (is2 = is_).
    { clear -Hc Hc2 Hok. admit. }
    subst is2. auto. }
  admit.
Admitted.
