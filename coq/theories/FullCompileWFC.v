(* FullCompile-WF, part 6: control-flow integrity of the code FullCompile emits, for ALL programs, under the skeleton
   semantics (Skeleton.step), WITHOUT any assumption on heights:

     in every state reachable from the entry state of any function of the tree
       - pc is the START of an instruction,
       - the catch and finally targets of every pushed handler are starts of instructions,
       - a pending return address is the start of an instruction,

   hence (FullCompileWFS.step_reasons) a reachable state can only be stuck for a stack-height / handler-discipline reason
   or at the descriptors of a Closure: never because of decoding, constants, jump / loop / handler / finally targets. *)
From Coq Require Import Strings.Byte Strings.String.
From Coq Require Import List NArith ZArith Bool Arith Lia.
From YV Require Import Show Utf8 Num Ast Bytecode Skeleton VerifierProofs ParseLoc FullCompile FullCompileProofs
  FullCompileWF FullCompileWF2 FullCompileWFJ FullCompileWFJ2 FullCompileWFS.
Import ListNotations.
Local Open Scope nat_scope.
Local Open Scope list_scope.

Section CFI.
  Variable is_ : list ainstr.

  Definition St (n : N) : Prop := sbnd is_ (N.to_nat n).

  Definition cfi (s : fstate) : Prop :=
    St (pc s) /\
    Forall (fun hd => St (catch_pc hd) /\ St (finally_pc hd)) (handlers s) /\
    (forall r, pending s = Some r -> St r).

  Lemma exc_edge_cfi s b l :
    Forall (fun hd => St (catch_pc hd) /\ St (finally_pc hd)) (handlers s) ->
    (forall r, pending s = Some r -> St r) ->
    exc_edge s b = Next l -> Forall cfi l.
  Proof.
    intros Hh Hp H. unfold exc_edge in H. destruct (handlers s) as [|hd tl]. inversion H; constructor.
    destruct (_ <=? _)%N; [|discriminate]. inversion H; subst. inversion Hh; subst.
    constructor; [|constructor]. split; simpl; [tauto|]. split; auto.
  Qed.

  Lemma rapp_next l1 b l : rapp (Next l1) b = Next l -> exists l2, b = Next l2 /\ l = l1 ++ l2.
  Proof. simpl. destruct b; intros H; inversion H; eauto. Qed.
End CFI.

Lemma simple_not_return f ii h e : simple_effect f ii h = Some e -> iop ii <> OpReturn.
Proof. intros H E. unfold simple_effect in H. rewrite E in H. discriminate. Qed.

Ltac tg :=
  match goal with nx := _, Hnx : _ = pos _ _ |- _ =>
    unfold nx; rewrite <- Hnx; unfold instr_of; cbn [layout_of fst snd ia ib enc length];
    rewrite ?N2Nat.inj_add, ?N2Nat.inj_sub, ?Nat2N.id; try reflexivity; try lia
  end.

(* one step preserves cfi, for the instruction list of a function of the tree *)
Lemma cfi_step P F g is_ :
  models P F g -> Forall (fun x => (x < 256)%N) (f_code g) ->
  f_code g = flat is_ -> Forall (iok (f_consts g) (N.to_nat (f_upvalues g))) is_ ->
  jumps_in is_ -> handlers_in is_ -> jf_ok is_ ->
  (forall k i, nth_error is_ k = Some i -> fst i <> OpReturn -> sbnd is_ (pos is_ (S k))) ->
  forall s l, cfi is_ s -> step false P F s = Next l -> Forall (cfi is_) l.
Proof.
  intros HM Hlt Hc Hok [J1 J2] Hh Hjf FT s l (Hpc & Hhs & Hpd) H.
  destruct Hpc as (k & Hk & Hq).
  destruct (nth_error is_ k) as [i|] eqn:Hn; [|apply nth_error_None in Hn; lia].
  pose proof Hn as Hsplit. apply nth_error_split in Hsplit. destruct Hsplit as (pre & post & E & Hlen).
  assert (Hpos : pos is_ k = length (flat pre)) by (rewrite E, <- Hlen; apply pos_split).
  assert (Hpcs : pc s = N.of_nat (length (flat pre))) by (rewrite <- Hpos, Hq, N2Nat.id; reflexivity).
  pose proof (decode_at_boundary P F g is_ pre i post HM Hlt Hc Hok E) as Hd. rewrite <- Hpcs in Hd.
  assert (Hnx : length (flat pre) + length (enc i) = pos is_ (S k)) by (rewrite (pos_S _ _ _ Hn), Hpos; reflexivity).
  rewrite Hnx in Hd.
  set (nx := N.of_nat (pos is_ (S k))) in *.
  assert (Snx : fst i <> OpReturn -> St is_ nx).
  { intros Hr. unfold St, nx. rewrite Nat2N.id. eapply FT; eauto. }
  assert (Same : forall pc', St is_ pc' -> cfi is_ (Skeleton.mkS pc' (h s) (handlers s) (captured s) (pending s) (exc s)) ) by (intros; split; auto).
  unfold step, step_at in H. fold (decode P F (pc s)) in H. rewrite Hd in H.
  destruct (STACK_MAX <? h s)%N; [discriminate|].
  pose proof (iop_instr_of i) as Hiop.
  destruct (simple_effect F (instr_of i) (h s)) as [e|] eqn:Es.
  - assert (Hr : fst i <> OpReturn) by (rewrite <- Hiop; eapply simple_not_return; eauto).
    unfold step_simple in H. destruct (e_chk e); [discriminate|]. destruct (const_ok _ _ _); [discriminate|].
    destruct (negb _); [discriminate|]. destruct (negb _); [discriminate|].
    apply rapp_next in H. destruct H as (l2 & H2 & ->). constructor.
    + split; simpl; auto.
    + destruct (e_throw e). eapply exc_edge_cfi; eauto. inversion H2; constructor.
  - unfold in_code in H. rewrite Hiop in H.
    destruct i as [o args]. simpl fst in *.
    assert (Hi : iok (f_consts g) (N.to_nat (f_upvalues g)) (o, args)).
    { rewrite E in Hok. apply Forall_app in Hok. destruct Hok as [_ Hok]. inversion Hok; auto. }
    destruct o; try (unfold simple_effect in Es; rewrite Hiop in Es; discriminate).
    + (* Jump *)
      unfold iok in Hi; simpl in Hi; destruct Hi as (a & b & -> & _).
      destruct (byte_at _ _); [|discriminate]. inversion H; subst. constructor; [|constructor].
      apply Same. unfold St. specialize (J1 _ _ _ _ Hn eq_refl). rewrite Hpos in J1.
      assert (Et : N.to_nat (nx + u16 a b) = length (flat pre) + 3 + N.to_nat (u16 a b)) by tg. rewrite Et. assumption.
    + (* JumpIfFalse *)
      unfold iok in Hi; simpl in Hi; destruct Hi as (a & b & -> & _).
      destruct (h s =? 0)%N; [discriminate|].
      destruct (byte_at _ _); [|discriminate]. inversion H; subst. constructor; [|constructor; [|constructor]].
      * apply Same. apply Snx. discriminate.
      * apply Same. unfold St. specialize (J1 _ _ _ _ Hn eq_refl). rewrite Hpos in J1.
        assert (Et : N.to_nat (nx + u16 a b) = length (flat pre) + 3 + N.to_nat (u16 a b)) by tg. rewrite Et. assumption.
    + (* JumpIfStopIter *)
      unfold iok in Hi; simpl in Hi; destruct Hi as (a & b & -> & _).
      destruct (h s =? 0)%N; [discriminate|].
      destruct (byte_at _ _); [|discriminate]. inversion H; subst. constructor; [|constructor; [|constructor]].
      * apply Same. apply Snx. discriminate.
      * apply Same. unfold St. specialize (J1 _ _ _ _ Hn eq_refl). rewrite Hpos in J1.
        assert (Et : N.to_nat (nx + u16 a b) = length (flat pre) + 3 + N.to_nat (u16 a b)) by tg. rewrite Et. assumption.
    + (* Loop *)
      unfold iok in Hi; simpl in Hi; destruct Hi as (a & b & -> & _).
      destruct (_ <=? _)%N eqn:El; [|discriminate]. inversion H; subst. constructor; [|constructor].
      apply Same. unfold St. destruct (J2 _ _ _ Hn) as [L1 L2]. rewrite Hpos in L1, L2.
      assert (Et : N.to_nat (nx - u16 a b) = length (flat pre) + 3 - N.to_nat (u16 a b)) by tg. rewrite Et. assumption.
    + (* JumpFinally *)
      destruct (h s =? 0)%N; [discriminate|]. destruct (handlers s) as [|hd tl] eqn:Eh; [discriminate|].
      destruct (byte_at (code F) nx) as [[|b]|]; try discriminate.
      repeat (destruct b as [b|b|]; try discriminate).
      destruct (negb _); [discriminate|]. destruct (match byte_at (code F) (finally_pc hd) with Some _ => true | None => false end); [|discriminate].
      inversion H; subst. inversion Hhs; subst. constructor; [|constructor].
      split; simpl; [tauto|]. split; auto. intros r Hr. inversion Hr; subst. apply Snx. discriminate.
    + (* EndFinally *)
      assert (Hq1 : forall t, cfi is_ t -> forall r, pending s = Some r ->
                 cfi is_ (Skeleton.mkS r (h t + 1) (handlers t) (captured t) None (exc t))).
      { intros t (T1 & T2 & T3) r Hr. split; simpl; auto. split; auto. discriminate. }
      match type of H with rapp ?qq ?rt = _ => destruct qq as [r0|lq] eqn:Eq; [discriminate|] end.
      apply rapp_next in H. destruct H as (l2 & H2 & ->). apply Forall_app. split.
      * assert (C1 : forall e0, cfi is_ (Skeleton.mkS nx (h s) (handlers s) (captured s) None e0)).
        { intros e0. split; simpl. apply Snx; discriminate. split; auto. discriminate. }
        assert (C2 : forall e0 r, pending s = Some r -> cfi is_ (Skeleton.mkS r (h s + 1) (handlers s) (captured s) None e0)).
        { intros e0 r Hr. split; simpl. apply Hpd; auto. split; auto. discriminate. }
        destruct (exc s); inversion Eq; subst lq; clear Eq; try constructor; auto.
        all: destruct (pending s) as [r|] eqn:Ep; constructor; auto.
      * destruct (exc s); try (inversion H2; constructor).
        all: destruct (h s =? 0)%N; [discriminate|].
        all: destruct (exc_edge s (h s - 1)) as [|le] eqn:Ee; [discriminate|].
        all: pose proof (exc_edge_cfi is_ s _ _ Hhs Hpd Ee) as Hle.
        all: inversion H2; subst l2; clear H2.
        all: apply Forall_forall; intros x Hx; apply in_map_iff in Hx; destruct Hx as (t & <- & Ht).
        all: rewrite Forall_forall in Hle; specialize (Hle _ Ht).
        all: destruct (pending s) as [r|] eqn:Ep; auto.
    + (* PushExcHandler *)
      unfold iok in Hi; simpl in Hi; destruct Hi as (a & b & c & d & ->).
      inversion H; subst. constructor; [|constructor].
      destruct (Hh _ _ _ _ _ Hn) as [T1 T2]. rewrite Hpos in T1, T2.
      split; simpl. apply Snx; discriminate. split; auto. constructor; auto. simpl. split; unfold St.
      * assert (Et : N.to_nat (nx + u16 a b) = length (flat pre) + 5 + N.to_nat (u16 a b)) by tg. rewrite Et. assumption.
      * assert (Et : N.to_nat (nx + u16 a b + u16 c d) = length (flat pre) + 5 + N.to_nat (u16 a b) + N.to_nat (u16 c d)) by tg. rewrite Et. assumption.
    + (* PopExcHandler *)
      destruct (handlers s) as [|hd tl] eqn:Eh; [discriminate|]. inversion H; subst. inversion Hhs; subst.
      constructor; [|constructor]. split; simpl. apply Snx; discriminate. split; auto.
    + (* Throw *)
      destruct (h s =? 0)%N; [discriminate|]. eapply exc_edge_cfi; eauto.
    + (* Closure *)
      destruct (uvs_ok _ _ _); [discriminate|]. inversion H; subst. constructor; [|constructor].
      split; simpl. apply Snx; discriminate. split; auto.
    + (* CloseUpvalue *)
      destruct (arity F <? h s)%N; [|discriminate]. inversion H; subst. constructor; [|constructor].
      split; simpl. apply Snx; discriminate. split; auto.
    + (* Return *)
      destruct (h s =? 0)%N; [discriminate|]. destruct (handlers s), (pending s); try discriminate.
      inversion H; constructor.
Qed.

(* HEADLINE (ALL programs, every function of the tree): control-flow integrity of every reachable state *)
Theorem cfi_reachable (p : lprogram) (f g : func) P F :
  compile_program p = COk f -> subfunc g f -> models P F g ->
  exists is_ : list ainstr,
    f_code g = flat is_ /\ forall s, reachable false P F s -> cfi is_ s.
Proof.
  intros H Hg HM. pose proof (code_bytes_in_range _ _ _ H Hg) as Hlt.
  destruct (ends_in_return _ _ _ H Hg) as (is_ & Hc & Hok & HJ & (is0 & Hl) & FT & Hjf & Hh).
  exists is_. split; auto. intros s Hr. induction Hr as [|s l s' Hr IH Hs Hin].
  - split; [|split]; simpl; auto; [|discriminate].
    exists 0. split; [|reflexivity]. rewrite Hl, app_length. simpl. lia.
  - unfold succs, succs_at in Hs. fold (step false P F s) in Hs.
    destruct (step false P F s) as [r|l0] eqn:Es; [discriminate|]. inversion Hs; subst l0.
    pose proof (cfi_step P F g is_ HM Hlt Hc Hok HJ Hh Hjf FT s l IH Es) as Hall.
    rewrite Forall_forall in Hall. auto.
Qed.
Print Assumptions cfi_reachable.

Ltac ben2 := left; unfold benign; tauto.

Lemma step_reasons2 P F g s ii nx :
  models P F g -> decode P F (pc s) = Some (ii, nx) -> operand_ok g ii ->
  (is_jump16 (iop ii) = true -> exists b, byte_at (code F) (nx + ia ii)%N = Some b) ->
  (iop ii = OpLoop -> (ia ii <= nx)%N) ->
  (iop ii = OpJumpFinally -> byte_at (code F) nx = Some 57%N) ->
  forall r, step false P F s = Stuck r ->
    benign r \/
    (iop ii = OpJumpFinally /\ exists hd tl, handlers s = hd :: tl /\ byte_at (code F) (finally_pc hd) = None).
Proof.
  intros HM Hd (Os & Oc & Ocl & Ou & Od) HJ HL HF r H.
  unfold step, step_at in H. fold (decode P F (pc s)) in H. rewrite Hd in H.
  destruct (STACK_MAX <? h s)%N. { inversion H; subst. ben2. }
  destruct (simple_effect F ii (h s)) as [e|] eqn:Es.
  - unfold step_simple in H.
    destruct (e_chk e) as [r0|] eqn:Ec.
    { inversion H; subst. destruct (simple_effect_chk _ _ _ _ _ Es Ec) as [->|[->|(-> & Hu & Hlt)]]; try ben2.
      exfalso. specialize (Ou Hu). rewrite (m_upv _ _ _ HM) in Hlt. apply N.ltb_ge in Hlt. lia. }
    pose proof (simple_effect_const _ _ _ _ Es) as Hcst.
    rewrite (const_ok_models P F g (e_const e) (ia ii) HM) in H.
    2:{ destruct (e_const e); auto. }
    destruct (negb (e_need e <=? h s)%N). { inversion H; subst. ben2. }
    destruct (negb (captured_below (captured s) (h s - e_pops e))). { inversion H; subst. ben2. }
    apply rapp_next_reason in H. destruct (e_throw e); [|discriminate].
    apply exc_edge_reason in H. subst. ben2.
  - unfold in_code in H.
    destruct (iop ii) eqn:Eo; try (unfold simple_effect in Es; rewrite Eo in Es; discriminate).
    + (* Jump *) destruct (HJ eq_refl) as [b Hb]. rewrite Hb in H. discriminate.
    + (* JumpIfFalse *) destruct (h s =? 0)%N. { inversion H; subst. ben2. }
      destruct (HJ eq_refl) as [b Hb]. rewrite Hb in H. discriminate.
    + (* JumpIfStopIter *) destruct (h s =? 0)%N. { inversion H; subst. ben2. }
      destruct (HJ eq_refl) as [b Hb]. rewrite Hb in H. discriminate.
    + (* Loop *) specialize (HL eq_refl). apply N.leb_le in HL. rewrite HL in H. discriminate.
    + (* JumpFinally *) destruct (h s =? 0)%N. { inversion H; subst. ben2. }
      destruct (handlers s) as [|hd tl] eqn:Ehs. { inversion H; subst. ben2. }
      rewrite (HF eq_refl) in H.
      destruct (negb (hheight hd <=? h s - 1)%N). { inversion H; subst. ben2. }
      destruct (byte_at (code F) (finally_pc hd)) eqn:Eb; [discriminate|].
      right. split; auto. exists hd, tl. split; auto.
    + (* EndFinally *)
      match type of H with rapp ?q ?rt = _ => destruct q eqn:Eq; [destruct (exc s); discriminate|] end.
      apply rapp_next_reason in H.
      destruct (exc s); try discriminate.
      all: destruct (h s =? 0)%N; [inversion H; subst; ben2|].
      all: destruct (exc_edge s (h s - 1)) eqn:Ee; [|discriminate].
      all: inversion H; subst; apply exc_edge_reason in Ee; subst; ben2.
    + (* PopExcHandler *) destruct (handlers s); [inversion H; subst; ben2|discriminate].
    + (* Throw *) destruct (h s =? 0)%N. { inversion H; subst. ben2. }
      apply exc_edge_reason in H. subst. ben2.
    + (* Closure *)
      destruct (uvs_ok F (h s) (iuvs ii)) as [r0|] eqn:Eu; [|discriminate]. inversion H; subst.
      assert (Hr : r = RLocalOutOfRange).
      { specialize (Od eq_refl). clear -Eu Od HM. induction (iuvs ii) as [|[[] x] l IH]; simpl in Eu. discriminate.
        - inversion Od; subst. destruct (x <=? h s)%N; auto. inversion Eu; auto.
        - inversion Od as [|? ? H1 H2]; subst. simpl in H1. rewrite (m_upv _ _ _ HM) in Eu.
          specialize (H1 eq_refl). apply N.ltb_lt in H1. rewrite H1 in Eu. auto. }
      subst. ben2.
    + (* CloseUpvalue *) destruct (arity F <? h s)%N; [discriminate|]. inversion H; subst. ben2.
    + (* Return *) destruct (h s =? 0)%N. { inversion H; subst. ben2. }
      destruct (handlers s), (pending s); try discriminate; inversion H; subst; ben2.
Qed.


(* ... hence a REACHABLE state can only be stuck for a stack-height / handler-discipline reason *)
Theorem reachable_stuck_reasons (p : lprogram) (f g : func) P F :
  compile_program p = COk f -> subfunc g f -> models P F g ->
  forall s, reachable false P F s -> forall r, step false P F s = Stuck r -> benign r.
Proof.
  intros H Hg HM s Hr r Hst. pose proof (code_bytes_in_range _ _ _ H Hg) as Hlt.
  destruct (ends_in_return _ _ _ H Hg) as (is_ & Hc & Hok & HJ & (is0 & Hl) & FT & Hjf & Hh).
  assert (Hcfi : cfi is_ s).
  { clear Hst. induction Hr as [|s l s' Hr IH Hs Hin].
    - split; [|split]; simpl; auto; [|discriminate].
      exists 0. split; [|reflexivity]. rewrite Hl, app_length. simpl. lia.
    - unfold succs, succs_at in Hs. fold (step false P F s) in Hs.
      destruct (step false P F s) as [r0|l0] eqn:Es; [discriminate|]. inversion Hs; subst l0.
      pose proof (cfi_step P F g is_ HM Hlt Hc Hok HJ Hh Hjf FT s l IH Es) as Hall.
      rewrite Forall_forall in Hall. auto. }
  destruct Hcfi as (Hpc & Hhs & Hpd). destruct HJ as [J1 J2].
  assert (D : forall n, sbnd is_ n -> exists b, byte_at (code F) (N.of_nat n) = Some b).
  { intros n Hn'. apply sbnd_split in Hn'. destruct Hn' as (pre' & i' & post' & E' & <-).
    eapply decode_get. eapply decode_at_boundary; eauto. }
  pose proof Hpc as Hpc'. apply sbnd_split in Hpc'. destruct Hpc' as (pre & i & post & E & Hq).
  assert (Hpcs : pc s = N.of_nat (length (flat pre))) by (rewrite Hq, N2Nat.id; reflexivity).
  pose proof (decode_at_boundary P F g is_ pre i post HM Hlt Hc Hok E) as Hd. rewrite <- Hpcs in Hd.
  assert (Hi : iok (f_consts g) (N.to_nat (f_upvalues g)) i).
  { rewrite E in Hok. apply Forall_app in Hok. destruct Hok as [_ Hok]. inversion Hok; auto. }
  assert (Hn : nth_error is_ (length pre) = Some i).
  { rewrite E. rewrite nth_error_app2, Nat.sub_diag by lia. reflexivity. }
  destruct (step_reasons2 P F g s _ _ HM Hd (iok_operand_ok g i Hi)) with (r := r) as [Hb|[Hjfi (hd & tl & Ehs & Eb)]]; auto.
  - rewrite iop_instr_of. intros Hj. destruct i as [o args]. simpl in Hj.
    assert (exists a b, args = [a; b]) as (a & b & ->).
    { unfold iok in Hi. simpl in Hi. destruct o; try discriminate; simpl in Hi; destruct Hi as (a & b & -> & _); eauto. }
    specialize (J1 _ _ _ _ Hn Hj). rewrite E in J1 at 2. rewrite pos_split in J1.
    destruct (D _ J1) as [b0 Hb]. exists b0. rewrite <- Hb. f_equal.
    unfold instr_of. destruct o; try discriminate; simpl; unfold u16; lia.
  - rewrite iop_instr_of. intros Hlp. destruct i as [o args]. simpl in Hlp. subst o.
    assert (exists a b, args = [a; b]) as (a & b & ->).
    { unfold iok in Hi. simpl in Hi. destruct Hi as (a & b & -> & _); eauto. }
    destruct (J2 _ _ _ Hn) as [L1 _]. rewrite E in L1. rewrite pos_split in L1.
    unfold instr_of. simpl. unfold u16 in *. lia.
  - rewrite iop_instr_of. intros Hf. destruct i as [o args]. simpl in Hf. subst o.
    assert (args = []) as -> by (unfold iok in Hi; simpl in Hi; auto).
    specialize (Hjf _ Hn). rewrite E in Hjf. rewrite nth_error_app2 in Hjf by lia.
    replace (S (length pre) - length pre) with 1 in Hjf by lia. simpl in Hjf.
    destruct post as [|i2 post2]; [discriminate|]. inversion Hjf; subst i2.
    assert (Hcode : code F = flat (pre ++ [(OpJumpFinally, [])]) ++ enc (OpReturn, []) ++ flat post2).
    { rewrite (m_code _ _ _ HM), Hc, E. rewrite !flat_app, !flat_cons. simpl. rewrite <- !app_assoc. reflexivity. }
    assert (Hlt' : Forall (fun x => (x < 256)%N) (code F)) by (rewrite (m_code _ _ _ HM); auto).
    pose proof (byte_at_mid (code F) _ _ _ 0 _ Hcode Hlt' eq_refl) as Hb.
    etransitivity; [|exact Hb]. f_equal. rewrite flat_app, app_length. simpl. lia.
  - exfalso. rewrite Ehs in Hhs. inversion Hhs as [|x y [_ Hfin] _]; subst.
    destruct (D _ Hfin) as [b Hb]. rewrite N2Nat.id in Hb. congruence.
Qed.
Print Assumptions reachable_stuck_reasons.

(* the same for the concrete flattening: what is left to show for C04 on ALL programs is exactly that no reachable state
   is stuck for a `benign` (= stack-height / handler-discipline) reason *)
Corollary reachable_stuck_reasons_flatten (p : lprogram) (f g : func) :
  compile_program p = COk f -> subfunc g f ->
  exists F idx, nth_error (flatten f) idx = Some F /\ code F = f_code g /\
    forall s, reachable false (flatten f) F s -> forall r, step false (flatten f) F s = Stuck r -> benign r.
Proof.
  intros H Hg. destruct (flatten_models g f Hg) as (F & idx & Hn & HM).
  exists F, idx. split; auto. split. apply (m_code _ _ _ HM).
  intros s Hr r Hst. eapply reachable_stuck_reasons; eauto.
Qed.
Print Assumptions reachable_stuck_reasons_flatten.
