(* FullCompile-WF, part 3: every Jump / JumpIfFalse / JumpIfStopIter / Loop of the code FullCompile emits lands on an
   instruction boundary inside the code - for ALL programs (deliverable 2, the jump part).

   On top of FullCompileWF.v (ghost instruction list, invariant [sinv], facts) the triple [TJ] carries
   - [X]: the positions of the jump placeholders of the construct being compiled that are not patched yet (linear:
     [emit_jump] adds one, [patch_jump] / [push_break] remove one),
   - [n]: the depth of the loop stack,
   - [jinv]: every forward jump of the ghost list is resolved (target = an instruction boundary) or its position is in
     [k_breaks] or in [X]; every Loop goes back to a boundary; every [k_loops] entry is a boundary; the break stack is as
     deep as the loop stack.
   At the end of a function X = [] and the loop stack is empty, so every jump is resolved. *)
From Coq Require Import Strings.Byte Strings.String.
From Coq Require Import List NArith ZArith Bool Arith Lia Permutation.
From YV Require Import Show Utf8 Num Ast Bytecode ParseLoc FullCompile FullCompileProofs FullCompileWF.
Import ListNotations.
Local Open Scope nat_scope.
Local Open Scope list_scope.
Local Open Scope comp_scope.

(* ------------------------------------------------------------------ *)
(* positions by index                                                   *)
Definition pos (g : list ainstr) (k : nat) : nat := length (flat (firstn k g)).
Definition bnd (g : list ainstr) (n : nat) : Prop := exists k, k <= length g /\ pos g k = n.

Lemma bnd_boundary g n : bnd g n <-> boundary g n.
Proof.
  split.
  - intros (k & Hk & <-). exists (firstn k g), (skipn k g). split. symmetry; apply firstn_skipn. reflexivity.
  - intros (pre & post & -> & <-). exists (length pre). split. rewrite app_length; lia.
    unfold pos. rewrite firstn_app, firstn_all, Nat.sub_diag. simpl. rewrite app_nil_r. reflexivity.
Qed.

Lemma pos_app_le g new k : k <= length g -> pos (g ++ new) k = pos g k.
Proof.
  intros H. unfold pos. rewrite firstn_app. replace (k - length g) with 0 by lia. simpl. rewrite app_nil_r. reflexivity.
Qed.
Lemma pos_all g : pos g (length g) = length (flat g).
Proof. unfold pos. rewrite firstn_all. reflexivity. Qed.
Lemma pos_le g k : pos g k <= length (flat g).
Proof.
  unfold pos. rewrite <- (firstn_skipn k g) at 2. rewrite flat_app, app_length. lia.
Qed.
Lemma pos_split pre i post : pos (pre ++ i :: post) (length pre) = length (flat pre).
Proof. unfold pos. rewrite firstn_app, firstn_all, Nat.sub_diag. simpl. rewrite app_nil_r. reflexivity. Qed.

Lemma bnd_app g new n : bnd g n -> bnd (g ++ new) n.
Proof. intros (k & Hk & <-). exists k. split. rewrite app_length; lia. apply pos_app_le; auto. Qed.
Lemma bnd_end g : bnd g (length (flat g)).
Proof. exists (length g). split; auto. apply pos_all. Qed.

Lemma F2sp_pos g g' : Forall2 sp g g' -> forall k, pos g' k = pos g k.
Proof.
  induction 1; intros k. destruct k; reflexivity.
  destruct k. reflexivity. unfold pos in *. cbn [firstn]. rewrite !flat_cons, !app_length. rewrite IHForall2.
  rewrite (sp_len _ _ H). reflexivity.
Qed.
Lemma F2sp_length g g' : Forall2 sp g g' -> length g' = length g.
Proof. induction 1; simpl; auto. Qed.
Lemma bnd_sp g g' n : Forall2 sp g g' -> bnd g n -> bnd g' n.
Proof.
  intros H (k & Hk & <-). exists k. split. rewrite (F2sp_length _ _ H); auto. apply F2sp_pos; auto.
Qed.

Lemma nth_error_snoc {A} (g : list A) i k x :
  nth_error (g ++ [i]) k = Some x -> (k < length g /\ nth_error g k = Some x) \/ (k = length g /\ x = i).
Proof.
  intros H. destruct (Nat.lt_ge_cases k (length g)) as [Hlt|Hge].
  - left. split; auto. rewrite nth_error_app1 in H; auto.
  - right. rewrite nth_error_app2 in H by lia.
    destruct (k - length g) as [|d] eqn:E. simpl in H. inversion H. split; auto. lia.
    simpl in H. destruct d; discriminate.
Qed.

Lemma nth_error_replace {A} (pre : list A) x x' post k y :
  nth_error (pre ++ x' :: post) k = Some y ->
  (k = length pre /\ y = x') \/ (k <> length pre /\ nth_error (pre ++ x :: post) k = Some y).
Proof.
  intros H. destruct (Nat.eq_dec k (length pre)) as [->|Hne].
  - left. split; auto. rewrite nth_error_app2, Nat.sub_diag in H by lia. simpl in H. congruence.
  - right. split; auto. destruct (Nat.lt_ge_cases k (length pre)).
    + rewrite nth_error_app1 in * by lia. auto.
    + rewrite nth_error_app2 in * by lia. destruct (k - length pre) eqn:E. lia. simpl in *. auto.
Qed.

Lemma nth_error_replace_ne {A} (pre : list A) x x' post k :
  k <> length pre -> nth_error (pre ++ x' :: post) k = nth_error (pre ++ x :: post) k.
Proof.
  intros Hne. destruct (Nat.lt_ge_cases k (length pre)).
  - rewrite !nth_error_app1 by lia. reflexivity.
  - rewrite !nth_error_app2 by lia. destruct (k - length pre) eqn:E. lia. reflexivity.
Qed.

(* every JumpFinally is immediately followed by Return *)
Definition jf_ok (g : list ainstr) : Prop :=
  forall k, nth_error g k = Some (OpJumpFinally, []) -> nth_error g (S k) = Some (OpReturn, []).

Lemma jf_ok_snoc g i : jf_ok g -> i <> (OpJumpFinally, []) -> jf_ok (g ++ [i]).
Proof.
  intros H Hi k Hk. apply nth_error_snoc in Hk. destruct Hk as [[Hlt Hk]|[_ Hk]].
  - apply nth_error_app_some. auto.
  - congruence.
Qed.
Lemma jf_ok_snoc2 g : jf_ok g -> jf_ok (g ++ [(OpJumpFinally, []); (OpReturn, [])]).
Proof.
  intros H k Hk. destruct (Nat.lt_ge_cases k (length g)) as [Hlt|Hge].
  - rewrite nth_error_app1 in Hk by lia. apply nth_error_app_some. auto.
  - rewrite nth_error_app2 in Hk by lia. rewrite nth_error_app2 by lia.
    destruct (k - length g) as [|[|d]] eqn:E; simpl in Hk; try discriminate.
    + replace (S k - length g) with 1 by lia. reflexivity.
    + destruct d; discriminate.
Qed.
Lemma jf_ok_replace pre x x' post :
  jf_ok (pre ++ x :: post) -> patchable (fst x) = true -> patchable (fst x') = true -> jf_ok (pre ++ x' :: post).
Proof.
  intros H Hx Hx' k Hk.
  assert (K1 : k <> length pre).
  { intros ->. rewrite nth_error_app2, Nat.sub_diag in Hk by lia. simpl in Hk. inversion Hk; subst. discriminate. }
  rewrite (nth_error_replace_ne pre x x') in Hk by auto. apply H in Hk.
  assert (K2 : S k <> length pre).
  { intros E. rewrite E in Hk. rewrite nth_error_app2, Nat.sub_diag in Hk by lia. simpl in Hk. inversion Hk; subst. discriminate. }
  rewrite (nth_error_replace_ne pre x x') by auto. exact Hk.
Qed.

(* ------------------------------------------------------------------ *)
(* the jump invariant                                                   *)
Fixpoint lof (fs : list fact) : list comp :=
  match fs with FLoopsOf k :: r => k :: lof r | _ :: r => lof r | [] => [] end.
Fixpoint cof (fs : list fact) : list (nat * nat) :=
  match fs with FCatch p t :: r => (p, t) :: cof r | _ :: r => cof r | [] => [] end.
Definition sigf (f : fact) : bool := match f with FLoopsOf _ | FCatch _ _ => true | _ => false end.
Definition sig (fs : list fact) : list fact := filter sigf fs.

Lemma in_lof_iff k fs : In k (lof fs) <-> In (FLoopsOf k) fs.
Proof.
  induction fs as [|f r IH]; simpl. tauto.
  destruct f; simpl; rewrite ?IH; split; intros H; auto; try (destruct H as [H|H]; [discriminate|auto]).
  - destruct H as [->|H]; auto.
  - destruct H as [H|H]; auto. inversion H; auto.
Qed.
Lemma in_cof_iff p t fs : In (p, t) (cof fs) <-> In (FCatch p t) fs.
Proof.
  induction fs as [|f r IH]; simpl. tauto.
  destruct f; simpl; rewrite ?IH; split; intros H; auto; try (destruct H as [H|H]; [discriminate|auto]).
  - destruct H as [H|H]; auto. inversion H; auto.
  - destruct H as [H|H]; auto. inversion H; auto.
Qed.
Lemma sig_lof fs fs' : incl (sig fs') (sig fs) -> incl (lof fs') (lof fs).
Proof.
  intros Hi k Hk. apply in_lof_iff in Hk. apply in_lof_iff.
  assert (In (FLoopsOf k) (sig fs')) by (apply filter_In; auto). apply Hi in H. apply filter_In in H. tauto.
Qed.
Lemma sig_cof fs fs' : incl (sig fs') (sig fs) -> incl (cof fs') (cof fs).
Proof.
  intros Hi [p t] Hk. apply in_cof_iff in Hk. apply in_cof_iff.
  assert (In (FCatch p t) (sig fs')) by (apply filter_In; auto). apply Hi in H. apply filter_In in H. tauto.
Qed.
Lemma sig_incl fs fs' : incl fs fs' -> incl (sig fs) (sig fs').
Proof. intros Hi f Hf. apply filter_In in Hf. apply filter_In. destruct Hf. auto. Qed.
Lemma sig_holes ps fs : sig (map FHole ps ++ fs) = sig fs.
Proof. induction ps; simpl; auto. Qed.

Definition is_handler (i : ainstr) : Prop := fst i = OpPushExcHandler.

Definition clean (fs : list fact) : bool :=
  forallb (fun f => match f with FDef _ | FLoopsOf _ => false | _ => true end) fs.

Lemma clean_nodef fs : clean fs = true -> nodef fs = true.
Proof.
  unfold clean, nodef. induction fs; simpl; auto. intros H. apply andb_true_iff in H. destruct H.
  rewrite IHfs by auto. destruct a; auto.
Qed.
Lemma clean_lof fs : clean fs = true -> lof fs = [].
Proof.
  unfold clean. induction fs; simpl; auto. intros H. apply andb_true_iff in H. destruct H.
  destruct a; auto; discriminate.
Qed.

(* the final property of a function's instruction list: every jump lands on a boundary *)
Definition jumps_ok (g : list ainstr) : Prop :=
  (forall k o a b, nth_error g k = Some (o, [a; b]) -> is_jump16 o = true -> bnd g (pos g k + 3 + N.to_nat (u16 a b))) /\
  (forall k a b, nth_error g k = Some (OpLoop, [a; b]) ->
     N.to_nat (u16 a b) <= pos g k + 3 /\ bnd g (pos g k + 3 - N.to_nat (u16 a b))).

(* n is the START of an instruction of g (strictly inside the code) *)
Definition sbnd (g : list ainstr) (n : nat) : Prop := exists k, k < length g /\ pos g k = n.
Definition jumps_in (g : list ainstr) : Prop :=
  (forall k o a b, nth_error g k = Some (o, [a; b]) -> is_jump16 o = true -> sbnd g (pos g k + 3 + N.to_nat (u16 a b))) /\
  (forall k a b, nth_error g k = Some (OpLoop, [a; b]) ->
     N.to_nat (u16 a b) <= pos g k + 3 /\ sbnd g (pos g k + 3 - N.to_nat (u16 a b))).

Definition handlers_in (g : list ainstr) : Prop :=
  forall k a b c0 d, nth_error g k = Some (OpPushExcHandler, [a; b; c0; d]) ->
    sbnd g (pos g k + 5 + N.to_nat (u16 a b)) /\ sbnd g (pos g k + 5 + N.to_nat (u16 a b) + N.to_nat (u16 c0 d)).

Inductive jgood_const : const -> Prop :=
| jgc_num x : jgood_const (KNum x)
| jgc_str x : jgood_const (KStr x)
| jgc_fun f : jgood_func f -> jgood_const (KFun f)
with jgood_func : func -> Prop :=
| jgf_mk a u n code ks lines g :
    code = flat g ->
    Forall (iok ks (N.to_nat u)) g ->
    jumps_in g ->
    handlers_in g ->
    jf_ok g ->
    (exists g0, g = g0 ++ [(OpReturn, [])]) ->
    Forall jgood_const ks ->
    jgood_func (MkFunc a u n code ks lines).

Record jinv (n : nat) (X : list nat) (fs : list fact) (c : comp) (g : list ainstr) : Prop := mkJ {
  j_consts : Forall jgood_const (k_consts c);
  j_jumps : forall k o a b, nth_error g k = Some (o, [a; b]) -> is_jump16 o = true ->
      bnd g (pos g k + 3 + N.to_nat (u16 a b)) \/ In (pos g k + 1) (concat (k_breaks c)) \/ In (pos g k + 1) X;
  j_loops : forall k a b, nth_error g k = Some (OpLoop, [a; b]) ->
      N.to_nat (u16 a b) <= pos g k + 3 /\ bnd g (pos g k + 3 - N.to_nat (u16 a b));
  j_starts : Forall (fun L => bnd g (fst (fst L))) (k_loops c);
  j_len : length (k_breaks c) = length (k_loops c);
  j_depth : length (k_loops c) = n;
  j_lof : forall k, In k (lof fs) -> k_loops c = k_loops k;
  j_jf : jf_ok g;
  j_nodup : NoDup (concat (k_breaks c) ++ X);
  j_xle : forall x, In x (concat (k_breaks c) ++ X) -> x <= length (flat g);
  j_h1 : forall k a b c0 d, nth_error g k = Some (OpPushExcHandler, [a; b; c0; d]) ->
      bnd g (pos g k + 5 + N.to_nat (u16 a b)) \/ In (pos g k + 1) X;
  j_h2 : forall k a b c0 d, nth_error g k = Some (OpPushExcHandler, [a; b; c0; d]) ->
      bnd g (pos g k + 5 + N.to_nat (u16 a b) + N.to_nat (u16 c0 d)) \/ In (pos g k + 3) X;
  j_catch : forall p t, In (p, t) (cof fs) -> forall k a b c0 d,
      nth_error g k = Some (OpPushExcHandler, [a; b; c0; d]) -> pos g k + 1 = p ->
      pos g k + 5 + N.to_nat (u16 a b) = t;
  j_cfresh : forall p t, In (p, t) (cof fs) -> ~ In p (concat (k_breaks c) ++ X) /\ p <= length (flat g)
}.

Definition TJ {A} (n : nat) (X : list nat) (fs : list fact) (m : C A)
           (Q : A -> list fact) (X' : A -> list nat) (n' : nat) : Prop :=
  forall s G a s', sinv s G -> holds fs s G -> jinv n X fs (s_cur s) (fst G) -> m s = COk (a, s') ->
    exists G', sinv s' G' /\ le s G s' G' /\ holds (Q a) s' G' /\ jinv n' (X' a) (Q a) (s_cur s') (fst G').

Lemma TJ_bind {A B} n X fs (m : C A) (k : A -> C B) Q X1 n1 R X2 n2 :
  TJ n X fs m Q X1 n1 -> (forall a, TJ n1 (X1 a) (Q a) (k a) R X2 n2) -> TJ n X fs (cbind m k) R X2 n2.
Proof.
  intros Hm Hk s G b s' Hs Hf Hj H. unfold cbind in H.
  destruct (m s) as [[a s1]|] eqn:E; [|discriminate].
  destruct (Hm _ _ _ _ Hs Hf Hj E) as (G1 & Hs1 & Hle1 & Hq & Hj1).
  destruct (Hk a _ _ _ _ Hs1 Hq Hj1 H) as (G2 & Hs2 & Hle2 & Hr & Hj2).
  exists G2. split; auto. split; auto. eapply le_trans; eauto.
Qed.

Lemma lof_incl fs fs' : incl fs fs' -> incl (lof fs) (lof fs').
Proof.
  intros Hi k Hk. assert (In (FLoopsOf k) fs).
  { clear Hi. induction fs as [|f r IH]; simpl in *. contradiction. destruct f; simpl in *; auto.
    destruct Hk as [->|Hk]; auto. }
  apply Hi in H. clear -H. induction fs' as [|f r IH]; simpl in *. contradiction.
  destruct H as [->|H]. simpl; auto. destruct f; simpl; auto.
Qed.

Lemma jinv_weaken n X X' fs fs' c g : X = X' -> incl (sig fs') (sig fs) -> jinv n X fs c g -> jinv n X' fs' c g.
Proof.
  intros <- Hs []. pose proof (sig_lof _ _ Hs) as Hl. pose proof (sig_cof _ _ Hs) as Hc. constructor; auto.
  - intros p t Hin. eapply j_catch0; eauto.
  - intros p t Hin. eapply j_cfresh0; eauto.
Qed.

Lemma TJ_post {A} n X fs (m : C A) Q X1 n1 R :
  TJ n X fs m Q X1 n1 -> (forall a, incl (R a) (Q a)) -> TJ n X fs m R X1 n1.
Proof.
  intros Hm Hi s G a s' Hs Hf Hj H. destruct (Hm _ _ _ _ Hs Hf Hj H) as (G1 & Hs1 & Hle1 & Hq & Hj1).
  exists G1. split; auto. split; auto. split.
  - unfold holds in *. rewrite Forall_forall in *. intros f Hin. apply Hq. apply Hi. auto.
  - eapply jinv_weaken; [reflexivity| |exact Hj1]. apply sig_incl. auto.
Qed.

Lemma TJ_ext {A} n X fs (m m' : C A) Q X1 n1 : TJ n X fs m Q X1 n1 -> (forall s, m' s = m s) -> TJ n X fs m' Q X1 n1.
Proof. intros Hm He s G a s' Hs Hf Hj H. rewrite He in H. eauto. Qed.

Lemma TJ_err {A} n X fs l msg (Q : A -> list fact) X1 n1 : TJ n X fs (cerr l msg) Q X1 n1.
Proof. intros s G a s' _ _ _ H. discriminate. Qed.
Lemma TJ_err_here {A} n X fs msg (Q : A -> list fact) X1 n1 : TJ n X fs (cerr_here msg) Q X1 n1.
Proof. intros s G a s' _ _ _ H. discriminate. Qed.
Lemma TJ_bind_err {A B} n X fs l msg (k : A -> C B) R X2 n2 : TJ n X fs (cbind (cerr l msg) k) R X2 n2.
Proof. intros s G a s' _ _ _ H. discriminate. Qed.
Lemma TJ_bind_err_here {A B} n X fs msg (k : A -> C B) R X2 n2 : TJ n X fs (cbind (cerr_here msg) k) R X2 n2.
Proof. intros s G a s' _ _ _ H. discriminate. Qed.
Lemma TJ_ret {A} n X fs (a : A) : TJ n X fs (cret a) (fun _ => fs) (fun _ => X) n.
Proof.
  intros s G a' s' Hs Hf Hj H. inversion H; subst. exists G. split; auto. split; auto. apply le_refl.
Qed.

(* ---------- steps that touch neither code nor constants nor upvalues nor breaks nor loops ---------- *)
Definition quietJ {A} (sc : bool) (m : C A) : Prop :=
  forall s a s', m s = COk (a, s') ->
    same_core (s_cur s) (s_cur s') /\ s_outer s' = s_outer s /\ k_loops (s_cur s') = k_loops (s_cur s) /\
    (sc = true -> k_scope (s_cur s') = k_scope (s_cur s)).

Lemma quietJ_quiet {A} sc (m : C A) : quietJ sc m -> quiet sc m.
Proof. intros H s a s' E. destruct (H _ _ _ E) as (A1 & A2 & A3 & A4). auto. Qed.

Lemma jinv_same n X fs c c' g :
  k_breaks c' = k_breaks c -> k_loops c' = k_loops c -> k_consts c' = k_consts c -> jinv n X fs c g -> jinv n X fs c' g.
Proof. intros Hb Hl Hk []. constructor; rewrite ?Hb, ?Hl, ?Hk; auto. Qed.

(* when the ghost list does not change the T-lemma of FullCompileWF.v cannot be reused (its G' is existential):
   the state-only steps are redone here with G' = G *)
Lemma TJ_quiet {A} sc n X fs (m : C A) :
  quietJ sc m -> (sc = true \/ nodef fs = true) -> TJ n X fs m (fun _ => fs) (fun _ => X) n.
Proof.
  intros Hq Hsc s G a s' [Hc [Ho Hu]] Hf Hj H. destruct (Hq _ _ _ H) as ((A1 & A2 & A3 & A4) & A5 & A6 & A7).
  exists G.
  assert (Hle : le s G s' G).
  { split; [|split; [|split]]; auto using ext_refl.
    - split. exists []. rewrite app_nil_r; auto. rewrite A3; auto.
    - rewrite A5. apply F2ofix_refl. }
  split; [|split; [|split]]; auto.
  - split; [|split; [rewrite A5; auto|]].
    + destruct Hc. constructor; [congruence | rewrite A2, A3; auto | rewrite A2; auto | rewrite A4; auto].
    + eapply uchain_same; [|exact Hu]. simpl. rewrite A3, A5. reflexivity.
  - eapply holds_le; eauto. destruct Hsc as [->|?]; auto.
  - eapply jinv_same; eauto.
Qed.

Ltac qtj :=
  let s := fresh "s" in let a := fresh "a" in let s' := fresh "s'" in let H := fresh "H" in
  intros s a s' H;
  unfold cbind, cret, cur, cget, upd, set_line, set_classes, cerr, cerr_here, cwhen, code_len, in_class in H;
  cbn in H; qt_break H; try discriminate; inversion H; subst; clear H;
  cbn; unfold same_core; cbn; repeat split; auto; try discriminate.

Lemma qj_cur : quietJ true cur. Proof. qtj. Qed.
Lemma qj_cget : quietJ true cget. Proof. qtj. Qed.
Lemma qj_code_len : quietJ true code_len. Proof. qtj. Qed.
Lemma qj_in_class : quietJ true in_class. Proof. qtj. Qed.
Lemma qj_set_line l : quietJ true (set_line l). Proof. qtj. Qed.
Lemma qj_set_classes l : quietJ true (set_classes l). Proof. qtj. Qed.
Lemma qj_begin_scope : quietJ false begin_scope. Proof. unfold begin_scope. qtj. Qed.
Lemma qj_scope_pred : quietJ false (upd (fun c => with_scope c (pred (k_scope c)))). Proof. qtj. Qed.
Lemma qj_add_local x : quietJ true (add_local x). Proof. unfold add_local. qtj. Qed.
Lemma qj_mark_last : quietJ true mark_last_initialised.
Proof. unfold mark_last_initialised. intros s a s' H. unfold upd in H. inversion H; subst. cbn.
  destruct (k_locals (s_cur s)); cbn; unfold same_core; cbn; auto. Qed.
Lemma qj_mark_initialised : quietJ true mark_initialised.
Proof.
  unfold mark_initialised. intros s a s' H. unfold cbind, cur in H.
  destruct (Nat.eqb _ _). inversion H; subst. unfold same_core; auto. apply qj_mark_last in H. auto.
Qed.
Lemma qj_mark_slot n : quietJ true (mark_initialised_slot n). Proof. unfold mark_initialised_slot. qtj. Qed.
Lemma qj_declare x l : quietJ true (declare_variable x l).
Proof. unfold declare_variable, add_local. qtj. Qed.
Lemma qj_check_count n l msg : quietJ true (check_count n l msg). Proof. unfold check_count. qtj. Qed.
Lemma qj_super_checks l : quietJ true (super_checks l). Proof. unfold super_checks. qtj. Qed.
Lemma qj_lambdas : quietJ true (upd (fun c => with_lambdas c (k_lambdas c + 1)%N)). Proof. qtj. Qed.
Lemma qj_arity : quietJ true (upd (fun c => with_arity c (k_arity c + 1)%N)). Proof. qtj. Qed.
Lemma qj_try b f : quietJ true (upd (fun c => with_try c (b c) (f c))). Proof. qtj. Qed.
Lemma qj_with_locals f : quietJ true (upd (fun c => with_locals c (f c))). Proof. qtj. Qed.

(* ------------------------------------------------------------------ *)
(* positions are strictly increasing                                    *)
Lemma pos_S g : forall k x, nth_error g k = Some x -> pos g (S k) = pos g k + length (enc x).
Proof.
  unfold pos. induction g as [|y g IH]; intros [|k] x H; simpl in H; try discriminate.
  - inversion H; subst. cbn [firstn]. rewrite flat_cons, app_length. simpl. lia.
  - change (firstn (S (S k)) (y :: g)) with (y :: firstn (S k) g).
    change (firstn (S k) (y :: g)) with (y :: firstn k g).
    rewrite !flat_cons, !app_length. rewrite (IH k x H). lia.
Qed.
Lemma pos_mono g k' : forall k, k < k' -> k' <= length g -> pos g k < pos g k'.
Proof.
  induction k' as [|j IH]; intros k Hk Hl. lia.
  destruct (nth_error g j) as [x|] eqn:E.
  2:{ apply nth_error_None in E. lia. }
  rewrite (pos_S g j x E). unfold enc. simpl.
  destruct (Nat.eq_dec k j) as [->|Hne]. lia. assert (pos g k < pos g j) by (apply IH; lia). lia.
Qed.
Lemma pos_inj g k k' : k <= length g -> k' <= length g -> pos g k = pos g k' -> k = k'.
Proof.
  intros H1 H2 H. destruct (Nat.lt_trichotomy k k') as [L|[E|L]]; auto.
  - pose proof (pos_mono g k' k L H2). lia.
  - pose proof (pos_mono g k k' L H1). lia.
Qed.
Lemma nth_error_lt {A} (g : list A) k x : nth_error g k = Some x -> k < length g.
Proof. intros H. apply nth_error_Some. congruence. Qed.

(* ------------------------------------------------------------------ *)
(* appending instructions: the part of the invariant about pending positions and handlers *)
Lemma nth_error_app_old {A} (g new : list A) k i :
  nth_error (g ++ new) k = Some i -> (k < length g /\ nth_error g k = Some i) \/ In i new.
Proof.
  intros H. destruct (Nat.lt_ge_cases k (length g)).
  - left. split; auto. rewrite nth_error_app1 in H; auto.
  - right. rewrite nth_error_app2 in H by lia. eapply nth_error_In; eauto.
Qed.

Definition hcore (X : list nat) (fs : list fact) (c : comp) (g : list ainstr) : Prop :=
  NoDup (concat (k_breaks c) ++ X) /\
  (forall x, In x (concat (k_breaks c) ++ X) -> x <= length (flat g)) /\
  (forall k a b c0 d, nth_error g k = Some (OpPushExcHandler, [a; b; c0; d]) ->
      bnd g (pos g k + 5 + N.to_nat (u16 a b)) \/ In (pos g k + 1) X) /\
  (forall k a b c0 d, nth_error g k = Some (OpPushExcHandler, [a; b; c0; d]) ->
      bnd g (pos g k + 5 + N.to_nat (u16 a b) + N.to_nat (u16 c0 d)) \/ In (pos g k + 3) X) /\
  (forall p t, In (p, t) (cof fs) -> forall k a b c0 d,
      nth_error g k = Some (OpPushExcHandler, [a; b; c0; d]) -> pos g k + 1 = p ->
      pos g k + 5 + N.to_nat (u16 a b) = t) /\
  (forall p t, In (p, t) (cof fs) -> ~ In p (concat (k_breaks c) ++ X) /\ p <= length (flat g)).

Lemma jinv_hcore n X fs c g : jinv n X fs c g -> hcore X fs c g.
Proof. intros []. repeat split; auto; try (eapply j_cfresh0; eauto). Qed.

Lemma hcore_app X fs c g new :
  hcore X fs c g -> Forall (fun i => fst i <> OpPushExcHandler) new -> hcore X fs c (g ++ new).
Proof.
  intros (N1 & N2 & N3 & N4 & N5 & N6) Hn.
  assert (Hold : forall k a b c0 d, nth_error (g ++ new) k = Some (OpPushExcHandler, [a; b; c0; d]) ->
                   k < length g /\ nth_error g k = Some (OpPushExcHandler, [a; b; c0; d])).
  { intros k a b c0 d H. apply nth_error_app_old in H. destruct H as [H|H]; auto.
    rewrite Forall_forall in Hn. apply Hn in H. simpl in H. congruence. }
  repeat split; auto.
  - intros x Hx. apply N2 in Hx. rewrite flat_app, app_length. lia.
  - intros k a b c0 d H. apply Hold in H. destruct H as [Hk H]. rewrite pos_app_le by lia.
    destruct (N3 _ _ _ _ _ H); auto. left. apply bnd_app; auto.
  - intros k a b c0 d H. apply Hold in H. destruct H as [Hk H]. rewrite pos_app_le by lia.
    destruct (N4 _ _ _ _ _ H); auto. left. apply bnd_app; auto.
  - intros p t Hin k a b c0 d H Hp. apply Hold in H. destruct H as [Hk H]. rewrite pos_app_le in * by lia. eapply N5; eauto.
  - eapply N6; eauto.
  - destruct (N6 _ _ H) as [_ Hle]. rewrite flat_app, app_length. lia.
Qed.

Ltac hc H := destruct H as (?N1 & ?N2 & ?N3 & ?N4 & ?N5 & ?N6).

Lemma in_mid {A} (l1 : list A) p l2 x : In x (l1 ++ p :: l2) <-> x = p \/ In x (l1 ++ l2).
Proof. rewrite !in_app_iff. simpl. intuition. Qed.

Lemma hcore_consX X fs c g p :
  hcore X fs c g -> (forall x, In x (concat (k_breaks c) ++ X) -> x < p) -> p <= length (flat g) ->
  (forall q t, In (q, t) (cof fs) -> q < p) -> hcore (p :: X) fs c g.
Proof.
  intros (N1 & N2 & N3 & N4 & N5 & N6) Hf Hp Hq. repeat split; auto.
  - eapply Permutation_NoDup. apply Permutation_middle. constructor; auto. intros Hin. apply Hf in Hin. lia.
  - intros x Hx. apply in_mid in Hx. destruct Hx as [->|Hx]; auto.
  - intros k a b c0 d H. destruct (N3 _ _ _ _ _ H); auto. right; right; auto.
  - intros k a b c0 d H. destruct (N4 _ _ _ _ _ H); auto. right; right; auto.
  - intros Hin. apply in_mid in Hin. destruct Hin as [->|Hin]. apply Hq in H. lia. eapply N6; eauto.
  - eapply N6; eauto.
Qed.

(* ------------------------------------------------------------------ *)
(* appending an instruction                                             *)
Lemma jinv_push n X fs c g i :
  jinv n X fs c g -> is_jump16 (fst i) = false -> fst i <> OpLoop -> i <> (OpJumpFinally, []) ->
  fst i <> OpPushExcHandler -> jinv n X fs c (g ++ [i]).
Proof.
  intros J Hj Hl Hjf Hh.
  assert (HC : hcore X fs c (g ++ [i])) by (apply hcore_app; [eapply jinv_hcore; eauto | repeat constructor; auto]).
  hc HC.
  destruct J. constructor; auto using jf_ok_snoc.
  - intros k o a b H1 H2. apply nth_error_snoc in H1. destruct H1 as [[Hk H1]|[Hk H1]].
    + rewrite pos_app_le by lia. destruct (j_jumps0 k o a b H1 H2) as [?|[?|?]]; auto. left. apply bnd_app; auto.
    + subst i. simpl in Hj. congruence.
  - intros k a b H1. apply nth_error_snoc in H1. destruct H1 as [[Hk H1]|[Hk H1]].
    + rewrite pos_app_le by lia. destruct (j_loops0 k a b H1). split; auto. apply bnd_app; auto.
    + subst i. simpl in Hl. congruence.
  - eapply Forall_impl; [|eauto]. intros. apply bnd_app; auto.
Qed.

Lemma jinv_push_jump n X fs c g o a b :
  jinv n X fs c g -> is_jump16 o = true -> jinv n ((length (flat g) + 1) :: X) fs c (g ++ [(o, [a; b])]).
Proof.
  intros J Hj.
  assert (HC : hcore ((length (flat g) + 1) :: X) fs c (g ++ [(o, [a; b])])).
  { pose proof (jinv_hcore _ _ _ _ _ J) as H0. apply hcore_consX.
    - apply hcore_app; auto. repeat constructor. simpl. destruct o; discriminate.
    - hc H0. intros x Hx. apply N2 in Hx. lia.
    - rewrite flat_app, app_length. simpl. lia.
    - hc H0. intros q t Hq. destruct (N6 _ _ Hq). lia. }
  hc HC. destruct J. constructor; auto.
  4:{ apply jf_ok_snoc; auto. destruct o; discriminate. }
  - intros k o' a' b' H1 H2. apply nth_error_snoc in H1. destruct H1 as [[Hk H1]|[Hk H1]].
    + rewrite pos_app_le by lia. destruct (j_jumps0 k o' a' b' H1 H2) as [?|[?|?]]; auto.
      left. apply bnd_app; auto. right; right; right; auto.
    + subst k. rewrite pos_app_le, pos_all by lia. right; right; left. reflexivity.
  - intros k a' b' H1. apply nth_error_snoc in H1. destruct H1 as [[Hk H1]|[Hk H1]].
    + rewrite pos_app_le by lia. destruct (j_loops0 k a' b' H1). split; auto. apply bnd_app; auto.
    + inversion H1; subst. discriminate.
  - eapply Forall_impl; [|eauto]. intros. apply bnd_app; auto.
Qed.

Lemma jinv_push_loop n X fs c g a b ls :
  jinv n X fs c g -> bnd g ls -> N.to_nat (u16 a b) = length (flat g) + 3 - ls ->
  jinv n X fs c (g ++ [(OpLoop, [a; b])]).
Proof.
  intros J Hb Hu.
  assert (HC : hcore X fs c (g ++ [(OpLoop, [a; b])])).
  { apply hcore_app. eapply jinv_hcore; eauto. repeat constructor. discriminate. }
  hc HC. destruct J. constructor; auto.
  4:{ apply jf_ok_snoc; auto. discriminate. }
  - intros k o' a' b' H1 H2. apply nth_error_snoc in H1. destruct H1 as [[Hk H1]|[Hk H1]].
    + rewrite pos_app_le by lia. destruct (j_jumps0 k o' a' b' H1 H2) as [?|[?|?]]; auto. left. apply bnd_app; auto.
    + inversion H1; subst. discriminate.
  - intros k a' b' H1. apply nth_error_snoc in H1. destruct H1 as [[Hk H1]|[Hk H1]].
    + rewrite pos_app_le by lia. destruct (j_loops0 k a' b' H1). split; auto. apply bnd_app; auto.
    + inversion H1; subst. rewrite pos_app_le, pos_all by lia. rewrite Hu.
      assert (ls <= length (flat g)). { destruct Hb as (k & Hk & <-). apply pos_le. }
      split. lia. replace (length (flat g) + 3 - (length (flat g) + 3 - ls)) with ls by lia. apply bnd_app; auto.
  - eapply Forall_impl; [|eauto]. intros. apply bnd_app; auto.
Qed.

(* ------------------------------------------------------------------ *)
(* patching                                                             *)
Lemma pos_le_mono g k k' : k <= k' -> k' <= length g -> pos g k <= pos g k'.
Proof.
  intros H H'. destruct (Nat.eq_dec k k') as [->|Hne]; auto. pose proof (pos_mono g k' k). lia.
Qed.
Lemma pos_gap g k k0 x d :
  nth_error g k = Some x -> 0 < d -> d < length (enc x) -> k0 <= length g -> pos g k0 <> pos g k + d.
Proof.
  intros Hn Hd Hd' Hk0. pose proof (nth_error_lt _ _ _ Hn) as Hk. pose proof (pos_S g k x Hn) as HS.
  destruct (Nat.le_gt_cases k0 k).
  - pose proof (pos_le_mono g k0 k). lia.
  - pose proof (pos_le_mono g (S k) k0). lia.
Qed.

Lemma hcore_sp X fs c g g' :
  hcore X fs c g -> Forall2 sp g g' ->
  (forall k a b c0 d, nth_error g' k = Some (OpPushExcHandler, [a; b; c0; d]) ->
                      nth_error g k = Some (OpPushExcHandler, [a; b; c0; d])) ->
  hcore X fs c g'.
Proof.
  intros (N1 & N2 & N3 & N4 & N5 & N6) Hsp Hsame.
  assert (Hl : length (flat g') = length (flat g)) by (symmetry; apply F2sp_len; auto).
  repeat split; auto.
  - intros x Hx. rewrite Hl. auto.
  - intros k a b c0 d H. rewrite (F2sp_pos _ _ Hsp). destruct (N3 _ _ _ _ _ (Hsame _ _ _ _ _ H)); auto.
    left. eapply bnd_sp; eauto.
  - intros k a b c0 d H. rewrite (F2sp_pos _ _ Hsp). destruct (N4 _ _ _ _ _ (Hsame _ _ _ _ _ H)); auto.
    left. eapply bnd_sp; eauto.
  - intros p t Hin k a b c0 d H Hp. rewrite (F2sp_pos _ _ Hsp) in *. eapply N5; eauto.
  - eapply N6; eauto.
  - rewrite Hl. eapply N6; eauto.
Qed.

Lemma hcore_remX X X' fs c g p :
  hcore X fs c g -> Permutation X (p :: X') ->
  (forall k a b c0 d, nth_error g k = Some (OpPushExcHandler, [a; b; c0; d]) -> pos g k + 1 = p ->
     bnd g (pos g k + 5 + N.to_nat (u16 a b))) ->
  (forall k a b c0 d, nth_error g k = Some (OpPushExcHandler, [a; b; c0; d]) -> pos g k + 3 = p ->
     bnd g (pos g k + 5 + N.to_nat (u16 a b) + N.to_nat (u16 c0 d))) ->
  hcore X' fs c g.
Proof.
  intros (N1 & N2 & N3 & N4 & N5 & N6) HP H1 H2.
  assert (HPP : Permutation (concat (k_breaks c) ++ X) (p :: concat (k_breaks c) ++ X')).
  { eapply Permutation_trans. apply Permutation_app_head. exact HP. apply Permutation_sym, Permutation_middle. }
  assert (Hsub : forall x, In x (concat (k_breaks c) ++ X') -> In x (concat (k_breaks c) ++ X)).
  { intros x Hx. eapply Permutation_in. apply Permutation_sym. exact HPP. right; auto. }
  repeat split; auto.
  - pose proof (Permutation_NoDup HPP N1) as Hn. inversion Hn; auto.
  - intros k a b c0 d H. destruct (N3 _ _ _ _ _ H) as [?|Hin]; auto.
    apply (Permutation_in _ HP) in Hin. destruct Hin as [Hp|Hin]; [left; eapply H1; eauto | auto].
  - intros k a b c0 d H. destruct (N4 _ _ _ _ _ H) as [?|Hin]; auto.
    apply (Permutation_in _ HP) in Hin. destruct Hin as [Hp|Hin]; [left; eapply H2; eauto | auto].
  - intros Hin. apply Hsub in Hin. eapply N6; eauto.
  - eapply N6; eauto.
Qed.
Lemma jinv_patch_jump n X X' fs c pre o a b lo hi post :
  let g := pre ++ (o, [a; b]) :: post in
  let g' := pre ++ (o, [lo; hi]) :: post in
  jinv n X fs c g -> is_jump16 o = true ->
  N.to_nat (u16 lo hi) = length (flat g) - (length (flat pre) + 1) - 2 ->
  Permutation X ((length (flat pre) + 1) :: X') ->
  jinv n X' fs c g'.
Proof.
  intros g g' J Ho Hv HX.
  assert (Hsp0 : Forall2 sp g g').
  { apply Forall2_app. apply F2sp_refl. constructor; [|apply F2sp_refl]. right. simpl. destruct o; try discriminate; auto. }
  assert (Hn0 : nth_error g (length pre) = Some (o, [a; b])).
  { unfold g. rewrite nth_error_app2, Nat.sub_diag by lia. reflexivity. }
  assert (HC : hcore X' fs c g').
  { apply hcore_sp with (g := g); auto.
    - apply hcore_remX with (X := X) (p := length (flat pre) + 1); auto. eapply jinv_hcore; eauto.
      + intros k a0 b0 c0 d H Hp. exfalso.
        assert (k = length pre).
        { apply (pos_inj g). apply Nat.lt_le_incl. eapply nth_error_lt; eauto. unfold g; rewrite app_length; simpl; lia.
          unfold g at 2. rewrite pos_split. lia. }
        assert (Hc : Some (OpPushExcHandler, [a0; b0; c0; d]) = Some (o, [a; b])) by (rewrite <- H; subst k; exact Hn0).
        inversion Hc; subst; discriminate.
      + intros k a0 b0 c0 d H Hp. exfalso.
        apply (pos_gap g k (length pre) _ 2 H); simpl; try lia. unfold g; rewrite app_length; simpl; lia.
        unfold g at 1. rewrite pos_split. lia.
    - intros k a0 b0 c0 d H. apply (nth_error_replace pre (o, [a; b])) in H. destruct H as [[_ H]|[_ H]]; auto.
      inversion H; subst; discriminate. }
  hc HC. destruct J.
  assert (Hsp : Forall2 sp g g').
  { apply Forall2_app. apply F2sp_refl. constructor; [|apply F2sp_refl]. right. simpl. destruct o; try discriminate; auto. }
  assert (Hlen : length (flat g') = length (flat g)) by (symmetry; apply F2sp_len; auto).
  assert (Hlg : length g' = length g) by (apply F2sp_length; auto).
  assert (Hfg : length (flat g) = length (flat pre) + 3 + length (flat post)).
  { unfold g. rewrite flat_app, flat_cons, !app_length. simpl. lia. }
  constructor; auto.
  - intros k o' a' b' H1 H2. rewrite (F2sp_pos _ _ Hsp).
    apply (nth_error_replace pre (o, [a; b])) in H1. destruct H1 as [[Hk H1]|[Hk H1]].
    + inversion H1; subst. left. unfold g at 1. rewrite pos_split. rewrite Hv.
      replace (length (flat pre) + 3 + (length (flat g) - (length (flat pre) + 1) - 2)) with (length (flat g')) by lia.
      apply bnd_end.
    + fold g in H1. destruct (j_jumps0 k o' a' b' H1 H2) as [?|[?|Hin]]; auto.
      * left. eapply bnd_sp; eauto.
      * apply (Permutation_in _ HX) in Hin. destruct Hin as [Hp|Hin]; auto. exfalso. apply Hk.
        apply (pos_inj g). apply Nat.lt_le_incl. exact (nth_error_lt _ _ _ H1). unfold g; rewrite app_length; simpl; lia.
        unfold g at 2. rewrite pos_split. lia.
  - intros k a' b' H1. rewrite (F2sp_pos _ _ Hsp).
    apply (nth_error_replace pre (o, [a; b])) in H1. destruct H1 as [[Hk H1]|[Hk H1]].
    + inversion H1; subst. discriminate.
    + fold g in H1. destruct (j_loops0 k a' b' H1). split; auto. eapply bnd_sp; eauto.
  - eapply Forall_impl; [|eauto]. intros. eapply bnd_sp; eauto.
  - unfold g'. eapply jf_ok_replace; eauto; simpl; destruct o; try discriminate; reflexivity.
Qed.

(* the part of the invariant about jumps / loops survives a rewrite of the operands of a PushExcHandler, and
   a position of that handler may leave the pending list *)
Lemma jinv_patch_handler_jumps n X X' fs c pre a b cc d a' b' c' d' post q :
  let g := pre ++ (OpPushExcHandler, [a; b; cc; d]) :: post in
  let g' := pre ++ (OpPushExcHandler, [a'; b'; c'; d']) :: post in
  jinv n X fs c g -> Permutation X ((length (flat pre) + q) :: X') -> (q = 1 \/ q = 3) ->
  (forall k o a0 b0, nth_error g' k = Some (o, [a0; b0]) -> is_jump16 o = true ->
      bnd g' (pos g' k + 3 + N.to_nat (u16 a0 b0)) \/ In (pos g' k + 1) (concat (k_breaks c)) \/ In (pos g' k + 1) X') /\
  (forall k a0 b0, nth_error g' k = Some (OpLoop, [a0; b0]) ->
      N.to_nat (u16 a0 b0) <= pos g' k + 3 /\ bnd g' (pos g' k + 3 - N.to_nat (u16 a0 b0))) /\
  Forall (fun L => bnd g' (fst (fst L))) (k_loops c) /\ jf_ok g' /\ Forall2 sp g g'.
Proof.
  intros g g' J HP Hq. destruct J.
  assert (Hsp : Forall2 sp g g').
  { apply Forall2_app. apply F2sp_refl. constructor; [|apply F2sp_refl]. right. simpl. auto. }
  assert (Hn0 : nth_error g (length pre) = Some (OpPushExcHandler, [a; b; cc; d])).
  { unfold g. rewrite nth_error_app2, Nat.sub_diag by lia. reflexivity. }
  split; [|split; [|split; [|split]]]; auto.
  - intros k o' a0 b0 H1 H2. rewrite (F2sp_pos _ _ Hsp).
    apply (nth_error_replace pre (OpPushExcHandler, [a; b; cc; d])) in H1. destruct H1 as [[Hk H1]|[Hk H1]].
    + inversion H1.
    + fold g in H1. destruct (j_jumps0 k o' a0 b0 H1 H2) as [?|[?|Hin]]; auto. left. eapply bnd_sp; eauto.
      apply (Permutation_in _ HP) in Hin. destruct Hin as [Hp|Hin]; auto. exfalso.
      assert (Hpp : pos g (length pre) = length (flat pre)) by (unfold g; apply pos_split).
      destruct Hq as [-> | ->].
      * apply Hk. apply (pos_inj g). apply Nat.lt_le_incl. eapply nth_error_lt; eauto.
        unfold g; rewrite app_length; simpl; lia. lia.
      * apply (pos_gap g (length pre) k _ 2 Hn0); simpl; try lia. apply Nat.lt_le_incl. eapply nth_error_lt; eauto.
  - intros k a0 b0 H1. rewrite (F2sp_pos _ _ Hsp).
    apply (nth_error_replace pre (OpPushExcHandler, [a; b; cc; d])) in H1. destruct H1 as [[Hk H1]|[Hk H1]].
    + inversion H1.
    + fold g in H1. destruct (j_loops0 k a0 b0 H1). split; auto. eapply bnd_sp; eauto.
  - eapply Forall_impl; [|eauto]. intros. eapply bnd_sp; eauto.
  - unfold g'. eapply jf_ok_replace; eauto; reflexivity.
Qed.

Lemma nodup_perm_head {A} (l X X' : list A) p :
  NoDup (l ++ X) -> Permutation X (p :: X') -> NoDup (l ++ X') /\ ~ In p (l ++ X') /\
  (forall x, In x (l ++ X') -> In x (l ++ X)).
Proof.
  intros Hn HP.
  assert (HPP : Permutation (l ++ X) (p :: l ++ X')).
  { eapply Permutation_trans. apply Permutation_app_head. exact HP. apply Permutation_sym, Permutation_middle. }
  pose proof (Permutation_NoDup HPP Hn) as Hn'. inversion Hn'; subst. split; auto. split; auto.
  intros x Hx. eapply Permutation_in. apply Permutation_sym. exact HPP. right; auto.
Qed.

(* first operand of a PushExcHandler := distance to the current end of the code *)
Lemma jinv_patch_h1 n X X' fs c pre a b cc d lo hi post :
  let g := pre ++ (OpPushExcHandler, [a; b; cc; d]) :: post in
  let g' := pre ++ (OpPushExcHandler, [lo; hi; cc; d]) :: post in
  jinv n X fs c g ->
  N.to_nat (u16 lo hi) = length (flat g) - (length (flat pre) + 5) ->
  Permutation X ((length (flat pre) + 1) :: X') -> In (length (flat pre) + 3) X' ->
  jinv n X' (FCatch (length (flat pre) + 1) (length (flat g)) :: fs) c g'.
Proof.
  intros g g' J Hv HP H3.
  destruct (jinv_patch_handler_jumps n X X' fs c pre a b cc d lo hi cc d post 1 J HP (or_introl eq_refl))
    as (K1 & K2 & K3 & K4 & Hsp).
  fold g in Hsp. fold g' in K1, K2, K3, K4, Hsp.
  pose proof (jinv_hcore _ _ _ _ _ J) as HC. hc HC. destruct J.
  assert (Hl : length (flat g') = length (flat g)) by (symmetry; apply F2sp_len; auto).
  assert (Hfg : length (flat g) = length (flat pre) + 5 + length (flat post)).
  { unfold g. rewrite flat_app, flat_cons, !app_length. simpl. lia. }
  assert (Hn0 : nth_error g (length pre) = Some (OpPushExcHandler, [a; b; cc; d])).
  { unfold g. rewrite nth_error_app2, Nat.sub_diag by lia. reflexivity. }
  assert (Hpp : pos g (length pre) = length (flat pre)) by (unfold g; apply pos_split).
  assert (Hlen : length pre < length g) by (unfold g; rewrite app_length; simpl; lia).
  assert (Hrep : forall k y, nth_error g' k = Some y ->
            (k = length pre /\ y = (OpPushExcHandler, [lo; hi; cc; d])) \/ (k <> length pre /\ nth_error g k = Some y)).
  { intros k y Hy. unfold g' in Hy. apply (nth_error_replace pre (OpPushExcHandler, [a; b; cc; d])) in Hy. exact Hy. }
  assert (Hend : bnd g' (length (flat g'))) by apply bnd_end.
  clearbody g g'.
  destruct (nodup_perm_head _ _ _ _ N1 HP) as (D1 & D2 & D3).
  assert (Hk0 : forall k x, nth_error g k = Some x -> pos g k + 1 = length (flat pre) + 1 -> k = length pre).
  { intros k x Hx Hp. apply (pos_inj g).
    - apply Nat.lt_le_incl. eapply nth_error_lt; eauto.
    - apply Nat.lt_le_incl. exact Hlen.
    - rewrite Hpp. apply Nat.add_cancel_r in Hp. exact Hp. }
  constructor; auto.
  - intros x Hx. rewrite Hl. auto.
  - (* h1 *) intros k a0 b0 c0 d0 H. rewrite (F2sp_pos _ _ Hsp).
    apply Hrep in H. destruct H as [[Hk H]|[Hk H]].
    + inversion H; subst. left. rewrite Hpp, Hv. replace (length (flat pre) + 5 + (length (flat g) - (length (flat pre) + 5))) with (length (flat g')) by lia.
      exact Hend.
    + destruct (N3 _ _ _ _ _ H) as [?|Hin]. left; eapply bnd_sp; eauto.
      apply (Permutation_in _ HP) in Hin. destruct Hin as [Hp|Hin]; auto. exfalso. apply Hk. eapply Hk0; eauto.
  - (* h2 *) intros k a0 b0 c0 d0 H. rewrite (F2sp_pos _ _ Hsp).
    apply Hrep in H. destruct H as [[Hk H]|[Hk H]].
    + inversion H; subst. right. rewrite Hpp. exact H3.
    + destruct (N4 _ _ _ _ _ H) as [?|Hin]. left; eapply bnd_sp; eauto.
      apply (Permutation_in _ HP) in Hin. destruct Hin as [Hp|Hin]; auto. exfalso.
      apply (pos_gap g k (length pre) _ 2 H); simpl; try lia; try (apply Nat.lt_le_incl; exact Hlen).
  - (* catch *) simpl. intros p t [E|Hin] k a0 b0 c0 d0 H Hp; rewrite (F2sp_pos _ _ Hsp) in *.
    + inversion E; subst p t.
      apply Hrep in H. destruct H as [[Hk H]|[Hk H]].
      * inversion H; subst. rewrite Hpp, Hv. lia.
      * exfalso. apply Hk. eapply Hk0; eauto.
    + apply Hrep in H. destruct H as [[Hk H]|[Hk H]].
      * exfalso. subst k. destruct (N6 _ _ Hin) as [Hni _]. apply Hni. apply in_or_app. right.
        eapply Permutation_in. apply Permutation_sym. exact HP. left. lia.
      * eapply N5; eauto.
  - (* cfresh *) simpl. intros p t [E|Hin].
    + inversion E; subst p t. split; auto. rewrite Hl. lia.
    + destruct (N6 _ _ Hin) as [A B]. split. intros Hx. apply A. auto. rewrite Hl. auto.
Qed.

(* second operand := distance from the catch start to the current end of the code *)
Lemma jinv_patch_h2 n X X' fs c pre a b cc d lo hi post cs :
  let g := pre ++ (OpPushExcHandler, [a; b; cc; d]) :: post in
  let g' := pre ++ (OpPushExcHandler, [a; b; lo; hi]) :: post in
  jinv n X fs c g ->
  In (length (flat pre) + 1, cs) (cof fs) ->
  N.to_nat (u16 lo hi) = length (flat g) - cs ->
  Permutation X ((length (flat pre) + 3) :: X') ->
  jinv n X' fs c g'.
Proof.
  intros g g' J Hc Hv HP.
  destruct (jinv_patch_handler_jumps n X X' fs c pre a b cc d a b lo hi post 3 J HP (or_intror eq_refl))
    as (K1 & K2 & K3 & K4 & Hsp).
  fold g in Hsp. fold g' in K1, K2, K3, K4, Hsp.
  pose proof (jinv_hcore _ _ _ _ _ J) as HC. hc HC. destruct J.
  assert (Hl : length (flat g') = length (flat g)) by (symmetry; apply F2sp_len; auto).
  assert (Hn0 : nth_error g (length pre) = Some (OpPushExcHandler, [a; b; cc; d])).
  { unfold g. rewrite nth_error_app2, Nat.sub_diag by lia. reflexivity. }
  assert (Hpp : pos g (length pre) = length (flat pre)) by (unfold g; apply pos_split).
  assert (Hlen : length pre < length g) by (unfold g; rewrite app_length; simpl; lia).
  assert (Hrep : forall k y, nth_error g' k = Some y ->
            (k = length pre /\ y = (OpPushExcHandler, [a; b; lo; hi])) \/ (k <> length pre /\ nth_error g k = Some y)).
  { intros k y Hy. unfold g' in Hy. apply (nth_error_replace pre (OpPushExcHandler, [a; b; cc; d])) in Hy. exact Hy. }
  assert (Hend : bnd g' (length (flat g'))) by apply bnd_end.
  clearbody g g'.
  destruct (nodup_perm_head _ _ _ _ N1 HP) as (D1 & D2 & D3).
  assert (Hcs : length (flat pre) + 5 + N.to_nat (u16 a b) = cs) by (rewrite <- Hpp; eapply N5; eauto; lia).
  assert (Hb1 : bnd g cs).
  { destruct (N3 _ _ _ _ _ Hn0) as [Hb|Hin]. rewrite Hpp, Hcs in Hb. auto.
    exfalso. destruct (N6 _ _ Hc) as [Hni _]. apply Hni. apply in_or_app. right. rewrite Hpp in Hin. exact Hin. }
  assert (Hcsle : cs <= length (flat g)). { destruct Hb1 as (k & _ & <-). apply pos_le. }
  constructor; auto.
  - intros x Hx. rewrite Hl. auto.
  - (* h1 *) intros k a0 b0 c0 d0 H. rewrite (F2sp_pos _ _ Hsp).
    apply Hrep in H. destruct H as [[Hk H]|[Hk H]].
    + subst k; inversion H; subst a0 b0 c0 d0. left. rewrite Hpp, Hcs. eapply bnd_sp; eauto.
    + destruct (N3 _ _ _ _ _ H) as [?|Hin]. left; eapply bnd_sp; eauto.
      apply (Permutation_in _ HP) in Hin. destruct Hin as [Hp|Hin]; auto. exfalso.
      apply (pos_gap g (length pre) k _ 2 Hn0); simpl; try lia. apply Nat.lt_le_incl. eapply nth_error_lt; eauto.
  - (* h2 *) intros k a0 b0 c0 d0 H. rewrite (F2sp_pos _ _ Hsp).
    apply Hrep in H. destruct H as [[Hk H]|[Hk H]].
    + subst k; inversion H; subst a0 b0 c0 d0. left. rewrite Hpp, Hcs, Hv.
      replace (cs + (length (flat g) - cs)) with (length (flat g')) by lia. exact Hend.
    + destruct (N4 _ _ _ _ _ H) as [?|Hin]. left; eapply bnd_sp; eauto.
      apply (Permutation_in _ HP) in Hin. destruct Hin as [Hp|Hin]; auto. exfalso. apply Hk.
      apply (pos_inj g); [apply Nat.lt_le_incl; eapply nth_error_lt; eauto | apply Nat.lt_le_incl; exact Hlen | rewrite Hpp; lia].
  - (* catch *) intros p t Hin k a0 b0 c0 d0 H Hp. rewrite (F2sp_pos _ _ Hsp) in *.
    apply Hrep in H. destruct H as [[Hk H]|[Hk H]].
    + subst k; inversion H; subst a0 b0 c0 d0. eapply N5; eauto.
    + eapply N5; eauto.
  - (* cfresh *) intros p t Hin. destruct (N6 _ _ Hin) as [A B]. split. intros Hx. apply A. auto. rewrite Hl. auto.
Qed.

(* ------------------------------------------------------------------ *)
(* emission                                                             *)
Lemma jinv_pushb n X fs s g bs l : jinv n X fs (s_cur s) g -> jinv n X fs (s_cur (pushb s bs l)) g.
Proof. apply jinv_same; reflexivity. Qed.

Lemma TJ_push {A} n X fs (m : C A) :
  (forall s G a s', sinv s G -> holds fs s G -> m s = COk (a, s') ->
     exists i l, s' = pushb s (enc i) l /\ iok (k_consts (s_cur s)) (length (k_upvalues (s_cur s))) i /\
                 is_jump16 (fst i) = false /\ fst i <> OpLoop /\ i <> (OpJumpFinally, []) /\ fst i <> OpPushExcHandler) ->
  TJ n X fs m (fun _ => fs) (fun _ => X) n.
Proof.
  intros Hm s G a s' Hs Hf Hj H. destruct (Hm _ _ _ _ Hs Hf H) as (i & l & -> & Hi & H1 & H2 & H3 & H4).
  destruct (push_ok fs s G i l Hs Hf Hi) as (A1 & A2 & A3).
  eexists. split; [exact A1|]. split; [exact A2|]. split; [exact A3|].
  cbn [fst]. apply jinv_pushb. apply jinv_push; auto.
Qed.

Lemma TJ_emit_op n X fs o l :
  layout_of o = L0 -> o <> OpJumpFinally -> TJ n X fs (emit_op o l) (fun _ => fs) (fun _ => X) n.
Proof.
  intros Ho Hjf. apply TJ_push. intros s G a s' Hs Hf H. rewrite emit_op_push in H. inversion H; subst.
  exists (o, []), l. split; auto. split. unfold iok. simpl. rewrite Ho. auto.
  split; [|split; [|split]]; simpl; try (destruct o; try discriminate; auto; fail); try (intros E; inversion E; auto).
Qed.

Lemma scope_end_ops_L0J d ls : Forall (fun o => layout_of o = L0 /\ o <> OpJumpFinally) (scope_end_ops d ls).
Proof.
  induction ls; simpl; auto. destruct (kl_depth a); auto. destruct (Nat.leb n d); auto.
  constructor; auto. destruct (kl_captured a); split; try reflexivity; discriminate.
Qed.
Lemma binop_ops_L0J op : Forall (fun o => layout_of o = L0 /\ o <> OpJumpFinally) (binop_ops op).
Proof. destruct op; simpl; repeat constructor; discriminate. Qed.
Lemma repeat_pop_L0J n : Forall (fun o => layout_of o = L0 /\ o <> OpJumpFinally) (repeat OpPopExcHandler n).
Proof. induction n; simpl; constructor; auto. split. reflexivity. discriminate. Qed.

Lemma TJ_emit_ops n X fs ops l :
  Forall (fun o => layout_of o = L0 /\ o <> OpJumpFinally) ops -> TJ n X fs (emit_ops ops l) (fun _ => fs) (fun _ => X) n.
Proof.
  induction 1 as [|o ops Ho Hr IH]; simpl. apply TJ_ret. destruct Ho as [Ho Hjf].
  eapply TJ_bind. apply TJ_emit_op; auto. intros u. auto.
Qed.

Lemma TJ_emit_op8 n X fs o a l :
  layout_of o = L8 -> upv_op o = false -> TJ n X fs (emit_op8 o a l) (fun _ => fs) (fun _ => X) n.
Proof.
  intros Ho Hu. apply TJ_push. intros s G a0 s' Hs Hf H. rewrite emit_op8_push in H. inversion H; subst.
  exists (o, [a]), l. split; auto. split. unfold iok. simpl. rewrite Ho. exists a. split; auto. rewrite Hu. discriminate.
  split; [|split; [|split]]; simpl; try (destruct o; try discriminate; auto; fail); try discriminate.
Qed.

Lemma TJ_emit_op16 n X fs o a l :
  layout_of o = L16 -> o <> OpConstant -> is_jump16 o = false -> o <> OpLoop -> (str_op o = true -> In (FStr a) fs) ->
  TJ n X fs (emit_op16 o a l) (fun _ => fs) (fun _ => X) n.
Proof.
  intros Ho Hc Hj Hl Hstr. apply TJ_push. intros s G a0 s' Hs Hf H. rewrite emit_op16_push in H. inversion H; subst.
  eexists _, l. split; [reflexivity|]. split; [|split; [auto|split; [auto|split; [discriminate|simpl; destruct o; try discriminate; auto]]]]. unfold iok. simpl. rewrite Ho.
  eexists _, _. split; [reflexivity|]. rewrite u16_split. split; [|intros; contradiction].
  intros Hs'. apply (holds_in _ _ _ _ Hf (Hstr Hs')).
Qed.

Lemma TJ_emit_op16_8 n X fs o a b l :
  layout_of o = L16_8 -> In (FStr a) fs -> TJ n X fs (emit_op16 o a l ;;; emit_byte b l) (fun _ => fs) (fun _ => X) n.
Proof.
  intros Ho Hstr. apply TJ_push. intros s G a0 s' Hs Hf H. rewrite emit_op16_8_push in H. inversion H; subst.
  eexists _, l. split; [reflexivity|]. split; [|split; [|split; [|split]]; simpl; try discriminate; destruct o; try discriminate; auto].
  unfold iok. simpl. rewrite Ho.
  eexists _, _, _. split; [reflexivity|]. rewrite u16_split. apply (holds_in _ _ _ _ Hf Hstr).
Qed.
Lemma TJ_emit_op16_8_k {A} n X fs o a b l (k : C A) R X2 n2 :
  layout_of o = L16_8 -> In (FStr a) fs -> TJ n X fs k R X2 n2 ->
  TJ n X fs (cbind (emit_op16 o a l) (fun _ => cbind (emit_byte b l) (fun _ => k))) R X2 n2.
Proof.
  intros Ho Hstr Hk.
  eapply TJ_ext with (m := cbind (emit_op16 o a l ;;; emit_byte b l) (fun _ => k)).
  - eapply TJ_bind. apply TJ_emit_op16_8; auto. intros u. exact Hk.
  - intros s. unfold cbind. destruct (emit_op16 o a l s) as [[[] s1]|]; auto.
Qed.

Lemma TJ_emit_variable_op n X fs o arg l g s_ :
  In (FVar g s_ arg) fs -> (o = g \/ o = s_) -> TJ n X fs (emit_variable_op o arg l) (fun _ => fs) (fun _ => X) n.
Proof.
  intros Hin Ho. apply TJ_push. intros s G a s' Hs Hf H.
  pose proof (holds_in _ _ _ _ Hf Hin) as Hv. simpl in Hv.
  unfold emit_variable_op in H.
  assert (Hcase : (is_op8 o = true /\ layout_of o = L8 /\ is_jump16 o = false /\ o <> OpLoop /\ (upv_op o = true -> N.to_nat arg < length (k_upvalues (s_cur s)))) \/
                  (is_op8 o = false /\ layout_of o = L16 /\ is_jump16 o = false /\ o <> OpLoop /\ str_op o = true /\ o <> OpConstant /\ kstr (k_consts (s_cur s)) arg)).
  { destruct Hv as [(->&->)|[(->&->&Hu)|(->&->&Hk)]]; destruct Ho as [->| ->]; simpl.
    all: try (left; repeat split; auto; discriminate).
    all: right; repeat split; auto; discriminate. }
  destruct Hcase as [(E & Hl & J1 & J2 & Hu)|(E & Hl & J1 & J2 & Hso & Hc & Hk)]; rewrite E in H.
  - rewrite emit_op8_push in H. inversion H; subst. eexists _, l. split; [reflexivity|]. split; [|split; [auto|split; [auto|split; [discriminate|simpl; destruct o; try discriminate; auto]]]].
    unfold iok. simpl. rewrite Hl. eauto.
  - rewrite emit_op16_push in H. inversion H; subst. eexists _, l. split; [reflexivity|]. split; [|split; [auto|split; [auto|split; [discriminate|simpl; destruct o; try discriminate; auto]]]].
    unfold iok. simpl. rewrite Hl. eexists _, _. split; [reflexivity|]. rewrite u16_split.
    split; auto. intros; contradiction.
Qed.

(* jumps *)
Lemma TJ_emit_jump n X fs o l : is_jump16 o = true -> TJ n X fs (emit_jump o l) (fun p => FHole p :: fs) (fun p => p :: X) n.
Proof.
  intros Ho s G a s' Hs Hf Hj H. rewrite emit_jump_push in H. inversion H; subst.
  destruct (push_ok fs s G (o, [255%N; 255%N]) l Hs Hf) as (A1 & A2 & A3).
  { unfold iok. simpl. destruct o; try discriminate; simpl; eexists _, _; split; auto; split; intros; discriminate. }
  eexists. split; [exact A1|]. split; [exact A2|]. split.
  - constructor; auto. simpl. exists (fst G), o, 255%N, 255%N, []. split; auto. split; auto.
    destruct Hs as [[] _]. congruence.
  - cbn [fst]. apply jinv_pushb. rewrite (ci_code _ _ (proj1 Hs)).
    eapply jinv_weaken; [reflexivity| |apply jinv_push_jump; eauto]. simpl. apply incl_refl.
Qed.

Lemma TJ_code_len n X fs : TJ n X fs code_len (fun k => FBound k :: fs) (fun _ => X) n.
Proof.
  intros s G a s' Hs Hf Hj H. unfold code_len in H. inversion H; subst. exists G.
  split; auto. split. apply le_refl. split.
  - constructor; auto. simpl. apply bnd_boundary. rewrite (ci_code _ _ (proj1 Hs)). apply bnd_end.
  - eapply jinv_weaken; [reflexivity| |eauto]. simpl. apply incl_refl.
Qed.

Lemma TJ_emit_loop n X fs ls l : In (FBound ls) fs -> TJ n X fs (emit_loop ls l) (fun _ => fs) (fun _ => X) n.
Proof.
  intros Hin s G a s' Hs Hf Hj H. unfold emit_loop, emit_op in H. rewrite bind_push in H.
  unfold cbind, code_len in H. destruct (N.ltb _ _) eqn:E; [discriminate|].
  unfold emit_u16 in H. rewrite bind_push, emit_byte_push, !pushb_pushb in H. inversion H; subst; clear H.
  set (off := N.of_nat (length (k_code (s_cur (pushb s [N_of_opcode OpLoop] l))) - ls + 2)) in *.
  destruct (push_ok fs s G (OpLoop, [(off mod 256)%N; (off / 256)%N]) l Hs Hf) as (A1 & A2 & A3).
  { unfold iok. simpl. eexists _, _. split; auto. split; intros; discriminate. }
  eexists. split; [exact A1|]. split; [exact A2|]. split; [exact A3|].
  cbn [fst]. apply jinv_pushb. pose proof (holds_in _ _ _ _ Hf Hin) as Hb. simpl in Hb. apply bnd_boundary in Hb.
  apply jinv_push_loop with (ls := ls); auto. rewrite u16_split. unfold off. rewrite Nat2N.id.
  cbn. rewrite app_length. simpl. rewrite (ci_code _ _ (proj1 Hs)).
  assert (ls <= length (flat (fst G))). { destruct Hb as (k & Hk & <-). apply pos_le. }
  lia.
Qed.

Lemma patch_flat pre o a b post lo hi :
  set_nth (S (length (flat pre) + 1)) hi (set_nth (length (flat pre) + 1) lo (flat (pre ++ (o, [a; b]) :: post)))
  = flat (pre ++ (o, [lo; hi]) :: post).
Proof.
  rewrite !flat_app, !flat_cons. unfold enc. simpl fst. simpl snd.
  replace (flat pre ++ (N_of_opcode o :: [a; b]) ++ flat post)
    with ((flat pre ++ [N_of_opcode o]) ++ a :: (b :: flat post)) by (rewrite <- app_assoc; reflexivity).
  rewrite set_nth_app' by (rewrite app_length; simpl; lia).
  replace ((flat pre ++ [N_of_opcode o]) ++ lo :: b :: flat post)
    with ((flat pre ++ [N_of_opcode o; lo]) ++ b :: flat post) by (rewrite <- !app_assoc; reflexivity).
  rewrite set_nth_app' by (rewrite app_length; simpl; lia).
  rewrite <- !app_assoc. reflexivity.
Qed.

Lemma TJ_patch_jump n X X' fs p :
  In (FHole p) fs -> Permutation X (p :: X') -> TJ n X fs (patch_jump p) (fun _ => fs) (fun _ => X') n.
Proof.
  intros Hin HX s G a s' Hs Hf Hj H. unfold patch_jump, cbind, code_len in H.
  destruct (N.ltb _ _) eqn:E; [discriminate|]. rewrite patch16_run in H. inversion H; subst; clear H.
  pose proof (holds_in _ _ _ _ Hf Hin) as Hh. simpl in Hh.
  destruct Hh as (pre & o & a & b & post & Hg & Ho & ->).
  destruct Hs as [Hc Ho']. pose proof (ci_code _ _ Hc) as Hcode.
  set (v := N.of_nat (length (k_code (s_cur s)) - (length (flat pre) + 1) - 2)) in *.
  set (g' := pre ++ (o, [(v mod 256)%N; (v / 256)%N]) :: post).
  assert (Hsp : Forall2 sp (fst G) g').
  { rewrite Hg. apply Forall2_app. apply F2sp_refl. constructor; [|apply F2sp_refl]. right. simpl. destruct o; try discriminate; auto. }
  assert (Ecode : set_nth (S (length (flat pre) + 1)) (v / 256)%N (set_nth (length (flat pre) + 1) (v mod 256)%N (k_code (s_cur s))) = flat g').
  { rewrite Hcode, Hg. apply patch_flat. }
  destruct (patched_ok fs s G g' _ (conj Hc Ho') Hf Ecode Hsp) as (A1 & A2 & A3).
  { intros ks nu Hk. rewrite Hg in Hk. apply Forall_app in Hk. destruct Hk as [K1 K2]. inversion K2; subst.
    apply Forall_app. split; auto. constructor; auto.
    unfold iok in *. simpl fst in *. simpl snd in *. destruct o; try discriminate; simpl in *.
    all: eexists _, _; split; auto; split; intros; discriminate. }
  exists (g', snd G).
  split; [exact A1|]. split; [exact A2|]. split; [exact A3|].
  cbn [fst]. apply jinv_same with (c := s_cur s); [reflexivity|reflexivity|reflexivity|].
  rewrite Hg in Hj. unfold g'. eapply jinv_patch_jump with (X := X); [exact Hj | exact Ho | | exact HX].
  rewrite u16_split. unfold v. rewrite Nat2N.id. rewrite Hcode, Hg. reflexivity.
Qed.

Lemma TJ_patch_jumps n X fs ps :
  (forall p, In p ps -> In (FHole p) fs) -> TJ n (ps ++ X) fs (patch_jumps ps) (fun _ => fs) (fun _ => X) n.
Proof.
  induction ps; simpl; intros H. apply TJ_ret.
  eapply TJ_bind. apply TJ_patch_jump with (X' := ps ++ X). apply H; auto. apply Permutation_refl. intros u. apply IHps. auto.
Qed.

Lemma patch_flat_h0 pre a b c d post lo hi :
  set_nth (S (length (flat pre) + 1 + 0)) hi (set_nth (length (flat pre) + 1 + 0) lo (flat (pre ++ (OpPushExcHandler, [a; b; c; d]) :: post)))
  = flat (pre ++ (OpPushExcHandler, [lo; hi; c; d]) :: post).
Proof.
  rewrite !flat_app, !flat_cons. unfold enc. simpl fst. simpl snd.
  replace (flat pre ++ (N_of_opcode OpPushExcHandler :: [a; b; c; d]) ++ flat post)
    with ((flat pre ++ [N_of_opcode OpPushExcHandler]) ++ a :: (b :: c :: d :: flat post))
    by (rewrite <- app_assoc; reflexivity).
  rewrite set_nth_app' by (rewrite app_length; simpl; lia).
  replace ((flat pre ++ [N_of_opcode OpPushExcHandler]) ++ lo :: b :: c :: d :: flat post)
    with ((flat pre ++ [N_of_opcode OpPushExcHandler; lo]) ++ b :: c :: d :: flat post)
    by (rewrite <- !app_assoc; reflexivity).
  rewrite set_nth_app' by (rewrite app_length; simpl; lia).
  rewrite <- !app_assoc. reflexivity.
Qed.
Lemma patch_flat_h2 pre a b c d post lo hi :
  set_nth (S (length (flat pre) + 1 + 2)) hi (set_nth (length (flat pre) + 1 + 2) lo (flat (pre ++ (OpPushExcHandler, [a; b; c; d]) :: post)))
  = flat (pre ++ (OpPushExcHandler, [a; b; lo; hi]) :: post).
Proof.
  rewrite !flat_app, !flat_cons. unfold enc. simpl fst. simpl snd.
  replace (flat pre ++ (N_of_opcode OpPushExcHandler :: [a; b; c; d]) ++ flat post)
    with ((flat pre ++ [N_of_opcode OpPushExcHandler; a; b]) ++ c :: (d :: flat post))
    by (rewrite <- app_assoc; reflexivity).
  rewrite set_nth_app' by (rewrite app_length; simpl; lia).
  replace ((flat pre ++ [N_of_opcode OpPushExcHandler; a; b]) ++ lo :: d :: flat post)
    with ((flat pre ++ [N_of_opcode OpPushExcHandler; a; b; lo]) ++ d :: flat post)
    by (rewrite <- !app_assoc; reflexivity).
  rewrite set_nth_app' by (rewrite app_length; simpl; lia).
  rewrite <- !app_assoc. reflexivity.
Qed.

Lemma handler_iok pre a b c d a' b' c' d' post ks nu :
  Forall (iok ks nu) (pre ++ (OpPushExcHandler, [a; b; c; d]) :: post) ->
  Forall (iok ks nu) (pre ++ (OpPushExcHandler, [a'; b'; c'; d']) :: post).
Proof.
  intros Hk. apply Forall_app in Hk. destruct Hk as [K1 K2]. inversion K2; subst.
  apply Forall_app. split; auto. constructor; auto. unfold iok. simpl. eauto 6.
Qed.

(* first handler operand, together with the read of the catch start that follows it *)
Lemma TJ_patch_h1_k {A} n X X' fs hp (K : nat -> C A) R X2 n2 :
  In (FHandler hp) fs -> Permutation X (hp :: X') -> In (hp + 2) X' ->
  (forall cs, TJ n X' (FCatch hp cs :: FBound cs :: fs) (K cs) R X2 n2) ->
  TJ n X fs (cbind (patch_offset_at hp (hp + 4)) (fun _ => cbind code_len K)) R X2 n2.
Proof.
  intros Hin HP H3 HK s G a s' Hs Hf Hj H. unfold cbind at 1 in H. unfold patch_offset_at, cbind, code_len in H.
  destruct (N.ltb _ _); [discriminate|]. rewrite patch16_run in H.
  pose proof (holds_in _ _ _ _ Hf Hin) as Hh. simpl in Hh.
  destruct Hh as (pre & a0 & b0 & c0 & d0 & post & Hg & ->).
  destruct Hs as [Hc Ho']. pose proof (ci_code _ _ Hc) as Hcode.
  set (v := N.of_nat (length (k_code (s_cur s)) - (length (flat pre) + 1 + 4))) in *.
  set (g' := pre ++ (OpPushExcHandler, [(v mod 256)%N; (v / 256)%N; c0; d0]) :: post).
  assert (Ecode : set_nth (S (length (flat pre) + 1)) (v / 256)%N (set_nth (length (flat pre) + 1) (v mod 256)%N (k_code (s_cur s))) = flat g').
  { rewrite Hcode, Hg. pose proof (patch_flat_h0 pre a0 b0 c0 d0 post (v mod 256)%N (v / 256)%N) as E.
    rewrite !Nat.add_0_r in E. exact E. }
  assert (Hsp : Forall2 sp (fst G) g').
  { rewrite Hg. apply Forall2_app. apply F2sp_refl. constructor; [|apply F2sp_refl]. right. simpl. auto. }
  destruct (patched_ok fs s G g' _ (conj Hc Ho') Hf Ecode Hsp) as (A1 & A2 & A3).
  { intros ks nu Hk. rewrite Hg in Hk. eapply handler_iok; eauto. }
  match type of H with K ?cs ?st = _ => set (cs0 := cs) in *; set (s1 := st) in * end.
  assert (Hcs : cs0 = length (flat (fst G))).
  { unfold cs0, s1. cbn [s_cur k_code with_code]. rewrite Ecode. symmetry. apply F2sp_len; auto. }
  assert (Hj1 : jinv n X' (FCatch (length (flat pre) + 1) cs0 :: FBound cs0 :: fs) (s_cur s1) g').
  { apply jinv_same with (c := s_cur s); [reflexivity|reflexivity|reflexivity|].
    eapply jinv_weaken with (fs := FCatch (length (flat pre) + 1) cs0 :: fs); [reflexivity|simpl; apply incl_refl|].
    rewrite Hcs, Hg. unfold g'. apply jinv_patch_h1 with (X := X); auto.
    - rewrite <- Hg. exact Hj.
    - rewrite u16_split. unfold v. rewrite Nat2N.id. rewrite Hcode, Hg. lia.
    - replace (length (flat pre) + 3) with (length (flat pre) + 1 + 2) by lia. exact H3. }
  assert (Hf1 : holds (FCatch (length (flat pre) + 1) cs0 :: FBound cs0 :: fs) s1 (g', snd G)).
  { constructor. exact I. constructor; [|exact A3]. simpl. apply bnd_boundary. rewrite Hcs.
    replace (length (flat (fst G))) with (length (flat g')). apply bnd_end. symmetry. apply F2sp_len; auto. }
  destruct (HK cs0 s1 (g', snd G) a s' A1 Hf1 Hj1 H) as (G5 & B1 & B2 & B3 & B4).
  exists G5. split; auto. split; auto. eapply le_trans; eauto.
Qed.

Lemma TJ_patch_h2 n X X' fs hp cs :
  In (FHandler hp) fs -> In (FCatch hp cs) fs -> Permutation X ((hp + 2) :: X') ->
  TJ n X fs (patch_offset_at (hp + 2) cs) (fun _ => fs) (fun _ => X') n.
Proof.
  intros Hin Hcat HP s G a s' Hs Hf Hj H. unfold patch_offset_at, cbind, code_len in H.
  destruct (N.ltb _ _); [discriminate|]. rewrite patch16_run in H. inversion H; subst; clear H.
  pose proof (holds_in _ _ _ _ Hf Hin) as Hh. simpl in Hh.
  destruct Hh as (pre & a0 & b0 & c0 & d0 & post & Hg & ->).
  destruct Hs as [Hc Ho']. pose proof (ci_code _ _ Hc) as Hcode.
  set (v := N.of_nat (length (k_code (s_cur s)) - cs)) in *.
  set (g' := pre ++ (OpPushExcHandler, [a0; b0; (v mod 256)%N; (v / 256)%N]) :: post).
  assert (Ecode : set_nth (S (length (flat pre) + 1 + 2)) (v / 256)%N (set_nth (length (flat pre) + 1 + 2) (v mod 256)%N (k_code (s_cur s))) = flat g').
  { rewrite Hcode, Hg. apply patch_flat_h2. }
  assert (Hsp : Forall2 sp (fst G) g').
  { rewrite Hg. apply Forall2_app. apply F2sp_refl. constructor; [|apply F2sp_refl]. right. simpl. auto. }
  destruct (patched_ok fs s G g' _ (conj Hc Ho') Hf Ecode Hsp) as (A1 & A2 & A3).
  { intros ks nu Hk. rewrite Hg in Hk. eapply handler_iok; eauto. }
  exists (g', snd G). split; [exact A1|]. split; [exact A2|]. split; [exact A3|].
  cbn [fst]. apply jinv_same with (c := s_cur s); [reflexivity|reflexivity|reflexivity|].
  rewrite Hg in Hj. unfold g'. apply jinv_patch_h2 with (X := X) (cs := cs) (cc := c0) (d := d0); auto.
  - apply in_cof_iff. exact Hcat.
  - rewrite u16_split. unfold v. rewrite Nat2N.id. rewrite Hcode, Hg. reflexivity.
  - replace (length (flat pre) + 3) with (length (flat pre) + 1 + 2) by lia. exact HP.
Qed.

(* ------------------------------------------------------------------ *)
(* constants                                                            *)
Lemma make_constant_more c s i s' more :
  make_constant c s = COk (i, s') ->
  s' = mkS (with_consts (s_cur s) (k_consts (s_cur s) ++ more)) (s_outer s) (s_classes s) (s_line s) ->
  more = [] \/ more = [c].
Proof.
  intros H ->. unfold make_constant, cbind, cur in H. destruct (const_index _ _).
  - destruct (N.ltb _ _); [discriminate|]. left.
    assert (E := f_equal (fun r => match r with COk (_, s0) => k_consts (s_cur s0) | CErr _ _ => [] end) H).
    cbn in E. rewrite <- (app_nil_r (k_consts (s_cur s))) in E at 1. apply app_inv_head in E. auto.
  - unfold upd in H. cbn [s_cur s_outer s_classes s_line] in H. destruct (N.ltb _ _); [discriminate|]. right.
    assert (E := f_equal (fun r => match r with COk (_, s0) => k_consts (s_cur s0) | CErr _ _ => [] end) H).
    cbn in E. apply app_inv_head in E. auto.
Qed.

Lemma jinv_consts n X fs c c' g more :
  k_breaks c' = k_breaks c -> k_loops c' = k_loops c -> k_consts c' = k_consts c ++ more -> Forall jgood_const more ->
  jinv n X fs c g -> jinv n X fs c' g.
Proof.
  intros Hb Hl Hk Hm []. constructor; rewrite ?Hb, ?Hl, ?Hk; auto. apply Forall_app; auto.
Qed.

Lemma TJ_make_constant n X fs c :
  good_const c -> jgood_const c -> TJ n X fs (make_constant c) (fun i => kfacts c i ++ fs) (fun _ => X) n.
Proof.
  intros Hc Hjc s G i s' Hs Hf Hj H. destruct (make_constant_run _ _ _ _ Hc H) as (more & E & Hm & Hk).
  pose proof (make_constant_more _ _ _ _ _ H E) as Hmore. subst s'.
  destruct (consts_step fs s G more Hs Hf Hm) as (A1 & A2 & A3).
  exists G. split; auto. split; auto. split.
  - unfold holds. apply Forall_app. split; auto. destruct c; simpl; auto.
  - apply jinv_consts with (c := s_cur s) (more := more); try reflexivity.
    destruct Hmore as [-> | ->]; auto.
    eapply jinv_weaken; [reflexivity| |exact Hj]. destruct c; simpl; apply incl_refl.
Qed.

Lemma TJ_identifier_constant n X fs x : TJ n X fs (identifier_constant x) (fun i => FStr i :: fs) (fun _ => X) n.
Proof. apply (TJ_make_constant n X fs (KStr x)); constructor. Qed.

Lemma TJ_emit_constant n X fs c l : (forall f, c <> KFun f) -> TJ n X fs (emit_constant c l) (fun _ => fs) (fun _ => X) n.
Proof.
  intros Hnf s G a s' Hs Hf Hj H. unfold emit_constant, cbind, set_line in H.
  destruct (make_constant c _) as [[i s1]|] eqn:E; [|discriminate].
  assert (Hgc : good_const c) by (destruct c; try constructor; exfalso; eapply Hnf; eauto).
  destruct (make_constant_run _ _ _ _ Hgc E) as (more & -> & Hm & Hk).
  set (s0 := mkS (s_cur s) (s_outer s) (s_classes s) l) in *.
  assert (Hs0 : sinv s0 G) by (destruct Hs; split; auto).
  assert (Hf0 : holds fs s0 G) by exact Hf.
  destruct (consts_step fs s0 G more Hs0 Hf0 Hm) as (A1 & A2 & A3).
  rewrite emit_op16_push in H. inversion H; subst; clear H.
  match goal with |- context [pushb ?s1 (enc ?i) ?l] =>
    destruct (push_ok fs s1 G i l A1 A3) as (B1 & B2 & B3) end.
  { unfold iok. simpl. eexists _, _. split; [reflexivity|]. rewrite u16_split. split; [intros; discriminate|].
    intros _. destruct c; simpl in Hk; auto. destruct Hk as [x Hx]. exists (KStr x). split; auto. intros; discriminate.
    exfalso. eapply Hnf; eauto. }
  eexists. split; [exact B1|]. split; [eapply le_trans; [exact A2|exact B2]|]. split; [exact B3|].
  cbn [fst]. apply jinv_pushb. apply jinv_push; try discriminate; auto.
  pose proof (make_constant_more _ _ _ _ more E eq_refl) as Hmore.
  apply jinv_consts with (c := s_cur s) (more := more); try reflexivity; [|exact Hj].
  destruct Hmore as [-> | ->]; auto. constructor; auto. destruct c; try constructor. exfalso; eapply Hnf; eauto.
Qed.

(* ------------------------------------------------------------------ *)
(* loops and breaks                                                     *)
Lemma TJ_push_loop n X fs : clean fs = true -> TJ n X fs push_loop (fun _ => fs) (fun _ => X) (S n).
Proof.
  intros Hcl s G a s' Hs Hf Hj H. unfold push_loop, upd in H. inversion H; subst; clear H.
  exists G.
  destruct (brk_step fs s G ([] :: k_breaks (s_cur s)) Hs Hf) with (ls := (length (k_code (s_cur s)), k_scope (s_cur s), k_try_depth (s_cur s)) :: k_loops (s_cur s)) as (A1 & A2 & A3).
  { simpl. destruct Hs as [[] _]; auto. }
  split; [exact A1|]. split; [exact A2|]. split; [exact A3|].
  destruct Hj. constructor; cbn; auto.
  - constructor; auto. simpl. rewrite (ci_code _ _ (proj1 Hs)). apply bnd_end.
  - rewrite (clean_lof _ Hcl). intros k [].
Qed.

Lemma hole_not_handler g p : hole_at g p ->
  forall k a b c0 d, nth_error g k = Some (OpPushExcHandler, [a; b; c0; d]) -> pos g k + 1 <> p /\ pos g k + 3 <> p.
Proof.
  intros (pre & o & a0 & b0 & post & -> & Ho & ->) k a b c0 d H.
  set (g := pre ++ (o, [a0; b0]) :: post) in *.
  assert (Hn0 : nth_error g (length pre) = Some (o, [a0; b0])).
  { unfold g. rewrite nth_error_app2, Nat.sub_diag by lia. reflexivity. }
  assert (Hpp : pos g (length pre) = length (flat pre)) by (unfold g; apply pos_split).
  assert (Hlen : length pre < length g) by (unfold g; rewrite app_length; simpl; lia).
  pose proof (nth_error_lt _ _ _ H) as Hk. clearbody g. split; intros E.
  - assert (k = length pre).
    { apply (pos_inj g); [apply Nat.lt_le_incl; auto | apply Nat.lt_le_incl; auto | rewrite Hpp; lia]. }
    assert (Hc : Some (OpPushExcHandler, [a; b; c0; d]) = Some (o, [a0; b0])) by (rewrite <- H; subst k; exact Hn0).
    inversion Hc; subst; discriminate.
  - apply (pos_gap g k (length pre) _ 2 H); simpl; try lia. apply Nat.lt_le_incl; auto.
Qed.

Lemma TJ_push_break n X X' fs p k L r :
  In (FHole p) fs -> In (FLoopsOf k) fs -> k_loops k = L :: r -> Permutation X (p :: X') ->
  TJ n X fs (push_break p) (fun _ => fs) (fun _ => X') n.
Proof.
  intros Hin Hk HL HX s G a s' Hs Hf Hj H. unfold push_break, upd in H. inversion H; subst; clear H.
  assert (Hlo : k_loops (s_cur s) = L :: r).
  { rewrite <- HL. apply (j_lof _ _ _ _ _ Hj). apply in_lof_iff. exact Hk. }
  destruct (k_breaks (s_cur s)) as [|b rb] eqn:E.
  { pose proof (j_len _ _ _ _ _ Hj) as Hl. rewrite E, Hlo in Hl. discriminate. }
  exists G.
  pose proof (holds_in _ _ _ _ Hf Hin) as Hhole. simpl in Hhole.
  destruct (brk_step fs s G ((p :: b) :: rb) Hs Hf) with (ls := k_loops (s_cur s)) as (A1 & A2 & A3).
  { simpl. constructor. exact Hhole. destruct Hs as [[] _]. rewrite E in ci_breaks. auto. }
  split; [exact A1|]. split; [exact A2|]. split; [exact A3|].
  pose proof (jinv_hcore _ _ _ _ _ Hj) as HC. hc HC. rewrite E in N1, N2, N6. simpl in N1, N2, N6.
  assert (HPP : Permutation ((b ++ concat rb) ++ X) (p :: (b ++ concat rb) ++ X')).
  { eapply Permutation_trans. apply Permutation_app_head. exact HX. apply Permutation_sym, Permutation_middle. }
  destruct Hj. constructor; cbn; auto.
  - intros k0 o a0 b0 H1 H2. destruct (j_jumps0 k0 o a0 b0 H1 H2) as [?|[Hb|Hx]]; auto.
    + right; left. rewrite E in Hb. simpl in *. auto.
    + apply (Permutation_in _ HX) in Hx. destruct Hx as [<-|Hx]; [right; left; simpl; auto | auto].
  - rewrite E in j_len0. simpl in *. auto.
  - eapply Permutation_NoDup; [exact HPP | exact N1].
  - intros x Hx. apply N2. eapply Permutation_in. apply Permutation_sym. exact HPP. exact Hx.
  - intros k0 a0 b0 c0 d H. destruct (N3 _ _ _ _ _ H) as [?|Hx]; auto.
    apply (Permutation_in _ HX) in Hx. destruct Hx as [Hp|Hx]; auto.
    exfalso. destruct (hole_not_handler _ _ Hhole _ _ _ _ _ H) as [A _]. apply A. auto.
  - intros k0 a0 b0 c0 d H. destruct (N4 _ _ _ _ _ H) as [?|Hx]; auto.
    apply (Permutation_in _ HX) in Hx. destruct Hx as [Hp|Hx]; auto.
    exfalso. destruct (hole_not_handler _ _ Hhole _ _ _ _ _ H) as [_ A]. apply A. auto.
  - intros q t Hq. destruct (N6 _ _ Hq) as [A B]. split; auto. intros Hx. apply A.
    eapply Permutation_in. apply Permutation_sym. exact HPP. exact Hx.
Qed.

Lemma perm_breaks {A} (b cr X : list A) : Permutation ((b ++ cr) ++ X) (cr ++ rev b ++ X).
Proof.
  eapply Permutation_trans. apply Permutation_app_tail. apply Permutation_app_comm.
  rewrite <- app_assoc. apply Permutation_app_head. apply Permutation_app_tail. apply Permutation_rev.
Qed.

Lemma TJ_pop_loop n X fs : clean fs = true -> TJ (S n) X fs pop_loop (fun _ => fs) (fun _ => X) n.
Proof.
  intros Hcl s G a s' Hs Hf Hj H. unfold pop_loop in H. unfold cbind at 1 in H. unfold cur in H.
  unfold cbind at 1 in H. unfold upd at 1 in H.
  set (bps := match k_breaks (s_cur s) with b :: _ => rev b | [] => [] end) in *.
  set (s1 := mkS (with_loops (s_cur s) (tl (k_loops (s_cur s))) (tl (k_breaks (s_cur s)))) (s_outer s) (s_classes s) (s_line s)) in *.
  assert (Hb : Forall (hole_at (fst G)) bps /\ Forall (hole_at (fst G)) (concat (tl (k_breaks (s_cur s))))).
  { destruct Hs as [[] _]. destruct (k_breaks (s_cur s)) as [|b r]; simpl in *; auto.
    apply Forall_app in ci_breaks. destruct ci_breaks. split; auto. apply Forall_rev. auto. }
  destruct Hb as [Hb1 Hb2].
  destruct (brk_step fs s G (tl (k_breaks (s_cur s))) Hs Hf Hb2 (tl (k_loops (s_cur s)))) as (A1 & A2 & A3).
  fold s1 in A1, A2, A3.
  assert (HT : TJ n (bps ++ X) (map FHole bps ++ fs) (patch_jumps bps) (fun _ => map FHole bps ++ fs) (fun _ => X) n).
  { apply TJ_patch_jumps. intros p Hp. apply in_or_app. left. apply in_map. auto. }
  assert (Hf1 : holds (map FHole bps ++ fs) s1 G).
  { unfold holds. apply Forall_app. split; auto. apply Forall_map. eapply Forall_impl; [|exact Hb1]. auto. }
  assert (Hj1 : jinv n (bps ++ X) (map FHole bps ++ fs) (s_cur s1) (fst G)).
  { pose proof (j_h1 _ _ _ _ _ Hj) as JH1. pose proof (j_h2 _ _ _ _ _ Hj) as JH2.
    destruct Hj. constructor; cbn; auto.
    - intros k0 o a0 b0 H1 H2. destruct (j_jumps0 k0 o a0 b0 H1 H2) as [?|[Hb|Hx]]; auto.
      + unfold bps. destruct (k_breaks (s_cur s)) as [|b r]; simpl in *. contradiction.
        apply in_app_or in Hb. destruct Hb as [Hb|Hb]; auto.
        right; right. apply in_or_app. left. apply in_rev in Hb. auto.
      + right; right. apply in_or_app. auto.
    - destruct (k_loops (s_cur s)); simpl; auto. inversion j_starts0; auto.
    - destruct (k_loops (s_cur s)), (k_breaks (s_cur s)); simpl in *; auto; discriminate.
    - destruct (k_loops (s_cur s)); simpl in *; lia.
    - assert (E : lof (map FHole bps ++ fs) = []).
      { clear -Hcl. induction bps; simpl; auto. apply clean_lof; auto. }
      rewrite E. intros k [].
    - (* nodup *) unfold bps. destruct (k_breaks (s_cur s)) as [|b r]; simpl in *; auto.
      eapply Permutation_NoDup; [|exact j_nodup0]. apply perm_breaks.
    - (* xle *) intros x Hx. apply j_xle0. unfold bps in Hx. destruct (k_breaks (s_cur s)) as [|b r]; simpl in *; auto.
      rewrite !in_app_iff in *. rewrite <- in_rev in Hx. tauto.
    - intros k0 a0 b0 c0 d H1. destruct (JH1 _ _ _ _ _ H1); auto. right. apply in_or_app; auto.
    - intros k0 a0 b0 c0 d H1. destruct (JH2 _ _ _ _ _ H1); auto. right. apply in_or_app; auto.
    - intros q t Hq. assert (Hq' : In (q, t) (cof fs)).
      { clear -Hq. induction bps; simpl in *; auto. }
      eapply j_catch0; eauto.
    - intros q t Hq. assert (Hq' : In (q, t) (cof fs)).
      { clear -Hq. induction bps; simpl in *; auto. }
      destruct (j_cfresh0 _ _ Hq') as [A B]. split; auto. intros Hx. apply A.
      unfold bps in Hx. destruct (k_breaks (s_cur s)) as [|b r]; simpl in *; auto.
      rewrite !in_app_iff in *. rewrite <- in_rev in Hx. tauto. }
  destruct (HT _ _ _ _ A1 Hf1 Hj1 H) as (G2 & B1 & B2 & B3 & B4).
  exists G2. split; auto. split. eapply le_trans; [exact A2|exact B2]. split.
  - unfold holds in B3. apply Forall_app in B3. exact (proj2 B3).
  - eapply jinv_weaken; [reflexivity| |exact B4]. rewrite sig_holes. apply incl_refl.
Qed.

(* ------------------------------------------------------------------ *)
(* scope ends                                                           *)
Lemma TJ_emit_scope_end n X fs b d l : TJ n X fs (emit_scope_end b d l) (fun _ => fs) (fun _ => X) n.
Proof.
  unfold emit_scope_end. eapply TJ_bind. apply (TJ_quiet true); auto using qj_cur. intros k.
  eapply TJ_bind. apply TJ_emit_ops, scope_end_ops_L0J. intros u.
  destruct b. apply (TJ_quiet true); auto. apply qj_with_locals. apply TJ_ret.
Qed.

Lemma TJ_end_scope n X fs l : nodef fs = true -> TJ n X fs (end_scope l) (fun _ => fs) (fun _ => X) n.
Proof.
  intros Hn. unfold end_scope. eapply TJ_bind. apply (TJ_quiet false); auto using qj_scope_pred. intros u.
  eapply TJ_bind. apply (TJ_quiet true); auto using qj_cur. intros k. apply TJ_emit_scope_end.
Qed.

(* ------------------------------------------------------------------ *)
(* variables                                                            *)
Lemma TJ_resolve_global n X fs x l :
  TJ n X fs (set_line l ;;; g <- identifier_constant x ;; cret (OpGetGlobal, OpSetGlobal, g))
    (fun r => FVar (fst (fst r)) (snd (fst r)) (snd r) :: fs) (fun _ => X) n.
Proof.
  eapply TJ_bind. apply (TJ_quiet true); auto using qj_set_line. intros u.
  eapply TJ_bind. apply TJ_identifier_constant. intros g.
  intros s G a s' Hs Hf Hj H. inversion H; subst; clear H. exists G. split; auto. split. apply le_refl. split.
  - inversion Hf; subst. constructor; auto. simpl. right; right. auto.
  - eapply jinv_weaken; [reflexivity| |exact Hj]. simpl. apply incl_refl.
Qed.

Lemma TJ_resolve_variable n X fs x l :
  TJ n X fs (resolve_variable x l) (fun r => FVar (fst (fst r)) (snd (fst r)) (snd r) :: fs) (fun _ => X) n.
Proof.
  intros s G a s' Hs Hf Hj H. unfold resolve_variable in H. unfold cbind at 1 in H. unfold cur at 1 in H.
  destruct (resolve_local_c (s_cur s) x).
  - inversion H; subst; clear H. exists G. split; auto. split. apply le_refl. split. constructor; auto. simpl. auto.
    eapply jinv_weaken; [reflexivity| |exact Hj]. simpl. apply incl_refl.
  - discriminate.
  - unfold cbind at 1 in H. unfold cget at 1 in H.
    destruct (resolve_upvalue_in x (s_cur s) (s_outer s)) as [i c' o'| |] eqn:E.
    + unfold cbind, cret in H. inversion H; subst; clear H.
      destruct (resolve_upvalue_rel _ _ _ _ _ _ E) as (A1 & A2 & A3).
      destruct Hs as [Hc [Ho Hu]].
      assert (Hle : le s G (mkS c' o' (s_classes s) (s_line s)) G).
      { split; [|split; [|split]]; simpl; auto using ext_refl. apply ofix_cgrow; auto. }
      exists G. split; [|split; [|split]]; auto.
      * split; [|split]; simpl. eapply cinv_ofix; eauto. eapply F2cinv_ofix; eauto.
        eapply resolve_upvalue_chain; eauto.
      * constructor. simpl. right; left. auto.
        eapply holds_le; eauto. left. simpl. apply A1.
      * cbn [s_cur]. destruct A1 as (_ & Hk & Hb & _ & Hl & _).
        apply jinv_same with (c := s_cur s); auto.
        eapply jinv_weaken; [reflexivity| |exact Hj]. simpl. apply incl_refl.
    + eapply TJ_resolve_global; eauto.
    + discriminate.
Qed.

Lemma TJ_named_get n X fs x l : TJ n X fs (named_get x l) (fun _ => fs) (fun _ => X) n.
Proof.
  unfold named_get. eapply TJ_bind. apply TJ_resolve_variable. intros [[g s_] arg]. simpl.
  eapply TJ_post. eapply TJ_emit_variable_op. left; reflexivity. auto. intros u. apply incl_tl, incl_refl.
Qed.

Lemma TJ_parse_variable n X fs x l : TJ n X fs (parse_variable x l) (fun g => FDef g :: fs) (fun _ => X) n.
Proof.
  unfold parse_variable. eapply TJ_bind. apply (TJ_quiet true); auto using qj_declare. intros u.
  intros s G a s' Hs Hf Hj H. unfold cbind at 1 in H. unfold cur at 1 in H.
  destruct (Nat.ltb 0 (k_scope (s_cur s))) eqn:E.
  - inversion H; subst; clear H. exists G. split; auto. split. apply le_refl. split. constructor; auto.
    simpl. left. apply Nat.ltb_lt; auto.
    eapply jinv_weaken; [reflexivity| |exact Hj]. simpl. apply incl_refl.
  - destruct (TJ_identifier_constant n X fs x _ _ _ _ Hs Hf Hj H) as (G' & A1 & A2 & A3 & A4).
    exists G'. split; auto. split; auto. split. inversion A3; subst. constructor; auto. simpl. right. auto.
    eapply jinv_weaken; [reflexivity| |exact A4]. simpl. apply incl_refl.
Qed.

Lemma TJ_define_variable n X fs g l : In (FDef g) fs -> TJ n X fs (define_variable g l) (fun _ => fs) (fun _ => X) n.
Proof.
  intros Hin s G a s' Hs Hf Hj H. unfold define_variable in H. unfold cbind at 1 in H. unfold cur at 1 in H.
  destruct (Nat.ltb 0 (k_scope (s_cur s))) eqn:E.
  - eapply (TJ_quiet true); eauto using qj_mark_initialised.
  - pose proof (holds_in _ _ _ _ Hf Hin) as Hd. simpl in Hd. apply Nat.ltb_ge in E.
    destruct Hd as [Hd|Hd]; [lia|].
    assert (HT : TJ n X (FStr g :: fs) (emit_op16 OpDefineGlobal g l) (fun _ => FStr g :: fs) (fun _ => X) n).
    { apply TJ_emit_op16; auto; try discriminate. simpl; auto. }
    destruct (HT s G a s') as (G' & A1 & A2 & A3 & A4); auto. constructor; auto.
    eapply jinv_weaken; [reflexivity| |exact Hj]. simpl. apply incl_refl.
    exists G'. split; auto. split; auto. split. inversion A3; auto.
    eapply jinv_weaken; [reflexivity| |exact A4]. simpl. apply incl_refl.
Qed.

Lemma TJ_define_variable_str n X fs g l : In (FStr g) fs -> TJ n X fs (define_variable g l) (fun _ => fs) (fun _ => X) n.
Proof.
  intros Hin s G a s' Hs Hf Hj H. unfold define_variable in H. unfold cbind at 1 in H. unfold cur at 1 in H.
  destruct (Nat.ltb 0 (k_scope (s_cur s))) eqn:E.
  - eapply (TJ_quiet true); eauto using qj_mark_initialised.
  - eapply TJ_emit_op16; eauto; try reflexivity; discriminate.
Qed.

Lemma in_lof k fs : In (FLoopsOf k) fs -> In k (lof fs).
Proof.
  induction fs as [|f fs IH]; simpl. contradiction.
  intros [->|H]. simpl; auto. destruct f; simpl; auto.
Qed.

Lemma TJ_cur_loops n X fs : TJ n X fs cur (fun k => FLoopsOf k :: fs) (fun _ => X) n.
Proof.
  intros s G a s' Hs Hf Hj H. unfold cur in H. inversion H; subst. exists G. split; auto. split. apply le_refl.
  split. constructor; auto. simpl. auto.
  destruct Hj. constructor; auto. simpl. intros k [<-|Hk]; auto.
Qed.

Lemma TJ_emit_loop_cont n X fs k jt sd td r l :
  In (FLoopsOf k) fs -> k_loops k = (jt, sd, td) :: r -> TJ n X fs (emit_loop jt l) (fun _ => fs) (fun _ => X) n.
Proof.
  intros Hk HL s G a s' Hs Hf Hj H.
  assert (Hb : boundary (fst G) jt).
  { apply bnd_boundary. pose proof (j_lof _ _ _ _ _ Hj k (in_lof _ _ Hk)) as E. pose proof (j_starts _ _ _ _ _ Hj) as Hst.
    rewrite E, HL in Hst. inversion Hst; auto. }
  assert (HT : TJ n X (FBound jt :: fs) (emit_loop jt l) (fun _ => FBound jt :: fs) (fun _ => X) n).
  { apply TJ_emit_loop. simpl; auto. }
  destruct (HT s G a s') as (G' & A1 & A2 & A3 & A4); auto. constructor; auto.
  eapply jinv_weaken; [reflexivity| |exact Hj]. simpl. apply incl_refl.
  exists G'. split; auto. split; auto. split. inversion A3; auto.
  eapply jinv_weaken; [reflexivity| |exact A4]. simpl. apply incl_refl.
Qed.

(* ------------------------------------------------------------------ *)
(* functions                                                            *)
Lemma jinv_new k name : jinv 0 [] [] (new_comp k name) [].
Proof.
  constructor; simpl; auto; try solve [constructor]; intros; try contradiction;
    try (match goal with H : nth_error [] ?k = _ |- _ => destruct k; discriminate end).
  intros k0 H. destruct k0; discriminate.
Qed.

Definition plain_instr (i : ainstr) : Prop :=
  (forall ks nu, iok ks nu i) /\ is_jump16 (fst i) = false /\ fst i <> OpLoop /\ fst i <> OpPushExcHandler.

Definition pushes (s : cstate) (is_ : list ainstr) (l : N) : cstate :=
  fold_left (fun s i => pushb s (enc i) l) is_ s.

Lemma pushes_ok0 fs l is_ : forall s G,
  sinv s G -> holds fs s G -> Forall plain_instr is_ ->
  sinv (pushes s is_ l) (fst G ++ is_, snd G) /\ le s G (pushes s is_ l) (fst G ++ is_, snd G) /\
  holds fs (pushes s is_ l) (fst G ++ is_, snd G) /\
  k_breaks (s_cur (pushes s is_ l)) = k_breaks (s_cur s) /\ k_loops (s_cur (pushes s is_ l)) = k_loops (s_cur s) /\
  k_consts (s_cur (pushes s is_ l)) = k_consts (s_cur s).
Proof.
  induction is_ as [|i r IH]; intros s G Hs Hf Hp.
  - simpl. rewrite app_nil_r. destruct G. simpl. split; auto. split; auto. apply le_refl.
  - inversion Hp as [|? ? [Hi [H1 [H2 H2']]] Hr]; subst.
    destruct (push_ok fs s G i l Hs Hf (Hi _ _)) as (A1 & A2 & A3).
    destruct (IH (pushb s (enc i) l) (fst G ++ [i], snd G) A1 A3 Hr) as (B1 & B2 & B3 & B4 & B5 & B6).
    cbn [fst snd] in *. rewrite <- app_assoc in *. simpl in *.
    split; auto. split. eapply le_trans; eauto. split; auto.
Qed.

Lemma nth_error_app_plain g is_ k o a b :
  Forall plain_instr is_ -> nth_error (g ++ is_) k = Some (o, [a; b]) -> (is_jump16 o = true \/ o = OpLoop) ->
  k < length g /\ nth_error g k = Some (o, [a; b]).
Proof.
  intros Hp H Ho. destruct (Nat.lt_ge_cases k (length g)) as [Hlt|Hge].
  - split; auto. rewrite nth_error_app1 in H; auto.
  - exfalso. rewrite nth_error_app2 in H by lia. apply nth_error_In in H. rewrite Forall_forall in Hp.
    destruct (Hp _ H) as (_ & H1 & H2 & _). simpl in *. destruct Ho as [Ho| ->]; congruence.
Qed.

Lemma jinv_push_list n X fs c g is_ :
  jinv n X fs c g -> Forall plain_instr is_ -> jf_ok (g ++ is_) -> jinv n X fs c (g ++ is_).
Proof.
  intros J Hp Hjf.
  assert (HC : hcore X fs c (g ++ is_)).
  { apply hcore_app. eapply jinv_hcore; eauto. eapply Forall_impl; [|exact Hp]. intros i Hi. apply Hi. }
  hc HC. destruct J. constructor; auto.
  - intros k o a b H1 H2. destruct (nth_error_app_plain _ _ _ _ _ _ Hp H1 (or_introl H2)) as [Hk H1'].
    rewrite pos_app_le by lia. destruct (j_jumps0 k o a b H1' H2) as [?|[?|?]]; auto. left. apply bnd_app; auto.
  - intros k a b H1. destruct (nth_error_app_plain _ _ _ _ _ _ Hp H1 (or_intror eq_refl)) as [Hk H1'].
    rewrite pos_app_le by lia. destruct (j_loops0 k a b H1'). split; auto. apply bnd_app; auto.
  - eapply Forall_impl; [|eauto]. intros. apply bnd_app; auto.
Qed.

Lemma pushes_ok fs l is_ s G n X :
  sinv s G -> holds fs s G -> Forall plain_instr is_ -> jf_ok (fst G ++ is_) -> jinv n X fs (s_cur s) (fst G) ->
  sinv (pushes s is_ l) (fst G ++ is_, snd G) /\ le s G (pushes s is_ l) (fst G ++ is_, snd G) /\
  holds fs (pushes s is_ l) (fst G ++ is_, snd G) /\ jinv n X fs (s_cur (pushes s is_ l)) (fst G ++ is_).
Proof.
  intros Hs Hf Hp Hjf Hj. destruct (pushes_ok0 fs l is_ s G Hs Hf Hp) as (A1 & A2 & A3 & A4 & A5 & A6).
  split; auto. split; auto. split; auto.
  apply jinv_same with (c := s_cur s); auto. apply jinv_push_list; auto.
Qed.

Lemma emit_return_explicit l s :
  exists is_, emit_return l s = COk (tt, pushes s is_ l) /\ is_ <> [] /\ Forall plain_instr is_ /\
              (exists r0, is_ = r0 ++ [(OpReturn, [])]) /\ (forall g, jf_ok g -> jf_ok (g ++ is_)).
Proof.
  unfold emit_return, cbind, cur, cwhen, cret.
  assert (P0 : plain_instr (OpGetLocal, [0%N])).
  { split; [|split; [reflexivity|split; discriminate]]. intros. unfold iok. simpl. eexists; split; eauto. discriminate. }
  assert (P1 : plain_instr (OpNil, [])) by (split; [|split; [reflexivity|split; discriminate]]; intros; reflexivity).
  assert (P2 : plain_instr (OpJumpFinally, [])) by (split; [|split; [reflexivity|split; discriminate]]; intros; reflexivity).
  assert (P3 : plain_instr (OpReturn, [])) by (split; [|split; [reflexivity|split; discriminate]]; intros; reflexivity).
  destruct (fk_eqb _ _), (k_in_try _); rewrite ?emit_op8_push, ?emit_op_push.
  - exists [(OpGetLocal, [0%N]); (OpJumpFinally, []); (OpReturn, [])]. split; [reflexivity|]. split; [discriminate|]. split; auto. split.
    exists [(OpGetLocal, [0%N]); (OpJumpFinally, [])]. reflexivity.
    intros g Hg. change (g ++ [(OpGetLocal, [0%N]); (OpJumpFinally, []); (OpReturn, [])]) with (g ++ [(OpGetLocal, [0%N])] ++ [(OpJumpFinally, []); (OpReturn, [])]).
    rewrite app_assoc. apply jf_ok_snoc2. apply jf_ok_snoc; auto. discriminate.
  - exists [(OpGetLocal, [0%N]); (OpReturn, [])]. split; [reflexivity|]. split; [discriminate|]. split; auto. split.
    exists [(OpGetLocal, [0%N])]. reflexivity.
    intros g Hg. change (g ++ [(OpGetLocal, [0%N]); (OpReturn, [])]) with (g ++ [(OpGetLocal, [0%N])] ++ [(OpReturn, [])]).
    rewrite app_assoc. apply jf_ok_snoc; [apply jf_ok_snoc; auto|]; discriminate.
  - exists [(OpNil, []); (OpJumpFinally, []); (OpReturn, [])]. split; [reflexivity|]. split; [discriminate|]. split; auto. split.
    exists [(OpNil, []); (OpJumpFinally, [])]. reflexivity.
    intros g Hg. change (g ++ [(OpNil, []); (OpJumpFinally, []); (OpReturn, [])]) with (g ++ [(OpNil, [])] ++ [(OpJumpFinally, []); (OpReturn, [])]).
    rewrite app_assoc. apply jf_ok_snoc2. apply jf_ok_snoc; auto. discriminate.
  - exists [(OpNil, []); (OpReturn, [])]. split; [reflexivity|]. split; [discriminate|]. split; auto. split.
    exists [(OpNil, [])]. reflexivity.
    intros g Hg. change (g ++ [(OpNil, []); (OpReturn, [])]) with (g ++ [(OpNil, [])] ++ [(OpReturn, [])]).
    rewrite app_assoc. apply jf_ok_snoc; [apply jf_ok_snoc; auto|]; discriminate.
Qed.

Lemma jinv_final_strict c g is_ :
  jinv 0 [] [] c g -> is_ <> [] -> Forall plain_instr is_ -> jumps_in (g ++ is_).
Proof.
  intros [] Hne Hp.
  assert (Hb : concat (k_breaks c) = []).
  { destruct (k_breaks c); auto. rewrite j_depth0 in j_len0. discriminate. }
  assert (S : forall t, bnd g t -> sbnd (g ++ is_) t).
  { intros t (k & Hk & <-). exists k. split. rewrite app_length. destruct is_; [congruence|simpl; lia]. apply pos_app_le; auto. }
  split.
  - intros k o a b H1 H2. destruct (nth_error_app_plain _ _ _ _ _ _ Hp H1 (or_introl H2)) as [Hk H1'].
    rewrite pos_app_le by lia. destruct (j_jumps0 k o a b H1' H2) as [?|[Hx|[]]]; auto.
    rewrite Hb in Hx. contradiction.
  - intros k a b H1. destruct (nth_error_app_plain _ _ _ _ _ _ Hp H1 (or_intror eq_refl)) as [Hk H1'].
    rewrite pos_app_le by lia. destruct (j_loops0 k a b H1'). split; auto.
Qed.

Lemma jinv_final_handlers c g is_ :
  jinv 0 [] [] c g -> is_ <> [] -> Forall plain_instr is_ -> handlers_in (g ++ is_).
Proof.
  intros J Hne Hp k a b c0 d H.
  assert (S : forall t, bnd g t -> sbnd (g ++ is_) t).
  { intros t (k' & Hk & <-). exists k'. split. rewrite app_length. destruct is_; [congruence|simpl; lia]. apply pos_app_le; auto. }
  apply nth_error_app_old in H. destruct H as [[Hk H]|H].
  - rewrite pos_app_le by lia. split.
    + destruct (j_h1 _ _ _ _ _ J _ _ _ _ _ H) as [?|[]]; auto.
    + destruct (j_h2 _ _ _ _ _ J _ _ _ _ _ H) as [?|[]]; auto.
  - exfalso. rewrite Forall_forall in Hp. destruct (Hp _ H) as (_ & _ & _ & Hh). apply Hh. reflexivity.
Qed.

Lemma TJ_emit_return n X fs l : TJ n X fs (emit_return l) (fun _ => fs) (fun _ => X) n.
Proof.
  intros s G a s' Hs Hf Hj H. destruct (emit_return_explicit l s) as (ris & Er & Hne & Hpl & _ & Hjf).
  rewrite Er in H. inversion H; subst.
  destruct (pushes_ok fs l ris s G n X Hs Hf Hpl (Hjf _ (j_jf _ _ _ _ _ Hj)) Hj) as (A1 & A2 & A3 & A4).
  eexists. split; [exact A1|]. split; [exact A2|]. split; [exact A3|exact A4].
Qed.

Lemma TJ_jf_return n X fs l :
  TJ n X fs (emit_op OpJumpFinally l ;;; emit_op OpReturn l) (fun _ => fs) (fun _ => X) n.
Proof.
  intros s G a s' Hs Hf Hj H. unfold cbind in H. rewrite !emit_op_push in H. inversion H; subst.
  assert (Hpl : Forall plain_instr [(OpJumpFinally, []); (OpReturn, [])]).
  { repeat constructor; intros; try reflexivity; try discriminate. }
  destruct (pushes_ok fs l [(OpJumpFinally, []); (OpReturn, [])] s G n X Hs Hf Hpl) as (A1 & A2 & A3 & A4); auto.
  apply jf_ok_snoc2. apply (j_jf _ _ _ _ _ Hj).
  eexists. split; [exact A1|]. split; [exact A2|]. split; [exact A3|exact A4].
Qed.

Lemma TJ_in_function {A} n X fs k name body l (K : func * list (N * bool) -> C A) R X2 n2 (Pu : list (N * bool) -> Prop) :
  TJ 0 [] [] body (fun _ => []) (fun _ => []) 0 ->
  (forall s a s', k_upvalues (s_cur s) = [] -> (body ;;; emit_return l) s = COk (a, s') -> Pu (k_upvalues (s_cur s'))) ->
  (forall fu, TJ n X (FPure (fu_good fu /\ jgood_func (fst fu) /\ Pu (snd fu)) :: FDesc (snd fu) :: fs) (K fu) R X2 n2) ->
  TJ n X fs (in_function k name body l K) R X2 n2.
Proof.
  intros Hb Hpu HK s G a s' Hs Hf Hj H. destruct Hs as [Hc [Ho Hu]]. unfold in_function in H.
  unfold cbind at 1 in H. unfold new_compiler at 1 in H.
  set (s1 := mkS (new_comp k name) (s_cur s :: s_outer s) (s_classes s) (s_line s)) in *.
  set (G1 := ([], fst G :: snd G) : GS).
  assert (Hs1 : sinv s1 G1).
  { split; [|split]; simpl. constructor; simpl; auto. constructor; auto. split; auto. constructor. }
  unfold cbind at 1 in H. destruct (body s1) as [[[] s2]|] eqn:E2; [|discriminate].
  destruct (Hb _ _ _ _ Hs1 (Forall_nil _) (jinv_new k name) E2) as (G2 & Hs2 & Hle2 & _ & Hj2).
  unfold cbind at 1 in H. unfold finalise_compiler in H. unfold cbind at 1 in H.
  destruct (emit_return l s2) as [[[] s3]|] eqn:E3; [|discriminate].
  assert (Hpu3 : Pu (k_upvalues (s_cur s3))).
  { apply (Hpu s1 tt s3). reflexivity. unfold cbind. rewrite E2. exact E3. }
  pose proof E3 as E3'.
  destruct (emit_return_explicit l s2) as (ris & Er & Hne & Hpl & (r0 & Hr0) & Hjfr). rewrite Er in E3. inversion E3; subst s3; clear E3.
  destruct (pushes_ok [] l ris s2 G2 0 [] Hs2 (Forall_nil _) Hpl (Hjfr _ (j_jf _ _ _ _ _ Hj2)) Hj2) as (Hs3 & Hle3 & _ & Hj3).
  remember (pushes s2 ris l) as s3 eqn:Es3. clear Es3.
  pose proof (le_trans _ _ _ _ _ _ Hle2 Hle3) as Hle. destruct Hle as (_ & _ & Hof & Hsnd).
  cbn [fst snd] in Hof, Hsnd, Hj3. destruct Hs3 as [Hc3 [Ho3 Hu3]]. cbn [fst snd] in Hc3, Ho3. rewrite Hsnd in Ho3.
  destruct (s_outer s3) as [|e3 o3]; [inversion Hof|].
  inversion Hof as [|x1 x2 x3 x4 Hxe Hoo]; subst.
  inversion Ho3 as [|y1 y2 y3 y4 Hce Hco]; subst.
  destruct Hu3 as [Hu3a Hu3b].
  set (fu := (func_of_comp (s_cur s3), k_upvalues (s_cur s3))) in *.
  set (s4 := mkS e3 o3 (s_classes s3) (s_line s3)) in *.
  assert (Hs4 : sinv s4 G) by (split; [|split]; auto).
  assert (Hle4 : le s G s4 G).
  { split; [|split; [|split]]; simpl; auto using ext_refl. apply ofix_cgrow; auto. }
  assert (Hfu : fu_good fu).
  { split; simpl; auto. destruct Hc3. unfold func_of_comp. econstructor; eauto. rewrite Nat2N.id. auto. }
  assert (Hjf : jgood_func (fst fu)).
  { simpl. destruct Hc3. unfold func_of_comp. econstructor; eauto. rewrite Nat2N.id. auto.
    eapply jinv_final_strict; eauto. eapply jinv_final_handlers; eauto. apply (j_jf _ _ _ _ _ Hj3). exists (fst G2 ++ r0). first [rewrite Hr0, app_assoc | rewrite app_assoc]; reflexivity.
    apply (j_consts _ _ _ _ _ Hj3). }
  assert (Hf4 : holds (FPure (fu_good fu /\ jgood_func (fst fu) /\ Pu (snd fu)) :: FDesc (snd fu) :: fs) s4 G).
  { constructor. simpl. auto. constructor. simpl. exact Hu3a. eapply holds_le; eauto. left. simpl. apply Hxe. }
  assert (Hj4 : jinv n X (FPure (fu_good fu /\ jgood_func (fst fu) /\ Pu (snd fu)) :: FDesc (snd fu) :: fs) (s_cur s4) (fst G)).
  { destruct Hxe as (_ & Hk & Hbk & _ & Hl & _). cbn [s_cur s4].
    apply jinv_same with (c := s_cur s); auto.
    eapply jinv_weaken; [reflexivity| |exact Hj]. simpl. apply incl_refl. }
  destruct (HK fu _ _ _ _ Hs4 Hf4 Hj4 H) as (G5 & A1 & A2 & A3 & A4).
  exists G5. split; auto. split; auto. eapply le_trans; eauto.
Qed.

Lemma TJ_pure_impl {A} (P Y : Prop) n X fs (m : C A) Q X1 n1 :
  (P -> Y) -> TJ n X (FPure Y :: fs) m Q X1 n1 -> TJ n X (FPure P :: fs) m Q X1 n1.
Proof.
  intros HXY Hm s G a s' Hs Hf Hj H. apply (Hm s G a s'); auto. inversion Hf; subst. constructor; auto. simpl. auto.
  eapply jinv_weaken; [reflexivity| |exact Hj]. simpl. apply incl_refl.
Qed.

Definition fu_jgood (fu : func * list (N * bool)) : Prop := fu_good fu /\ jgood_func (fst fu).

Lemma TJ_emit_closure n X fs fu l :
  In (FPure (fu_jgood fu)) fs -> In (FDesc (snd fu)) fs -> TJ n X fs (emit_closure fu l) (fun _ => fs) (fun _ => X) n.
Proof.
  intros Hin Hind s G a s' Hs Hf Hj H.
  pose proof (holds_in _ _ _ _ Hf Hind) as Hdesc. simpl in Hdesc.
  pose proof (holds_in _ _ _ _ Hf Hin) as Hg. simpl in Hg. destruct Hg as [[Hg Hu] Hjg].
  unfold emit_closure in H. unfold cbind at 1 in H.
  destruct (make_constant (KFun (fst fu)) s) as [[c s1]|] eqn:E; [|discriminate].
  assert (Hgc : good_const (KFun (fst fu))) by (constructor; auto).
  destruct (make_constant_run _ _ _ _ Hgc E) as (more & E' & Hm & Hk). simpl in Hk.
  pose proof (make_constant_more _ _ _ _ _ E E') as Hmore. subst s1.
  destruct (consts_step fs s G more Hs Hf Hm) as (A1 & A2 & A3).
  unfold cbind in H. rewrite emit_op16_push in H. rewrite emit_upvalues_push in H.
  inversion H; subst; clear H.
  match goal with |- context [pushb ?s1 ?bs ?l] =>
    destruct (push_ok fs s1 G (OpClosure, [(c mod 256)%N; (c / 256)%N] ++ uvb (snd fu)) l A1 A3) as (B1 & B2 & B3) end.
  { unfold iok. simpl. eexists _, _, (fst fu), _. split; [reflexivity|]. rewrite u16_split. split; auto.
    split. rewrite uvb_length, Hu, Nat2N.id. reflexivity. apply dok_uvb. exact Hdesc. }
  eexists. split; [exact B1|]. split; [eapply le_trans; [exact A2|exact B2]|]. split; [exact B3|].
  cbn [fst]. apply jinv_pushb. apply jinv_push; try discriminate; auto.
  apply jinv_consts with (c := s_cur s) (more := more); try reflexivity; [|exact Hj].
  destruct Hmore as [-> | ->]; auto. constructor; auto. constructor; auto.
Qed.

Lemma hcore_push_handler X fs c g a b cc d :
  hcore X fs c g ->
  hcore ((length (flat g) + 1) :: (length (flat g) + 1 + 2) :: X) fs c (g ++ [(OpPushExcHandler, [a; b; cc; d])]).
Proof.
  intros (N1 & N2 & N3 & N4 & N5 & N6).
  set (hp := length (flat g) + 1).
  assert (Hlf : length (flat (g ++ [(OpPushExcHandler, [a; b; cc; d])])) = length (flat g) + 5).
  { rewrite flat_app, app_length. simpl. lia. }
  assert (Hcase : forall k a0 b0 c0 d0, nth_error (g ++ [(OpPushExcHandler, [a; b; cc; d])]) k = Some (OpPushExcHandler, [a0; b0; c0; d0]) ->
            (k < length g /\ nth_error g k = Some (OpPushExcHandler, [a0; b0; c0; d0])) \/ k = length g).
  { intros k a0 b0 c0 d0 H. apply nth_error_snoc in H. destruct H as [[? ?]|[? ?]]; auto. }
  assert (Hperm : Permutation (concat (k_breaks c) ++ hp :: (hp + 2) :: X) (hp :: (hp + 2) :: concat (k_breaks c) ++ X)).
  { eapply Permutation_trans. apply Permutation_sym, Permutation_middle. constructor.
    apply Permutation_sym, Permutation_middle. }
  assert (Hin : forall x, In x (concat (k_breaks c) ++ hp :: (hp + 2) :: X) <-> x = hp \/ x = hp + 2 \/ In x (concat (k_breaks c) ++ X)).
  { intros x. rewrite !in_app_iff. simpl. intuition. }
  repeat split.
  - eapply Permutation_NoDup. apply Permutation_sym. exact Hperm.
    constructor. intros [E|Hx]. lia. apply N2 in Hx. unfold hp in *. lia.
    constructor; auto. intros Hx. apply N2 in Hx. unfold hp in *. lia.
  - intros x Hx. apply Hin in Hx. rewrite Hlf. destruct Hx as [->|[->|Hx]]; unfold hp; try lia. apply N2 in Hx. lia.
  - intros k a0 b0 c0 d0 H. destruct (Hcase _ _ _ _ _ H) as [[Hk H']| ->].
    + rewrite pos_app_le by lia. destruct (N3 _ _ _ _ _ H'); [left; apply bnd_app; auto | right; right; right; auto].
    + right. left. rewrite pos_app_le, pos_all by lia. reflexivity.
  - intros k a0 b0 c0 d0 H. destruct (Hcase _ _ _ _ _ H) as [[Hk H']| ->].
    + rewrite pos_app_le by lia. destruct (N4 _ _ _ _ _ H'); [left; apply bnd_app; auto | right; right; right; auto].
    + right. right. left. rewrite pos_app_le, pos_all by lia. unfold hp. lia.
  - intros p t Hpt k a0 b0 c0 d0 H Hp. destruct (Hcase _ _ _ _ _ H) as [[Hk H']| ->].
    + rewrite pos_app_le in * by lia. eapply N5; eauto.
    + exfalso. rewrite pos_app_le, pos_all in Hp by lia. destruct (N6 _ _ Hpt) as [_ Hle]. lia.
  - intros Hx. apply Hin in Hx. destruct (N6 _ _ H) as [A B]. unfold hp in Hx. destruct Hx as [->|[->|Hx]]; try lia. auto.
  - destruct (N6 _ _ H) as [_ B]. rewrite Hlf. lia.
Qed.

Lemma jinv_push_handler n X fs c g a b cc d :
  jinv n X fs c g ->
  jinv n ((length (flat g) + 1) :: (length (flat g) + 1 + 2) :: X) fs c (g ++ [(OpPushExcHandler, [a; b; cc; d])]).
Proof.
  intros J. pose proof (hcore_push_handler _ _ _ _ a b cc d (jinv_hcore _ _ _ _ _ J)) as HC. hc HC.
  destruct J. constructor; auto.
  - intros k o' a' b' H1 H2. apply nth_error_snoc in H1. destruct H1 as [[Hk H1]|[Hk H1]].
    + rewrite pos_app_le by lia. destruct (j_jumps0 k o' a' b' H1 H2) as [?|[?|?]]; auto.
      left. apply bnd_app; auto. right; right; right; right; auto.
    + inversion H1.
  - intros k a' b' H1. apply nth_error_snoc in H1. destruct H1 as [[Hk H1]|[Hk H1]].
    + rewrite pos_app_le by lia. destruct (j_loops0 k a' b' H1). split; auto. apply bnd_app; auto.
    + inversion H1.
  - eapply Forall_impl; [|eauto]. intros. apply bnd_app; auto.
  - apply jf_ok_snoc; auto. discriminate.
Qed.

Lemma TJ_push_handler {A} n X fs l (K : nat -> nat -> C A) R X2 n2 :
  (forall hp, TJ n (hp :: (hp + 2) :: X) (FHandler hp :: fs) (K hp (hp + 4)) R X2 n2) ->
  TJ n X fs (cbind (emit_op OpPushExcHandler l) (fun _ => cbind code_len (fun hp =>
        cbind (emit_byte 255%N l) (fun _ => cbind (emit_byte 255%N l) (fun _ =>
        cbind (emit_byte 255%N l) (fun _ => cbind (emit_byte 255%N l) (fun _ =>
        cbind code_len (fun pp => K hp pp)))))))) R X2 n2.
Proof.
  intros HK s G a s' Hs Hf Hj H. unfold emit_op in H. rewrite bind_push in H.
  unfold cbind at 1 in H. unfold code_len at 1 in H.
  rewrite !bind_push, !pushb_pushb in H.
  unfold cbind at 1 in H. unfold code_len at 1 in H.
  destruct (push_ok fs s G (OpPushExcHandler, [255; 255; 255; 255]%N) l Hs Hf) as (B1 & B2 & B3).
  { unfold iok. simpl. eauto 6. }
  pose proof (ci_code _ _ (proj1 Hs)) as Hcode.
  match type of H with K ?hp ?pp _ = _ =>
    assert (E1 : hp = length (flat (fst G)) + 1) by (cbn; rewrite app_length; simpl; congruence);
    assert (E2 : pp = length (flat (fst G)) + 1 + 4) by (cbn; rewrite app_length; simpl; rewrite Hcode; lia);
    rewrite E1, E2 in H end.
  assert (Hh : holds (FHandler (length (flat (fst G)) + 1) :: fs) (pushb s (enc (OpPushExcHandler, [255; 255; 255; 255]%N)) l)
                     (fst G ++ [(OpPushExcHandler, [255; 255; 255; 255]%N)], snd G)).
  { constructor; auto. simpl. exists (fst G), 255%N, 255%N, 255%N, 255%N, []. split; auto. }
  assert (Hj' : jinv n ((length (flat (fst G)) + 1) :: (length (flat (fst G)) + 1 + 2) :: X) (FHandler (length (flat (fst G)) + 1) :: fs)
                     (s_cur (pushb s (enc (OpPushExcHandler, [255; 255; 255; 255]%N)) l))
                     (fst G ++ [(OpPushExcHandler, [255; 255; 255; 255]%N)])).
  { apply jinv_pushb. eapply jinv_weaken; [reflexivity| |apply jinv_push_handler; eauto]. simpl. apply incl_refl. }
  destruct (HK _ _ _ _ _ B1 Hh Hj' H) as (G5 & A1 & A2 & A3 & A4).
  exists G5. split; auto. split; auto. eapply le_trans; eauto.
Qed.

Lemma TJ_cparams n X fs ps l : TJ n X fs (cparams ps l) (fun _ => fs) (fun _ => X) n.
Proof.
  revert fs. induction ps; simpl; intros fs. apply TJ_ret.
  eapply TJ_bind. apply (TJ_quiet true); auto using qj_arity. intros u.
  eapply TJ_bind. apply (TJ_quiet true); auto using qj_cur. intros k.
  eapply TJ_bind. { destruct (N.ltb _ _). apply TJ_err. apply TJ_ret. } intros u2.
  eapply TJ_bind. apply TJ_parse_variable. intros g.
  eapply TJ_bind. apply TJ_define_variable. simpl; auto. intros u3.
  eapply TJ_post. apply IHps. intros u4. apply incl_tl, incl_refl.
Qed.

Lemma TJ_assume {A} (P : Prop) n X fs (m : C A) Q X1 n1 :
  (P -> TJ n X (FPure P :: fs) m Q X1 n1) -> TJ n X (FPure P :: fs) m Q X1 n1.
Proof. intros HX s G a s' Hs Hf Hj H. inversion Hf; subst. simpl in *. eapply HX; eauto. Qed.

Lemma TJ_closure_tail n X fs fu l (Pu : Prop) :
  TJ n X (FPure (fu_good fu /\ jgood_func (fst fu) /\ Pu) :: FDesc (snd fu) :: fs) (emit_closure fu l) (fun _ => fs) (fun _ => X) n.
Proof.
  eapply TJ_pure_impl with (Y := fu_jgood fu). unfold fu_jgood; tauto.
  eapply TJ_post. apply TJ_emit_closure; simpl; auto. intros u. apply incl_tl, incl_tl, incl_refl.
Qed.

Lemma TJ_with_function n X fs k nm ps lb body le :
  TJ 0 [] [] body (fun _ => []) (fun _ => []) 0 ->
  TJ n X fs (with_function k nm ps lb body le) (fun _ => fs) (fun _ => X) n.
Proof.
  intros Hb.
  eapply TJ_ext with (m := in_function k nm
     (begin_scope ;;; cparams ps lb ;;;
      (if fk_eqb k KInitialiser then c <- cur ;; emit_op8 OpConstruct (N.modulo (k_arity c - 1) 256)%N lb else cret tt) ;;;
      body) le (fun fu => emit_closure fu le)).
  - apply TJ_in_function with (Pu := fun _ => True); auto.
    + eapply TJ_bind. apply (TJ_quiet false); auto using qj_begin_scope. intros u.
      eapply TJ_bind. apply TJ_cparams. intros u2.
      eapply TJ_bind with (Q := fun _ => []) (X1 := fun _ => []) (n1 := 0).
      { destruct (fk_eqb _ _). eapply TJ_bind. apply (TJ_quiet true); auto using qj_cur. intros c.
        apply TJ_emit_op8; reflexivity. apply TJ_ret. }
      intros u3. exact Hb.
    + intros fu. apply TJ_closure_tail.
  - intros s. unfold with_function, in_function. unfold cbind.
    repeat match goal with |- context [match ?m ?s with _ => _ end] => destruct (m s) as [[? ?]|]; auto end.
Qed.

Lemma TJ_initialiser n X fs nm l : TJ n X fs (initialiser nm l) (fun _ => fs) (fun _ => X) n.
Proof.
  unfold initialiser.
  eapply TJ_bind. apply (TJ_quiet true); auto using qj_set_line. intros u.
  eapply TJ_bind. apply TJ_identifier_constant. intros nc.
  eapply TJ_ext with (m := in_function KInitialiser nm (begin_scope ;;; emit_op8 OpConstruct 0%N l) l
     (fun fu => c <- make_constant (KFun (fst fu)) ;; emit_op16 OpClosure c l ;;; emit_op16 OpStaticMethod nc l)).
  - apply TJ_in_function with (Pu := fun us => us = []).
    + eapply TJ_bind. apply (TJ_quiet false); auto using qj_begin_scope. intros u1. apply TJ_emit_op8; reflexivity.
    + intros s a s' Hu H. unfold cbind at 1 2 in H. unfold begin_scope, upd in H. rewrite emit_op8_push in H.
      apply emit_return_upv in H. rewrite H. cbn. exact Hu.
    + intros fu. apply TJ_assume. intros (_ & _ & H4). destruct fu as [f0 us]. simpl in H4. subst us.
      eapply TJ_ext with (m := emit_closure (f0, []) l ;;; emit_op16 OpStaticMethod nc l).
      * eapply TJ_bind. apply TJ_closure_tail. intros u2.
        eapply TJ_post. apply TJ_emit_op16; try reflexivity; try discriminate. simpl; auto.
        intros u3. apply incl_tl, incl_refl.
      * intros s. unfold emit_closure, cbind. simpl.
        destruct (make_constant _ s) as [[c s2]|]; auto.
  - intros s. unfold in_function. unfold cbind.
    repeat match goal with |- context [match ?m ?s with _ => _ end] => destruct (m s) as [[? ?]|]; auto end.
Qed.

Lemma TJ_lambdaB_shape n X fs nm ps lend (body : C unit) :
  TJ 0 [] [] body (fun _ => []) (fun _ => []) 0 ->
  TJ n X fs (new_compiler KFunction nm ;;; begin_scope ;;; cparams ps lend ;;; body ;;;
        fu <- finalise_compiler lend ;; emit_closure fu lend) (fun _ => fs) (fun _ => X) n.
Proof.
  intros Hb.
  eapply TJ_ext with (m := in_function KFunction nm (begin_scope ;;; cparams ps lend ;;; body) lend
                                      (fun fu => emit_closure fu lend)).
  - apply TJ_in_function with (Pu := fun _ => True); auto.
    + eapply TJ_bind. apply (TJ_quiet false); auto using qj_begin_scope. intros u.
      eapply TJ_bind. apply TJ_cparams. intros u2. exact Hb.
    + intros fu. apply TJ_closure_tail.
  - intros s. unfold in_function. unfold cbind.
    repeat match goal with |- context [match ?m ?s with _ => _ end] => destruct (m s) as [[? ?]|]; auto end.
Qed.

Lemma TJ_lambdaE_shape n X fs nm ps lend (body : C unit) :
  TJ 0 [] [] body (fun _ => []) (fun _ => []) 0 ->
  TJ n X fs (new_compiler KFunction nm ;;; begin_scope ;;; cparams ps lend ;;; body ;;; emit_op OpReturn lend ;;;
        fu <- finalise_compiler lend ;; emit_closure fu lend) (fun _ => fs) (fun _ => X) n.
Proof.
  intros Hb.
  eapply TJ_ext with (m := new_compiler KFunction nm ;;; begin_scope ;;; cparams ps lend ;;;
                          (body ;;; emit_op OpReturn lend) ;;;
                          fu <- finalise_compiler lend ;; emit_closure fu lend).
  - apply TJ_lambdaB_shape. eapply TJ_bind. exact Hb. intros u. apply TJ_emit_op; [reflexivity|discriminate].
  - intros s. unfold cbind.
    repeat match goal with |- context [match ?m ?s with _ => _ end] => destruct (m s) as [[? ?]|]; auto end.
Qed.

Lemma TJ_emit_compound n X fs op l : TJ n X fs (emit_compound op l) (fun _ => fs) (fun _ => X) n.
Proof. unfold emit_compound. destruct (is_compound_op op). apply TJ_emit_ops, binop_ops_L0J. apply TJ_err. Qed.
Lemma TJ_emit_exc_handler_pops n X fs d l : TJ n X fs (emit_exc_handler_pops d l) (fun _ => fs) (fun _ => X) n.
Proof.
  unfold emit_exc_handler_pops. eapply TJ_bind. apply (TJ_quiet true); auto using qj_cur. intros k.
  apply TJ_emit_ops, repeat_pop_L0J.
Qed.
Lemma TJ_emit_unop n X fs op l : TJ n X fs (emit_op (unop_op op) l) (fun _ => fs) (fun _ => X) n.
Proof. apply TJ_emit_op; destruct op; try reflexivity; discriminate. Qed.
