(* FullCompile-WF, part 4: the main induction for the jump invariant (all programs) and the headline theorem
   `jumps_land`: in every function of the tree every Jump / JumpIfFalse / JumpIfStopIter / Loop lands on an
   instruction boundary. *)
From Coq Require Import Strings.Byte Strings.String.
From Coq Require Import List NArith ZArith Bool Arith Lia Permutation.
From YV Require Import Show Utf8 Num Ast Bytecode ParseLoc FullCompile FullCompileProofs FullCompileWF FullCompileWFJ.
Import ListNotations.
Local Open Scope nat_scope.
Local Open Scope list_scope.
Local Open Scope comp_scope.

Ltac inc := let x := fresh in let Hx := fresh in intros x Hx; simpl in *; tauto.
Ltac infs := solve [ simpl; auto 20 ].
Ltac ndf := first [ reflexivity | unfold clean in *; simpl; assumption ].
Ltac ndfn := first [ reflexivity | apply clean_nodef; ndf ].

Ltac rem p l :=
  lazymatch l with
  | p :: ?t => t
  | ?q :: ?t => let t' := rem p t in constr:(q :: t')
  end.
(* the part of l before the first occurrence of p *)
Ltac pre_of p l :=
  lazymatch l with
  | p :: ?t => constr:(@nil nat)
  | ?q :: ?t => let t' := pre_of p t in constr:(q :: t')
  end.
Ltac post_of p l :=
  lazymatch l with
  | p :: ?t => t
  | ?q :: ?t => post_of p t
  end.
(* Permutation X (p :: X') where X' is X without its first p (X' may be an evar) *)
Ltac remt :=
  lazymatch goal with
  | |- Permutation ?X (?p :: ?X') =>
    let l1 := pre_of p X in let l2 := post_of p X in
    first [ is_evar X'; let r := eval cbn [app] in (l1 ++ l2) in unify X' r | idtac ];
    apply Permutation_sym; exact (Permutation_middle l1 l2 p)
  end.

Ltac qjsolve := solve [ auto using qj_cur, qj_cget, qj_code_len, qj_in_class, qj_set_line, qj_set_classes,
        qj_add_local, qj_mark_initialised, qj_mark_slot, qj_declare, qj_check_count, qj_super_checks, qj_lambdas, qj_try ].

Ltac leaf :=
  cbv beta;
  lazymatch goal with
  | |- TJ _ _ _ (cret _) _ _ _ => apply TJ_ret
  | |- TJ _ _ _ (cerr _ _) _ _ _ => apply TJ_err
  | |- TJ _ _ _ (cerr_here _) _ _ _ => apply TJ_err_here
  | |- TJ _ _ _ (emit_op (unop_op _) _) _ _ _ => apply TJ_emit_unop
  | |- TJ _ _ _ (cbind (emit_op OpJumpFinally _) (fun _ => emit_op OpReturn _)) _ _ _ => apply TJ_jf_return
  | |- TJ _ _ _ (emit_op _ _) _ _ _ => apply TJ_emit_op; [ reflexivity | discriminate ]
  | |- TJ _ _ _ (emit_ops (binop_ops _) _) _ _ _ => apply TJ_emit_ops; apply binop_ops_L0J
  | |- TJ _ _ _ (emit_compound _ _) _ _ _ => apply TJ_emit_compound
  | |- TJ _ _ _ (emit_exc_handler_pops _ _) _ _ _ => apply TJ_emit_exc_handler_pops
  | |- TJ _ _ _ (emit_op8 _ _ _) _ _ _ => apply TJ_emit_op8; reflexivity
  | |- TJ _ _ _ (cbind (emit_op16 _ _ _) (fun _ => emit_byte _ _)) _ _ _ => apply TJ_emit_op16_8; [ reflexivity | infs ]
  | |- TJ _ _ _ (emit_op16 _ _ _) _ _ _ =>
      apply TJ_emit_op16; [ reflexivity | discriminate | reflexivity | discriminate | intros; infs ]
  | |- TJ _ _ _ (emit_variable_op _ _ _) _ _ _ =>
      eapply TJ_emit_variable_op; [ infs | first [ left; reflexivity | right; reflexivity ] ]
  | |- TJ _ _ _ (emit_jump _ _) _ _ _ => apply TJ_emit_jump; reflexivity
  | |- TJ _ _ _ (patch_jump _) _ _ _ => eapply TJ_patch_jump; [ infs | remt ]
  | |- TJ _ _ _ (patch_offset_at (_ + 2) _) _ _ _ => eapply TJ_patch_h2; [ infs | infs | remt ]
  | |- TJ _ _ _ (emit_loop _ _) _ _ _ =>
      first [ apply TJ_emit_loop; infs | eapply TJ_emit_loop_cont; [ infs | eassumption ] ]
  | |- TJ _ _ _ code_len _ _ _ => apply TJ_code_len
  | |- TJ _ _ _ (identifier_constant _) _ _ _ => apply TJ_identifier_constant
  | |- TJ _ _ _ (emit_constant _ _) _ _ _ => apply TJ_emit_constant; discriminate
  | |- TJ _ _ _ push_loop _ _ _ => apply TJ_push_loop; ndf
  | |- TJ _ _ _ (push_break _) _ _ _ => eapply TJ_push_break; [ infs | infs | eassumption | remt ]
  | |- TJ _ _ _ pop_loop _ _ _ => apply TJ_pop_loop; ndf
  | |- TJ _ _ _ (emit_scope_end _ _ _) _ _ _ => apply TJ_emit_scope_end
  | |- TJ _ _ _ (end_scope _) _ _ _ => apply TJ_end_scope; ndfn
  | |- TJ _ _ _ (resolve_variable _ _) _ _ _ => apply TJ_resolve_variable
  | |- TJ _ _ _ (named_get _ _) _ _ _ => apply TJ_named_get
  | |- TJ _ _ _ (parse_variable _ _) _ _ _ => apply TJ_parse_variable
  | |- TJ _ _ _ (define_variable _ _) _ _ _ => first [ apply TJ_define_variable; infs | apply TJ_define_variable_str; infs ]
  | |- TJ _ _ _ (emit_return _) _ _ _ => apply TJ_emit_return
  | |- TJ _ _ _ (initialiser _ _) _ _ _ => apply TJ_initialiser
  | |- TJ _ _ _ (cparams _ _) _ _ _ => apply TJ_cparams
  | |- TJ _ _ _ begin_scope _ _ _ => apply (TJ_quiet false); [ apply qj_begin_scope | right; ndfn ]
  | H : forall n X fs, clean fs = true -> TJ n X fs ?b _ _ _ |- TJ _ _ _ (with_function _ _ _ _ ?b _) _ _ _ =>
      apply TJ_with_function; apply H; reflexivity
  | H : forall n X fs, TJ n X fs ?m _ _ _ |- TJ _ _ _ ?m _ _ _ => apply H
  | H : forall n X fs, clean fs = true -> TJ n X fs ?m _ _ _ |- TJ _ _ _ ?m _ _ _ => apply H; ndf
  | |- TJ _ _ _ _ _ _ _ => apply (TJ_quiet true); [ qjsolve | left; reflexivity ]
  end.

Ltac leafp := first [ leaf | eapply TJ_post; [ leaf | intros ?; inc ] ].

Ltac step :=
  cbv beta zeta;
  match goal with
  | |- TJ _ _ _ (cbind (if ?b then _ else _) _) _ _ _ => destruct b
  | |- TJ _ _ _ (cbind (match ?x with _ => _ end) _) _ _ _ => destruct x
  | |- TJ _ _ _ (if ?b then _ else _) _ _ _ => destruct b
  | |- TJ _ _ _ (match k_loops ?k with _ => _ end) _ _ _ => destruct (k_loops k) as [|[[? ?] ?] ?] eqn:?
  | |- TJ _ _ _ (match ?x with _ => _ end) _ _ _ => destruct x
  | |- TJ _ _ _ (cbind (cerr _ _) _) _ _ _ => apply TJ_bind_err
  | |- TJ _ _ _ (cbind (cerr_here _) _) _ _ _ => apply TJ_bind_err_here
  | |- TJ _ _ _ (cbind (cwhen _ _) _) _ _ _ => unfold cwhen
  | |- TJ _ _ _ (cbind cur ?f) _ _ _ =>
      lazymatch f with context [k_loops] => eapply TJ_bind; [ apply TJ_cur_loops | intros ? ] end
  | |- TJ _ _ _ (cbind (emit_op OpJumpFinally _) (fun _ => emit_op OpReturn _)) _ _ _ => leafp
  | |- TJ _ _ _ (cbind (emit_op OpPushExcHandler _) _) _ _ _ => apply TJ_push_handler; intros ?
  | |- TJ _ _ _ (cbind (patch_offset_at ?hp (?hp + 4)) (fun _ => cbind code_len _)) _ _ _ =>
      eapply TJ_patch_h1_k; [ infs | remt | infs | intros ? ]
  | |- TJ _ _ _ (cbind (emit_op16 _ _ _) (fun _ => emit_byte _ _)) _ _ _ => leafp
  | |- TJ _ _ _ (cbind (emit_op16 _ _ _) (fun _ => cbind (emit_byte _ _) _)) _ _ _ =>
      apply TJ_emit_op16_8_k; [ reflexivity | infs | ]
  | H : forall n X fs, TJ n X fs ?b _ _ _ |- TJ _ _ _ (cbind (new_compiler _ _) (fun _ => cbind begin_scope (fun _ => cbind (cparams _ _) (fun _ => cbind ?b (fun _ => cbind (emit_op OpReturn _) _))))) _ _ _ =>
      eapply TJ_post; [ apply TJ_lambdaE_shape; apply H | intros ?; inc ]
  | H : forall n X fs, clean fs = true -> TJ n X fs ?b _ _ _ |- TJ _ _ _ (cbind (new_compiler _ _) (fun _ => cbind begin_scope (fun _ => cbind (cparams _ _) (fun _ => cbind ?b _)))) _ _ _ =>
      eapply TJ_post; [ apply TJ_lambdaB_shape; apply H; reflexivity | intros ?; inc ]
  | |- TJ _ _ _ (cbind (cbind _ _) _) _ _ _ => eapply TJ_bind; [ | intros ? ]
  | |- TJ _ _ _ (cbind _ _) _ _ _ => eapply TJ_bind; [ solve [ leaf ] | intros ? ]
  | |- TJ _ _ _ _ _ _ _ => solve [ leafp ]
  end.
Ltac go := repeat step.

Theorem compile_TJ :
  (forall e n X fs, TJ n X fs (cexpr e) (fun _ => fs) (fun _ => X) n) /\
  (forall es n X fs, TJ n X fs (cargs es) (fun _ => fs) (fun _ => X) n) /\
  (forall ps n X fs, TJ n X fs (cparts ps) (fun _ => fs) (fun _ => X) n) /\
  (forall kvs n X fs, TJ n X fs (ckvs kvs) (fun _ => fs) (fun _ => X) n) /\
  (forall st n X fs, clean fs = true -> TJ n X fs (cstmt st) (fun _ => fs) (fun _ => X) n) /\
  (forall l n X fs, clean fs = true -> TJ n X fs (cstmts l) (fun _ => fs) (fun _ => X) n) /\
  (forall ms n X fs, TJ n X fs (cmethods ms) (fun _ => fs) (fun _ => X) n).
Proof.
  apply lsyntax_mutind; intros; simpl.
  all: try solve [ timeout 600 go ].
  all: try solve [ destruct kind; timeout 600 go ].
Qed.
Print Assumptions compile_TJ.

Lemma sinv_init' : sinv init_state ([], []).
Proof. split; [|split]; simpl; auto. constructor; simpl; auto. split; auto. constructor. Qed.

(* HEADLINE: the tree FullCompile returns is jgood: instruction list + every jump lands on the start of an instruction *)
Theorem compile_jgood (p : lprogram) (f : func) : compile_program p = COk f -> jgood_func f.
Proof.
  unfold compile_program. intros H.
  destruct ((cstmts (fst p);;; finalise_compiler (snd p)) init_state) as [[[f' us] s']|] eqn:E; [|discriminate].
  inversion H; subst; clear H.
  unfold cbind at 1 in E.
  destruct (cstmts (fst p) init_state) as [[[] s1]|] eqn:E1; [|discriminate].
  destruct (proj1 (proj2 (proj2 (proj2 (proj2 (proj2 compile_TJ))))) (fst p) 0 [] [] eq_refl _ _ _ _
              sinv_init' (Forall_nil _) (jinv_new KScript []) E1) as (G1 & Hs1 & _ & _ & Hj1).
  unfold finalise_compiler, cbind in E.
  destruct (emit_return_explicit (snd p) s1) as (ris & Er & Hne & Hpl & (r0 & Hr0) & Hjfr). rewrite Er in E.
  destruct (pushes_ok [] (snd p) ris s1 G1 0 [] Hs1 (Forall_nil _) Hpl (Hjfr _ (j_jf _ _ _ _ _ Hj1)) Hj1) as ([Hc3 _] & _ & _ & Hj3).
  cbn [fst] in Hc3, Hj3.
  assert (Hg : jgood_func (func_of_comp (s_cur (pushes s1 ris (snd p))))).
  { destruct Hc3. unfold func_of_comp. econstructor; eauto. rewrite Nat2N.id. auto.
    eapply jinv_final_strict; eauto. eapply jinv_final_handlers; eauto. apply (j_jf _ _ _ _ _ Hj3). exists (fst G1 ++ r0). first [rewrite Hr0, app_assoc | rewrite app_assoc]; reflexivity.
    apply (j_consts _ _ _ _ _ Hj3). }
  destruct (s_outer (pushes s1 ris (snd p))); inversion E; subst; exact Hg.
Qed.
Print Assumptions compile_jgood.

Lemma jgood_subfunc g f : subfunc g f -> jgood_func f -> jgood_func g.
Proof.
  induction 1; intros Hf; auto. apply IHsubfunc.
  inversion Hf; subst. simpl in H.
  match goal with K : Forall jgood_const _ |- _ => rewrite Forall_forall in K; specialize (K _ H); inversion K; auto end.
Qed.

(* DELIVERABLE 2, jump part (all programs, every function of the tree): the code is `flat is`, and every
   Jump / JumpIfFalse / JumpIfStopIter (forward, target = next + operand) and every Loop (backward, target = next - operand,
   operand <= next) lands on the START of an instruction of `is` - a boundary strictly inside the code. *)
Theorem jumps_land (p : lprogram) (f g : func) :
  compile_program p = COk f -> subfunc g f ->
  exists is_ : list ainstr,
    f_code g = flat is_ /\ Forall (iok (f_consts g) (N.to_nat (f_upvalues g))) is_ /\ jumps_in is_.
Proof.
  intros H Hg. apply compile_jgood in H. apply (jgood_subfunc _ _ Hg) in H. inversion H; subst. simpl. eauto.
Qed.

(* the last instruction of every function is Return: together with `jumps_land` (targets are STARTS of instructions)
   no fall-through and no jump ever reaches code_len.  This is the unbounded form of the side condition
   C04_side_compiler_never_reads_emitted_bytes / C04_never_runs_off_the_end for the model compiler. *)
Theorem ends_in_return (p : lprogram) (f g : func) :
  compile_program p = COk f -> subfunc g f ->
  exists is_ : list ainstr,
    f_code g = flat is_ /\ Forall (iok (f_consts g) (N.to_nat (f_upvalues g))) is_ /\ jumps_in is_ /\
    (exists is0, is_ = is0 ++ [(OpReturn, [])]) /\
    (forall k i, nth_error is_ k = Some i -> fst i <> OpReturn -> sbnd is_ (pos is_ (S k))) /\
    jf_ok is_ /\ handlers_in is_.
Proof.
  intros H Hg. apply compile_jgood in H. apply (jgood_subfunc _ _ Hg) in H.
  destruct H as [a u n code ks lines g' Hc Hi Hj Hh Hjf [g0 Hg0] Hks]. subst g' code. simpl.
  eexists. split; [reflexivity|]. split; auto. split; auto. split; eauto. split; [|split; auto].
  intros k i Hk Hne. exists (S k). split; auto.
  apply nth_error_snoc in Hk. destruct Hk as [[Hlt _]|[_ ->]].
  - rewrite app_length. cbn [length]. rewrite Nat.add_1_r. apply (proj1 (Nat.succ_lt_mono k _)). exact Hlt.
  - exfalso. apply Hne. reflexivity.
Qed.
Print Assumptions ends_in_return.
Print Assumptions jumps_land.

(* the instruction list is unique (it is the one Bytecode.decode finds), so `jumps_land` speaks about the same
   list as FullCompileWF2.code_decodes_vm: [sbnd is n] says that n = pos is k for an index k < length is, and
   FullCompileWF2.decode_at_boundary (pre := firstn k is) decodes the k-th instruction there. *)
Lemma sbnd_split g n : sbnd g n -> exists pre i post, g = pre ++ i :: post /\ length (flat pre) = n.
Proof.
  intros (k & Hk & <-). destruct (nth_error g k) as [i|] eqn:E.
  - apply nth_error_split in E. destruct E as (pre & post & -> & <-). exists pre, i, post. split; auto.
    symmetry. apply pos_split.
  - apply nth_error_None in E. lia.
Qed.

(* non-vacuity: the program of FullCompileWF2.fullcompile_decodes_nonvacuous (forward jumps of `if`, `&&`, `while`, `break`,
   try/catch, a Loop) is accepted, so the theorem applies to it *)
Example jumps_land_nonvacuous :
  exists p f,
    lparse_source (bs "var a = 1; fn f(x) { return || x + a; } while a { if a && f { break; } try { a.b(1); } catch e { } }")
      = Parser.POk p /\
    compile_program p = COk f /\ (exists is_, f_code f = flat is_ /\ jumps_in is_) /\
    Nat.leb 5 (length (filter (fun b => N.eqb b 43 || N.eqb b 42 || N.eqb b 45)%bool (f_code f))) = true.
Proof.
  eexists. eexists. split; [vm_compute; reflexivity|].
  match goal with |- ?A /\ _ => assert (HA : A) by (vm_compute; reflexivity) end.
  split; [exact HA|]. split.
  - destruct (jumps_land _ _ _ HA (sub_refl _)) as (is_ & E & _ & J). eauto.
  - vm_compute; reflexivity.
Qed.

(* ------------------------------------------------------------------ *)
(* the same at the decoded level: Bytecode.decode succeeds at the target of every jump *)
From YV Require Import FullCompileWF2.

Theorem jumps_decode (p : lprogram) (f g : func) P F :
  compile_program p = COk f -> subfunc g f -> models P F g ->
  exists is_ : list ainstr,
    f_code g = flat is_ /\
    decode_seq P F (length is_) 0 = Some (map instr_of is_) /\
    (forall pre o a b post, is_ = pre ++ (o, [a; b]) :: post -> is_jump16 o = true ->
       let q := length (flat pre) in
       decode P F (N.of_nat q) = Some (mkInstr o (u16 a b) 0 [], N.of_nat (q + 3)) /\
       exists i nx, decode P F (N.of_nat (q + 3 + N.to_nat (u16 a b))) = Some (i, nx)) /\
    (forall pre a b post, is_ = pre ++ (OpLoop, [a; b]) :: post ->
       let q := length (flat pre) in
       decode P F (N.of_nat q) = Some (mkInstr OpLoop (u16 a b) 0 [], N.of_nat (q + 3)) /\
       N.to_nat (u16 a b) <= q + 3 /\
       exists i nx, decode P F (N.of_nat (q + 3 - N.to_nat (u16 a b))) = Some (i, nx)).
Proof.
  intros H Hg HM. pose proof (code_bytes_in_range _ _ _ H Hg) as Hlt.
  destruct (jumps_land _ _ _ H Hg) as (is_ & Hc & Hok & [J1 J2]). exists is_. split; auto. split.
  { apply (decode_seq_suffix P F g is_ HM Hlt Hc Hok is_ []). reflexivity. }
  assert (D : forall n, sbnd is_ n -> exists i nx, decode P F (N.of_nat n) = Some (i, nx)).
  { intros n Hn. apply sbnd_split in Hn. destruct Hn as (pre & i & post & E & <-).
    eexists _, _. eapply decode_at_boundary; eauto. }
  split.
  - intros pre o a b post E Ho q. subst q. split.
    + rewrite (decode_at_boundary P F g is_ pre _ post HM Hlt Hc Hok E). unfold instr_of. simpl.
      destruct o; try discriminate; reflexivity.
    + apply D. assert (Hn : nth_error is_ (length pre) = Some (o, [a; b])).
      { rewrite E. rewrite nth_error_app2, Nat.sub_diag by lia. reflexivity. }
      specialize (J1 _ _ _ _ Hn Ho). rewrite E in J1 at 2. rewrite pos_split in J1. exact J1.
  - intros pre a b post E q. subst q.
    assert (Hn : nth_error is_ (length pre) = Some (OpLoop, [a; b])).
    { rewrite E. rewrite nth_error_app2, Nat.sub_diag by lia. reflexivity. }
    destruct (J2 _ _ _ Hn) as [L1 L2]. rewrite E in L1 at 1. rewrite E in L2 at 2. rewrite pos_split in L1, L2.
    split; [|split; auto].
    rewrite (decode_at_boundary P F g is_ pre _ post HM Hlt Hc Hok E). reflexivity.
Qed.
Print Assumptions jumps_decode.

(* the two targets of every PushExcHandler (catch_pc = next + a, finally_pc = next + a + b, as Skeleton.step computes them)
   are starts of instructions: Bytecode.decode succeeds there *)
Theorem handlers_decode (p : lprogram) (f g : func) P F :
  compile_program p = COk f -> subfunc g f -> models P F g ->
  exists is_ : list ainstr,
    f_code g = flat is_ /\
    forall pre a b c d post, is_ = pre ++ (OpPushExcHandler, [a; b; c; d]) :: post ->
      let q := length (flat pre) in
      decode P F (N.of_nat q) = Some (mkInstr OpPushExcHandler (u16 a b) (u16 c d) [], N.of_nat (q + 5)) /\
      (exists i nx, decode P F (N.of_nat (q + 5) + u16 a b)%N = Some (i, nx)) /\
      (exists i nx, decode P F (N.of_nat (q + 5) + u16 a b + u16 c d)%N = Some (i, nx)).
Proof.
  intros H Hg HM. pose proof (code_bytes_in_range _ _ _ H Hg) as Hlt.
  destruct (ends_in_return _ _ _ H Hg) as (is_ & Hc & Hok & _ & _ & _ & _ & Hh).
  exists is_. split; auto. intros pre a b c d post E q. subst q.
  assert (D : forall n, sbnd is_ n -> exists i nx, decode P F (N.of_nat n) = Some (i, nx)).
  { intros n Hn. apply sbnd_split in Hn. destruct Hn as (pre' & i & post' & E' & <-).
    eexists _, _. eapply decode_at_boundary; eauto. }
  assert (Hn : nth_error is_ (length pre) = Some (OpPushExcHandler, [a; b; c; d])).
  { rewrite E. rewrite nth_error_app2, Nat.sub_diag by lia. reflexivity. }
  destruct (Hh _ _ _ _ _ Hn) as [T1 T2]. rewrite E in T1 at 2. rewrite E in T2 at 2. rewrite pos_split in T1, T2.
  split; [|split].
  - rewrite (decode_at_boundary P F g is_ pre _ post HM Hlt Hc Hok E). reflexivity.
  - destruct (D _ T1) as (i & nx & Hd). exists i, nx. rewrite <- Hd. f_equal. lia.
  - destruct (D _ T2) as (i & nx & Hd). exists i, nx. rewrite <- Hd. f_equal. lia.
Qed.
Print Assumptions handlers_decode.
