(* FullCompile-WF, part 7: whole programs (the multi-frame machine of VerifierProofs.v).
   - every entry of `flatten f` represents a function of the tree (converse of FullCompileWF2.flatten_models);
   - hence, for ALL programs FullCompile accepts: in every reachable state of the multi-frame machine over `flatten f`
     every frame is in a state with control-flow integrity, and a frame that is stuck is stuck for a stack-height /
     handler-discipline reason only. *)
From Coq Require Import Strings.Byte Strings.String.
From Coq Require Import List NArith ZArith Bool Arith Lia.
From YV Require Import Show Utf8 Num Ast Bytecode Skeleton VerifierProofs ParseLoc FullCompile FullCompileProofs
  FullCompileWF FullCompileWF2 FullCompileWFJ FullCompileWFJ2 FullCompileWFS FullCompileWFC.
Import ListNotations.
Local Open Scope nat_scope.
Local Open Scope list_scope.

Lemma fl_root_models f P front back base :
  P = front ++ fl f base ++ back -> length front = base ->
  exists F rest, fl f base = F :: rest /\ models P F f.
Proof.
  intros HP Hb. destruct f as [a u n code ks lines]. rewrite fl_eq in HP. rewrite fl_eq.
  eexists _, _. split; [reflexivity|].
  constructor; simpl; auto.
  - intros. eapply go_of_str; eauto.
  - intros. eapply go_of_num; eauto.
  - intros c h Hc. destruct (go_of_fun ks (S base) c h Hc) as (i & s1 & s2 & A1 & A2 & A3).
    destruct (fl_head h i) as [rest Hh].
    exists i, (mkFn (f_code h) (fst (go_of (f_consts h) (S i))) (f_arity h) (f_upvalues h)).
    split; [exact A1|]. split; [|reflexivity].
    rewrite HP, A2, Hh.
    replace (front ++ (mkFn code (fst (go_of ks (S base))) a u :: s1 ++ (mkFn (f_code h) (fst (go_of (f_consts h) (S i))) (f_arity h) (f_upvalues h) :: rest) ++ s2) ++ back)
      with ((front ++ mkFn code (fst (go_of ks (S base))) a u :: s1) ++
            (mkFn (f_code h) (fst (go_of (f_consts h) (S i))) (f_arity h) (f_upvalues h) :: rest ++ s2 ++ back)).
    2:{ simpl. rewrite <- ?app_assoc. simpl. rewrite <- ?app_assoc. reflexivity. }
    rewrite nth_error_app2 by (rewrite app_length; simpl; lia).
    replace (i - length (front ++ mkFn code (fst (go_of ks (S base))) a u :: s1)) with 0
      by (rewrite app_length; simpl; lia).
    reflexivity.
Qed.

Lemma go_of_In ks : forall next F, In F (snd (go_of ks next)) ->
  exists c h i s1 s2, nth_error ks c = Some (KFun h) /\ snd (go_of ks next) = s1 ++ fl h i ++ s2 /\
                      i = next + length s1 /\ In F (fl h i).
Proof.
  induction ks as [|[y|y|h'] r IH]; intros next F H; simpl in *; try contradiction.
  - destruct (IH _ _ H) as (c & h & i & s1 & s2 & A1 & A2 & A3 & A4). exists (S c), h, i, s1, s2. auto.
  - destruct (IH _ _ H) as (c & h & i & s1 & s2 & A1 & A2 & A3 & A4). exists (S c), h, i, s1, s2. auto.
  - apply in_app_or in H. destruct H as [H|H].
    + exists 0, h', next, [], (snd (go_of r (next + length (fl h' next)))). simpl. repeat split; auto.
    + destruct (IH _ _ H) as (c & h & i & s1 & s2 & A1 & A2 & A3 & A4).
      exists (S c), h, i, (fl h' next ++ s1), s2. simpl. split; auto. split.
      rewrite A2, <- app_assoc. reflexivity. split; auto. rewrite app_length. lia.
Qed.

(* every entry of the flattening represents a function of the tree *)
Lemma flatten_entries_gen : forall n f base P front back,
  length (fl f base) <= n -> P = front ++ fl f base ++ back -> length front = base ->
  forall F, In F (fl f base) -> exists g, subfunc g f /\ models P F g.
Proof.
  induction n; intros f base P front back Hn HP Hb F HF.
  - destruct (fl_head f base) as [rest E]. rewrite E in Hn. simpl in Hn. lia.
  - destruct (fl_root_models f P front back base HP Hb) as (F0 & rest & E & HM).
    rewrite E in HF. destruct HF as [<-|HF].
    + exists f. split; auto. constructor.
    + destruct f as [a u nm code ks lines]. rewrite fl_eq in E, HP, Hn. inversion E; subst F0 rest.
      destruct (go_of_In ks (S base) F HF) as (c & h & i & s1 & s2 & A1 & A2 & A3 & A4).
      assert (Hlen : length (fl h i) <= n).
      { simpl in Hn. rewrite A2 in Hn. rewrite !app_length in Hn. lia. }
      destruct (IHn h i P (front ++ mkFn code (fst (go_of ks (S base))) a u :: s1) (s2 ++ back) Hlen) with (F := F)
        as (g & Hg & HMg); auto.
      * rewrite HP, A2. simpl. rewrite <- ?app_assoc. simpl. rewrite <- ?app_assoc. reflexivity.
      * rewrite app_length. simpl. lia.
      * exists g. split; auto. eapply sub_const; eauto. simpl. eapply nth_error_In; eauto.
Qed.

Theorem flatten_entries f F : In F (flatten f) -> exists g, subfunc g f /\ models (flatten f) F g.
Proof.
  intros H. apply (flatten_entries_gen (length (fl f 0)) f 0 (flatten f) [] []); auto.
  unfold flatten. rewrite app_nil_r. reflexivity.
Qed.
Print Assumptions flatten_entries.

(* HEADLINE (ALL programs, whole program = multi-frame machine of VerifierProofs.v, strict semantics):
   every frame of every reachable machine state is at an instruction start with handlers / pending return at
   instruction starts, and if its next step is stuck, the reason is a stack-height / handler-discipline reason. *)
Theorem program_frames_benign (p : lprogram) (f : func) :
  compile_program p = COk f ->
  forall ms, mreachable false (flatten f) ms ->
    Forall (fun fr => exists F, nth_error (flatten f) (fr_fn fr) = Some F /\
                       reachable false (flatten f) F (fr_st fr) /\
                       forall r, step false (flatten f) F (fr_st fr) = Stuck r -> benign r) ms /\
    length ms <= N.to_nat FRAMES_MAX.
Proof.
  intros H ms Hr. destruct (mreachable_ok false (flatten f) ms Hr) as [Hok Hlen]. split; auto.
  rewrite Forall_forall in *. intros fr Hin. destruct (Hok fr Hin) as (F & HF & Hreach).
  exists F. split; auto. split; auto.
  destruct (flatten_entries f F (nth_error_In _ _ HF)) as (g & Hg & HM).
  intros r Hst. eapply reachable_stuck_reasons; eauto.
Qed.
Print Assumptions program_frames_benign.

(* the initial machine state *)
Corollary program_entry_benign (p : lprogram) (f : func) :
  compile_program p = COk f ->
  exists F0, nth_error (flatten f) 0 = Some F0 /\
    mreachable false (flatten f) [mkFr 0 0 (entry_state F0)] /\
    (forall r, step false (flatten f) F0 (entry_state F0) = Stuck r -> benign r).
Proof.
  intros H. destruct (fl_head f 0) as [rest E].
  assert (Hn : nth_error (flatten f) 0 = Some (mkFn (f_code f) (fst (go_of (f_consts f) 1)) (f_arity f) (f_upvalues f))).
  { unfold flatten. rewrite E. reflexivity. }
  eexists. split; [exact Hn|].
  assert (Hm : mreachable false (flatten f) [mkFr 0 0 (entry_state (mkFn (f_code f) (fst (go_of (f_consts f) 1)) (f_arity f) (f_upvalues f)))]).
  { apply mr_init. exact Hn. }
  split; [exact Hm|].
  destruct (program_frames_benign _ _ H _ Hm) as [Hall _]. inversion Hall as [|x y (F & HF & _ & Hb) _]; subst.
  cbn [fr_fn fr_st] in HF, Hb. assert (E2 : Some F = Some (mkFn (f_code f) (fst (go_of (f_consts f) 1)) (f_arity f) (f_upvalues f))) by (rewrite <- HF; exact Hn).
  inversion E2; subst F. exact Hb.
Qed.

(* non-vacuity: a concrete program (closure with an upvalue, loop with break, &&, try/catch, method call) is accepted, so
   the theorems speak about its initial machine state *)
Example program_frames_benign_nonvacuous :
  exists p f,
    lparse_source (bs "var a = 1; fn f(x) { return || x + a; } while a { if a && f { break; } try { a.b(1); } catch e { } }")
      = Parser.POk p /\
    compile_program p = COk f /\
    exists F0, nth_error (flatten f) 0 = Some F0 /\
      mreachable false (flatten f) [mkFr 0 0 (entry_state F0)] /\
      (forall r, step false (flatten f) F0 (entry_state F0) = Stuck r -> benign r).
Proof.
  eexists. eexists. split; [vm_compute; reflexivity|].
  match goal with |- ?A /\ _ => assert (HA : A) by (vm_compute; reflexivity) end.
  split; [exact HA|]. exact (program_entry_benign _ _ HA).
Qed.
