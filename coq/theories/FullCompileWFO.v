(* FullCompile-WF, part 11: deliverables 1 + 2 of the brief in ONE statement about ONE instruction list, at the decoded
   level (Bytecode.decode), for ALL programs and every function of the tree.
   `operands_valid_partial`: _partial ONLY because of the two operand facts that are stack-height facts (GetLocal / SetLocal
   operand < height; local Closure descriptors (true, slot) with slot <= height): they belong to deliverable 3
   (FullCompileHt*.v, fragment) and their violation is `RLocalOutOfRange`, a `benign` reason. *)
From Coq Require Import Strings.Byte Strings.String.
From Coq Require Import List NArith ZArith Bool Arith Lia.
From YV Require Import Show Utf8 Num Ast Bytecode ParseLoc FullCompile FullCompileProofs
  FullCompileWF FullCompileWF2 FullCompileWFJ FullCompileWFJ2.
Import ListNotations.
Local Open Scope nat_scope.
Local Open Scope list_scope.

Lemma ofnat_add n v : N.of_nat (n + N.to_nat v) = (N.of_nat n + v)%N.
Proof. rewrite Nat2N.inj_add, N2Nat.id. reflexivity. Qed.
Lemma ofnat_sub n v : N.of_nat (n - N.to_nat v) = (N.of_nat n - v)%N.
Proof. rewrite Nat2N.inj_sub, N2Nat.id. reflexivity. Qed.

Definition decodes (P : program) (F : fn) (q : N) : Prop := exists i nx, decode P F q = Some (i, nx).

Theorem operands_valid_partial (p : lprogram) (f g : func) P F :
  compile_program p = COk f -> subfunc g f -> models P F g ->
  exists is_ : list ainstr,
    f_code g = flat is_ /\
    (* 1: the VM's decoder walks the whole code and stops exactly at code_len *)
    decode_seq P F (length is_) 0 = Some (map instr_of is_) /\
    (* 2a: constants exist and have the kind the opcode expects; Closure: function constant, one descriptor per upvalue of it,
       non-local descriptors < upvalue_count g; GetUpvalue / SetUpvalue operand < upvalue_count g *)
    Forall (operand_ok g) (map instr_of is_) /\
    (* 2b: every forward jump lands on the start of an instruction *)
    (forall pre o a b post, is_ = pre ++ (o, [a; b]) :: post -> is_jump16 o = true ->
       decode P F (N.of_nat (length (flat pre))) = Some (mkInstr o (u16 a b) 0 [], N.of_nat (length (flat pre) + 3)) /\
       decodes P F (N.of_nat (length (flat pre) + 3) + u16 a b)%N) /\
    (* 2c: every Loop goes back to the start of an instruction *)
    (forall pre a b post, is_ = pre ++ (OpLoop, [a; b]) :: post ->
       (u16 a b <= N.of_nat (length (flat pre) + 3))%N /\
       decodes P F (N.of_nat (length (flat pre) + 3) - u16 a b)%N) /\
    (* 2d: catch and finally target of every PushExcHandler are starts of instructions *)
    (forall pre a b c d post, is_ = pre ++ (OpPushExcHandler, [a; b; c; d]) :: post ->
       decodes P F (N.of_nat (length (flat pre) + 5) + u16 a b)%N /\
       decodes P F (N.of_nat (length (flat pre) + 5) + u16 a b + u16 c d)%N) /\
    (* 2e: the code ends with Return, every JumpFinally is followed by Return, and the position after every other instruction
       is the start of an instruction: control never reaches code_len *)
    (exists is0, is_ = is0 ++ [(OpReturn, [])]) /\
    (forall pre post, is_ = pre ++ (OpJumpFinally, []) :: post -> exists post', post = (OpReturn, []) :: post') /\
    (forall pre i post, is_ = pre ++ i :: post -> fst i <> OpReturn ->
       decodes P F (N.of_nat (length (flat pre) + length (enc i)))).
Proof.
  intros H Hg HM. pose proof (code_bytes_in_range _ _ _ H Hg) as Hlt.
  destruct (ends_in_return _ _ _ H Hg) as (is_ & Hc & Hok & [J1 J2] & Hlast & FT & Hjf & Hh).
  exists is_.
  assert (D : forall n, sbnd is_ n -> decodes P F (N.of_nat n)).
  { intros n Hn. apply sbnd_split in Hn. destruct Hn as (pre' & i & post' & E' & <-).
    eexists _, _. eapply decode_at_boundary; eauto. }
  assert (NE : forall pre i post, is_ = pre ++ i :: post -> nth_error is_ (length pre) = Some i).
  { intros pre i post E. rewrite E. rewrite nth_error_app2, Nat.sub_diag by lia. reflexivity. }
  split; auto. split.
  { apply (decode_seq_suffix P F g is_ HM Hlt Hc Hok is_ []). reflexivity. }
  split.
  { apply Forall_map. eapply Forall_impl; [|exact Hok]. intros. apply iok_operand_ok; auto. }
  split.
  { intros pre o a b post E Ho. split.
    - rewrite (decode_at_boundary P F g is_ pre _ post HM Hlt Hc Hok E). unfold instr_of. simpl.
      destruct o; try discriminate; reflexivity.
    - pose proof (J1 _ _ _ _ (NE _ _ _ E) Ho) as T. rewrite E in T at 2. rewrite pos_split in T.
      destruct (D _ T) as (i & nx & Hd). exists i, nx. rewrite <- Hd. f_equal. rewrite ?ofnat_add, ?ofnat_sub. reflexivity. }
  split.
  { intros pre a b post E. destruct (J2 _ _ _ (NE _ _ _ E)) as [L1 L2].
    rewrite E in L1 at 1. rewrite E in L2 at 2. rewrite pos_split in L1, L2. split. lia.
    destruct (D _ L2) as (i & nx & Hd). exists i, nx. rewrite <- Hd. f_equal. rewrite ?ofnat_add, ?ofnat_sub. reflexivity. }
  split.
  { intros pre a b c d post E. destruct (Hh _ _ _ _ _ (NE _ _ _ E)) as [T1 T2].
    rewrite E in T1 at 2. rewrite E in T2 at 2. rewrite pos_split in T1, T2. split.
    - destruct (D _ T1) as (i & nx & Hd). exists i, nx. rewrite <- Hd. f_equal. rewrite ?ofnat_add, ?ofnat_sub. reflexivity.
    - destruct (D _ T2) as (i & nx & Hd). exists i, nx. rewrite <- Hd. f_equal. rewrite ?ofnat_add, ?ofnat_sub. reflexivity. }
  split; auto. split.
  { intros pre post E. pose proof (Hjf _ (NE _ _ _ E)) as T. rewrite E in T.
    rewrite nth_error_app2 in T by apply Nat.le_succ_diag_r.
    rewrite Nat.sub_succ_l, Nat.sub_diag in T by apply Nat.le_refl. simpl in T.
    destruct post as [|i2 post2]; [discriminate|]. inversion T; subst. eauto. }
  { intros pre i post E Hne. pose proof (FT _ _ (NE _ _ _ E) Hne) as T.
    rewrite (pos_S _ _ _ (NE _ _ _ E)) in T. rewrite E in T at 2. rewrite pos_split in T. apply D. exact T. }
Qed.
Print Assumptions operands_valid_partial.
