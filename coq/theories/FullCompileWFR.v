(* FullCompile-WF, part 8: the remaining part of C04 (no reachable state is stuck for a `benign` = stack-height /
   handler-discipline reason) is FALSE for the faithful model compiler on ALL programs: witnesses from the open known
   classes of C04 (known_findings.json: return_in_try_catch_no_finally, early_exit_skips_finally, finally_local).
   So `FullCompileWFC.reachable_stuck_reasons` is tight, and a heights theorem must exclude shapes (FullCompileHt*.v).

   A reachable stuck state is exhibited by an executable breadth-first search over Skeleton.step whose answer (a path of
   successor indices) is checked by `follow`; `follow_reachable` turns it into VerifierProofs.reachable. *)
From Coq Require Import Strings.Byte Strings.String.
From Coq Require Import List NArith ZArith Bool Arith Lia.
From YV Require Import Show Utf8 Num Ast Bytecode Skeleton VerifierProofs ParseLoc FullCompile FullCompileProofs
  FullCompileWF FullCompileWF2 FullCompileWFS.
Import ListNotations.
Local Open Scope nat_scope.
Local Open Scope list_scope.

Section Search.
  Variable P : program.
  Variable F : fn.

  Fixpoint follow (path : list nat) (s : fstate) : option fstate :=
    match path with
    | [] => Some s
    | k :: r =>
      match succs false P F s with
      | Some l => match nth_error l k with Some s' => follow r s' | None => None end
      | None => None
      end
    end.

  Lemma follow_reachable path : forall s s', reachable false P F s -> follow path s = Some s' -> reachable false P F s'.
  Proof.
    induction path as [|k r IH]; intros s s' Hr H; simpl in H.
    - inversion H; subst; auto.
    - destruct (succs false P F s) as [l|] eqn:E; [|discriminate].
      destruct (nth_error l k) as [s1|] eqn:En; [|discriminate].
      eapply IH; [|exact H]. eapply reach_step; eauto. eapply nth_error_In; eauto.
  Qed.

  Fixpoint index_from (k : nat) (pth : list nat) (l : list fstate) : list (fstate * list nat) :=
    match l with
    | [] => []
    | s :: r => (s, k :: pth) :: index_from (S k) pth r
    end.

  (* breadth-first search for a stuck state; answers the path (successor indices from the entry state) and the reason *)
  Fixpoint search (fuel : nat) (work : list (fstate * list nat)) : option (list nat * reason) :=
    match fuel with
    | O => None
    | S fuel' =>
      match work with
      | [] => None
      | (s, pth) :: w =>
        match step false P F s with
        | Stuck r => Some (rev pth, r)
        | Next l => search fuel' (w ++ index_from 0 pth l)
        end
      end
    end.

  Definition stuck_witness (fuel : nat) : option (list nat * reason) := search fuel [(entry_state F, [])].

  Lemma witness_sound path r s :
    follow path (entry_state F) = Some s -> step false P F s = Stuck r ->
    exists s', reachable false P F s' /\ step false P F s' = Stuck r.
  Proof. intros H1 H2. exists s. split; auto. eapply follow_reachable; eauto. apply reach_entry. Qed.
End Search.

Definition src_return_in_try : list byte :=
  bs "fn f() { try { return 1; } catch e {} print(1); return 2; } print(f());".
Definition src_finally_return : list byte :=
  bs "fn f() { try { return 1; } finally { return 2; } } print(f());".

(* the full statement "no reachable state of FullCompile's output is ever stuck" is REFUTED (class
   return_in_try_catch_no_finally: the Return after the statement is reached with a pending return) *)
Theorem fullcompile_all_programs_safe_refuted :
  exists p f F s r,
    lparse_source src_return_in_try = Parser.POk p /\ compile_program p = COk f /\
    nth_error (flatten f) 1 = Some F /\
    reachable false (flatten f) F s /\ step false (flatten f) F s = Stuck r /\ r = RReturnPending /\ benign r.
Proof.
  eexists. eexists. eexists. eexists. eexists.
  split; [vm_compute; reflexivity|]. split; [vm_compute; reflexivity|]. split; [vm_compute; reflexivity|].
  match goal with |- reachable false ?P ?F ?s /\ _ =>
    let w := eval vm_compute in (stuck_witness P F 400) in
    match w with
    | Some (?path, ?r) =>
      let t := eval vm_compute in (follow P F path (entry_state F)) in
      match t with
      | Some ?st =>
        assert (Hf : follow P F path (entry_state F) = Some st) by (vm_compute; reflexivity);
        assert (Hs : step false P F st = Stuck r) by (vm_compute; reflexivity);
        split; [ eapply follow_reachable; [apply reach_entry | exact Hf] | split; [exact Hs|] ]
      end
    end
  end.
  split; [reflexivity|]. unfold benign. tauto.
Qed.
Print Assumptions fullcompile_all_programs_safe_refuted.

(* same for try/finally with a return in both blocks (class early_exit_skips_finally) *)
Theorem fullcompile_all_programs_safe_refuted_finally :
  exists p f F s r,
    lparse_source src_finally_return = Parser.POk p /\ compile_program p = COk f /\
    nth_error (flatten f) 1 = Some F /\
    reachable false (flatten f) F s /\ step false (flatten f) F s = Stuck r /\ benign r.
Proof.
  eexists. eexists. eexists. eexists. eexists.
  split; [vm_compute; reflexivity|]. split; [vm_compute; reflexivity|]. split; [vm_compute; reflexivity|].
  match goal with |- reachable false ?P ?F ?s /\ _ =>
    let w := eval vm_compute in (stuck_witness P F 400) in
    match w with
    | Some (?path, ?r) =>
      let t := eval vm_compute in (follow P F path (entry_state F)) in
      match t with
      | Some ?st =>
        assert (Hf : follow P F path (entry_state F) = Some st) by (vm_compute; reflexivity);
        assert (Hs : step false P F st = Stuck r) by (vm_compute; reflexivity);
        split; [ eapply follow_reachable; [apply reach_entry | exact Hf] | split; [exact Hs|] ]
      end
    end
  end.
  unfold benign. tauto.
Qed.
Print Assumptions fullcompile_all_programs_safe_refuted_finally.

(* class handling_exception_global: an EndFinally reached on the normal path may take the rethrow branch (the VM-global flag
   is unknown after a call) and unwind to an enclosing handler of the same frame above the remaining stack *)
Definition src_nested_try_finally : list byte :=
  bs "fn f() { try { try { print(1); } catch e {} finally { print(2); } } catch e2 {} } f();".

Theorem fullcompile_all_programs_safe_refuted_flag :
  exists p f F s r,
    lparse_source src_nested_try_finally = Parser.POk p /\ compile_program p = COk f /\
    nth_error (flatten f) 1 = Some F /\
    reachable false (flatten f) F s /\ step false (flatten f) F s = Stuck r /\ r = RHandlerAboveStack /\ benign r.
Proof.
  eexists. eexists. eexists. eexists. eexists.
  split; [vm_compute; reflexivity|]. split; [vm_compute; reflexivity|]. split; [vm_compute; reflexivity|].
  match goal with |- reachable false ?P ?F ?s /\ _ =>
    let w := eval vm_compute in (stuck_witness P F 3000) in
    match w with
    | Some (?path, ?r) =>
      let t := eval vm_compute in (follow P F path (entry_state F)) in
      match t with
      | Some ?st =>
        assert (Hf : follow P F path (entry_state F) = Some st) by (vm_compute; reflexivity);
        assert (Hs : step false P F st = Stuck r) by (vm_compute; reflexivity);
        split; [ eapply follow_reachable; [apply reach_entry | exact Hf] | split; [exact Hs|] ]
      end
    end
  end.
  split; [reflexivity|]. unfold benign. tauto.
Qed.
Print Assumptions fullcompile_all_programs_safe_refuted_flag.
