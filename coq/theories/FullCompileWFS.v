(* FullCompile-WF, part 5: what deliverables 1 + 2 mean for the skeleton semantics (Skeleton.step), for ALL programs:
   at EVERY instruction start of EVERY function of the tree - reachable or not, at ANY height and handler stack - a step
   can only be stuck for a height / handler reason.  It is never stuck because the code cannot be decoded, because a
   constant operand is out of range or of the wrong kind, because a Jump / JumpIfFalse / JumpIfStopIter / Loop leaves the
   code, because an upvalue operand of GetUpvalue / SetUpvalue is out of range, or because a JumpFinally is not followed
   by Return.  (RUpvalueOutOfRange can only come from the descriptors of a Closure, RJumpOutOfRange only from the
   finally target of a JumpFinally, which depends on the handler stack: both are outside deliverables 1-2.) *)
From Coq Require Import Strings.Byte Strings.String.
From Coq Require Import List NArith ZArith Bool Arith Lia.
From YV Require Import Show Utf8 Num Ast Bytecode Skeleton ParseLoc FullCompile FullCompileProofs
  FullCompileWF FullCompileWF2 FullCompileWFJ FullCompileWFJ2.
Import ListNotations.
Local Open Scope nat_scope.
Local Open Scope list_scope.

(* the reasons excluded at every instruction start *)
Definition operand_reason (r : reason) : bool :=
  match r with
  | RUndecodable | RConstOutOfRange | RConstKind | RJumpFinallyNoReturn | RUpvalueOutOfRange => true
  | _ => false
  end.

(* ---------- facts about the effect table ---------- *)
Lemma simple_effect_chk f i h e r :
  simple_effect f i h = Some e -> e_chk e = Some r ->
  r = RPopBelowLocals \/ r = RLocalOutOfRange \/ (r = RUpvalueOutOfRange /\ upv_op (iop i) = true /\ (ia i <? upvalue_count f)%N = false).
Proof.
  unfold simple_effect. destruct (iop i); intros H; inversion H; subst; clear H; simpl; unfold chk;
    try discriminate.
  all: match goal with |- context [if ?b then _ else _] => destruct b eqn:E end; intros H; inversion H; subst; auto.
Qed.

Lemma simple_effect_const f i h e :
  simple_effect f i h = Some e ->
  match e_const e with
  | CNone => True
  | CNotFunc => iop i = OpConstant
  | CString => str_op (iop i) = true \/ layout_of (iop i) = L16_8
  end.
Proof.
  unfold simple_effect. destruct (iop i); intros H; inversion H; subst; clear H; simpl; auto.
Qed.

Lemma const_ok_models P F g rq c :
  models P F g ->
  match rq with
  | CNone => True
  | CNotFunc => knotfun (f_consts g) c
  | CString => kstr (f_consts g) c
  end ->
  const_ok F rq c = None.
Proof.
  intros HM. destruct rq; simpl; auto.
  - intros (k & Hk & Hnf). unfold const_at. destruct k as [x|x|h].
    + rewrite (m_num _ _ _ HM _ _ Hk). reflexivity.
    + rewrite (m_str _ _ _ HM _ _ Hk). reflexivity.
    + exfalso. eapply Hnf; eauto.
  - intros (x & Hk). unfold const_at. rewrite (m_str _ _ _ HM _ _ Hk). reflexivity.
Qed.

Lemma decode_get P F q i nx : decode P F q = Some (i, nx) -> exists b, byte_at (code F) q = Some b.
Proof.
  unfold decode, decode_at. destruct (byte_at (code F) q); eauto. discriminate.
Qed.

(* results of exc_edge / rapp never carry an operand reason *)
Lemma exc_edge_reason s b r : exc_edge s b = Stuck r -> r = RHandlerAboveStack.
Proof.
  unfold exc_edge. destruct (handlers s); [discriminate|]. destruct (_ <=? _)%N; [discriminate|]. intros H; inversion H; auto.
Qed.

Definition benign (r : reason) : Prop :=
  r = RStackOverflow \/ r = RStackUnderflow \/ r = RPopBelowLocals \/ r = RPopCaptured \/ r = RLocalOutOfRange \/
  r = RNoHandler \/ r = RHandlerAboveStack \/ r = RReturnWithHandlers \/ r = RReturnPending.

Lemma benign_not_operand r : benign r -> operand_reason r = false /\ r <> RUpvalueOutOfRange /\ r <> RJumpOutOfRange.
Proof. unfold benign. intros H. repeat (destruct H as [->|H]); try subst r; repeat split; try reflexivity; discriminate. Qed.

Lemma rapp_next_reason l b r : rapp (Next l) b = Stuck r -> b = Stuck r.
Proof. simpl. destruct b; intros H; inversion H; auto. Qed.

Definition verdict_ok (ii : instr) (r : reason) : Prop :=
  operand_reason r = false /\ (r = RUpvalueOutOfRange -> iop ii = OpClosure) /\ (r = RJumpOutOfRange -> iop ii = OpJumpFinally).

Lemma benign_ok ii r : benign r -> verdict_ok ii r.
Proof. intros H. apply benign_not_operand in H. destruct H as (A & B & C). split; auto. split; intros; contradiction. Qed.

Ltac ben := apply benign_ok; unfold benign; tauto.

Lemma step_reasons P F g s ii nx :
  models P F g -> decode P F (pc s) = Some (ii, nx) -> operand_ok g ii ->
  (is_jump16 (iop ii) = true -> exists b, byte_at (code F) (nx + ia ii)%N = Some b) ->
  (iop ii = OpLoop -> (ia ii <= nx)%N) ->
  (iop ii = OpJumpFinally -> byte_at (code F) nx = Some 57%N) ->
  forall r, step false P F s = Stuck r -> verdict_ok ii r.
Proof.
  intros HM Hd (Os & Oc & Ocl & Ou & Od) HJ HL HF r H.
  unfold step, step_at in H. fold (decode P F (pc s)) in H. rewrite Hd in H.
  destruct (STACK_MAX <? h s)%N. { inversion H; subst. ben. }
  destruct (simple_effect F ii (h s)) as [e|] eqn:Es.
  - unfold step_simple in H.
    destruct (e_chk e) as [r0|] eqn:Ec.
    { inversion H; subst. destruct (simple_effect_chk _ _ _ _ _ Es Ec) as [->|[->|(-> & Hu & Hlt)]]; try ben.
      exfalso. specialize (Ou Hu). rewrite (m_upv _ _ _ HM) in Hlt. apply N.ltb_ge in Hlt. lia. }
    pose proof (simple_effect_const _ _ _ _ Es) as Hcst.
    rewrite (const_ok_models P F g (e_const e) (ia ii) HM) in H.
    2:{ destruct (e_const e); auto. }
    destruct (negb (e_need e <=? h s)%N). { inversion H; subst. ben. }
    destruct (negb (captured_below (captured s) (h s - e_pops e))). { inversion H; subst. ben. }
    apply rapp_next_reason in H. destruct (e_throw e); [|discriminate].
    apply exc_edge_reason in H. subst. ben.
  - unfold in_code in H.
    destruct (iop ii) eqn:Eo; try (unfold simple_effect in Es; rewrite Eo in Es; discriminate).
    + (* Jump *) destruct (HJ eq_refl) as [b Hb]. rewrite Hb in H. discriminate.
    + (* JumpIfFalse *) destruct (h s =? 0)%N. { inversion H; subst. ben. }
      destruct (HJ eq_refl) as [b Hb]. rewrite Hb in H. discriminate.
    + (* JumpIfStopIter *) destruct (h s =? 0)%N. { inversion H; subst. ben. }
      destruct (HJ eq_refl) as [b Hb]. rewrite Hb in H. discriminate.
    + (* Loop *) specialize (HL eq_refl). apply N.leb_le in HL. rewrite HL in H. discriminate.
    + (* JumpFinally *) destruct (h s =? 0)%N. { inversion H; subst. ben. }
      destruct (handlers s) as [|hd tl]. { inversion H; subst. ben. }
      rewrite (HF eq_refl) in H.
      destruct (negb (hheight hd <=? h s - 1)%N). { inversion H; subst. ben. }
      destruct (match byte_at (code F) (finally_pc hd) with Some _ => true | None => false end); [discriminate|].
      inversion H; subst. split; [reflexivity|]. split; intros; auto; discriminate.
    + (* EndFinally *)
      match type of H with rapp ?q ?rt = _ => destruct q eqn:Eq; [destruct (exc s); discriminate|] end.
      apply rapp_next_reason in H.
      destruct (exc s); try discriminate.
      all: destruct (h s =? 0)%N; [inversion H; subst; ben|].
      all: destruct (exc_edge s (h s - 1)) eqn:Ee; [|discriminate].
      all: inversion H; subst; apply exc_edge_reason in Ee; subst; ben.
    + (* PopExcHandler *) destruct (handlers s); [inversion H; subst; ben|discriminate].
    + (* Throw *) destruct (h s =? 0)%N. { inversion H; subst. ben. }
      apply exc_edge_reason in H. subst. ben.
    + (* Closure *)
      destruct (uvs_ok F (h s) (iuvs ii)) as [r0|] eqn:Eu; [|discriminate]. inversion H; subst.
      assert (Hr : r = RLocalOutOfRange).
      { specialize (Od eq_refl). clear -Eu Od HM. induction (iuvs ii) as [|[[] x] l IH]; simpl in Eu. discriminate.
        - inversion Od; subst. destruct (x <=? h s)%N; auto. inversion Eu; auto.
        - inversion Od as [|? ? H1 H2]; subst. simpl in H1. rewrite (m_upv _ _ _ HM) in Eu.
          specialize (H1 eq_refl). apply N.ltb_lt in H1. rewrite H1 in Eu. auto. }
      subst. ben.
    + (* CloseUpvalue *) destruct (arity F <? h s)%N; [discriminate|]. inversion H; subst. ben.
    + (* Return *) destruct (h s =? 0)%N. { inversion H; subst. ben. }
      destruct (handlers s), (pending s); try discriminate; inversion H; subst; ben.
Qed.

Lemma iop_instr_of i : iop (instr_of i) = fst i.
Proof.
  destruct i as [o args]. unfold instr_of. simpl.
  destruct (layout_of o); destruct args as [|a [|b [|c [|d [|e r]]]]]; reflexivity.
Qed.

(* HEADLINE (ALL programs, every function of the tree, every instruction start, ANY abstract state there) *)
Theorem operand_safe_everywhere (p : lprogram) (f g : func) P F :
  compile_program p = COk f -> subfunc g f -> models P F g ->
  exists is_ : list ainstr,
    f_code g = flat is_ /\
    forall s, sbnd is_ (N.to_nat (pc s)) ->
      exists ii nx, decode P F (pc s) = Some (ii, nx) /\
        forall r, step false P F s = Stuck r ->
          operand_reason r = false /\
          (r = RUpvalueOutOfRange -> iop ii = OpClosure) /\
          (r = RJumpOutOfRange -> iop ii = OpJumpFinally).
Proof.
  intros H Hg HM. pose proof (code_bytes_in_range _ _ _ H Hg) as Hlt.
  destruct (ends_in_return _ _ _ H Hg) as (is_ & Hc & Hok & [J1 J2] & _ & _ & Hjf & _).
  exists is_. split; auto. intros s Hs.
  apply sbnd_split in Hs. destruct Hs as (pre & i & post & E & Hq).
  assert (Hpc : pc s = N.of_nat (length (flat pre))) by (rewrite Hq, N2Nat.id; reflexivity).
  pose proof (decode_at_boundary P F g is_ pre i post HM Hlt Hc Hok E) as Hd. rewrite <- Hpc in Hd.
  eexists _, _. split; [exact Hd|].
  assert (Hi : iok (f_consts g) (N.to_nat (f_upvalues g)) i).
  { rewrite E in Hok. apply Forall_app in Hok. destruct Hok as [_ Hok]. inversion Hok; auto. }
  assert (Hn : nth_error is_ (length pre) = Some i).
  { rewrite E. rewrite nth_error_app2, Nat.sub_diag by lia. reflexivity. }
  assert (D : forall n, sbnd is_ n -> exists b, byte_at (code F) (N.of_nat n) = Some b).
  { intros n Hn'. apply sbnd_split in Hn'. destruct Hn' as (pre' & i' & post' & E' & <-).
    eapply decode_get. eapply decode_at_boundary; eauto. }
  apply (step_reasons P F g s _ _ HM Hd (iok_operand_ok g i Hi)).
  - rewrite iop_instr_of. intros Hj. destruct i as [o args]. simpl in Hj.
    assert (exists a b, args = [a; b]) as (a & b & ->).
    { unfold iok in Hi. simpl in Hi. destruct o; try discriminate; simpl in Hi; destruct Hi as (a & b & -> & _); eauto. }
    specialize (J1 _ _ _ _ Hn Hj). rewrite E in J1 at 2. rewrite pos_split in J1.
    destruct (D _ J1) as [b0 Hb]. exists b0. rewrite <- Hb. f_equal.
    unfold instr_of. destruct o; try discriminate; simpl; unfold u16; lia.
  - rewrite iop_instr_of. intros Hl. destruct i as [o args]. simpl in Hl. subst o.
    assert (exists a b, args = [a; b]) as (a & b & ->).
    { unfold iok in Hi. simpl in Hi. destruct Hi as (a & b & -> & _); eauto. }
    destruct (J2 _ _ _ Hn) as [L1 _]. rewrite E in L1. rewrite pos_split in L1.
    unfold instr_of. simpl. unfold u16 in *. lia.
  - rewrite iop_instr_of. intros Hf. destruct i as [o args]. simpl in Hf. subst o.
    assert (args = []) as -> by (unfold iok in Hi; simpl in Hi; auto).
    specialize (Hjf _ Hn). rewrite E in Hjf. rewrite nth_error_app2 in Hjf by lia.
    replace (S (length pre) - length pre) with 1 in Hjf by lia. simpl in Hjf.
    destruct post as [|i2 post2]; [discriminate|]. inversion Hjf; subst i2.
    assert (Hcode : code F = flat (pre ++ [(OpJumpFinally, [])]) ++ enc (OpReturn, []) ++ flat post2).
    { rewrite (m_code _ _ _ HM), Hc, E. rewrite !flat_app, !flat_cons. simpl. rewrite <- !app_assoc. reflexivity. }
    assert (Hlt' : Forall (fun x => (x < 256)%N) (code F)) by (rewrite (m_code _ _ _ HM); auto).
    pose proof (byte_at_mid (code F) _ _ _ 0 _ Hcode Hlt' eq_refl) as Hb.
    etransitivity; [|exact Hb]. f_equal. rewrite flat_app, app_length. simpl. lia.
Qed.
Print Assumptions operand_safe_everywhere.

(* the same for the concrete flattening of the tree *)
Corollary operand_safe_flatten (p : lprogram) (f g : func) :
  compile_program p = COk f -> subfunc g f ->
  exists F idx is_,
    nth_error (flatten f) idx = Some F /\ code F = f_code g /\ code F = flat is_ /\
    forall s, sbnd is_ (N.to_nat (pc s)) ->
      forall r, step false (flatten f) F s = Stuck r ->
        operand_reason r = false /\
        (r = RUpvalueOutOfRange \/ r = RJumpOutOfRange ->
         exists ii nx, decode (flatten f) F (pc s) = Some (ii, nx) /\ (iop ii = OpClosure \/ iop ii = OpJumpFinally)).
Proof.
  intros H Hg. destruct (flatten_models g f Hg) as (F & idx & Hn & HM).
  destruct (operand_safe_everywhere p f g _ F H Hg HM) as (is_ & Hc & Hall).
  exists F, idx, is_. split; auto. split. apply (m_code _ _ _ HM). split. rewrite (m_code _ _ _ HM); auto.
  intros s Hs r Hr. destruct (Hall s Hs) as (ii & nx & Hd & Hv). destruct (Hv r Hr) as (A & B & C).
  split; auto. intros [-> | ->]; exists ii, nx; split; auto.
Qed.
Print Assumptions operand_safe_flatten.

(* non-vacuity: a concrete program (closure, loop, break, try/catch): its script has an instruction start at 0, so the
   theorem applies to every abstract state with pc = 0 (in particular the entry state) *)
Example operand_safe_nonvacuous :
  exists p f,
    lparse_source (bs "var a = 1; fn f(x) { return || x + a; } while a { if a && f { break; } try { a.b(1); } catch e { } }")
      = Parser.POk p /\
    compile_program p = COk f /\
    exists F idx is_, nth_error (flatten f) idx = Some F /\ code F = f_code f /\ code F = flat is_ /\ sbnd is_ 0 /\
      forall s, pc s = 0%N -> forall r, step false (flatten f) F s = Stuck r -> operand_reason r = false.
Proof.
  eexists. eexists. split; [vm_compute; reflexivity|].
  match goal with |- ?A /\ _ => assert (HA : A) by (vm_compute; reflexivity) end.
  split; [exact HA|].
  destruct (operand_safe_flatten _ _ _ HA (sub_refl _)) as (F & idx & is_ & Hn & Hc1 & Hc2 & Hall).
  assert (Hs : sbnd is_ 0).
  { exists 0. split; [|reflexivity]. destruct is_; [|simpl; lia]. rewrite Hc2 in Hc1. discriminate. }
  exists F, idx, is_. repeat (split; auto).
  intros s Hpc r Hr. apply (Hall s); auto. rewrite Hpc. exact Hs.
Qed.
