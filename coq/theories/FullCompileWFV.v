(* FullCompile-WF, part 9: what the EXECUTABLE verifier (Verifier.verify_fn, the function `./check C04` runs on every
   compiled program) can still answer on FullCompile's output, for ALL programs:
   a rejection is either a verifier-internal answer (fuel, too many states per pc, not inductive, overlap) or carries a
   `benign` reason (stack height / handler discipline).  It never rejects compiler output with RUndecodable,
   RConstOutOfRange, RConstKind, RUpvalueOutOfRange, RJumpOutOfRange or RJumpFinallyNoReturn. *)
From Coq Require Import Strings.Byte Strings.String.
From Coq Require Import List NArith ZArith Bool Arith Lia FMapPositive.
From YV Require Import Show Utf8 Num Ast Bytecode Skeleton Verifier VerifierProofs ParseLoc FullCompile FullCompileProofs
  FullCompileWF FullCompileWF2 FullCompileWFS FullCompileWFC FullCompileWFM.
Import ListNotations.
Local Open Scope nat_scope.
Local Open Scope list_scope.

Definition internal_reason (r : reason) : Prop :=
  r = RFuelExhausted \/ r = RTooManyStates \/ r = RNotInductive \/ r = ROverlap.

(* generic (any program): the untrusted inference only ever looks at reachable states *)
Lemma explore_stuck b p f : forall fuel work a q r,
  Forall (reachable b p f) work ->
  explore (map_get (code_map f)) b p f fuel work a = IStuck q r ->
  r = RFuelExhausted \/ r = RTooManyStates \/ exists s, reachable b p f s /\ step b p f s = Stuck r.
Proof.
  induction fuel as [|fuel IH]; intros work a q r Hw H.
  - destruct work as [|s w]; simpl in H; [discriminate|]. inversion H; auto.
  - destruct work as [|s w]; cbn [explore] in H; [discriminate|]. inversion Hw as [|x y Hs Hrest]; subst.
    destruct (in_annot a s). { eapply IH; eauto. }
    destruct (Nat.leb _ _). { inversion H; auto. }
    assert (Est : step_at (map_get (code_map f)) b p f s = step b p f s).
    { unfold step. apply step_at_ext. intro i. apply map_get_code_map. }
    rewrite Est in H. destruct (step b p f s) as [r0|l] eqn:E.
    + inversion H; subst. right; right. exists s. split; auto.
    + eapply IH; [|exact H]. apply Forall_app. split; auto.
      apply Forall_forall. intros s' Hin. eapply reach_step; eauto.
      unfold succs, succs_at. fold (step b p f s). rewrite E. reflexivity.
Qed.

Theorem verify_fn_reject_reasons b p f q r :
  verify_fn b p f = FReject q r ->
  internal_reason r \/ exists s, reachable b p f s /\ step b p f s = Stuck r.
Proof.
  unfold verify_fn, infer_fn_result. intros H.
  destruct (explore _ b p f (default_fuel f) [entry_state f] (PositiveMap.empty _)) as [a|q0 r0] eqn:E.
  - destruct (check_fn b p f a); [discriminate|].
    destruct (find _ _); inversion H; subst; left; unfold internal_reason; auto.
  - inversion H; subst. apply explore_stuck in E.
    + destruct E as [->|[->|E]]; [left|left|right]; unfold internal_reason; auto.
    + constructor; [apply reach_entry|constructor].
Qed.
Print Assumptions verify_fn_reject_reasons.

(* HEADLINE (ALL programs): on FullCompile's output the executable verifier can only reject with an internal answer or a
   benign (height / handler) reason *)
Theorem fullcompile_verifier_reject_reasons (p : lprogram) (f : func) :
  compile_program p = COk f ->
  forall F q r, In F (flatten f) -> verify_fn false (flatten f) F = FReject q r ->
    internal_reason r \/ benign r.
Proof.
  intros H F q r HF Hv. destruct (verify_fn_reject_reasons _ _ _ _ _ Hv) as [Hi|(s & Hr & Hs)]; auto.
  right. destruct (flatten_entries f F HF) as (g & Hg & HM).
  eapply reachable_stuck_reasons; eauto.
Qed.
Print Assumptions fullcompile_verifier_reject_reasons.

(* and for the whole-program verdict *)
Lemma verify_fns_reject b p fs : forall idx maxh nu i q r,
  verify_fns b p fs idx maxh nu = VReject i q r -> exists F, In F fs /\ verify_fn b p F = FReject q r.
Proof.
  induction fs as [|F rest IH]; intros idx maxh nu i q r H; simpl in H.
  - destruct nu as [[? ?]|]; discriminate.
  - destruct (verify_fn b p F) as [a|q0 r0] eqn:E.
    + apply IH in H. destruct H as (F' & Hin & Hv). exists F'. split; auto. right; auto.
    + inversion H; subst. exists F. split; auto. left; auto.
Qed.

Theorem fullcompile_verify_program_reject_reasons (p : lprogram) (f : func) :
  compile_program p = COk f ->
  forall i q r, verify_program (flatten f) = VReject i q r -> internal_reason r \/ benign r.
Proof.
  intros H i q r Hv. unfold verify_program, verify_program_with in Hv.
  apply verify_fns_reject in Hv. destruct Hv as (F & HF & Hv).
  eapply fullcompile_verifier_reject_reasons; eauto.
Qed.
Print Assumptions fullcompile_verify_program_reject_reasons.


(* non-vacuity: the verifier does reject a compiled program (open class return_in_try_catch_no_finally), with a benign reason *)
From YV Require Import FullCompileWFR.
Example verifier_reject_nonvacuous :
  exists p f,
    lparse_source src_return_in_try = Parser.POk p /\ compile_program p = COk f /\
    verify_program (flatten f) = VReject 1 27 RReturnPending /\ (internal_reason RReturnPending \/ benign RReturnPending).
Proof.
  eexists. eexists.
  split; [vm_compute; reflexivity|].
  match goal with |- ?A /\ _ => assert (HA : A) by (vm_compute; reflexivity) end.
  split; [exact HA|].
  match goal with |- ?A /\ _ => assert (HB : A) by (vm_compute; reflexivity) end.
  split; [exact HB|].
  eapply fullcompile_verify_program_reject_reasons; [exact HA | exact HB].
Qed.
