(* FullCompile-WF, part 10: the link between the heights theorem of the fragment (FullCompileHt17.v) and the EXECUTABLE
   verifier: for a program of the fragment, `Verifier.verify_program (flatten f)` can only answer OK / NONUNIQUE or reject
   with a verifier-internal reason (fuel, too many states per pc, not inductive, overlap) - never with a Stuck reason of the
   skeleton semantics; and in the multi-frame machine no frame is ever stuck. *)
From Coq Require Import Strings.Byte Strings.String.
From Coq Require Import List NArith ZArith Bool Arith Lia.
From YV Require Import Show Utf8 Num Ast Bytecode Skeleton Verifier VerifierProofs ParseLoc FullCompile FullCompileProofs
  FullCompileWF FullCompileWF2 FullCompileWFS FullCompileWFC FullCompileWFM FullCompileWFV.
From YV Require FullCompileHt11 FullCompileHt12 FullCompileHt17.
Import ListNotations.
Local Open Scope nat_scope.
Local Open Scope list_scope.

(* every entry of the flattening of a fragment program is never stuck *)
Theorem fragment_entries_safe (p : lprogram) (f : func) :
  FullCompileHt17.wf_frag12 p = true -> compile_program p = COk f -> FullCompileHt12.noupsb f = true ->
  forall F, In F (flatten f) -> forall s, reachable false (flatten f) F s -> succs false (flatten f) F s <> None.
Proof.
  intros Hw Hc Hn F HF. destruct (flatten_entries f F HF) as (g & Hg & HM).
  eapply FullCompileHt17.fullcompile_heights_functionsB; eauto. apply FullCompileHt12.noupsb_noups. exact Hn.
Qed.
Print Assumptions fragment_entries_safe.

Lemma succs_none_iff b p f s : succs b p f s = None <-> exists r, step b p f s = Stuck r.
Proof.
  unfold succs, succs_at. fold (step b p f s). destruct (step b p f s); split; intros H; try discriminate; eauto.
  destruct H; discriminate.
Qed.

(* `fullcompile_verifies_fragment` in the form the brief asks for, as far as the untrusted inference allows:
   on the fragment the executable verifier never rejects with a reason of the semantics *)
Theorem fullcompile_verifies_fragment_exec (p : lprogram) (f : func) :
  FullCompileHt17.wf_frag12 p = true -> compile_program p = COk f -> FullCompileHt12.noupsb f = true ->
  forall i q r, verify_program (flatten f) = VReject i q r -> internal_reason r.
Proof.
  intros Hw Hc Hn i q r Hv. unfold verify_program, verify_program_with in Hv.
  apply verify_fns_reject in Hv. destruct Hv as (F & HF & Hv).
  destruct (verify_fn_reject_reasons _ _ _ _ _ Hv) as [Hi|(s & Hr & Hs)]; auto.
  exfalso. apply (fragment_entries_safe p f Hw Hc Hn F HF s Hr). apply succs_none_iff. eauto.
Qed.
Print Assumptions fullcompile_verifies_fragment_exec.

(* whole program: no frame of any reachable state of the multi-frame machine is stuck *)
Theorem fragment_program_sound (p : lprogram) (f : func) :
  FullCompileHt17.wf_frag12 p = true -> compile_program p = COk f -> FullCompileHt12.noupsb f = true ->
  forall ms, mreachable false (flatten f) ms ->
    Forall (fun fr => frame_ok false (flatten f) fr /\ ~ frame_stuck false (flatten f) fr) ms /\
    length ms <= N.to_nat FRAMES_MAX.
Proof.
  intros Hw Hc Hn ms Hr. destruct (mreachable_ok false (flatten f) ms Hr) as [Hok Hlen]. split; auto.
  rewrite Forall_forall in *. intros fr Hin. specialize (Hok fr Hin). split; auto.
  destruct Hok as (F & HF & Hreach). unfold frame_stuck. rewrite HF.
  apply (fragment_entries_safe p f Hw Hc Hn F (nth_error_In _ _ HF) _ Hreach).
Qed.
Print Assumptions fragment_program_sound.

(* non-vacuity: a program of the fragment (a function with a loop, break, return; calls) - all hypotheses by computation -
   and what the executable verifier answers on it *)
Example fragment_exec_nonvacuous :
  exists p f,
    lparse_source (bs "fn f(n) { var i = 0; while i < n { if i == 3 { break; } i = i + 1; } return i; } var r = f(5); print(r);")
      = Parser.POk p /\ compile_program p = COk f /\
    FullCompileHt17.wf_frag12 p = true /\ FullCompileHt12.noupsb f = true /\
    verify_program (flatten f) = VOk 2 5 /\
    (forall ms, mreachable false (flatten f) ms -> Forall (fun fr => ~ frame_stuck false (flatten f) fr) ms).
Proof.
  eexists. eexists. split; [vm_compute; reflexivity|].
  match goal with |- ?A /\ _ => assert (HA : A) by (vm_compute; reflexivity) end.
  split; [exact HA|].
  match goal with |- ?A /\ _ => assert (HB : A) by (vm_compute; reflexivity) end.
  split; [exact HB|].
  match goal with |- ?A /\ _ => assert (HC : A) by (vm_compute; reflexivity) end.
  split; [exact HC|].
  split; [vm_compute; reflexivity|].
  intros ms Hr. destruct (fragment_program_sound _ _ HB HA HC ms Hr) as [Hall _].
  eapply Forall_impl; [|exact Hall]. intros fr [_ H]. exact H.
Qed.

(* a program with a class (constructor attribute, method using self), a function with a loop, instance creation, invoke *)
Example fragment_exec_nonvacuous_class :
  exists p f,
    lparse_source (bs "#[constructor(new)] class P { fn get(self, a) { return self.x + a; } } fn f(n) { var i = 0; while i < n { if i == 3 { break; } i = i + 1; } return i; } var q = P.new(); q.x = 1; print(q.get(f(5)));")
      = Parser.POk p /\ compile_program p = COk f /\
    FullCompileHt17.wf_frag12 p = true /\ FullCompileHt12.noupsb f = true /\
    (exists n m, verify_program (flatten f) = VOk n m) /\
    (forall ms, mreachable false (flatten f) ms -> Forall (fun fr => ~ frame_stuck false (flatten f) fr) ms).
Proof.
  eexists. eexists. split; [vm_compute; reflexivity|].
  match goal with |- ?A /\ _ => assert (HA : A) by (vm_compute; reflexivity) end.
  split; [exact HA|].
  match goal with |- ?A /\ _ => assert (HB : A) by (vm_compute; reflexivity) end.
  split; [exact HB|].
  match goal with |- ?A /\ _ => assert (HC : A) by (vm_compute; reflexivity) end.
  split; [exact HC|].
  split.
  - match goal with |- exists n m, verify_program ?P = _ =>
      let v := eval vm_compute in (verify_program P) in
      match v with VOk ?n ?m => exists n, m; vm_compute; reflexivity end end.
  - intros ms Hr. destruct (fragment_program_sound _ _ HB HA HC ms Hr) as [Hall _].
    eapply Forall_impl; [|exact Hall]. intros fr [_ H]. exact H.
Qed.
