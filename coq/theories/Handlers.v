(* C08 - Mechanism (M): what compiler.rs emits for the statements of TryLang.v and what vm.rs does with it.
     compiler.rs  try_statement, return_statement / emit_return, break_statement, continue_statement,
                  emit_exc_handler_pops, throw_statement, while_statement, if_statement
     vm.rs        push_exc_handler_impl, pop_exc_handler_impl, throw_impl, unwind_stack, jump_finally_impl,
                  end_finally_impl, try_handle_error, call_closure, return_impl
     object.rs    ExcHandler { catch_ip, finally_ip, init_stack_size, frame_count }, ObjFiber.exc_handlers
                  (ONE stack per fiber), return_ip / return_value (per fiber); Vm.handling_exception (per VM)
   An instruction of M stands for a fixed sequence of real opcodes (`opcodes_of`); addresses are absolute
   instruction indices inside the code of one function (the real operands are relative byte offsets).
   Definitions only. *)
From Coq Require Import List Bool Arith.
From YV Require Import TryLang TrySpec.
Import ListNotations.

(* the emitter/VM choices that changed during the repairs; the translator regenerates them from the sources *)
(* what unwind_stack does with Vm.handling_exception when it hands the exception to a handler *)
Inductive he_mode :=
| HeAssign        (* handling_exception = handler.has_catch_block()   [sic: true iff there is NO catch clause]  (today) *)
| HeAssignNeg     (* ... = !handler.has_catch_block() *)
| HeClearOnCatch  (* only `if a catch clause takes it { handling_exception = false }`: the raise sites must set it *)
| HeKeep.         (* untouched *)
(* emit_exc_handler_pops, called by break and continue for the try blocks the jump leaves *)
Inductive pops_mode :=
| PopsAll    (* one PopExcHandler per try block being left: `for _ in try_depth..self.try_depth`   (today) *)
| PopsOne    (* at most one, however many try blocks are left: `if self.try_depth > try_depth` *)
| PopsNone.  (* none (the emitters before 67f0548) *)
Definition npops (m : pops_mode) (n : nat) : nat :=
  match m with PopsAll => n | PopsOne => Nat.min 1 n | PopsNone => 0 end.
Record cfg := {
  catch_emits_pop : bool;          (* try_statement: the catch block starts with PopExcHandler   (today: false) *)
  break_pops : pops_mode;          (* break/continue: handlers popped for the try blocks being left (today: PopsAll) *)
  return_uses_jump_finally : bool; (* return inside a try block: e; JumpFinally; Return          (today: true) *)
  unwind_he : he_mode;             (* unwind_stack                                               (today: HeAssign) *)
  throw_sets_he : bool;            (* throw_impl sets handling_exception before unwinding        (today: true) *)
  vmfail_sets_he : bool;           (* try_handle_error (failures raised by the VM itself)        (today: false) *)
  nativefail_sets_he : bool        (* Err arm of call_native (failures returned by natives)      (today: false) *)
}.
(* today's emitters and unwind_stack; while unwind_stack DERIVES the flag, which raise sites set it first is
   immaterial: the theorems are proved for every choice *)
Definition cfg_assign (ts vs ns : bool) : cfg :=
  {| catch_emits_pop := false; break_pops := PopsAll; return_uses_jump_finally := true; unwind_he := HeAssign;
     throw_sets_he := ts; vmfail_sets_he := vs; nativefail_sets_he := ns |}.
Definition cfg_today : cfg := cfg_assign true false false.
Definition cfg_old_catch_pops : cfg :=
  {| catch_emits_pop := true; break_pops := PopsAll; return_uses_jump_finally := true; unwind_he := HeAssign;
     throw_sets_he := true; vmfail_sets_he := false; nativefail_sets_he := false |}.
Definition cfg_old_break : cfg :=
  {| catch_emits_pop := false; break_pops := PopsNone; return_uses_jump_finally := true; unwind_he := HeAssign;
     throw_sets_he := true; vmfail_sets_he := false; nativefail_sets_he := false |}.
(* a variant in which only SOME raise sites set the flag that unwind_stack no longer derives: the exception of the
   other sites is dropped by EndFinally (the shape of a plausible refactoring; see native_site_needs_flag) *)
Definition cfg_break_pops_one : cfg :=
  {| catch_emits_pop := false; break_pops := PopsOne; return_uses_jump_finally := true; unwind_he := HeAssign;
     throw_sets_he := true; vmfail_sets_he := false; nativefail_sets_he := false |}.
Definition cfg_flag_at_sites_but_native : cfg :=
  {| catch_emits_pop := false; break_pops := PopsAll; return_uses_jump_finally := true; unwind_he := HeClearOnCatch;
     throw_sets_he := true; vmfail_sets_he := true; nativefail_sets_he := false |}.

Definition FRAMES_MAX : nat := 64.

Inductive instr :=
| IPrint (t : nat)          (* GetGlobal print; Constant t; Call 1; Pop *)
| IPrintLocal (slot : nat)  (* GetGlobal print; GetLocal slot; Call 1; Pop *)
| IFail                     (* Nil; Call 0        -> TypeError instance PUSHED and thrown by try_handle_error *)
| INativeFail               (* Constant "12x"; Invoke to_num 0 -> ValueError instance POKED over the receiver by call_native *)
| IConst (t : nat)          (* Constant *)
| INil                      (* Nil *)
| IPop                      (* Pop *)
| IThrow                    (* Throw *)
| IPushNative               (* GetGlobal print *)
| ICall (g : nat)           (* GetGlobal fg; Call 0 *)
| IPrintTop                 (* Call 1   (the native print: argument and callee slot replaced by nil) *)
| ILess (slot n : nat)      (* GetLocal slot; Constant n; Less *)
| IEq (slot k : nat)        (* GetLocal slot; Constant k; Equal *)
| IIncr (slot : nat)        (* GetLocal slot; Constant 1; Add; SetLocal slot; Pop *)
| IJump (target : nat)      (* Jump *)
| IJumpIfFalse (target : nat) (* JumpIfFalse   (peeks) *)
| ILoop (target : nat)      (* Loop *)
| IPushExcHandler (catch_pc finally_pc : nat)
| IPopExcHandler
| IJumpFinally
| IEndFinally
| IReturn.

(* ------------------------------------------------------------------------------------------------ *)
(* the emitters *)
Section Compile.
  Variable K : cfg.

  (* compile-time state of `Compiler`: locals.len(), try_depth, in_try_block, top of loop_stack
     (scope = number of locals outside the loop body, try_depth at the loop) *)
  Fixpoint size (nloc tr : nat) (intry : bool) (lp : option (nat * nat)) (s : stmt) : nat :=
    match s with
    | Skip => 0
    | Seq a b => size nloc tr intry lp a + size nloc tr intry lp b
    | Print _ | PrintExc => 1
    | Throw _ | BuiltinFail | NativeFail => 2
    | Call _ => 4
    | Return _ => if intry && return_uses_jump_finally K then 3 else 2
    | Break | Continue =>
        match lp with
        | None => 0
        | Some (ln, lt) => npops (break_pops K) (tr - lt) + (nloc - ln) + 1
        end
    | IfIter _ s => 5 + size nloc tr intry lp s
    | Loop _ b => 8 + size (S nloc) tr intry (Some (S nloc, tr)) b
    | Try b c f =>
        3 + size nloc (S tr) true lp b
        + match c with
          | Some c => (if catch_emits_pop K then 1 else 0) + size (S nloc) tr intry lp c + 1
          | None => 0
          end
        + match f with
          | Some f => size nloc tr intry lp f + 1
          | None => 0
          end
    end.

  Record loopinfo := { l_start : nat; l_break : nat; l_nloc : nat; l_try : nat }.
  Record cctx := {
    c_nloc : nat;              (* locals of the function so far (slot 0 = the callee) *)
    c_try : nat;               (* Compiler.try_depth *)
    c_intry : bool;            (* Compiler.in_try_block *)
    c_loop : option loopinfo;  (* Compiler.loop_stack.last() + where its breaks are patched to *)
    c_catch : nat;             (* slot of the innermost catch variable *)
    c_iter : nat               (* slot of the innermost loop counter *)
  }.
  Definition lshape (c : cctx) : option (nat * nat) :=
    match c_loop c with Some l => Some (l_nloc l, l_try l) | None => None end.
  Definition csize (c : cctx) (s : stmt) : nat := size (c_nloc c) (c_try c) (c_intry c) (lshape c) s.

  Definition exits (c : cctx) (l : loopinfo) : list instr :=
    (* emit_exc_handler_pops(try_depth) ; emit_scope_end(false, scope_depth) *)
    repeat IPopExcHandler (npops (break_pops K) (c_try c - l_try l))
    ++ repeat IPop (c_nloc c - l_nloc l).

  Fixpoint compile (c : cctx) (pc : nat) (s : stmt) : list instr :=
    match s with
    | Skip => []
    | Seq a b => compile c pc a ++ compile c (pc + csize c a) b
    | Print t => [IPrint t]
    | PrintExc => [IPrintLocal (c_catch c)]
    | Throw t => [IConst t; IThrow]
    | BuiltinFail => [IFail; IPop]
    | NativeFail => [INativeFail; IPop]
    | Call g => [IPushNative; ICall g; IPrintTop; IPop]
    | Return t =>
        IConst t :: (if c_intry c && return_uses_jump_finally K then [IJumpFinally] else []) ++ [IReturn]
    | Break =>
        match c_loop c with
        | None => []
        | Some l => exits c l ++ [IJump (l_break l)]
        end
    | Continue =>
        match c_loop c with
        | None => []
        | Some l => exits c l ++ [ILoop (l_start l)]
        end
    | IfIter k s =>
        let n := csize c s in
        (* cond ; JumpIfFalse else ; Pop ; then ; Jump end ; else: Pop ; end: *)
        [IEq (c_iter c) k; IJumpIfFalse (pc + 4 + n); IPop] ++ compile c (pc + 3) s ++ [IJump (pc + 5 + n); IPop]
    | Loop n b =>
        let slot := c_nloc c in
        let nb := size (S slot) (c_try c) (c_intry c) (Some (S slot, c_try c)) b in
        let c' := {| c_nloc := S slot; c_try := c_try c; c_intry := c_intry c;
                     c_loop := Some {| l_start := pc + 1; l_break := pc + 7 + nb;
                                       l_nloc := S slot; l_try := c_try c |};
                     c_catch := c_catch c; c_iter := slot |} in
        (* var i = 0 ; start: i < n ; JumpIfFalse exit ; Pop ; i = i + 1 ; body ; Loop start ; exit: Pop ;
           breaks land here ; Pop (end of the block that declares i) *)
        [IConst 0; ILess slot n; IJumpIfFalse (pc + 6 + nb); IPop; IIncr slot]
        ++ compile c' (pc + 5) b ++ [ILoop (pc + 1); IPop; IPop]
    | Try b c0 f =>
        let cb := {| c_nloc := c_nloc c; c_try := S (c_try c); c_intry := true; c_loop := c_loop c;
                     c_catch := c_catch c; c_iter := c_iter c |} in
        let cc := {| c_nloc := S (c_nloc c); c_try := c_try c; c_intry := c_intry c; c_loop := c_loop c;
                     c_catch := c_nloc c; c_iter := c_iter c |} in
        let nb := csize cb b in
        let catch_pc := pc + 3 + nb in
        let ncatch := match c0 with
                      | Some c1 => (if catch_emits_pop K then 1 else 0) + csize cc c1 + 1
                      | None => 0
                      end in
        let finally_pc := catch_pc + ncatch in
        [IPushExcHandler catch_pc finally_pc] ++ compile cb (pc + 1) b ++ [IPopExcHandler; IJump finally_pc]
        ++ match c0 with
           | Some c1 =>
               (if catch_emits_pop K then [IPopExcHandler] else [])
               ++ compile cc (catch_pc + (if catch_emits_pop K then 1 else 0)) c1 ++ [IPop]
           | None => []
           end
        ++ match f with
           | Some f1 => compile c finally_pc f1 ++ [IEndFinally]
           | None => []
           end
    end.

  Definition cctx0 : cctx :=
    {| c_nloc := 1; c_try := 0; c_intry := false; c_loop := None; c_catch := 0; c_iter := 0 |}.

  (* a function: its body, then emit_return: Nil; Return *)
  Definition compile_fn (s : stmt) : list instr := compile cctx0 0 s ++ [INil; IReturn].
  (* the script `print(main());` : GetGlobal print; GetGlobal main; Call 0; Call 1; Pop; Nil; Return *)
  Definition script_code (p : prog) : list instr := [IPushNative; ICall (main_ix p); IPrintTop; IPop; INil; IReturn].
  (* code of function g = nth g; the script is the function after the last one *)
  Definition compile_prog (p : prog) : list (list instr) := map compile_fn p ++ [script_code p].
End Compile.

(* ------------------------------------------------------------------------------------------------ *)
(* the machine *)
Record handler := mkH { h_fn : nat; h_catch : nat; h_fin : nat; h_height : nat; h_frames : nat }.
Record frame := mkF { f_fn : nat; f_base : nat; f_ret : nat * nat (* where its Return resumes the caller *) }.
Record state := mkS {
  s_fn : nat;                              (* whose code the instruction pointer is in *)
  s_pc : nat;
  s_stack : list val;                      (* the fiber's value stack, bottom first *)
  s_frames : list frame;                   (* innermost first *)
  s_handlers : list handler;               (* ObjFiber.exc_handlers, innermost first *)
  s_retpend : option (val * (nat * nat));  (* ObjFiber.return_value / return_ip *)
  s_he : bool;                             (* Vm.handling_exception *)
  s_out : list val
}.
Definition config := (state + final * list val)%type.

Definition unsnoc {A} (l : list A) : option (list A * A) :=
  match rev l with
  | [] => None
  | x :: r => Some (rev r, x)
  end.

Definition fetch (P : list (list instr)) (g pc : nat) : option instr := nth_error (nth g P []) pc.

Section Machine.
  Variable K : cfg.
  Variable P : list (list instr).

  (* ExcHandler::has_catch_block (sic): finally_ip == catch_ip *)
  Definition he_after (h : handler) (he_in : bool) : bool :=
    let nocatch := h_catch h =? h_fin h in
    match unwind_he K with
    | HeAssign => nocatch
    | HeAssignNeg => negb nocatch
    | HeClearOnCatch => if nocatch then he_in else false
    | HeKeep => he_in
    end.

  (* vm.rs unwind_stack *)
  Definition unwind (st : state) : config :=
    let exc := last (s_stack st) VNil in
    match s_handlers st with
    | [] => inr (FUncaught exc, s_out st)
    | h :: hs =>
        match skipn (length (s_frames st) - h_frames h) (s_frames st) with
        | [] => inr (FStuck, s_out st)
        | frs => inl (mkS (h_fn h) (h_catch h) (firstn (h_height h) (s_stack st) ++ [exc]) frs hs
                          (s_retpend st) (he_after h (s_he st)) (s_out st))
        end
    end.

  (* ObjFiber::take_return_data + the tail of end_finally_impl *)
  Definition resume_return (st : state) : state :=
    match s_retpend st with
    | Some (v, (g, pc)) => mkS g pc (s_stack st ++ [v]) (s_frames st) (s_handlers st) None (s_he st) (s_out st)
    | None => st
    end.

  Definition stuck (st : state) : config := inr (FStuck, s_out st).

  Definition step (st : state) : config :=
    let '(mkS g pc stk frs hs rp he out) := st in
    match frs with
    | [] => stuck st
    | fr :: frs' =>
      let base := f_base fr in
      match fetch P g pc with
      | None => stuck st
      | Some i =>
        match i with
        | IPrint t => inl (mkS g (S pc) stk frs hs rp he (out ++ [VNum t]))
        | IPrintLocal sl =>
            match nth_error stk (base + sl) with
            | Some v => inl (mkS g (S pc) stk frs hs rp he (out ++ [v]))
            | None => stuck st
            end
        | IFail => unwind (mkS g (S pc) (stk ++ [VNil; VErr]) frs hs rp (if vmfail_sets_he K then true else he) out)
        | INativeFail =>
            (* the receiver is pushed, the native returns Err: poke(0, error object); unwind_stack *)
            unwind (mkS g (S pc) (stk ++ [VValErr]) frs hs rp (if nativefail_sets_he K then true else he) out)
        | IConst t => inl (mkS g (S pc) (stk ++ [VNum t]) frs hs rp he out)
        | INil => inl (mkS g (S pc) (stk ++ [VNil]) frs hs rp he out)
        | IPop =>
            match unsnoc stk with
            | Some (stk', _) => inl (mkS g (S pc) stk' frs hs rp he out)
            | None => stuck st
            end
        | IThrow => unwind (mkS g (S pc) stk frs hs rp (if throw_sets_he K then true else he) out)
        | IPushNative => inl (mkS g (S pc) (stk ++ [VNative]) frs hs rp he out)
        | ICall f =>
            if length P <=? f then stuck st
            else if FRAMES_MAX <=? length frs
            then unwind (mkS g (S pc) (stk ++ [VFn f; VOvf]) frs hs rp (if vmfail_sets_he K then true else he) out)
            else inl (mkS f 0 (stk ++ [VFn f]) (mkF f (length stk) (g, S pc) :: frs) hs rp he out)
        | IPrintTop =>
            match unsnoc stk with
            | Some (stk', v) =>
                match unsnoc stk' with
                | Some (stk'', VNative) => inl (mkS g (S pc) (stk'' ++ [VNil]) frs hs rp he (out ++ [v]))
                | _ => stuck st
                end
            | None => stuck st
            end
        | ILess sl n =>
            match nth_error stk (base + sl) with
            | Some (VNum i) => inl (mkS g (S pc) (stk ++ [VBool (i <? n)]) frs hs rp he out)
            | Some v => (* binary_op: TypeError "Binary operands must both be numbers." *)
                unwind (mkS g (S pc) (stk ++ [v; VNum n; VErr]) frs hs rp (if vmfail_sets_he K then true else he) out)
            | None => stuck st
            end
        | IEq sl k =>
            match nth_error stk (base + sl) with
            | Some (VNum i) => inl (mkS g (S pc) (stk ++ [VBool (i =? k)]) frs hs rp he out)
            | Some _ => (* Equal never fails: values of different kinds are not equal *)
                inl (mkS g (S pc) (stk ++ [VBool false]) frs hs rp he out)
            | None => stuck st
            end
        | IIncr sl =>
            match nth_error stk (base + sl) with
            | Some (VNum i) =>
                inl (mkS g (S pc) (firstn (base + sl) stk ++ VNum (S i) :: skipn (S (base + sl)) stk) frs hs rp he out)
            | Some v => (* Add: TypeError "Binary operands must be two numbers or two strings." *)
                unwind (mkS g (S pc) (stk ++ [v; VNum 1; VErr]) frs hs rp (if vmfail_sets_he K then true else he) out)
            | None => stuck st
            end
        | IJump t => inl (mkS g t stk frs hs rp he out)
        | ILoop t => inl (mkS g t stk frs hs rp he out)
        | IJumpIfFalse t =>
            match unsnoc stk with
            | Some (_, VBool false) | Some (_, VNil) => inl (mkS g t stk frs hs rp he out)
            | Some _ => inl (mkS g (S pc) stk frs hs rp he out)
            | None => stuck st
            end
        | IPushExcHandler c f =>
            inl (mkS g (S pc) stk frs (mkH g c f (length stk) (length frs) :: hs) rp he out)
        | IPopExcHandler => inl (mkS g (S pc) stk frs (tl hs) rp he out)
        | IJumpFinally =>
            (* jump_finally_impl: save return value/ip in the fiber, pop the value, pop the handler, truncate *)
            match unsnoc stk with
            | Some (stk', v) =>
                match hs with
                | h :: hs' =>
                    inl (mkS (h_fn h) (h_fin h) (firstn (h_height h) stk') frs hs' (Some (v, (g, S pc))) he out)
                | [] => stuck st
                end
            | None => stuck st
            end
        | IEndFinally =>
            (* end_finally_impl: if handling_exception { unwind_stack()? } ; then the pending return *)
            if he then
              match unwind (mkS g (S pc) stk frs hs rp he out) with
              | inl st' => inl (resume_return st')
              | inr r => inr r
              end
            else inl (resume_return (mkS g (S pc) stk frs hs rp he out))
        | IReturn =>
            (* return_impl *)
            match unsnoc stk with
            | Some (stk', v) =>
                match frs' with
                | [] => inr (FDone, out)
                | _ => inl (mkS (fst (f_ret fr)) (snd (f_ret fr)) (firstn base stk' ++ [v]) frs' hs rp he out)
                end
            | None => stuck st
            end
        end
      end
    end.

  Fixpoint run (fuel : nat) (c : config) : config :=
    match fuel with
    | 0 => c
    | S n =>
        match c with
        | inl st => run n (step st)
        | inr _ => c
        end
    end.
End Machine.

(* the script frame: slot 0 holds the script's closure *)
Definition init_state (p : prog) : state :=
  let sc := length p in
  mkS sc 0 [VFn sc] [mkF sc 0 (sc, 0)] [] None false [].

Definition run_m (K : cfg) (p : prog) (fuel : nat) : option (list val * final) :=
  match run K (compile_prog K p) fuel (inl (init_state p)) with
  | inr (f, out) => Some (out, f)
  | inl _ => None
  end.

