(* C08 - proofs: the Mechanism (Handlers.v: emitted code run on the handler-stack machine) refines the Spec
   (TrySpec.v) for every program outside the syntactic classes of TryLang.v; one refuted lemma per class. *)
From Coq Require Import List Bool Arith Lia.
From YV Require Import TryLang TrySpec Handlers TryRun.
Import ListNotations.

(* everything up to `End Generic` holds whichever raise sites set handling_exception before unwinding *)
Section Generic.
Variables ts vs ns : bool.
Local Notation K := (cfg_assign ts vs ns).

(* ------------------------------------------------------------------------------------------------ *)
(* induction principle for the nested type *)
Section StmtInd.
  Variable Q : stmt -> Prop.
  Hypothesis HSkip : Q Skip.
  Hypothesis HSeq : forall a b, Q a -> Q b -> Q (Seq a b).
  Hypothesis HPrint : forall t, Q (Print t).
  Hypothesis HPrintExc : Q PrintExc.
  Hypothesis HThrow : forall t, Q (Throw t).
  Hypothesis HFail : Q BuiltinFail.
  Hypothesis HNFail : Q NativeFail.
  Hypothesis HTry : forall b c f, Q b -> (forall c1, c = Some c1 -> Q c1) -> (forall f1, f = Some f1 -> Q f1) -> Q (Try b c f).
  Hypothesis HLoop : forall n b, Q b -> Q (Loop n b).
  Hypothesis HIf : forall k s, Q s -> Q (IfIter k s).
  Hypothesis HBreak : Q Break.
  Hypothesis HCont : Q Continue.
  Hypothesis HRet : forall t, Q (Return t).
  Hypothesis HCall : forall g, Q (Call g).

  Fixpoint stmt_ind' (s : stmt) : Q s :=
    match s with
    | Skip => HSkip
    | Seq a b => HSeq a b (stmt_ind' a) (stmt_ind' b)
    | Print t => HPrint t
    | PrintExc => HPrintExc
    | Throw t => HThrow t
    | BuiltinFail => HFail
    | NativeFail => HNFail
    | Try b c f =>
        HTry b c f (stmt_ind' b)
          (match c return forall c1, c = Some c1 -> Q c1 with
           | Some c0 => fun c1 H => match H in _ = y return match y with Some z => Q z | None => True end with eq_refl => stmt_ind' c0 end
           | None => fun c1 H => match H in _ = y return match y with Some z => Q c1 | None => True end with eq_refl => I end
           end)
          (match f return forall f1, f = Some f1 -> Q f1 with
           | Some f0 => fun f1 H => match H in _ = y return match y with Some z => Q z | None => True end with eq_refl => stmt_ind' f0 end
           | None => fun f1 H => match H in _ = y return match y with Some z => Q f1 | None => True end with eq_refl => I end
           end)
    | Loop n b => HLoop n b (stmt_ind' b)
    | IfIter k s => HIf k s (stmt_ind' s)
    | Break => HBreak
    | Continue => HCont
    | Return t => HRet t
    | Call g => HCall g
    end.
End StmtInd.

(* ------------------------------------------------------------------------------------------------ *)
(* lists *)
Lemma unsnoc_snoc {A} (l : list A) x : unsnoc (l ++ [x]) = Some (l, x).
Proof. unfold unsnoc. rewrite rev_app_distr. simpl. now rewrite rev_involutive. Qed.

Lemma firstn_app_le {A} (l m : list A) n : n <= length l -> firstn n (l ++ m) = firstn n l.
Proof. intros H. rewrite firstn_app. replace (n - length l) with 0 by lia. simpl. now rewrite app_nil_r. Qed.

Lemma firstn_app_exact {A} (l m : list A) : firstn (length l) (l ++ m) = l.
Proof. rewrite firstn_app, Nat.sub_diag, firstn_all. simpl. now rewrite app_nil_r. Qed.

Lemma skipn_app_front {A} (l m : list A) n : n <= length m ->
  skipn (length (l ++ m) - n) (l ++ m) = skipn (length m - n) m.
Proof.
  intros H. rewrite app_length. replace (length l + length m - n) with (length l + (length m - n)) by lia.
  rewrite skipn_app. rewrite skipn_all2 by lia. simpl.
  now replace (length l + (length m - n) - length l) with (length m - n) by lia.
Qed.

Lemma nth_error_snoc_exact {A} (l : list A) x : nth_error (l ++ [x]) (length l) = Some x.
Proof. rewrite nth_error_app2 by lia. now rewrite Nat.sub_diag. Qed.

Lemma nth_error_app_lt {A} (l m : list A) n : n < length l -> nth_error (l ++ m) n = nth_error l n.
Proof. intros. now apply nth_error_app1. Qed.

Fixpoint tln {A} (n : nat) (l : list A) : list A := match n with 0 => l | S n' => tln n' (tl l) end.
Lemma tln_skipn {A} n (l : list A) : tln n l = skipn n l.
Proof. revert l; induction n; intros; simpl; auto. destruct l; simpl; auto. rewrite IHn. now destruct n. Qed.

(* ------------------------------------------------------------------------------------------------ *)
(* runs *)
Section Steps.
  Variable P : list (list instr).

  Inductive steps : config -> config -> Prop :=
  | steps_refl c : steps c c
  | steps_step st c c' : step K P st = c -> steps c c' -> steps (inl st) c'.

  Lemma steps_trans c1 c2 c3 : steps c1 c2 -> steps c2 c3 -> steps c1 c3.
  Proof. induction 1; intros; auto. econstructor; eauto. Qed.

  Lemma steps_one st c : step K P st = c -> steps (inl st) c.
  Proof. intros. econstructor; eauto. constructor. Qed.

  Lemma run_final n r : run K P n (inr r) = inr r.
  Proof. destruct n; reflexivity. Qed.

  Lemma steps_run c r : steps c (inr r) -> exists n, run K P n c = inr r.
  Proof.
    intros H. remember (inr r) as c' eqn:E. induction H; subst.
    - exists 0. reflexivity.
    - destruct (IHsteps eq_refl) as [n Hn]. exists (S n). simpl. exact Hn.
  Qed.

  Lemma run_more n m c r : run K P n c = inr r -> run K P (n + m) c = inr r.
  Proof.
    revert c; induction n; intros c H; simpl in *.
    - subst. apply run_final.
    - destruct c; auto.
  Qed.

  (* one lemma per instruction *)
  Section StepLemmas.
    Variables (g pc : nat) (stk : list val) (fr : frame) (frs : list frame) (hs : list handler)
              (rp : option (val * (nat * nat))) (he : bool) (out : list val).
    Local Notation ST := (mkS g pc stk (fr :: frs) hs rp he out).
    Ltac t H := unfold step; rewrite H; try reflexivity.

    Lemma step_IPrint t0 : fetch P g pc = Some (IPrint t0) ->
      step K P ST = inl (mkS g (S pc) stk (fr :: frs) hs rp he (out ++ [VNum t0])).
    Proof. intros H; t H. Qed.
    Lemma step_IPrintLocal sl v : fetch P g pc = Some (IPrintLocal sl) -> nth_error stk (f_base fr + sl) = Some v ->
      step K P ST = inl (mkS g (S pc) stk (fr :: frs) hs rp he (out ++ [v])).
    Proof. intros H H1; t H. now rewrite H1. Qed.
    Lemma step_IFail : fetch P g pc = Some IFail ->
      step K P ST = unwind K (mkS g (S pc) (stk ++ [VNil; VErr]) (fr :: frs) hs rp (if vs then true else he) out).
    Proof. intros H; t H. Qed.
    Lemma step_INativeFail : fetch P g pc = Some INativeFail ->
      step K P ST = unwind K (mkS g (S pc) (stk ++ [VValErr]) (fr :: frs) hs rp (if ns then true else he) out).
    Proof. intros H; t H. Qed.
    Lemma step_IConst t0 : fetch P g pc = Some (IConst t0) ->
      step K P ST = inl (mkS g (S pc) (stk ++ [VNum t0]) (fr :: frs) hs rp he out).
    Proof. intros H; t H. Qed.
    Lemma step_INil : fetch P g pc = Some INil ->
      step K P ST = inl (mkS g (S pc) (stk ++ [VNil]) (fr :: frs) hs rp he out).
    Proof. intros H; t H. Qed.
    Lemma step_IThrow : fetch P g pc = Some IThrow ->
      step K P ST = unwind K (mkS g (S pc) stk (fr :: frs) hs rp (if ts then true else he) out).
    Proof. intros H; t H. Qed.
    Lemma step_IPushNative : fetch P g pc = Some IPushNative ->
      step K P ST = inl (mkS g (S pc) (stk ++ [VNative]) (fr :: frs) hs rp he out).
    Proof. intros H; t H. Qed.
    Lemma step_ICall f : fetch P g pc = Some (ICall f) -> f < length P -> S (length frs) < FRAMES_MAX ->
      step K P ST = inl (mkS f 0 (stk ++ [VFn f]) (mkF f (length stk) (g, S pc) :: fr :: frs) hs rp he out).
    Proof.
      intros H H1 H2; t H. destruct (Nat.leb_spec (length P) f); try lia.
      cbn [length]. destruct (Nat.leb_spec FRAMES_MAX (S (length frs))); try lia. reflexivity.
    Qed.
    Lemma step_ILess sl n i : fetch P g pc = Some (ILess sl n) -> nth_error stk (f_base fr + sl) = Some (VNum i) ->
      step K P ST = inl (mkS g (S pc) (stk ++ [VBool (i <? n)]) (fr :: frs) hs rp he out).
    Proof. intros H H1; t H. now rewrite H1. Qed.
    Lemma step_IEq sl n i : fetch P g pc = Some (IEq sl n) -> nth_error stk (f_base fr + sl) = Some (VNum i) ->
      step K P ST = inl (mkS g (S pc) (stk ++ [VBool (i =? n)]) (fr :: frs) hs rp he out).
    Proof. intros H H1; t H. now rewrite H1. Qed.
    Lemma step_IJump t0 : fetch P g pc = Some (IJump t0) ->
      step K P ST = inl (mkS g t0 stk (fr :: frs) hs rp he out).
    Proof. intros H; t H. Qed.
    Lemma step_ILoop t0 : fetch P g pc = Some (ILoop t0) ->
      step K P ST = inl (mkS g t0 stk (fr :: frs) hs rp he out).
    Proof. intros H; t H. Qed.
    Lemma step_IPushExcHandler c f : fetch P g pc = Some (IPushExcHandler c f) ->
      step K P ST = inl (mkS g (S pc) stk (fr :: frs) (mkH g c f (length stk) (S (length frs)) :: hs) rp he out).
    Proof. intros H; t H. Qed.
    Lemma step_IPopExcHandler : fetch P g pc = Some IPopExcHandler ->
      step K P ST = inl (mkS g (S pc) stk (fr :: frs) (tl hs) rp he out).
    Proof. intros H; t H. Qed.
    Lemma step_IEndFinally_normal : fetch P g pc = Some IEndFinally -> he = false ->
      step K P ST = inl (resume_return (mkS g (S pc) stk (fr :: frs) hs rp he out)).
    Proof. intros H H1; t H. subst he. reflexivity. Qed.
    Lemma step_IEndFinally_exc : fetch P g pc = Some IEndFinally -> he = true ->
      step K P ST = match unwind K (mkS g (S pc) stk (fr :: frs) hs rp he out) with
                    | inl st' => inl (resume_return st')
                    | inr r => inr r
                    end.
    Proof. intros H H1; t H. subst he. reflexivity. Qed.
  End StepLemmas.

  Lemma step_IPop g pc stk v fr frs hs rp he out : fetch P g pc = Some IPop ->
    step K P (mkS g pc (stk ++ [v]) (fr :: frs) hs rp he out) = inl (mkS g (S pc) stk (fr :: frs) hs rp he out).
  Proof. intros H. unfold step. rewrite H, unsnoc_snoc. reflexivity. Qed.
  Lemma step_IPrintTop g pc stk v fr frs hs rp he out : fetch P g pc = Some IPrintTop ->
    step K P (mkS g pc (stk ++ [VNative] ++ [v]) (fr :: frs) hs rp he out)
    = inl (mkS g (S pc) (stk ++ [VNil]) (fr :: frs) hs rp he (out ++ [v])).
  Proof. intros H. unfold step. rewrite H, app_assoc, unsnoc_snoc, unsnoc_snoc. reflexivity. Qed.
  Lemma step_IIncr g pc stk i fr frs hs rp he out sl : fetch P g pc = Some (IIncr sl) -> f_base fr + sl = length stk ->
    step K P (mkS g pc (stk ++ [VNum i]) (fr :: frs) hs rp he out)
    = inl (mkS g (S pc) (stk ++ [VNum (S i)]) (fr :: frs) hs rp he out).
  Proof.
    intros H E. unfold step. rewrite H, E, nth_error_snoc_exact, firstn_app_exact.
    rewrite skipn_all2 by (rewrite app_length; simpl; lia). reflexivity.
  Qed.
  Lemma step_IJumpIfFalse g pc stk b t0 fr frs hs rp he out : fetch P g pc = Some (IJumpIfFalse t0) ->
    step K P (mkS g pc (stk ++ [VBool b]) (fr :: frs) hs rp he out)
    = inl (mkS g (if b then S pc else t0) (stk ++ [VBool b]) (fr :: frs) hs rp he out).
  Proof. intros H. unfold step. rewrite H, unsnoc_snoc. destruct b; reflexivity. Qed.
  Lemma step_IJumpFinally g pc stk v fr frs h hs rp he out : fetch P g pc = Some IJumpFinally ->
    step K P (mkS g pc (stk ++ [v]) (fr :: frs) (h :: hs) rp he out)
    = inl (mkS (h_fn h) (h_fin h) (firstn (h_height h) stk) (fr :: frs) hs (Some (v, (g, S pc))) he out).
  Proof. intros H. unfold step. rewrite H, unsnoc_snoc. reflexivity. Qed.
  Lemma step_IReturn g pc stk v fr fr2 frs hs rp he out : fetch P g pc = Some IReturn ->
    step K P (mkS g pc (stk ++ [v]) (fr :: fr2 :: frs) hs rp he out)
    = inl (mkS (fst (f_ret fr)) (snd (f_ret fr)) (firstn (f_base fr) stk ++ [v]) (fr2 :: frs) hs rp he out).
  Proof. intros H. unfold step. rewrite H, unsnoc_snoc. reflexivity. Qed.
  Lemma step_IReturn_last g pc stk v fr hs rp he out : fetch P g pc = Some IReturn ->
    step K P (mkS g pc (stk ++ [v]) [fr] hs rp he out) = inr (FDone, out).
  Proof. intros H. unfold step. rewrite H, unsnoc_snoc. reflexivity. Qed.
End Steps.

(* ------------------------------------------------------------------------------------------------ *)
(* raising: what unwind_stack does, as a function of the handler stack at the statement's entry *)
Definition raise (hs : list handler) (v : val) (stk : list val) (frs : list frame)
                 (rp : option (val * (nat * nat))) (out : list val) : config :=
  match hs with
  | [] => inr (FUncaught v, out)
  | h :: hs' =>
      match skipn (length frs - h_frames h) frs with
      | [] => inr (FStuck, out)
      | frs' => inl (mkS (h_fn h) (h_catch h) (firstn (h_height h) stk ++ [v]) frs' hs' rp (he_after K h false) out)
      end
  end.

(* a handler of the stack is below the current heights *)
Definition hok (sl nfr : nat) (h : handler) : Prop := h_height h <= sl /\ 1 <= h_frames h <= nfr.

Lemma hok_mono sl nfr sl' nfr' h : hok sl nfr h -> sl <= sl' -> nfr <= nfr' -> hok sl' nfr' h.
Proof. unfold hok; intros; lia. Qed.
Lemma Forall_hok_mono sl nfr sl' nfr' hs : Forall (hok sl nfr) hs -> sl <= sl' -> nfr <= nfr' -> Forall (hok sl' nfr') hs.
Proof. intros H ? ?. eapply Forall_impl; [|exact H]. intros; eapply hok_mono; eauto. Qed.

Lemma unwind_raise g pc stk v frs hs rp he out sl :
  Forall (hok sl (length frs)) hs -> sl <= length stk ->
  unwind K (mkS g pc (stk ++ [v]) frs hs rp he out) = raise hs v stk frs rp out.
Proof.
  intros HF Hs. unfold unwind, raise. cbn [s_stack s_handlers s_frames s_out s_retpend].
  rewrite last_last. destruct hs as [|h hs']; auto.
  inversion HF as [|? ? [H1 H2] H3]; subst.
  rewrite (firstn_app_le stk [v]) by lia. reflexivity.
Qed.

Lemma raise_ext hs v stk more frs mfrs rp out sl :
  Forall (hok sl (length frs)) hs -> sl <= length stk ->
  raise hs v (stk ++ more) (mfrs ++ frs) rp out = raise hs v stk frs rp out.
Proof.
  intros HF Hs. unfold raise. destruct hs as [|h hs']; auto.
  inversion HF as [|? ? [H1 H2] H3]; subst.
  rewrite skipn_app_front by lia. rewrite firstn_app_le by lia. reflexivity.
Qed.

Lemma raise_ext_stack hs v stk more frs rp out sl :
  Forall (hok sl (length frs)) hs -> sl <= length stk ->
  raise hs v (stk ++ more) frs rp out = raise hs v stk frs rp out.
Proof. intros. apply (raise_ext hs v stk more frs [] rp out sl); auto. Qed.

Lemma raise_retpend hs v stk frs rp out st : raise hs v stk frs rp out = inl st -> s_retpend st = rp.
Proof.
  unfold raise. destruct hs; try discriminate. destruct (skipn _ _); try discriminate.
  intros H; inversion H; reflexivity.
Qed.

(* ------------------------------------------------------------------------------------------------ *)
(* code *)
Definition code_at (C : list instr) (pc : nat) (l : list instr) : Prop :=
  forall i x, nth_error l i = Some x -> nth_error C (pc + i) = Some x.

Lemma code_at_app C pc l1 l2 : code_at C pc (l1 ++ l2) <-> code_at C pc l1 /\ code_at C (pc + length l1) l2.
Proof.
  unfold code_at; split.
  - intros H; split; intros i x Hi.
    + apply H. rewrite nth_error_app1; auto. apply nth_error_Some. congruence.
    + rewrite <- Nat.add_assoc. apply H. rewrite nth_error_app2 by lia. now replace (length l1 + i - length l1) with i by lia.
  - intros [H1 H2] i x Hi. destruct (Nat.lt_ge_cases i (length l1)).
    + apply H1. now rewrite nth_error_app1 in Hi.
    + rewrite nth_error_app2 in Hi by lia. specialize (H2 _ _ Hi).
      now replace (pc + length l1 + (i - length l1)) with (pc + i) in H2 by lia.
Qed.

Lemma code_at_cons C pc x l : code_at C pc (x :: l) <-> nth_error C pc = Some x /\ code_at C (S pc) l.
Proof.
  change (x :: l) with ([x] ++ l). rewrite code_at_app. simpl. replace (pc + 1) with (S pc) by lia.
  split; intros [H1 H2]; split; auto.
  - specialize (H1 0 x eq_refl). now rewrite Nat.add_0_r in H1.
  - intros i y Hi. destruct i; simpl in Hi; [|destruct i; discriminate]. inversion Hi; subst. now rewrite Nat.add_0_r.
Qed.

Lemma code_at_nil C pc : code_at C pc [].
Proof. intros i x H. destruct i; discriminate. Qed.

Lemma code_at_repeat C pc x n i : code_at C pc (repeat x n) -> i < n -> nth_error C (pc + i) = Some x.
Proof.
  intros H Hi. apply H. clear H. revert i Hi; induction n; intros; [lia|].
  destruct i; simpl; auto. apply IHn. lia.
Qed.

(* sizes *)
Lemma compile_length cx pc s : length (compile K cx pc s) = csize K cx s.
Proof.
  revert cx pc. induction s as [|a b IHa IHb|t| |t| | |b c f IHb IHc IHf|n b IHb|k s IHs| | |t|g] using stmt_ind';
    intros cx pc; unfold csize in *; cbn [compile size]; auto.
  - rewrite app_length, IHa, IHb. reflexivity.
  - (* Try *)
    cbn [catch_emits_pop cfg_assign app].
    destruct c as [c1|], f as [f1|]; repeat (progress cbn [length app] || rewrite app_length).
    + rewrite IHb, (IHc c1 eq_refl), (IHf f1 eq_refl). unfold lshape; cbn. lia.
    + rewrite IHb, (IHc c1 eq_refl). unfold lshape; cbn. lia.
    + rewrite IHb, (IHf f1 eq_refl). unfold lshape; cbn. lia.
    + rewrite IHb. unfold lshape; cbn. lia.
  - (* Loop *)
    cbn [app length]. rewrite app_length, IHb. unfold lshape; cbn. lia.
  - (* IfIter *)
    cbn [app length]. rewrite app_length, IHs. cbn [length]. lia.
  - (* Break *)
    unfold lshape. destruct (c_loop cx); cbn [length]; auto.
    unfold exits. rewrite !app_length, !repeat_length. cbn. lia.
  - unfold lshape. destruct (c_loop cx); cbn [length]; auto.
    unfold exits. rewrite !app_length, !repeat_length. cbn. lia.
  - (* Return *)
    cbn. destruct (c_intry cx); reflexivity.
Qed.

(* ------------------------------------------------------------------------------------------------ *)
(* the Spec: inversion of try, outcomes of loops *)
Definition is_ret (r : outcome) : bool := match r with ORet _ => true | _ => false end.
Definition is_brk (r : outcome) : bool := match r with OBrk | OCont => true | _ => false end.
Definition is_exc (r : outcome) : bool := match r with OExc _ => true | _ => false end.
Definition fin_outcome (r12 r3 : outcome) : outcome := match r3 with ONormal => r12 | _ => r3 end.

Lemma eval_try_inv call e b c f o r : eval_stmt call e (Try b c f) = Some (o, r) ->
  exists o1 r1, eval_stmt call e b = Some (o1, r1) /\
  exists o12 r12,
    ((exists v c1 o2, r1 = OExc v /\ c = Some c1 /\
        eval_stmt call {| e_exc := v; e_iter := e_iter e |} c1 = Some (o2, r12) /\ o12 = o1 ++ o2)
     \/ ((forall v, r1 = OExc v -> c = None) /\ r12 = r1 /\ o12 = o1)) /\
    ((f = None /\ o = o12 /\ r = r12) \/
     (exists f1 o3 r3, f = Some f1 /\ eval_stmt call e f1 = Some (o3, r3) /\ o = o12 ++ o3 /\ r = fin_outcome r12 r3)).
Proof.
  cbn [eval_stmt]. intros H.
  destruct (eval_stmt call e b) as [[o1 r1]|] eqn:Eb; [|discriminate].
  exists o1, r1; split; auto.
  assert (HX : exists o12 r12,
     ((exists v c1 o2, r1 = OExc v /\ c = Some c1 /\
        eval_stmt call {| e_exc := v; e_iter := e_iter e |} c1 = Some (o2, r12) /\ o12 = o1 ++ o2)
     \/ ((forall v, r1 = OExc v -> c = None) /\ r12 = r1 /\ o12 = o1)) /\
     match f with
     | None => Some (o12, r12)
     | Some f0 => match eval_stmt call e f0 with
                  | None => None
                  | Some (o3, ONormal) => Some (o12 ++ o3, r12)
                  | Some (o3, r3) => Some (o12 ++ o3, r3)
                  end
     end = Some (o, r)).
  { destruct r1; try (exists o1; eexists; split; [right; split; [intros; discriminate|split; reflexivity]|exact H]).
    destruct c as [c1|].
    - destruct (eval_stmt call {| e_exc := v; e_iter := e_iter e |} c1) as [[o2 r2]|] eqn:Ec; [|discriminate].
      exists (o1 ++ o2), r2. split; [left; exists v, c1, o2; auto|exact H].
    - exists o1, (OExc v). split; [right; auto|exact H]. }
  destruct HX as (o12 & r12 & H12 & HF). exists o12, r12. split; auto.
  destruct f as [f1|].
  - right. destruct (eval_stmt call e f1) as [[o3 r3]|] eqn:Ef; [|discriminate].
    exists f1, o3, r3. repeat split; auto; destruct r3; inversion HF; reflexivity.
  - left. inversion HF; auto.
Qed.

Lemma loop_eval_outcome evb n i o r : loop_eval evb n i = Some (o, r) ->
  r = ONormal \/ ((exists j o', evb j = Some (o', r)) /\ r <> OBrk /\ r <> OCont /\ r <> ONormal).
Proof.
  revert i o. induction n; intros i o H; simpl in H.
  - inversion H; auto.
  - destruct (evb (S i)) as [[o1 r1]|] eqn:E; [|discriminate].
    destruct r1.
    + destruct (loop_eval evb n (S i)) as [[o2 r2]|] eqn:E2; [|discriminate]. inversion H; subst. eauto.
    + inversion H; auto.
    + destruct (loop_eval evb n (S i)) as [[o2 r2]|] eqn:E2; [|discriminate]. inversion H; subst. eauto.
    + inversion H; subst. right. split; [eauto|]. repeat split; discriminate.
    + inversion H; subst. right. split; [eauto|]. repeat split; discriminate.
Qed.

Lemma orelse_none {A} (a b : option A) : orelse a b = None -> a = None /\ b = None.
Proof. destruct a; simpl; intros; [discriminate|auto]. Qed.

(* ------------------------------------------------------------------------------------------------ *)
(* the contexts of the class checker *)
Definition kb_of (k : kctx) (hf : bool) : kctx :=
  {| k_ret := match k_ret k with
              | RPlain => if hf then RJf else RBad ReturnInTryCatchNoFinally
              | RJf => RBad EarlyExitSkipsFinally
              | RBad c => RBad c
              end;
     k_loop := match k_loop k with LOk => if hf then LBad EarlyExitSkipsFinally else LOk | l => l end;
     k_infin := false; k_fin_nocatch := false |}.
Definition kc_of (k : kctx) (hf : bool) : kctx :=
  {| k_ret := if hf then RBad EarlyExitSkipsFinally else k_ret k;
     k_loop := match k_loop k with LOk => if hf then LBad EarlyExitSkipsFinally else LOk | l => l end;
     k_infin := false; k_fin_nocatch := false |}.
Definition kf_of (k : kctx) (hc : bool) : kctx :=
  {| k_ret := RBad AbruptExitFromFinally; k_loop := LBad AbruptExitFromFinally;
     k_infin := true; k_fin_nocatch := negb hc |}.
Definition kl_of (k : kctx) : kctx :=
  {| k_ret := k_ret k; k_loop := LOk; k_infin := k_infin k; k_fin_nocatch := k_fin_nocatch k |}.

Section ClassFacts.
  Variable p : prog.
  Local Notation nf := (length p).

  Lemma known_class_try k b c f : known_class_stmt p k (Try b c f) = None ->
    k_infin k = false /\
    known_class_stmt p (kb_of k (is_some f)) b = None /\
    (forall c1, c = Some c1 -> known_class_stmt p (kc_of k (is_some f)) c1 = None /\
                               (is_some f && can_throw p nf c1 = false)) /\
    (forall f1, f = Some f1 -> known_class_stmt p (kf_of k (is_some c)) f1 = None /\
                               ((has_return b || match c with Some c => has_return c | None => false end)
                                && can_throw p nf f1 = false)).
  Proof.
    cbn [known_class_stmt]. destruct (k_infin k); [discriminate|]. intros H. split; auto.
    apply orelse_none in H. destruct H as [Hb H]. apply orelse_none in H. destruct H as [Hc Hf].
    split; [exact Hb|]. split.
    - intros c1 ->. apply orelse_none in Hc. destruct Hc as [Hc1 Hc2]. split; [exact Hc1|].
      destruct (is_some f && can_throw p nf c1); [discriminate|reflexivity].
    - intros f1 ->. apply orelse_none in Hf. destruct Hf as [Hf1 Hf2]. split; [exact Hf1|].
      match goal with |- ?x = false => destruct x; [discriminate|reflexivity] end.
  Qed.

  Lemma known_class_loop k n b : known_class_stmt p k (Loop n b) = None ->
    k_fin_nocatch k = false /\ known_class_stmt p (kl_of k) b = None.
  Proof. cbn [known_class_stmt]. unfold kl_of. destruct (k_fin_nocatch k); [discriminate|]. intros H; split; [reflexivity|exact H]. Qed.

  Variable call : nat -> option (list val * cres).

  (* a return cannot come out of a context where it would be in a class *)
  Lemma no_ret s : forall k e o r, (exists c, k_ret k = RBad c) -> known_class_stmt p k s = None ->
    eval_stmt call e s = Some (o, r) -> is_ret r = false.
  Proof.
    induction s as [|a b IHa IHb|t| |t| | |b c f IHb IHc IHf|n b IHb|k0 s IHs| | |t|g] using stmt_ind';
      intros k e o r [cl Hk] Hc He; cbn [eval_stmt] in He; try (inversion He; reflexivity).
    - cbn [known_class_stmt] in Hc. apply orelse_none in Hc. destruct Hc as [Ha Hb].
      destruct (eval_stmt call e a) as [[o1 r1]|] eqn:Ea; [|discriminate].
      assert (R1 : is_ret r1 = false) by (eapply IHa; eauto).
      destruct r1; try (inversion He; subst; exact R1).
      destruct (eval_stmt call e b) as [[o2 r2]|] eqn:Eb; [|discriminate].
      inversion He; subst. eapply IHb; eauto.
    - (* Try *)
      apply known_class_try in Hc. destruct Hc as (_ & Hcb & Hcc & Hcf).
      apply eval_try_inv in He. destruct He as (o1 & r1 & Eb & o12 & r12 & H12 & HF).
      assert (R1 : is_ret r1 = false).
      { eapply IHb; [|exact Hcb|exact Eb]. unfold kb_of; cbn. rewrite Hk. eauto. }
      assert (R12 : is_ret r12 = false).
      { destruct H12 as [(v0 & c1 & o2 & -> & -> & Ec & _)|(_ & -> & _)]; auto.
        destruct (Hcc c1 eq_refl) as [Hc1 _]. eapply IHc; [reflexivity| |exact Hc1|exact Ec].
        unfold kc_of; cbn. rewrite Hk. destruct (is_some f); eauto. }
      destruct HF as [(_ & _ & ->)|(f1 & o3 & r3 & -> & Ef & _ & ->)]; auto.
      destruct (Hcf f1 eq_refl) as [Hf1 _].
      assert (R3 : is_ret r3 = false).
      { eapply IHf; [reflexivity| |exact Hf1|exact Ef]. unfold kf_of; cbn; eauto. }
      destruct r3; cbn; auto.
    - (* Loop *)
      apply known_class_loop in Hc. destruct Hc as [_ Hb].
      apply loop_eval_outcome in He. destruct He as [->|[(j & o' & Ej) _]]; [reflexivity|].
      eapply IHb; [|exact Hb|exact Ej]. unfold kl_of; cbn; eauto.
    - (* IfIter *)
      cbn [known_class_stmt] in Hc. destruct (e_iter e =? k0); [eapply IHs; eauto|inversion He; reflexivity].
    - (* Return *)
      cbn [known_class_stmt] in Hc. rewrite Hk in Hc. discriminate.
    - (* Call *)
      destruct (call g) as [[oc [vc|vc]]|]; inversion He; reflexivity.
  Qed.

  (* break/continue cannot come out of a context without an admissible loop *)
  Lemma no_brk s : forall k il ic e o r, ((exists c, k_loop k = LBad c) \/ il = false) ->
    known_class_stmt p k s = None -> wf_stmt nf il ic s = true ->
    eval_stmt call e s = Some (o, r) -> is_brk r = false.
  Proof.
    induction s as [|a b IHa IHb|t| |t| | |b c f IHb IHc IHf|n b IHb|k0 s IHs| | |t|g] using stmt_ind';
      intros k il ic e o r Hk Hc Hw He; cbn [eval_stmt] in He; try (inversion He; reflexivity).
    - cbn [known_class_stmt] in Hc. apply orelse_none in Hc. destruct Hc as [Ha Hb].
      cbn [wf_stmt] in Hw. apply andb_prop in Hw. destruct Hw as [Hwa Hwb].
      destruct (eval_stmt call e a) as [[o1 r1]|] eqn:Ea; [|discriminate].
      assert (R1 : is_brk r1 = false) by (eapply IHa; eauto).
      destruct r1; try (inversion He; subst; exact R1).
      destruct (eval_stmt call e b) as [[o2 r2]|] eqn:Eb; [|discriminate].
      inversion He; subst. eapply IHb; eauto.
    - (* Try *)
      apply known_class_try in Hc. destruct Hc as (_ & Hcb & Hcc & Hcf).
      cbn [wf_stmt] in Hw. apply andb_prop in Hw. destruct Hw as [Hw _].
      apply andb_prop in Hw. destruct Hw as [Hw Hwf]. apply andb_prop in Hw. destruct Hw as [Hwb Hwc].
      apply eval_try_inv in He. destruct He as (o1 & r1 & Eb & o12 & r12 & H12 & HF).
      assert (HK : forall hf, (exists c0, k_loop (kb_of k hf) = LBad c0) \/ il = false).
      { intros hf. destruct Hk as [[c0 Hk]|Hk]; auto. left. unfold kb_of; cbn. rewrite Hk. eauto. }
      assert (HK' : forall hf, (exists c0, k_loop (kc_of k hf) = LBad c0) \/ il = false) by exact HK.
      assert (R1 : is_brk r1 = false) by (eapply IHb; [apply HK|exact Hcb|exact Hwb|exact Eb]).
      assert (R12 : is_brk r12 = false).
      { destruct H12 as [(v0 & c1 & o2 & -> & -> & Ec & _)|(_ & -> & _)]; auto.
        destruct (Hcc c1 eq_refl) as [Hc1 _]. eapply IHc; [reflexivity|apply (HK' (is_some f))|exact Hc1|exact Hwc|exact Ec]. }
      destruct HF as [(_ & _ & ->)|(f1 & o3 & r3 & -> & Ef & _ & ->)]; auto.
      destruct (Hcf f1 eq_refl) as [Hf1 _].
      assert (R3 : is_brk r3 = false).
      { eapply IHf; [reflexivity| |exact Hf1|exact Hwf|exact Ef]. left. unfold kf_of; cbn; eauto. }
      destruct r3; cbn; auto.
    - (* Loop *)
      apply loop_eval_outcome in He. destruct He as [->|[_ (H1 & H2 & _)]]; [reflexivity|].
      destruct r; try reflexivity; congruence.
    - (* IfIter *)
      cbn [known_class_stmt] in Hc. cbn [wf_stmt] in Hw. apply andb_prop in Hw. destruct Hw as [_ Hw].
      destruct (e_iter e =? k0); [eapply IHs; eauto|inversion He; reflexivity].
    - (* Break *)
      cbn [known_class_stmt wf_stmt] in *. destruct Hk as [[c0 Hk]|Hk]; [rewrite Hk in Hc; discriminate|congruence].
    - cbn [known_class_stmt wf_stmt] in *. destruct Hk as [[c0 Hk]|Hk]; [rewrite Hk in Hc; discriminate|congruence].
    - destruct (call g) as [[oc [vc|vc]]|]; inversion He; reflexivity.
  Qed.

  (* a return that comes out of s is written in s *)
  Lemma ret_has_return s : forall e o r v, eval_stmt call e s = Some (o, r) -> r = ORet v -> has_return s = true.
  Proof.
    induction s as [|a b IHa IHb|t| |t| | |b c f IHb IHc IHf|n b IHb|k0 s IHs| | |t|g] using stmt_ind';
      intros e o r v He Hr; cbn [eval_stmt] in He; cbn [has_return]; auto; try (inversion He; subst; discriminate).
    - destruct (eval_stmt call e a) as [[o1 r1]|] eqn:Ea; [|discriminate].
      destruct r1; try (inversion He; subst; apply orb_true_iff; left; eapply IHa; eauto; fail).
      destruct (eval_stmt call e b) as [[o2 r2]|] eqn:Eb; [|discriminate].
      inversion He; subst. apply orb_true_iff; right. eapply IHb; eauto.
    - apply eval_try_inv in He. destruct He as (o1 & r1 & Eb & o12 & r12 & H12 & HF).
      destruct HF as [(-> & _ & Hr2)|(f1 & o3 & r3 & -> & Ef & _ & Hr2)].
      + subst r12. destruct H12 as [(v0 & c1 & o2 & -> & -> & Ec & _)|(_ & -> & _)].
        * erewrite (IHc c1 eq_refl); eauto. now rewrite orb_true_r.
        * erewrite IHb; eauto.
      + destruct r3; cbn in Hr2; try (subst; discriminate).
        * subst r12. destruct H12 as [(v0 & c1 & o2 & -> & -> & Ec & _)|(_ & -> & _)].
          -- erewrite (IHc c1 eq_refl); eauto. now rewrite orb_true_r.
          -- erewrite IHb; eauto.
        * erewrite (IHf f1 eq_refl); eauto. now rewrite orb_true_r.
    - apply loop_eval_outcome in He. destruct He as [->|[(j & o' & Ej) _]]; [subst; discriminate|]. eapply IHb; eauto.
    - destruct (e_iter e =? k0); [eapply IHs; eauto|inversion He; subst; discriminate].
    - destruct (call g) as [[oc [vc|vc]]|]; inversion He; subst; discriminate.
  Qed.

  (* statements of a finally block contain no try statement, also in the functions they call *)
  Lemma infin_tryfree s : forall k, k_infin k = true -> known_class_stmt p k s = None -> tryfree p nf s = true.
  Proof.
    unfold tryfree.
    induction s as [|a b IHa IHb|t| |t| | |b c f IHb IHc IHf|n b IHb|k0 s IHs| | |t|g] using stmt_ind';
      intros k Hk Hc; cbn [tryfree_with known_class_stmt] in *; auto.
    - apply orelse_none in Hc. destruct Hc. erewrite IHa, IHb; eauto.
    - rewrite Hk in Hc. discriminate.
    - destruct (k_fin_nocatch k); [discriminate|]. eapply IHb; [|exact Hc]. exact Hk.
    - eauto.
    - rewrite Hk in Hc. cbn in Hc. destruct (tryfree_fn p nf g); [reflexivity|discriminate].
  Qed.

  (* ... and, without catch clause, declare no local and leave no loop *)
  Lemma fin_nocatch_flat s : forall k, k_fin_nocatch k = true -> k_infin k = true -> (exists c, k_loop k = LBad c) ->
    known_class_stmt p k s = None -> flat s = true.
  Proof.
    induction s as [|a b IHa IHb|t| |t| | |b c f IHb IHc IHf|n b IHb|k0 s IHs| | |t|g] using stmt_ind';
      intros k Hk Hi [cl Hl] Hc; cbn [flat known_class_stmt] in *; auto.
    - apply orelse_none in Hc. destruct Hc. erewrite IHa, IHb; eauto.
    - rewrite Hi in Hc. discriminate.
    - rewrite Hk in Hc. discriminate.
    - eauto.
    - rewrite Hl in Hc. discriminate.
    - rewrite Hl in Hc. discriminate.
  Qed.
End ClassFacts.

(* ------------------------------------------------------------------------------------------------ *)
(* statements that cannot throw do not end with an exception *)
Lemma no_exc_stmt callee call s :
  (forall g o r, callee g = false -> call g = Some (o, r) -> exists v, r = CRet v) ->
  forall e o r, can_throw_with callee s = false -> eval_stmt call e s = Some (o, r) -> is_exc r = false.
Proof.
  intros Hcall.
  induction s as [|a b IHa IHb|t| |t| | |b c f IHb IHc IHf|n b IHb|k0 s IHs| | |t|g] using stmt_ind';
    intros e o r Hc He; cbn [eval_stmt] in He; cbn [can_throw_with] in Hc; try discriminate;
    try (inversion He; reflexivity).
  - apply orb_false_iff in Hc. destruct Hc as [Ha Hb].
    destruct (eval_stmt call e a) as [[o1 r1]|] eqn:Ea; [|discriminate].
    assert (R1 : is_exc r1 = false) by (eapply IHa; eauto).
    destruct r1; try (inversion He; subst; exact R1).
    destruct (eval_stmt call e b) as [[o2 r2]|] eqn:Eb; [|discriminate].
    inversion He; subst. eapply IHb; eauto.
  - apply orb_false_iff in Hc. destruct Hc as [Hc1 Hc2].
    apply eval_try_inv in He. destruct He as (o1 & r1 & Eb & o12 & r12 & H12 & HF).
    assert (R12 : is_exc r12 = false).
    { destruct H12 as [(v0 & c1 & o2 & -> & -> & Ec & _)|(Hn & -> & _)].
      - eapply IHc; [reflexivity|exact Hc1|exact Ec].
      - destruct c as [c1|].
        + destruct r1; try reflexivity. specialize (Hn v eq_refl). discriminate.
        + eapply IHb; eauto. }
    destruct HF as [(_ & _ & ->)|(f1 & o3 & r3 & -> & Ef & _ & ->)]; auto.
    assert (R3 : is_exc r3 = false) by (eapply IHf; [reflexivity|exact Hc2|exact Ef]).
    destruct r3; cbn; auto.
  - apply loop_eval_outcome in He. destruct He as [->|[(j & o' & Ej) _]]; [reflexivity|]. eapply IHb; eauto.
  - destruct (e_iter e =? k0); [eapply IHs; eauto|inversion He; reflexivity].
  - destruct (call g) as [[oc [vc|vc]]|] eqn:Eg; inversion He; subst; try reflexivity.
    destruct (Hcall _ _ _ Hc Eg) as [v Hv]. discriminate.
Qed.

Lemma no_exc_fn p F : forall fuel g o r, can_throw_fn p F g = false -> eval_fn p fuel g = Some (o, r) -> exists v, r = CRet v.
Proof.
  induction F; intros fuel g o r Hc He; [discriminate|].
  destruct fuel; [discriminate|]. cbn [can_throw_fn] in Hc. cbn [eval_fn] in He.
  destruct (eval_stmt (eval_fn p fuel) env0 (body p g)) as [[o0 r0]|] eqn:E; [|discriminate].
  assert (R : is_exc r0 = false).
  { eapply (no_exc_stmt (can_throw_fn p F) (eval_fn p fuel)); [|exact Hc|exact E]. intros; eapply IHF; eauto. }
  destruct r0; cbn in *; try discriminate; inversion He; eauto.
Qed.

Lemma no_exc p F fuel s e o r : can_throw p F s = false -> eval_stmt (eval_fn p fuel) e s = Some (o, r) -> is_exc r = false.
Proof. intros H. eapply no_exc_stmt; [|exact H]. intros; eapply no_exc_fn; eauto. Qed.

(* ------------------------------------------------------------------------------------------------ *)
(* the simulation *)
Section Sim.
  Variable p : prog.
  Hypothesis Hwf : wf_prog p = true.
  Hypothesis Hcls : in_known_class p = None.
  Local Notation P := (compile_prog K p).
  Local Notation nf := (length p).

  Lemma fn_code g : g < nf -> nth g P [] = compile_fn K (body p g).
  Proof.
    intros H. unfold compile_prog. rewrite app_nth1 by (rewrite map_length; lia).
    rewrite (nth_indep _ [] (compile_fn K Skip)) by (rewrite map_length; lia). unfold body.
    rewrite (map_nth (compile_fn K) p Skip g). reflexivity.
  Qed.
  Lemma script_code_at : nth nf P [] = script_code p.
  Proof. unfold compile_prog. rewrite app_nth2 by (rewrite map_length; lia). rewrite map_length, Nat.sub_diag. reflexivity. Qed.
  Lemma P_length : length P = S nf.
  Proof. unfold compile_prog. rewrite app_length, map_length. simpl. lia. Qed.

  Lemma fn_wf g : g < nf -> wf_stmt nf false false (body p g) = true.
  Proof.
    intros H. unfold wf_prog in Hwf. apply andb_prop in Hwf. destruct Hwf as [_ H2].
    rewrite forallb_forall in H2. apply H2. unfold body. apply nth_In. exact H.
  Qed.
  Lemma first_class_none l : first_class p l = None -> forall s, In s l -> known_class_stmt p kctx0 s = None.
  Proof.
    induction l; intros H s Hin; [destruct Hin|]. cbn [first_class] in H. apply orelse_none in H. destruct H as [H1 H2].
    destruct Hin as [->|Hin]; auto.
  Qed.
  Lemma fn_cls g : g < nf -> known_class_stmt p kctx0 (body p g) = None.
  Proof. intros H. eapply first_class_none; [exact Hcls|]. unfold body. apply nth_In. exact H. Qed.

  Definition rel_catch (c : cctx) (e : env) (base : nat) (stk : list val) (ic : bool) : Prop :=
    ic = true -> c_catch c < c_nloc c /\ nth_error stk (base + c_catch c) = Some (e_exc e).
  Definition rel_loop (c : cctx) (k : kctx) (e : env) (base : nat) (stk : list val) (il : bool) : Prop :=
    (k_loop k = LNone -> il = false) /\
    (il = true -> c_iter c < c_nloc c /\ nth_error stk (base + c_iter c) = Some (VNum (e_iter e)) /\
                  exists L, c_loop c = Some L /\ l_nloc L <= c_nloc c /\ l_try L <= c_try c).
  Definition compat_ret (k : kctx) (c : cctx) (hs : list handler) : Prop :=
    match k_ret k with
    | RPlain => c_intry c = false
    | RJf => c_intry c = true /\ hs <> []
    | RBad _ => True
    end.

  Definition post (c : cctx) (g pc0 sz : nat) (r : outcome) (stk : list val) (fr : frame) (frs : list frame)
                  (hs : list handler) (rp : option (val * (nat * nat))) (he : bool) (out : list val) (cf : config) : Prop :=
    match r with
    | ONormal => cf = inl (mkS g (pc0 + sz) stk (fr :: frs) hs rp he out)
    | OExc v => cf = raise hs v stk (fr :: frs) rp out
    | OBrk => exists L, c_loop c = Some L /\
                cf = inl (mkS g (l_break L) (firstn (f_base fr + l_nloc L) stk) (fr :: frs)
                              (skipn (c_try c - l_try L) hs) rp he out)
    | OCont => exists L, c_loop c = Some L /\
                cf = inl (mkS g (l_start L) (firstn (f_base fr + l_nloc L) stk) (fr :: frs)
                              (skipn (c_try c - l_try L) hs) rp he out)
    | ORet v =>
        if c_intry c then
          exists h hs' rpc, hs = h :: hs' /\ fetch P g rpc = Some IReturn /\
            cf = inl (mkS (h_fn h) (h_fin h) (firstn (h_height h) stk) (fr :: frs) hs' (Some (v, (g, rpc))) he out)
        else cf = inl (mkS (fst (f_ret fr)) (snd (f_ret fr)) (firstn (f_base fr) stk ++ [v]) frs hs rp he out)
    end.

  Definition CallSim (f' : nat) : Prop :=
    forall g oc r, g < nf -> eval_fn p f' g = Some (oc, r) ->
    forall stk frs hs rp he out ret,
      frs <> [] -> length frs + f' <= 64 ->
      Forall (hok (length stk) (length frs)) hs ->
      ((he = false /\ rp = None) \/ exists F, tryfree_fn p F g = true) ->
      exists cf, steps P (inl (mkS g 0 (stk ++ [VFn g]) (mkF g (length stk) ret :: frs) hs rp he out)) cf /\
        match r with
        | CRet v => cf = inl (mkS (fst ret) (snd ret) (stk ++ [v]) frs hs rp he (out ++ oc))
        | CExc v => cf = raise hs v stk frs rp (out ++ oc)
        end.

  Definition Sim (f' : nat) (s : stmt) : Prop :=
    forall (c : cctx) (k : kctx) (pc0 g : nat) (il ic : bool) e o r stk fr frs hs rp he out d,
      g < nf ->
      code_at (nth g P []) pc0 (compile K c pc0 s) ->
      known_class_stmt p k s = None ->
      wf_stmt nf il ic s = true ->
      eval_stmt (eval_fn p f') e s = Some (o, r) ->
      f_base fr + c_nloc c + d = length stk ->
      (d = 0 \/ flat s = true) ->
      rel_catch c e (f_base fr) stk ic ->
      rel_loop c k e (f_base fr) stk il ->
      compat_ret k c hs ->
      Forall (hok (f_base fr + c_nloc c) (S (length frs))) hs ->
      ((he = false /\ rp = None) \/ exists F, tryfree p F s = true) ->
      frs <> [] -> S (length frs) + f' <= 64 ->
      exists cf, steps P (inl (mkS g pc0 stk (fr :: frs) hs rp he out)) cf /\
                 post c g pc0 (csize K c s) r stk fr frs hs rp he (out ++ o) cf.

  Lemma fetch_code g pc0 l i x : code_at (nth g P []) pc0 l -> nth_error l i = Some x -> fetch P g (pc0 + i) = Some x.
  Proof. intros H Hi. unfold fetch. apply H. exact Hi. Qed.

  (* an abnormal outcome of a part is the outcome of the whole, seen from the whole's entry state *)
  Lemma post_transfer c c' g pc pc' sz sz' r stk more fr frs hs rp he out cf sl :
    r <> ONormal ->
    (is_brk r = true -> c_loop c' = c_loop c /\ c_try c' = c_try c /\
                        forall L, c_loop c = Some L -> f_base fr + l_nloc L <= length stk) ->
    (is_ret r = true -> c_intry c' = c_intry c /\ f_base fr <= length stk) ->
    Forall (hok sl (S (length frs))) hs -> sl <= length stk ->
    post c' g pc' sz' r (stk ++ more) fr frs hs rp he out cf -> post c g pc sz r stk fr frs hs rp he out cf.
  Proof.
    intros Hn Hb Hr Hh Hs Hp. destruct r; cbn [post] in *; try congruence.
    - destruct (Hb eq_refl) as (E1 & E2 & E3). destruct Hp as (L & HL & ->). rewrite E1 in HL.
      exists L. split; auto. rewrite E2. rewrite firstn_app_le by (apply E3; exact HL). reflexivity.
    - destruct (Hb eq_refl) as (E1 & E2 & E3). destruct Hp as (L & HL & ->). rewrite E1 in HL.
      exists L. split; auto. rewrite E2. rewrite firstn_app_le by (apply E3; exact HL). reflexivity.
    - destruct (Hr eq_refl) as (E1 & E2). rewrite E1 in Hp. destruct (c_intry c).
      + destruct Hp as (h & hs' & rpc & -> & Hf & ->). exists h, hs', rpc. repeat split; auto.
        inversion Hh as [|? ? [H1 H2] H3]; subst. rewrite firstn_app_le by lia. reflexivity.
      + subst cf. rewrite firstn_app_le by lia. reflexivity.
    - subst cf. eapply raise_ext_stack; [|exact Hs]. cbn [length]. exact Hh.
  Qed.

  Lemma post_abn c g pc pc' sz sz' r stk fr frs hs rp he out cf :
    r <> ONormal -> post c g pc sz r stk fr frs hs rp he out cf -> post c g pc' sz' r stk fr frs hs rp he out cf.
  Proof. destruct r; cbn [post]; auto; congruence. Qed.

  Lemma code_at_fetch0 g pc x l : code_at (nth g P []) pc (x :: l) -> fetch P g pc = Some x.
  Proof. intros H. apply code_at_cons in H. exact (proj1 H). Qed.
  Lemma code_at_tail C pc x l : code_at C pc (x :: l) -> code_at C (S pc) l.
  Proof. intros H. apply code_at_cons in H. exact (proj2 H). Qed.

  (* runs of pops *)
  Lemma run_pop_handlers g n : forall pc stk frs hs rp he out, frs <> [] ->
    code_at (nth g P []) pc (repeat IPopExcHandler n) ->
    steps P (inl (mkS g pc stk frs hs rp he out)) (inl (mkS g (pc + n) stk frs (skipn n hs) rp he out)).
  Proof.
    induction n; intros pc stk frs hs rp he out Hf H.
    - rewrite Nat.add_0_r. apply steps_refl.
    - destruct frs as [|fr frs]; [congruence|]. cbn [repeat] in H.
      eapply steps_step; [apply step_IPopExcHandler; eapply code_at_fetch0; eauto|].
      replace (pc + S n) with (S pc + n) by lia.
      replace (skipn (S n) hs) with (skipn n (tl hs)) by (destruct hs; [now rewrite skipn_nil|reflexivity]).
      apply IHn; [congruence|]. eapply code_at_tail; eauto.
  Qed.

  Lemma run_pops g n : forall pc stk frs hs rp he out, frs <> [] -> n <= length stk ->
    code_at (nth g P []) pc (repeat IPop n) ->
    steps P (inl (mkS g pc stk frs hs rp he out)) (inl (mkS g (pc + n) (firstn (length stk - n) stk) frs hs rp he out)).
  Proof.
    induction n; intros pc stk frs hs rp he out Hf Hn H.
    - rewrite Nat.add_0_r, Nat.sub_0_r, firstn_all. apply steps_refl.
    - destruct frs as [|fr frs]; [congruence|]. cbn [repeat] in H.
      destruct (exists_last (l := stk)) as (stk' & v & ->); [destruct stk; [simpl in Hn; lia|discriminate]|].
      eapply steps_step; [apply step_IPop; eapply code_at_fetch0; eauto|].
      rewrite app_length in *. cbn [length] in *.
      replace (pc + S n) with (S pc + n) by lia.
      replace (length stk' + 1 - S n) with (length stk' - n) by lia.
      rewrite firstn_app_le by lia.
      apply IHn; [congruence|lia|]. eapply code_at_tail; eauto.
  Qed.

  Ltac fexact F :=
    match type of F with
    | fetch _ _ ?a = _ => match goal with |- fetch _ _ ?b = _ => replace b with a by lia; exact F end
    end.

  Section Cases.
    Variable f' : nat.
    Hypothesis HCall : CallSim f'.

    Ltac intro_sim :=
      intros c k pc0 g il ic e o r stk fr frs hs rp he out d Hg Hcode Hkc Hw He Hlen Hd Hrc Hrl Hcr Hh Hq Hfrs Hfu.

    Lemma sim_skip : Sim f' Skip.
    Proof.
      intro_sim. cbn [eval_stmt] in He. inversion He; subst.
      eexists; split; [apply steps_refl|]. cbn [post]. unfold csize; cbn [size]. now rewrite Nat.add_0_r, app_nil_r.
    Qed.

    Lemma sim_print t : Sim f' (Print t).
    Proof.
      intro_sim. cbn [eval_stmt] in He. inversion He; subst. cbn [compile] in Hcode.
      eexists; split; [eapply steps_one; apply step_IPrint; eapply code_at_fetch0; eauto|].
      cbn [post]. unfold csize; cbn [size]. now replace (pc0 + 1) with (S pc0) by lia.
    Qed.

    Lemma sim_printexc : Sim f' PrintExc.
    Proof.
      intro_sim. cbn [eval_stmt] in He. inversion He; subst. cbn [compile] in Hcode.
      cbn [wf_stmt] in Hw. destruct (Hrc Hw) as [_ Hn].
      eexists; split; [eapply steps_one; eapply step_IPrintLocal; [eapply code_at_fetch0; eauto|exact Hn]|].
      cbn [post]. unfold csize; cbn [size]. now replace (pc0 + 1) with (S pc0) by lia.
    Qed.

    Lemma sim_throw t : Sim f' (Throw t).
    Proof.
      intro_sim. cbn [eval_stmt] in He. inversion He; subst. cbn [compile] in Hcode.
      eexists; split.
      - eapply steps_step; [apply step_IConst; eapply code_at_fetch0; eauto|].
        eapply steps_one. rewrite step_IThrow by (eapply code_at_fetch0; eapply code_at_tail; eauto).
        eapply unwind_raise; [exact Hh|lia].
      - cbn [post]. now rewrite app_nil_r.
    Qed.

    Lemma sim_fail : Sim f' BuiltinFail.
    Proof.
      intro_sim. cbn [eval_stmt] in He. inversion He; subst. cbn [compile] in Hcode.
      eexists; split.
      - eapply steps_one. rewrite step_IFail by (eapply code_at_fetch0; eauto).
        change (stk ++ [VNil; VErr]) with (stk ++ [VNil] ++ [VErr]). rewrite app_assoc.
        eapply unwind_raise; [exact Hh|rewrite app_length; lia].
      - cbn [post]. rewrite app_nil_r. eapply raise_ext_stack; [exact Hh|lia].
    Qed.

    Lemma sim_nativefail : Sim f' NativeFail.
    Proof.
      intro_sim. cbn [eval_stmt] in He. inversion He; subst. cbn [compile] in Hcode.
      eexists; split.
      - eapply steps_one. rewrite step_INativeFail by (eapply code_at_fetch0; eauto).
        eapply unwind_raise; [exact Hh|lia].
      - cbn [post]. now rewrite app_nil_r.
    Qed.

    Lemma sim_seq a b : Sim f' a -> Sim f' b -> Sim f' (Seq a b).
    Proof.
      intros IHa IHb. intro_sim. cbn [compile] in Hcode. apply code_at_app in Hcode. destruct Hcode as [Hca Hcb].
      rewrite compile_length in Hcb.
      cbn [known_class_stmt] in Hkc. apply orelse_none in Hkc. destruct Hkc as [Hka Hkb].
      cbn [wf_stmt] in Hw. apply andb_prop in Hw. destruct Hw as [Hwa Hwb].
      assert (Hda : d = 0 \/ flat a = true) by (destruct Hd as [->|Hd]; auto; cbn [flat] in Hd; apply andb_prop in Hd; tauto).
      assert (Hdb : d = 0 \/ flat b = true) by (destruct Hd as [->|Hd]; auto; cbn [flat] in Hd; apply andb_prop in Hd; tauto).
      assert (Hqa : (he = false /\ rp = None) \/ exists F, tryfree p F a = true).
      { destruct Hq as [Hq|[F Hq]]; auto. right; exists F. unfold tryfree in *. cbn [tryfree_with] in Hq. apply andb_prop in Hq; tauto. }
      assert (Hqb : (he = false /\ rp = None) \/ exists F, tryfree p F b = true).
      { destruct Hq as [Hq|[F Hq]]; auto. right; exists F. unfold tryfree in *. cbn [tryfree_with] in Hq. apply andb_prop in Hq; tauto. }
      cbn [eval_stmt] in He.
      destruct (eval_stmt (eval_fn p f') e a) as [[o1 r1]|] eqn:Ea; [|discriminate].
      destruct (IHa c k pc0 g il ic e o1 r1 stk fr frs hs rp he out d Hg Hca Hka Hwa Ea Hlen Hda Hrc Hrl Hcr Hh Hqa Hfrs Hfu)
        as (cf1 & S1 & P1).
      destruct r1; try (inversion He; subst; exists cf1; split; [exact S1|eapply post_abn; [discriminate|exact P1]]).
      destruct (eval_stmt (eval_fn p f') e b) as [[o2 r2]|] eqn:Eb; [|discriminate]. inversion He; subst.
      cbn [post] in P1. subst cf1.
      destruct (IHb c k (pc0 + csize K c a) g il ic e o2 r stk fr frs hs rp he (out ++ o1) d Hg Hcb Hkb Hwb Eb Hlen Hdb Hrc Hrl Hcr Hh Hqb Hfrs Hfu)
        as (cf2 & S2 & P2).
      exists cf2. split; [eapply steps_trans; eauto|].
      rewrite app_assoc. destruct r; cbn [post] in *; auto.
      rewrite P2. unfold csize; cbn [size]. now rewrite Nat.add_assoc.
    Qed.
    Lemma sim_ifiter k0 s : Sim f' s -> Sim f' (IfIter k0 s).
    Proof.
      intros IHs. intro_sim. cbn [compile] in Hcode.
      cbn [known_class_stmt] in Hkc. cbn [wf_stmt] in Hw. apply andb_prop in Hw. destruct Hw as [Hil Hws]. subst il.
      destruct Hrl as [Hrl0 Hrl1]. destruct (Hrl1 eq_refl) as (Hit & Hnth & HL).
      assert (Hds : d = 0 \/ flat s = true) by (destruct Hd as [->|Hd]; auto).
      assert (Hqs : (he = false /\ rp = None) \/ exists F, tryfree p F s = true).
      { destruct Hq as [Hq|[F Hq]]; auto. right; exists F. exact Hq. }
      pose proof (code_at_fetch0 _ _ _ _ Hcode) as F0. apply code_at_tail in Hcode.
      pose proof (code_at_fetch0 _ _ _ _ Hcode) as F1. apply code_at_tail in Hcode.
      pose proof (code_at_fetch0 _ _ _ _ Hcode) as F2. apply code_at_tail in Hcode.
      cbn [app] in Hcode. apply code_at_app in Hcode. destruct Hcode as [Hcs Hcode]. rewrite compile_length in Hcode.
      pose proof (code_at_fetch0 _ _ _ _ Hcode) as F3. apply code_at_tail in Hcode.
      pose proof (code_at_fetch0 _ _ _ _ Hcode) as F4.
      replace (S (S (S pc0))) with (pc0 + 3) in Hcs by lia.
      cbn [eval_stmt] in He.
      eapply (step_IEq P g pc0 stk fr frs hs rp he out) in F0; [|exact Hnth].
      eapply (step_IJumpIfFalse P g (S pc0) stk (e_iter e =? k0) _ fr frs hs rp he out) in F1.
      destruct (e_iter e =? k0).
      - eapply (step_IPop P g (S (S pc0)) stk _ fr frs hs rp he out) in F2.
        destruct (IHs c k (pc0 + 3) g true ic e o r stk fr frs hs rp he out d Hg Hcs Hkc Hws He Hlen Hds Hrc (conj Hrl0 Hrl1) Hcr Hh Hqs Hfrs Hfu)
          as (cf1 & S1 & P1).
        destruct r; try (exists cf1; split;
          [eapply steps_step; [exact F0|]; eapply steps_step; [exact F1|]; eapply steps_step; [exact F2|];
           replace (S (S (S pc0))) with (pc0 + 3) by lia; exact S1
          |eapply post_abn; [discriminate|exact P1]]).
        cbn [post] in P1. subst cf1. eexists; split.
        + eapply steps_step; [exact F0|]. eapply steps_step; [exact F1|]. eapply steps_step; [exact F2|].
          replace (S (S (S pc0))) with (pc0 + 3) by lia. eapply steps_trans; [exact S1|].
          eapply steps_one. apply step_IJump.
          replace (pc0 + 3 + csize K c s) with (S (S (S pc0)) + csize K c s) by lia. exact F3.
        + cbn [post]. unfold csize; cbn [size]. f_equal. f_equal. lia.
      - inversion He; subst. eexists; split.
        + eapply steps_step; [exact F0|]. eapply steps_step; [exact F1|].
          eapply steps_one. apply step_IPop.
          replace (pc0 + 4 + csize K c s) with (S (S (S (S pc0)) + csize K c s)) by lia. exact F4.
        + cbn [post]. rewrite app_nil_r. unfold csize; cbn [size]. f_equal. f_equal. lia.
    Qed.

    (* the common part of break and continue: handler pops, scope pops *)
    Lemma run_exits c L g pc stk fr frs hs rp he out :
      code_at (nth g P []) pc (exits K c L) ->
      f_base fr + c_nloc c = length stk -> l_nloc L <= c_nloc c -> l_try L <= c_try c ->
      steps P (inl (mkS g pc stk (fr :: frs) hs rp he out))
              (inl (mkS g (pc + length (exits K c L)) (firstn (f_base fr + l_nloc L) stk) (fr :: frs)
                        (skipn (c_try c - l_try L) hs) rp he out)).
    Proof.
      intros Hc Hl H1 H2. unfold exits in *. cbn [break_pops cfg_assign npops] in *.
      apply code_at_app in Hc. destruct Hc as [Ha Hb]. rewrite repeat_length in Hb.
      rewrite app_length, !repeat_length.
      eapply steps_trans; [eapply run_pop_handlers; [discriminate|exact Ha]|].
      replace (f_base fr + l_nloc L) with (length stk - (c_nloc c - l_nloc L)) by lia.
      rewrite Nat.add_assoc. eapply run_pops; [discriminate|lia|exact Hb].
    Qed.

    Lemma sim_break : Sim f' Break.
    Proof.
      intro_sim. cbn [eval_stmt] in He. inversion He; subst. cbn [wf_stmt] in Hw. subst il.
      destruct Hrl as [_ Hrl]. destruct (Hrl eq_refl) as (_ & _ & L & HL & HL1 & HL2).
      cbn [compile] in Hcode. rewrite HL in Hcode. apply code_at_app in Hcode. destruct Hcode as [Hce Hcj].
      assert (d = 0) by (destruct Hd as [->|Hd]; [reflexivity|discriminate]). subst d. rewrite Nat.add_0_r in Hlen.
      eexists; split.
      - eapply steps_trans; [eapply run_exits; eauto|].
        eapply steps_one. apply step_IJump. eapply code_at_fetch0; eauto.
      - cbn [post]. exists L. split; auto. now rewrite app_nil_r.
    Qed.

    Lemma sim_continue : Sim f' Continue.
    Proof.
      intro_sim. cbn [eval_stmt] in He. inversion He; subst. cbn [wf_stmt] in Hw. subst il.
      destruct Hrl as [_ Hrl]. destruct (Hrl eq_refl) as (_ & _ & L & HL & HL1 & HL2).
      cbn [compile] in Hcode. rewrite HL in Hcode. apply code_at_app in Hcode. destruct Hcode as [Hce Hcj].
      assert (d = 0) by (destruct Hd as [->|Hd]; [reflexivity|discriminate]). subst d. rewrite Nat.add_0_r in Hlen.
      eexists; split.
      - eapply steps_trans; [eapply run_exits; eauto|].
        eapply steps_one. apply step_ILoop. eapply code_at_fetch0; eauto.
      - cbn [post]. exists L. split; auto. now rewrite app_nil_r.
    Qed.

    Lemma sim_return t : Sim f' (Return t).
    Proof.
      intro_sim. cbn [eval_stmt] in He. inversion He; subst. cbn [compile return_uses_jump_finally cfg_assign] in Hcode.
      cbn [known_class_stmt] in Hkc. unfold compat_ret in Hcr.
      pose proof (code_at_fetch0 _ _ _ _ Hcode) as F0. apply code_at_tail in Hcode.
      destruct frs as [|fr2 frs]; [congruence|].
      destruct (k_ret k); [| |discriminate].
      - rewrite Hcr in *. cbn [andb app] in Hcode. pose proof (code_at_fetch0 _ _ _ _ Hcode) as F1.
        eexists; split.
        + eapply steps_step; [apply step_IConst; exact F0|]. eapply steps_one. apply step_IReturn. exact F1.
        + cbn [post]. rewrite Hcr. now rewrite app_nil_r.
      - destruct Hcr as [Hi Hne]. rewrite Hi in *. cbn [andb app] in Hcode.
        pose proof (code_at_fetch0 _ _ _ _ Hcode) as F1. apply code_at_tail in Hcode.
        pose proof (code_at_fetch0 _ _ _ _ Hcode) as F2.
        destruct hs as [|h hs']; [congruence|].
        eexists; split.
        + eapply steps_step; [apply step_IConst; exact F0|]. eapply steps_one. apply step_IJumpFinally. exact F1.
        + cbn [post]. rewrite Hi. exists h, hs', (S (S pc0)). rewrite app_nil_r. auto.
    Qed.

    Lemma sim_call g' : Sim f' (Call g').
    Proof.
      intro_sim. cbn [compile] in Hcode. cbn [wf_stmt] in Hw. apply Nat.ltb_lt in Hw.
      pose proof (code_at_fetch0 _ _ _ _ Hcode) as F0. apply code_at_tail in Hcode.
      pose proof (code_at_fetch0 _ _ _ _ Hcode) as F1. apply code_at_tail in Hcode.
      pose proof (code_at_fetch0 _ _ _ _ Hcode) as F2. apply code_at_tail in Hcode.
      pose proof (code_at_fetch0 _ _ _ _ Hcode) as F3.
      cbn [eval_stmt] in He.
      destruct (eval_fn p f' g') as [[oc rc]|] eqn:Eg; [|discriminate].
      assert (Hf1 : 1 <= f') by (destruct f'; [discriminate|lia]).
      assert (Hhc : Forall (hok (length (stk ++ [VNative])) (length (fr :: frs))) hs).
      { eapply Forall_hok_mono; [exact Hh|rewrite app_length; cbn; lia|cbn; lia]. }
      assert (Hqc : (he = false /\ rp = None) \/ exists F, tryfree_fn p F g' = true).
      { destruct Hq as [Hq|[F Hq]]; auto. right; exists F. exact Hq. }
      destruct (HCall g' oc rc Hw Eg (stk ++ [VNative]) (fr :: frs) hs rp he out (g, S (S pc0))
                  ltac:(discriminate) ltac:(cbn [length]; lia) Hhc Hqc) as (cf1 & S1 & P1).
      assert (SC : steps P (inl (mkS g pc0 stk (fr :: frs) hs rp he out)) cf1).
      { eapply steps_step; [apply step_IPushNative; exact F0|].
        eapply steps_step; [apply step_ICall; [exact F1|rewrite P_length; lia|unfold FRAMES_MAX; lia]|]. exact S1. }
      destruct rc as [v|v]; inversion He; subst.
      - eexists; split.
        + eapply steps_trans; [exact SC|]. rewrite <- app_assoc.
          eapply steps_step; [apply step_IPrintTop; exact F2|].
          eapply steps_one. apply step_IPop. exact F3.
        + cbn [post]. unfold csize; cbn [size]. replace (pc0 + 4) with (S (S (S (S pc0)))) by lia. rewrite app_assoc. reflexivity.
      - exists (raise hs v (stk ++ [VNative]) (fr :: frs) rp (out ++ o)). split; [exact SC|].
        cbn [post]. eapply raise_ext_stack; [exact Hh|lia].
    Qed.

    Lemma sim_loop n b : Sim f' b -> Sim f' (Loop n b).
    Proof.
      intros IHb. intro_sim.
      assert (d = 0) by (destruct Hd as [->|Hd]; [reflexivity|discriminate]). subst d. rewrite Nat.add_0_r in Hlen.
      apply known_class_loop in Hkc. destruct Hkc as [_ Hkb]. cbn [wf_stmt] in Hw.
      cbn [compile] in Hcode.
      set (slot := c_nloc c) in *.
      set (nb := size K (S slot) (c_try c) (c_intry c) (Some (S slot, c_try c)) b) in *.
      set (L := {| l_start := pc0 + 1; l_break := pc0 + 7 + nb; l_nloc := S slot; l_try := c_try c |}) in *.
      set (c' := {| c_nloc := S slot; c_try := c_try c; c_intry := c_intry c; c_loop := Some L;
                    c_catch := c_catch c; c_iter := slot |}) in *.
      assert (Hnb : csize K c' b = nb) by reflexivity.
      pose proof (code_at_fetch0 _ _ _ _ Hcode) as F0. apply code_at_tail in Hcode.
      pose proof (code_at_fetch0 _ _ _ _ Hcode) as F1. apply code_at_tail in Hcode.
      pose proof (code_at_fetch0 _ _ _ _ Hcode) as F2. apply code_at_tail in Hcode.
      pose proof (code_at_fetch0 _ _ _ _ Hcode) as F3. apply code_at_tail in Hcode.
      pose proof (code_at_fetch0 _ _ _ _ Hcode) as F4. apply code_at_tail in Hcode.
      cbn [app] in Hcode. apply code_at_app in Hcode. destruct Hcode as [Hcb Hcode]. rewrite compile_length, Hnb in Hcode.
      pose proof (code_at_fetch0 _ _ _ _ Hcode) as F5. apply code_at_tail in Hcode.
      pose proof (code_at_fetch0 _ _ _ _ Hcode) as F6. apply code_at_tail in Hcode.
      pose proof (code_at_fetch0 _ _ _ _ Hcode) as F7.
      replace (S (S (S (S (S pc0))))) with (pc0 + 5) in * by lia.
      assert (Hqb : (he = false /\ rp = None) \/ exists F, tryfree p F b = true).
      { destruct Hq as [Hq|[F Hq]]; auto. right; exists F. exact Hq. }
      assert (Hbase : f_base fr + slot = length stk) by exact Hlen.
      cbn [eval_stmt] in He.
      (* the iterations *)
      assert (ITER : forall rem i out0 o r, rem + i = n ->
        loop_eval (fun i => eval_stmt (eval_fn p f') {| e_exc := e_exc e; e_iter := i |} b) rem i = Some (o, r) ->
        exists cf, steps P (inl (mkS g (S pc0) (stk ++ [VNum i]) (fr :: frs) hs rp he out0)) cf /\
                   post c g pc0 (8 + nb) r stk fr frs hs rp he (out0 ++ o) cf).
      { clear He o r. induction rem; intros i out0 o r Hi He.
        - cbn [loop_eval] in He. inversion He; subst o r. cbn [Nat.add] in Hi. subst i.
          eexists; split.
          + eapply steps_step; [eapply step_ILess; [fexact F1|rewrite Hbase; apply nth_error_snoc_exact]|].
            rewrite Nat.ltb_irrefl.
            eapply steps_step; [apply step_IJumpIfFalse; fexact F2|].
            eapply steps_step; [apply step_IPop; fexact F6|].
            eapply steps_one. apply step_IPop. fexact F7.
          + cbn [post]. rewrite app_nil_r. f_equal. f_equal. lia.
        - cbn [loop_eval] in He.
          destruct (eval_stmt (eval_fn p f') {| e_exc := e_exc e; e_iter := S i |} b) as [[o1 r1]|] eqn:Eb; [|discriminate].
          (* one turn up to the body *)
          assert (T : steps P (inl (mkS g (S pc0) (stk ++ [VNum i]) (fr :: frs) hs rp he out0))
                              (inl (mkS g (pc0 + 5) (stk ++ [VNum (S i)]) (fr :: frs) hs rp he out0))).
          { eapply steps_step; [eapply step_ILess; [fexact F1|rewrite Hbase; apply nth_error_snoc_exact]|].
            replace (i <? n) with true by (symmetry; apply Nat.ltb_lt; lia).
            eapply steps_step; [apply step_IJumpIfFalse; fexact F2|].
            eapply steps_step; [apply step_IPop; fexact F3|].
            eapply steps_one. replace (pc0 + 5) with (S (S (S (S (S pc0))))) by lia. eapply step_IIncr; [fexact F4|exact Hbase]. }
          (* the body *)
          assert (Hlen' : f_base fr + c_nloc c' + 0 = length (stk ++ [VNum (S i)])) by (rewrite app_length; cbn; lia).
          assert (Hrc' : rel_catch c' {| e_exc := e_exc e; e_iter := S i |} (f_base fr) (stk ++ [VNum (S i)]) ic).
          { intros Hic. destruct (Hrc Hic) as [H1 H2]. cbn. split; [unfold slot; lia|].
            rewrite nth_error_app_lt; [exact H2|]. fold slot in H1. lia. }
          assert (Hrl' : rel_loop c' (kl_of k) {| e_exc := e_exc e; e_iter := S i |} (f_base fr) (stk ++ [VNum (S i)]) true).
          { split; [cbn; discriminate|]. intros _. cbn. split; [lia|]. split; [rewrite Hbase; apply nth_error_snoc_exact|].
            exists L. cbn. repeat split; lia. }
          assert (Hcr' : compat_ret (kl_of k) c' hs) by exact Hcr.
          assert (Hh' : Forall (hok (f_base fr + c_nloc c') (S (length frs))) hs).
          { eapply Forall_hok_mono; [exact Hh|cbn; lia|lia]. }
          destruct (IHb c' (kl_of k) (pc0 + 5) g true ic _ o1 r1 (stk ++ [VNum (S i)]) fr frs hs rp he out0 0
                      Hg Hcb Hkb Hw Eb Hlen' (or_introl eq_refl) Hrc' Hrl' Hcr' Hh' Hqb Hfrs Hfu) as (cf1 & S1 & P1).
          destruct r1.
          + (* normal: jump back *)
            destruct (loop_eval _ rem (S i)) as [[o2 r2]|] eqn:E2; [|discriminate]. inversion He; subst.
            cbn [post] in P1. subst cf1.
            destruct (IHrem (S i) (out0 ++ o1) o2 r ltac:(lia) E2) as (cf2 & S2 & P2).
            exists cf2. split; [|rewrite app_assoc; exact P2].
            eapply steps_trans; [exact T|]. eapply steps_trans; [exact S1|].
            eapply steps_step; [apply step_ILoop; rewrite ?Hnb; fexact F5|].
            replace (pc0 + 1) with (S pc0) by lia. exact S2.
          + (* break *)
            inversion He; subst. cbn [post] in P1. destruct P1 as (L' & HL' & ->). cbn in HL'. inversion HL'; subst L'.
            eexists; split.
            * eapply steps_trans; [exact T|]. eapply steps_trans; [exact S1|].
              cbn [l_break l_nloc l_try L c_try c']. rewrite Nat.sub_diag. cbn [skipn].
              replace (f_base fr + S slot) with (length (stk ++ [VNum (S i)])) by (rewrite app_length; cbn; lia).
              rewrite firstn_all.
              eapply steps_one. apply step_IPop. fexact F7.
            * cbn [post]. f_equal. f_equal. lia.
          + (* continue *)
            destruct (loop_eval _ rem (S i)) as [[o2 r2]|] eqn:E2; [|discriminate]. inversion He; subst.
            cbn [post] in P1. destruct P1 as (L' & HL' & ->). cbn in HL'. inversion HL'; subst L'.
            destruct (IHrem (S i) (out0 ++ o1) o2 r ltac:(lia) E2) as (cf2 & S2 & P2).
            exists cf2. split; [|rewrite app_assoc; exact P2].
            eapply steps_trans; [exact T|]. eapply steps_trans; [exact S1|].
            cbn [l_start l_nloc l_try L c_try c']. rewrite Nat.sub_diag. cbn [skipn].
            replace (f_base fr + S slot) with (length (stk ++ [VNum (S i)])) by (rewrite app_length; cbn; lia).
            rewrite firstn_all. replace (pc0 + 1) with (S pc0) by lia. exact S2.
          + (* return *)
            inversion He; subst. exists cf1. split; [eapply steps_trans; [exact T|exact S1]|].
            eapply (post_transfer c c' g pc0 (pc0 + 5) (8 + nb) (csize K c' b) (ORet v) stk [VNum (S i)]);
              [discriminate|discriminate|intros _; split; [reflexivity|lia]|exact Hh|lia|exact P1].
          + (* exception *)
            inversion He; subst. exists cf1. split; [eapply steps_trans; [exact T|exact S1]|].
            eapply (post_transfer c c' g pc0 (pc0 + 5) (8 + nb) (csize K c' b) (OExc v) stk [VNum (S i)]);
              [discriminate|discriminate|discriminate|exact Hh|lia|exact P1]. }
      destruct (ITER n 0 out o r ltac:(lia) He) as (cf & S1 & P1).
      exists cf. split; [|exact P1].
      eapply steps_step; [apply step_IConst; fexact F0|]. exact S1.
    Qed.

    Lemma sim_try b c0 f : Sim f' b -> (forall c1, c0 = Some c1 -> Sim f' c1) -> (forall f1, f = Some f1 -> Sim f' f1) ->
      Sim f' (Try b c0 f).
    Proof.
      intros IHb IHc IHf. intro_sim.
      assert (d = 0) by (destruct Hd as [->|Hd]; [reflexivity|discriminate]). subst d. rewrite Nat.add_0_r in Hlen.
      assert (he = false /\ rp = None) as [-> ->].
      { destruct Hq as [Hq|[F Hq]]; auto. unfold tryfree in Hq. discriminate. }
      apply known_class_try in Hkc. destruct Hkc as (Hinf & Hkb & Hkc1 & Hkf1).
      cbn [wf_stmt] in Hw. apply andb_prop in Hw. destruct Hw as [Hw Hsome].
      apply andb_prop in Hw. destruct Hw as [Hw Hwf']. apply andb_prop in Hw. destruct Hw as [Hwb Hwc].
      set (cb := {| c_nloc := c_nloc c; c_try := S (c_try c); c_intry := true; c_loop := c_loop c;
                    c_catch := c_catch c; c_iter := c_iter c |}) in *.
      set (cc := {| c_nloc := S (c_nloc c); c_try := c_try c; c_intry := c_intry c; c_loop := c_loop c;
                    c_catch := c_nloc c; c_iter := c_iter c |}) in *.
      set (nb := csize K cb b) in *.
      set (cpc := pc0 + 3 + nb) in *.
      set (ncatch := match c0 with Some c1 => csize K cc c1 + 1 | None => 0 end).
      set (fpc := cpc + ncatch).
      set (sz := csize K c (Try b c0 f)).
      assert (Hsz : sz = 3 + nb + ncatch + match f with Some f1 => csize K c f1 + 1 | None => 0 end).
      { unfold sz, ncatch, nb, csize, lshape, cb, cc. cbn [size catch_emits_pop cfg_assign c_loop c_nloc c_try c_intry]. destruct c0, f; lia. }
      (* where everything is *)
      assert (CODE : fetch P g pc0 = Some (IPushExcHandler cpc fpc) /\
                     code_at (nth g P []) (pc0 + 1) (compile K cb (pc0 + 1) b) /\
                     fetch P g (pc0 + 1 + nb) = Some IPopExcHandler /\
                     fetch P g (pc0 + 2 + nb) = Some (IJump fpc) /\
                     (forall c1, c0 = Some c1 -> code_at (nth g P []) cpc (compile K cc cpc c1) /\
                                                 fetch P g (cpc + csize K cc c1) = Some IPop) /\
                     (forall f1, f = Some f1 -> code_at (nth g P []) fpc (compile K c fpc f1) /\
                                                 fetch P g (fpc + csize K c f1) = Some IEndFinally)).
      { cbn [compile catch_emits_pop cfg_assign] in Hcode. fold cb cc nb cpc in Hcode.
        apply code_at_app in Hcode. destruct Hcode as [H0 Hcode]. cbn [length] in Hcode.
        apply code_at_app in Hcode. destruct Hcode as [H1 Hcode]. rewrite compile_length in Hcode. fold nb in Hcode.
        apply code_at_app in Hcode. destruct Hcode as [H2 Hcode]. cbn [length] in Hcode.
        apply code_at_app in Hcode. destruct Hcode as [H3 H4].
        split. { replace (cpc + match c0 with Some c1 => 0 + csize K cc c1 + 1 | None => 0 end) with fpc in H0
                   by (unfold fpc, ncatch; destruct c0; lia). eapply code_at_fetch0; exact H0. }
        split; [exact H1|].
        split. { pose proof (code_at_fetch0 _ _ _ _ H2) as X. fexact X. }
        split. { apply code_at_tail in H2. pose proof (code_at_fetch0 _ _ _ _ H2) as X.
                 replace (cpc + match c0 with Some c1 => 0 + csize K cc c1 + 1 | None => 0 end) with fpc in X
                   by (unfold fpc, ncatch; destruct c0; lia). fexact X. }
        split.
        - intros c1 ->. cbn [app] in H3. apply code_at_app in H3. destruct H3 as [H3a H3b]. rewrite compile_length in H3b.
          replace (pc0 + 1 + nb + 2) with cpc in * by (unfold cpc; lia).
          replace (cpc + 0) with cpc in H3a by lia.
          split; [exact H3a|eapply code_at_fetch0; exact H3b].
        - intros f1 ->.
          replace (pc0 + 1 + nb + 2 + length match c0 with Some c1 => [] ++ compile K cc (cpc + 0) c1 ++ [IPop] | None => [] end)
            with fpc in H4.
          2:{ unfold fpc, ncatch, cpc. destruct c0; cbn [length app]; [rewrite app_length, compile_length; cbn [length]|]; lia. }
          replace (cpc + match c0 with Some c1 => 0 + csize K cc c1 + 1 | None => 0 end) with fpc in H4
            by (unfold fpc, ncatch; destruct c0; lia).
          apply code_at_app in H4. destruct H4 as [H4a H4b]. rewrite compile_length in H4b.
          split; [exact H4a|eapply code_at_fetch0; exact H4b]. }
      destruct CODE as (F0 & Hcb & F1 & F2 & Hcc & Hcf). clear Hcode.
      set (H0 := mkH g cpc fpc (length stk) (S (length frs))).
      (* the finally phase after a normal end of the try block or of the catch block *)
      assert (FIN_N : forall o12,
        (f = None /\ o = o12 /\ r = ONormal) \/
        (exists f1 o3 r3, f = Some f1 /\ eval_stmt (eval_fn p f') e f1 = Some (o3, r3) /\ o = o12 ++ o3 /\ r = fin_outcome ONormal r3) ->
        exists cf, steps P (inl (mkS g fpc stk (fr :: frs) hs None false (out ++ o12))) cf /\
                   post c g pc0 sz r stk fr frs hs None false (out ++ o) cf).
      { intros o12 [(-> & -> & ->)|(f1 & o3 & r3 & -> & Ef & -> & ->)].
        - eexists; split; [apply steps_refl|]. cbn [post]. f_equal. f_equal. rewrite Hsz. unfold fpc, cpc. lia.
        - destruct (Hkf1 f1 eq_refl) as [Hkf _]. destruct (Hcf f1 eq_refl) as [Hcf1 Fe].
          assert (Hrl' : rel_loop c (kf_of k (is_some c0)) e (f_base fr) stk il).
          { destruct Hrl as [Hr0 Hr1]. split; [cbn; discriminate|exact Hr1]. }
          destruct (IHf f1 eq_refl c (kf_of k (is_some c0)) fpc g il ic e o3 r3 stk fr frs hs None false (out ++ o12) 0
                      Hg Hcf1 Hkf Hwf' Ef ltac:(lia) (or_introl eq_refl) Hrc Hrl' I Hh (or_introl (conj eq_refl eq_refl)) Hfrs Hfu)
            as (cf1 & S1 & P1).
          rewrite app_assoc.
          destruct r3; cbn [fin_outcome]; try (exists cf1; split; [exact S1|eapply post_abn; [discriminate|exact P1]]).
          cbn [post] in P1. subst cf1. eexists; split.
          + eapply steps_trans; [exact S1|]. eapply steps_one. apply step_IEndFinally_normal; [exact Fe|reflexivity].
          + cbn [post resume_return s_retpend]. f_equal. f_equal. rewrite Hsz. unfold fpc, cpc. lia. }
      (* facts about the try block *)
      assert (Hrlb : rel_loop cb (kb_of k (is_some f)) e (f_base fr) stk il).
      { destruct Hrl as [Hr0 Hr1]. split.
        - cbn. intros HX. apply Hr0. destruct (k_loop k); auto. destruct (is_some f); discriminate.
        - intros Hil. destruct (Hr1 Hil) as (A & B & L & HL & HL1 & HL2). cbn. split; [exact A|]. split; [exact B|].
          exists L. repeat split; auto. }
      assert (Hcrb : compat_ret (kb_of k (is_some f)) cb (H0 :: hs)).
      { unfold compat_ret, kb_of; cbn. destruct (k_ret k); auto. destruct (is_some f); cbn; auto. split; [reflexivity|discriminate]. }
      assert (Hhb : Forall (hok (f_base fr + c_nloc cb) (S (length frs))) (H0 :: hs)).
      { constructor; [|exact Hh]. unfold hok, H0; cbn. lia. }
      apply eval_try_inv in He. destruct He as (o1 & r1 & Eb & o12 & r12 & H12 & HF).
      destruct (IHb cb (kb_of k (is_some f)) (pc0 + 1) g il ic e o1 r1 stk fr frs (H0 :: hs) None false out 0
                  Hg Hcb Hkb Hwb Eb ltac:(cbn; lia) (or_introl eq_refl) Hrc Hrlb Hcrb Hhb (or_introl (conj eq_refl eq_refl)) Hfrs Hfu)
        as (cfb & Sb & Pb).
      assert (S0 : steps P (inl (mkS g pc0 stk (fr :: frs) hs None false out)) cfb).
      { eapply steps_step; [apply step_IPushExcHandler; exact F0|]. replace (S pc0) with (pc0 + 1) by lia. exact Sb. }
      assert (KLOOP : (exists c0', k_loop (kb_of k true) = LBad c0') \/ il = false).
      { destruct Hrl as [Hr0 _]. unfold kb_of; cbn. destruct (k_loop k); eauto. }
      destruct r1.
      - (* the try block ends normally *)
        assert (r12 = ONormal /\ o12 = o1) as [-> ->].
        { destruct H12 as [(v0 & c1 & o2 & X & _)|(_ & -> & ->)]; [discriminate|auto]. }
        cbn [post] in Pb. subst cfb.
        destruct (FIN_N o1 HF) as (cf & S1 & P1). exists cf. split; [|exact P1].
        eapply steps_trans; [exact S0|].
        eapply steps_step; [apply step_IPopExcHandler; fexact F1|].
        eapply steps_step; [apply step_IJump; fexact F2|]. exact S1.
      - (* break out of the try block: only without finally clause *)
        assert (r12 = OBrk /\ o12 = o1) as [-> ->].
        { destruct H12 as [(v0 & c1 & o2 & X & _)|(_ & -> & ->)]; [discriminate|auto]. }
        destruct HF as [(-> & -> & ->)|(f1 & o3 & r3 & -> & Ef & -> & ->)].
        + cbn [post] in Pb. destruct Pb as (L & HL & ->). exists (inl (mkS g (l_break L) (firstn (f_base fr + l_nloc L) stk) (fr :: frs) (skipn (c_try c - l_try L) hs) None false (out ++ o1))).
          split; [|cbn [post]; exists L; split; [exact HL|reflexivity]].
          destruct Hrl as [_ Hr1]. assert (il = true) by (destruct il; auto; pose proof (no_brk p _ b _ false ic _ _ _ (or_intror eq_refl) Hkb Hwb Eb); discriminate).
          subst il. destruct (Hr1 eq_refl) as (_ & _ & L' & HL' & _ & HLt). cbn [c_loop cb] in HL. rewrite HL in HL'. inversion HL'; subst L'.
          cbn [c_try cb] in S0. replace (S (c_try c) - l_try L) with (S (c_try c - l_try L)) in S0 by lia. exact S0.
        + exfalso. pose proof (no_brk p _ b _ il ic _ _ _ KLOOP Hkb Hwb Eb). discriminate.
      - (* continue *)
        assert (r12 = OCont /\ o12 = o1) as [-> ->].
        { destruct H12 as [(v0 & c1 & o2 & X & _)|(_ & -> & ->)]; [discriminate|auto]. }
        destruct HF as [(-> & -> & ->)|(f1 & o3 & r3 & -> & Ef & -> & ->)].
        + cbn [post] in Pb. destruct Pb as (L & HL & ->). exists (inl (mkS g (l_start L) (firstn (f_base fr + l_nloc L) stk) (fr :: frs) (skipn (c_try c - l_try L) hs) None false (out ++ o1))).
          split; [|cbn [post]; exists L; split; [exact HL|reflexivity]].
          destruct Hrl as [_ Hr1]. assert (il = true) by (destruct il; auto; pose proof (no_brk p _ b _ false ic _ _ _ (or_intror eq_refl) Hkb Hwb Eb); discriminate).
          subst il. destruct (Hr1 eq_refl) as (_ & _ & L' & HL' & _ & HLt). cbn [c_loop cb] in HL. rewrite HL in HL'. inversion HL'; subst L'.
          cbn [c_try cb] in S0. replace (S (c_try c) - l_try L) with (S (c_try c - l_try L)) in S0 by lia. exact S0.
        + exfalso. pose proof (no_brk p _ b _ il ic _ _ _ KLOOP Hkb Hwb Eb). discriminate.
      - (* return from the try block: through the finally clause *)
        assert (r12 = ORet v /\ o12 = o1) as [-> ->].
        { destruct H12 as [(v0 & c1 & o2 & X & _)|(_ & -> & ->)]; [discriminate|auto]. }
        assert (KR : k_ret k = RPlain /\ is_some f = true).
        { destruct (k_ret k) eqn:EK, (is_some f) eqn:EF; auto; exfalso;
            (assert (X : is_ret (ORet v) = false);
             [eapply (no_ret p _ b (kb_of k _)); [|exact Hkb|exact Eb]; unfold kb_of; cbn; rewrite ?EK; eauto|discriminate]). }
        destruct KR as [EK EF]. destruct f as [f1|]; [|discriminate]. clear EF.
        unfold compat_ret in Hcr. rewrite EK in Hcr.
        destruct HF as [(X & _)|(f1' & o3 & r3 & X & Ef & -> & ->)]; [discriminate|]. inversion X; subst f1'. clear X.
        cbn [post c_intry cb] in Pb. destruct Pb as (h & hs' & rpc & Hhs & Frpc & ->). inversion Hhs; subst h hs'. clear Hhs.
        cbn [h_fn h_fin h_height H0] in S0. rewrite firstn_all in S0.
        destruct (Hkf1 f1 eq_refl) as [Hkf Hthrow]. destruct (Hcf f1 eq_refl) as [Hcf1 Fe].
        assert (Hret : has_return b = true) by (eapply ret_has_return; eauto).
        rewrite Hret in Hthrow. cbn [orb andb] in Hthrow.
        assert (Hrl' : rel_loop c (kf_of k (is_some c0)) e (f_base fr) stk il).
        { destruct Hrl as [Hr0 Hr1]. split; [cbn; discriminate|exact Hr1]. }
        assert (Hq' : (false = false /\ Some (v, (g, rpc)) = None) \/ exists F, tryfree p F f1 = true).
        { right. exists nf. eapply infin_tryfree; [|exact Hkf]. reflexivity. }
        destruct (IHf f1 eq_refl c (kf_of k (is_some c0)) fpc g il ic e o3 r3 stk fr frs hs (Some (v, (g, rpc))) false (out ++ o1) 0
                    Hg Hcf1 Hkf Hwf' Ef ltac:(lia) (or_introl eq_refl) Hrc Hrl' I Hh Hq' Hfrs Hfu)
          as (cf1 & S1 & P1).
        assert (R3e : is_exc r3 = false) by (eapply no_exc; eauto).
        assert (R3r : is_ret r3 = false) by (eapply (no_ret p _ f1 (kf_of k (is_some c0))); [|exact Hkf|exact Ef]; cbn; eauto).
        assert (R3b : is_brk r3 = false) by (eapply (no_brk p _ f1 (kf_of k (is_some c0))); [|exact Hkf|exact Hwf'|exact Ef]; left; cbn; eauto).
        destruct r3; try discriminate. cbn [fin_outcome].
        cbn [post] in P1. subst cf1.
        destruct frs as [|fr2 frs]; [congruence|].
        eexists; split.
        + eapply steps_trans; [exact S0|]. eapply steps_trans; [exact S1|].
          eapply steps_step; [apply step_IEndFinally_normal; [exact Fe|reflexivity]|].
          cbn [resume_return s_retpend s_stack s_frames s_handlers s_he s_out].
          eapply steps_one. apply step_IReturn. exact Frpc.
        + cbn [post]. rewrite Hcr. rewrite app_assoc. reflexivity.
      - (* exception in the try block *)
        cbn [post] in Pb. unfold raise in Pb. cbn [h_frames H0 length] in Pb. rewrite Nat.sub_diag in Pb. cbn [skipn] in Pb.
        cbn [h_fn h_catch h_height H0] in Pb. rewrite firstn_all in Pb. subst cfb.
        destruct H12 as [(v0 & c1 & o2 & X & -> & Ec & ->)|(Hnc & -> & ->)].
        + (* taken by the catch clause *)
          inversion X; subst v0. clear X.
          destruct (Hcc c1 eq_refl) as [Hcc1 Fp]. destruct (Hkc1 c1 eq_refl) as [Hkc Hct].
          assert (Hne : cpc =? fpc = false) by (apply Nat.eqb_neq; unfold fpc, ncatch; lia).
          unfold he_after in S0. cbn [unwind_he cfg_assign h_catch h_fin H0] in S0. rewrite Hne in S0.
          assert (Hrc' : rel_catch cc {| e_exc := v; e_iter := e_iter e |} (f_base fr) (stk ++ [v]) true).
          { intros _. cbn. split; [lia|]. rewrite Hlen. apply nth_error_snoc_exact. }
          assert (Hrl' : rel_loop cc (kc_of k (is_some f)) {| e_exc := v; e_iter := e_iter e |} (f_base fr) (stk ++ [v]) il).
          { destruct Hrl as [Hr0 Hr1]. split.
            - cbn. intros HX. apply Hr0. destruct (k_loop k); auto. destruct (is_some f); discriminate.
            - intros Hil. destruct (Hr1 Hil) as (A & B & L & HL & HL1 & HL2). cbn. split; [lia|]. split.
              + rewrite nth_error_app_lt; [exact B|lia].
              + exists L. repeat split; auto. }
          assert (Hcr' : compat_ret (kc_of k (is_some f)) cc hs).
          { unfold compat_ret, kc_of; cbn. destruct (is_some f); auto. }
          assert (Hh' : Forall (hok (f_base fr + c_nloc cc) (S (length frs))) hs).
          { eapply Forall_hok_mono; [exact Hh|cbn; lia|lia]. }
          destruct (IHc c1 eq_refl cc (kc_of k (is_some f)) cpc g il true _ o2 r12 (stk ++ [v]) fr frs hs None false (out ++ o1) 0
                      Hg Hcc1 Hkc Hwc Ec ltac:(rewrite app_length; cbn; lia) (or_introl eq_refl) Hrc' Hrl' Hcr' Hh'
                      (or_introl (conj eq_refl eq_refl)) Hfrs Hfu) as (cfc & Sc & Pc).
          destruct r12.
          * (* the catch block ends normally *)
            cbn [post] in Pc. subst cfc.
            destruct (FIN_N (o1 ++ o2) HF) as (cf & S1 & P1). exists cf. split; [|exact P1].
            eapply steps_trans; [exact S0|]. eapply steps_trans; [exact Sc|].
            eapply steps_step; [apply step_IPop; exact Fp|].
            replace (S (cpc + csize K cc c1)) with fpc by (unfold fpc, ncatch; lia).
            rewrite <- app_assoc. exact S1.
          * (* abnormal ends of the catch block: only without finally clause *)
            destruct HF as [(-> & -> & ->)|(f1 & o3 & r3 & -> & Ef & -> & ->)].
            -- exists cfc. split; [eapply steps_trans; [exact S0|exact Sc]|]. rewrite app_assoc.
               eapply (post_transfer c cc g pc0 cpc sz (csize K cc c1) OBrk stk [v]);
                 [discriminate| |discriminate|exact Hh|lia|exact Pc].
               intros _. split; [reflexivity|]. split; [reflexivity|]. intros L HL.
               destruct Hrl as [_ Hr1]. destruct il; [|pose proof (no_brk p _ c1 _ false true _ _ _ (or_intror eq_refl) Hkc Hwc Ec); discriminate].
               destruct (Hr1 eq_refl) as (_ & _ & L' & HL' & HLn & _). rewrite HL in HL'. inversion HL'; subst L'. lia.
            -- exfalso. assert (X : is_brk OBrk = false); [|discriminate].
               eapply (no_brk p _ c1 (kc_of k true)); [|exact Hkc|exact Hwc|exact Ec]. exact KLOOP.
          * destruct HF as [(-> & -> & ->)|(f1 & o3 & r3 & -> & Ef & -> & ->)].
            -- exists cfc. split; [eapply steps_trans; [exact S0|exact Sc]|]. rewrite app_assoc.
               eapply (post_transfer c cc g pc0 cpc sz (csize K cc c1) OCont stk [v]);
                 [discriminate| |discriminate|exact Hh|lia|exact Pc].
               intros _. split; [reflexivity|]. split; [reflexivity|]. intros L HL.
               destruct Hrl as [_ Hr1]. destruct il; [|pose proof (no_brk p _ c1 _ false true _ _ _ (or_intror eq_refl) Hkc Hwc Ec); discriminate].
               destruct (Hr1 eq_refl) as (_ & _ & L' & HL' & HLn & _). rewrite HL in HL'. inversion HL'; subst L'. lia.
            -- exfalso. assert (X : is_brk OCont = false); [|discriminate].
               eapply (no_brk p _ c1 (kc_of k true)); [|exact Hkc|exact Hwc|exact Ec]. exact KLOOP.
          * destruct HF as [(-> & -> & ->)|(f1 & o3 & r3 & -> & Ef & -> & ->)].
            -- exists cfc. split; [eapply steps_trans; [exact S0|exact Sc]|]. rewrite app_assoc.
               eapply (post_transfer c cc g pc0 cpc sz (csize K cc c1) (ORet v0) stk [v]);
                 [discriminate|discriminate| |exact Hh|lia|exact Pc].
               intros _. split; [reflexivity|lia].
            -- exfalso. assert (X : is_ret (ORet v0) = false); [|discriminate].
               eapply (no_ret p _ c1 (kc_of k true)); [|exact Hkc|exact Ec]. cbn; eauto.
          * destruct HF as [(-> & -> & ->)|(f1 & o3 & r3 & -> & Ef & -> & ->)].
            -- exists cfc. split; [eapply steps_trans; [exact S0|exact Sc]|]. rewrite app_assoc.
               eapply (post_transfer c cc g pc0 cpc sz (csize K cc c1) (OExc v0) stk [v]);
                 [discriminate|discriminate|discriminate|exact Hh|lia|exact Pc].
            -- exfalso. cbn [is_some andb] in Hct. assert (X : is_exc (OExc v0) = false); [|discriminate].
               eapply no_exc; eauto.
        + (* no catch clause: the finally block runs with the exception on the stack, then EndFinally rethrows *)
          specialize (Hnc v eq_refl). subst c0.
          destruct f as [f1|]; [|discriminate].
          destruct HF as [(X & _)|(f1' & o3 & r3 & X & Ef & -> & ->)]; [discriminate|]. inversion X; subst f1'. clear X.
          assert (Heq : cpc =? fpc = true) by (apply Nat.eqb_eq; unfold fpc, ncatch; lia).
          unfold he_after in S0. cbn [unwind_he cfg_assign h_catch h_fin H0] in S0. rewrite Heq in S0.
          assert (cpc = fpc) by (unfold fpc, ncatch; lia).
          destruct (Hkf1 f1 eq_refl) as [Hkf _]. destruct (Hcf f1 eq_refl) as [Hcf1 Fe].
          assert (Hflat : flat f1 = true) by (eapply (fin_nocatch_flat p f1 (kf_of k false)); [reflexivity|reflexivity|cbn; eauto|exact Hkf]).
          assert (Hrc' : rel_catch c e (f_base fr) (stk ++ [v]) ic).
          { intros Hic. destruct (Hrc Hic) as [A B]. split; [exact A|]. rewrite nth_error_app_lt; [exact B|lia]. }
          assert (Hrl' : rel_loop c (kf_of k false) e (f_base fr) (stk ++ [v]) il).
          { destruct Hrl as [Hr0 Hr1]. split; [cbn; discriminate|]. intros Hil. destruct (Hr1 Hil) as (A & B & HL).
            split; [exact A|]. split; [|exact HL]. rewrite nth_error_app_lt; [exact B|lia]. }
          assert (Hq' : (true = false /\ @None (val * (nat * nat)) = None) \/ exists F, tryfree p F f1 = true).
          { right. exists nf. eapply infin_tryfree; [|exact Hkf]. reflexivity. }
          destruct (IHf f1 eq_refl c (kf_of k false) fpc g il ic e o3 r3 (stk ++ [v]) fr frs hs None true (out ++ o1) 1
                      Hg Hcf1 Hkf Hwf' Ef ltac:(rewrite app_length; cbn; lia) (or_intror Hflat) Hrc' Hrl' I Hh Hq' Hfrs Hfu)
            as (cf1 & S1 & P1).
          assert (R3r : is_ret r3 = false) by (eapply (no_ret p _ f1 (kf_of k false)); [|exact Hkf|exact Ef]; cbn; eauto).
          assert (R3b : is_brk r3 = false) by (eapply (no_brk p _ f1 (kf_of k false)); [|exact Hkf|exact Hwf'|exact Ef]; left; cbn; eauto).
          rewrite H in S0.
          destruct r3; try discriminate; cbn [fin_outcome].
          * cbn [post] in P1. subst cf1.
            exists (raise hs v stk (fr :: frs) None ((out ++ o1) ++ o3)). split; [|cbn [post]; now rewrite app_assoc].
            eapply steps_trans; [exact S0|]. eapply steps_trans; [exact S1|].
            eapply steps_one. rewrite step_IEndFinally_exc; [|exact Fe|reflexivity].
            rewrite (unwind_raise g _ stk v (fr :: frs) hs None true _ (f_base fr + c_nloc c)); [|exact Hh|lia].
            destruct (raise hs v stk (fr :: frs) None ((out ++ o1) ++ o3)) as [st'|] eqn:ER; [|reflexivity].
            unfold resume_return. rewrite (raise_retpend _ _ _ _ _ _ _ ER). reflexivity.
          * exists cf1. split; [eapply steps_trans; [exact S0|exact S1]|]. rewrite app_assoc.
            eapply (post_transfer c c g pc0 fpc sz (csize K c f1) (OExc v0) stk [v]);
              [discriminate|discriminate|discriminate|exact Hh|lia|exact P1].
    Qed.

    Theorem sim_all : forall s, Sim f' s.
    Proof.
      induction s using stmt_ind'.
      - apply sim_skip. - apply sim_seq; auto. - apply sim_print. - apply sim_printexc. - apply sim_throw.
      - apply sim_fail. - apply sim_nativefail. - apply sim_try; auto. - apply sim_loop; auto. - apply sim_ifiter; auto.
      - apply sim_break. - apply sim_continue. - apply sim_return. - apply sim_call.
    Qed.

  End Cases.

  Lemma tryfree_fn_body F g : tryfree_fn p F g = true -> exists F', tryfree p F' (body p g) = true.
  Proof. destruct F; [discriminate|]. cbn [tryfree_fn]. intros H. exists F. exact H. Qed.

  (* calls: by induction on the depth the Spec looks through *)
  Theorem callsim_all : forall f', CallSim f'.
  Proof.
    induction f' as [|f' IH]; intros g oc r Hg He; [discriminate|].
    intros stk frs hs rp he out ret Hfrs Hfu Hh Hq.
    cbn [eval_fn] in He.
    destruct (eval_stmt (eval_fn p f') env0 (body p g)) as [[o0 r0]|] eqn:Eb; [|discriminate].
    pose proof (fn_code g Hg) as HC. unfold compile_fn in HC.
    assert (Hcode : code_at (nth g P []) 0 (compile K (cctx0) 0 (body p g) ++ [INil; IReturn])).
    { rewrite HC. intros i x Hi. exact Hi. }
    apply code_at_app in Hcode. destruct Hcode as [Hcb Hce]. rewrite compile_length in Hce. cbn [Nat.add] in Hce.
    pose proof (code_at_fetch0 _ _ _ _ Hce) as F0. apply code_at_tail in Hce. pose proof (code_at_fetch0 _ _ _ _ Hce) as F1.
    set (fr := mkF g (length stk) ret).
    assert (Hlen : f_base fr + c_nloc cctx0 + 0 = length (stk ++ [VFn g])) by (rewrite app_length; cbn; lia).
    assert (Hrc : rel_catch cctx0 env0 (f_base fr) (stk ++ [VFn g]) false) by (intros X; discriminate).
    assert (Hrl : rel_loop cctx0 kctx0 env0 (f_base fr) (stk ++ [VFn g]) false) by (split; [reflexivity|intros X; discriminate]).
    assert (Hcr : compat_ret kctx0 cctx0 hs) by reflexivity.
    assert (Hh' : Forall (hok (f_base fr + c_nloc cctx0) (S (length frs))) hs).
    { eapply Forall_hok_mono; [exact Hh|cbn; lia|lia]. }
    assert (Hq' : (he = false /\ rp = None) \/ exists F, tryfree p F (body p g) = true).
    { destruct Hq as [Hq|[F Hq]]; auto. right. eapply tryfree_fn_body; eauto. }
    destruct (sim_all f' IH (body p g) cctx0 kctx0 0 g false false env0 o0 r0 (stk ++ [VFn g]) fr frs hs rp he out 0
                Hg Hcb (fn_cls g Hg) (fn_wf g Hg) Eb Hlen (or_introl eq_refl) Hrc Hrl Hcr Hh' Hq' Hfrs ltac:(lia))
      as (cf & S1 & P1).
    destruct frs as [|fr2 frs]; [congruence|].
    assert (RB : is_brk r0 = false).
    { eapply (no_brk p _ (body p g) kctx0 false false); [right; reflexivity|apply fn_cls; exact Hg|apply fn_wf; exact Hg|exact Eb]. }
    destruct r0; try discriminate; cbn [fn_result] in He; inversion He; subst; cbn [post] in P1.
    - (* falls off the end: Nil; Return *)
      subst cf. eexists; split.
      + eapply steps_trans; [exact S1|].
        eapply steps_step; [apply step_INil; fexact F0|].
        eapply steps_one. apply step_IReturn. fexact F1.
      + cbn [f_ret f_base fr fst snd]. rewrite firstn_app_exact. reflexivity.
    - (* return *)
      cbn [c_intry cctx0] in P1. subst cf. eexists; split; [exact S1|].
      cbn [f_ret f_base fr fst snd]. rewrite firstn_app_exact. reflexivity.
    - (* exception *)
      exists cf. split; [exact S1|]. subst cf.
      change (fr :: fr2 :: frs) with ([fr] ++ fr2 :: frs).
      eapply raise_ext; [exact Hh|lia].
  Qed.

  (* ---------------------------------------------------------------------------------------------- *)
  (* the whole run: script `print(main());` *)
  Theorem refine_run : forall fuel res, fuel <= 63 ->
    eval_spec p fuel = Some res -> exists n, run_m K p n = Some res.
  Proof.
    intros fuel res Hfu He. unfold eval_spec in He.
    assert (Hnf : 1 <= nf).
    { unfold wf_prog in Hwf. apply andb_prop in Hwf. destruct Hwf as [H1 _]. apply Nat.leb_le in H1. exact H1. }
    assert (Hm : main_ix p < nf) by (unfold main_ix; lia).
    destruct (eval_fn p fuel (main_ix p)) as [[oc rc]|] eqn:Em; [|discriminate].
    pose proof script_code_at as HS. unfold script_code in HS.
    assert (F : forall i x, nth_error [IPushNative; ICall (main_ix p); IPrintTop; IPop; INil; IReturn] i = Some x ->
                            fetch P nf i = Some x).
    { intros i x Hi. unfold fetch. rewrite HS. exact Hi. }
    set (fr0 := mkF nf 0 (nf, 0)).
    destruct (callsim_all fuel (main_ix p) oc rc Hm Em [VFn nf; VNative] [fr0] [] None false [] (nf, 2)
                ltac:(discriminate) ltac:(cbn [length]; lia) (Forall_nil _) (or_introl (conj eq_refl eq_refl)))
      as (cf & S1 & P1).
    assert (S0 : steps P (inl (init_state p)) cf).
    { unfold init_state. fold fr0.
      eapply steps_step; [apply step_IPushNative; apply (F 0); reflexivity|].
      eapply steps_step; [apply step_ICall; [apply (F 1); reflexivity|rewrite P_length; lia|unfold FRAMES_MAX; cbn; lia]|].
      exact S1. }
    assert (exists n, run K P n (inl (init_state p)) = inr (snd res, fst res)) as [n Hn].
    { apply steps_run. destruct rc as [v|v]; inversion He; subst res; cbn [fst snd].
      - subst cf. eapply steps_trans; [exact S0|]. cbn [fst snd].
        eapply steps_step; [apply (step_IPrintTop P nf 2 [VFn nf] v); apply (F 2); reflexivity|].
        eapply steps_step; [apply step_IPop; apply (F 3); reflexivity|].
        eapply steps_step; [apply step_INil; apply (F 4); reflexivity|].
        eapply steps_one. cbn [app]. apply (step_IReturn_last P nf 5 [VFn nf] VNil). apply (F 5); reflexivity.
      - subst cf. exact S0. }
    exists n. unfold run_m. rewrite Hn. destruct res; reflexivity.
  Qed.
End Sim.

(* ------------------------------------------------------------------------------------------------ *)
(* headline *)
Theorem handlers_refine_spec : forall p fuel res,
  wf_prog p = true -> in_known_class p = None -> fuel <= 63 ->
  eval_spec p fuel = Some res -> exists n, run_m K p n = Some res.
Proof. intros p fuel res Hw Hc Hf He. eapply refine_run; eauto. Qed.
Print Assumptions handlers_refine_spec.

(* ------------------------------------------------------------------------------------------------ *)
(* statement level: every statement of every function of a program outside the classes *)
Theorem stmt_sim : forall p, wf_prog p = true -> in_known_class p = None -> forall f' s, Sim p f' s.
Proof. intros p Hw Hc f' s. apply sim_all; auto. apply callsim_all; auto. Qed.
Print Assumptions stmt_sim.

Section Corollaries.
  Variable p : prog.
  Hypothesis Hwf : wf_prog p = true.
  Hypothesis Hcls : in_known_class p = None.
  Local Notation P := (compile_prog K p).
  Local Notation nf := (length p).

  (* the hypotheses of Sim, for a statement s at pc0 of function g, entered in machine state
     (stk, fr :: frs, hs, rp, he, out) *)
  Definition entered (f' : nat) (s : stmt) (c : cctx) (k : kctx) (pc0 g : nat) (il ic : bool) (e : env)
                     (stk : list val) (fr : frame) (frs : list frame) (hs : list handler)
                     (rp : option (val * (nat * nat))) (he : bool) (d : nat) : Prop :=
    g < nf /\ code_at (nth g P []) pc0 (compile K c pc0 s) /\ known_class_stmt p k s = None /\
    wf_stmt nf il ic s = true /\ f_base fr + c_nloc c + d = length stk /\ (d = 0 \/ flat s = true) /\
    rel_catch c e (f_base fr) stk ic /\ rel_loop c k e (f_base fr) stk il /\ compat_ret k c hs /\
    Forall (hok (f_base fr + c_nloc c) (S (length frs))) hs /\
    ((he = false /\ rp = None) \/ exists F, tryfree p F s = true) /\ frs <> [] /\ S (length frs) + f' <= 64.

  Lemma entered_sim f' s c k pc0 g il ic e stk fr frs hs rp he d out o r :
    entered f' s c k pc0 g il ic e stk fr frs hs rp he d ->
    eval_stmt (eval_fn p f') e s = Some (o, r) ->
    exists cf, steps P (inl (mkS g pc0 stk (fr :: frs) hs rp he out)) cf /\
               post p c g pc0 (csize K c s) r stk fr frs hs rp he (out ++ o) cf.
  Proof.
    intros (H1 & H2 & H3 & H4 & H5 & H6 & H7 & H8 & H9 & H10 & H11 & H12 & H13) He.
    eapply (stmt_sim p Hwf Hcls f' s); eauto.
  Qed.

  (* the handler stack after a statement that has been left, whatever the path *)
  Definition handlers_after (c : cctx) (r : outcome) (hs : list handler) (cf : config) : Prop :=
    match r with
    | ONormal => exists st, cf = inl st /\ s_handlers st = hs
    | OBrk | OCont => exists st L, cf = inl st /\ c_loop c = Some L /\ s_handlers st = skipn (c_try c - l_try L) hs
    | ORet _ => if c_intry c then exists st, cf = inl st /\ s_handlers st = tl hs
                else exists st, cf = inl st /\ s_handlers st = hs
    | OExc _ => match cf with inl st => s_handlers st = tl hs | inr (f, _) => hs = [] \/ f = FStuck end
    end.

  Lemma post_handlers c g pc0 sz r stk fr frs hs rp he out cf :
    post p c g pc0 sz r stk fr frs hs rp he out cf -> handlers_after c r hs cf.
  Proof.
    destruct r; cbn [post handlers_after].
    - intros ->. eauto.
    - intros (L & HL & ->). eauto.
    - intros (L & HL & ->). eauto.
    - destruct (c_intry c).
      + intros (h & hs' & rpc & -> & _ & ->). eauto.
      + intros ->. eauto.
    - intros ->. unfold raise. destruct hs as [|h hs']; [auto|]. destruct (skipn _ _); cbn; auto.
  Qed.

  (* handler_stack_balanced / left_try_never_intercepts: a statement - in particular a try statement - that has been
     left by normal end, break, continue, return or exception leaves no handler of its own behind: the handler
     stack is the one at its entry (minus the enclosing try blocks a break/continue/return leaves as well; for an
     exception: minus the handler that receives it) *)
  Theorem handler_stack_balanced f' s c k pc0 g il ic e stk fr frs hs rp he d out o r :
    entered f' s c k pc0 g il ic e stk fr frs hs rp he d ->
    eval_stmt (eval_fn p f') e s = Some (o, r) ->
    exists cf, steps P (inl (mkS g pc0 stk (fr :: frs) hs rp he out)) cf /\ handlers_after c r hs cf.
  Proof.
    intros H He. destruct (entered_sim f' s c k pc0 g il ic e stk fr frs hs rp he d out o r H He) as (cf & S1 & P1).
    exists cf. split; [exact S1|eapply post_handlers; exact P1].
  Qed.

  Theorem left_try_never_intercepts f' b c0 f c k pc0 g il ic e stk fr frs hs rp he d out o r :
    entered f' (Try b c0 f) c k pc0 g il ic e stk fr frs hs rp he d ->
    eval_stmt (eval_fn p f') e (Try b c0 f) = Some (o, r) ->
    exists cf, steps P (inl (mkS g pc0 stk (fr :: frs) hs rp he out)) cf /\ handlers_after c r hs cf.
  Proof. apply handler_stack_balanced. Qed.

  (* throw_reaches_innermost: an exception that escapes a statement - thrown directly, by a failing built-in or in a
     callee at any depth - is delivered to the innermost handler active at the statement's entry: control continues
     at its catch address in the frame that pushed it, the stack cut back to the handler's height (the handling
     function's variables intact) with the exception on top, and exactly this handler popped *)
  Theorem throw_reaches_innermost f' s c k pc0 g il ic e stk fr frs h hs rp he d out o v :
    entered f' s c k pc0 g il ic e stk fr frs (h :: hs) rp he d ->
    eval_stmt (eval_fn p f') e s = Some (o, OExc v) ->
    exists frs', skipn (S (length frs) - h_frames h) (fr :: frs) = frs' /\ frs' <> [] /\
      steps P (inl (mkS g pc0 stk (fr :: frs) (h :: hs) rp he out))
              (inl (mkS (h_fn h) (h_catch h) (firstn (h_height h) stk ++ [v]) frs' hs rp
                        (h_catch h =? h_fin h) (out ++ o))).
  Proof.
    intros H He. pose proof H as H'. destruct H' as (_ & _ & _ & _ & _ & _ & _ & _ & _ & Hh & _).
    destruct (entered_sim f' s c k pc0 g il ic e stk fr frs (h :: hs) rp he d out o _ H He) as (cf & S1 & P1).
    cbn [post] in P1. unfold raise in P1. cbn [length] in P1.
    inversion Hh as [|? ? [H1 [H2 H3]] H4]; subst.
    destruct (skipn (S (length frs) - h_frames h) (fr :: frs)) as [|fr' frs''] eqn:E.
    - exfalso. apply (f_equal (@length frame)) in E. rewrite skipn_length in E. cbn [length] in E. lia.
    - eexists; split; [reflexivity|]. split; [discriminate|]. try subst cf. exact S1.
  Qed.

  (* an exception nobody catches ends the run with an error naming the thrown value *)
  Theorem uncaught_names_value f' s c k pc0 g il ic e stk fr frs rp he d out o v :
    entered f' s c k pc0 g il ic e stk fr frs [] rp he d ->
    eval_stmt (eval_fn p f') e s = Some (o, OExc v) ->
    steps P (inl (mkS g pc0 stk (fr :: frs) [] rp he out)) (inr (FUncaught v, out ++ o)).
  Proof.
    intros H He. destruct (entered_sim f' s c k pc0 g il ic e stk fr frs [] rp he d out o _ H He) as (cf & S1 & P1).
    cbn [post raise] in P1. subst cf. exact S1.
  Qed.

  (* finally_exactly_once / outcome_continues: whatever way the try/catch part (output o12, outcome r12) is left, the
     machine emits o12 followed by ONE copy of the output o3 of the finally block, and ends in the state that
     continues r12 when the finally block ends normally (fall-through / the function returns v to its caller /
     the exception is raised to the handlers of the entry) - or in the finally block's own abnormal outcome *)
  Theorem finally_exactly_once f' b c0 f1 c k pc0 g il ic e stk fr frs hs rp he d out o r :
    entered f' (Try b c0 (Some f1)) c k pc0 g il ic e stk fr frs hs rp he d ->
    eval_stmt (eval_fn p f') e (Try b c0 (Some f1)) = Some (o, r) ->
    exists o12 r12 o3 r3,
      eval_stmt (eval_fn p f') e (Try b c0 None) = Some (o12, r12) /\
      eval_stmt (eval_fn p f') e f1 = Some (o3, r3) /\
      o = o12 ++ o3 /\ r = fin_outcome r12 r3 /\
      exists cf, steps P (inl (mkS g pc0 stk (fr :: frs) hs rp he out)) cf /\
                 post p c g pc0 (csize K c (Try b c0 (Some f1))) (fin_outcome r12 r3) stk fr frs hs rp he (out ++ o12 ++ o3) cf.
  Proof.
    intros H He. destruct (entered_sim f' _ c k pc0 g il ic e stk fr frs hs rp he d out o r H He) as (cf & S1 & P1).
    pose proof He as He'. apply eval_try_inv in He'. destruct He' as (o1 & r1 & Eb & o12 & r12 & H12 & HF).
    destruct HF as [(X & _)|(f1' & o3 & r3 & X & Ef & -> & ->)]; [discriminate|]. inversion X; subst f1'.
    exists o12, r12, o3, r3. split.
    - cbn [eval_stmt]. rewrite Eb.
      destruct H12 as [(v & c1 & o2 & -> & -> & Ec & ->)|(Hn & -> & ->)].
      + rewrite Ec. reflexivity.
      + destruct r1; try reflexivity. rewrite (Hn v eq_refl). reflexivity.
    - split; [exact Ef|]. split; [reflexivity|]. split; [reflexivity|]. exists cf. split; [exact S1|exact P1].
  Qed.

  Theorem outcome_continues f' b c0 f1 c k pc0 g il ic e stk fr frs hs rp he d out o12 r12 o3 :
    entered f' (Try b c0 (Some f1)) c k pc0 g il ic e stk fr frs hs rp he d ->
    eval_stmt (eval_fn p f') e (Try b c0 None) = Some (o12, r12) ->
    eval_stmt (eval_fn p f') e f1 = Some (o3, ONormal) ->
    exists cf, steps P (inl (mkS g pc0 stk (fr :: frs) hs rp he out)) cf /\
               post p c g pc0 (csize K c (Try b c0 (Some f1))) r12 stk fr frs hs rp he (out ++ o12 ++ o3) cf.
  Proof.
    intros H E12 Ef.
    assert (He : eval_stmt (eval_fn p f') e (Try b c0 (Some f1)) = Some (o12 ++ o3, r12)).
    { cbn [eval_stmt] in *. destruct (eval_stmt (eval_fn p f') e b) as [[o1 r1]|]; [|discriminate].
      destruct r1; try (inversion E12; subst; rewrite Ef; reflexivity).
      destruct c0 as [c1|].
      - destruct (eval_stmt (eval_fn p f') {| e_exc := v; e_iter := e_iter e |} c1) as [[o2 r2]|]; [|discriminate].
        inversion E12; subst. rewrite Ef. reflexivity.
      - inversion E12; subst. rewrite Ef. reflexivity. }
    destruct (entered_sim f' _ c k pc0 g il ic e stk fr frs hs rp he d out _ _ H He) as (cf & S1 & P1).
    exists cf. split; [exact S1|]. exact P1.
  Qed.

  (* catch_does_not_disable_outer: handling an exception in a catch clause leaves every outer handler in place *)
  Theorem catch_does_not_disable_outer f' b c1 c k pc0 g il ic e stk fr frs hs rp he d out o1 v o2 :
    entered f' (Try b (Some c1) None) c k pc0 g il ic e stk fr frs hs rp he d ->
    eval_stmt (eval_fn p f') e b = Some (o1, OExc v) ->
    eval_stmt (eval_fn p f') {| e_exc := v; e_iter := e_iter e |} c1 = Some (o2, ONormal) ->
    steps P (inl (mkS g pc0 stk (fr :: frs) hs rp he out))
            (inl (mkS g (pc0 + csize K c (Try b (Some c1) None)) stk (fr :: frs) hs rp he (out ++ o1 ++ o2))).
  Proof.
    intros H Eb Ec.
    assert (He : eval_stmt (eval_fn p f') e (Try b (Some c1) None) = Some (o1 ++ o2, ONormal)).
    { cbn [eval_stmt]. rewrite Eb, Ec. reflexivity. }
    destruct (entered_sim f' _ c k pc0 g il ic e stk fr frs hs rp he d out _ _ H He) as (cf & S1 & P1).
    cbn [post] in P1. subst cf. exact S1.
  Qed.
End Corollaries.
Print Assumptions handler_stack_balanced.
Print Assumptions throw_reaches_innermost.
Print Assumptions finally_exactly_once.
Print Assumptions outcome_continues.
Print Assumptions catch_does_not_disable_outer.

End Generic.

(* ------------------------------------------------------------------------------------------------ *)
(* the hypotheses are satisfiable: a program with two handlers active at the throw, a finally block run on the
   exceptional path, a loop left by break out of a try block, a return through a finally block *)
From Coq Require Import String.
Open Scope string_scope.
Definition ex_prog : prog :=
  parse_prog "1 7 3 6 1 0 1 8 2 9 6 0 1 4 1 2 2 1 3 2 3 12 0;6 0 1 11 5 2 6;1 6 1 1 1 12 1 5 3 2 7 2 8".
Example ex_prog_ok : wf_prog ex_prog = true /\ in_known_class ex_prog = None /\
  eval_spec ex_prog 10 = run_m cfg_today ex_prog 400 /\ exists r, eval_spec ex_prog 10 = Some r.
Proof. vm_compute. repeat split; eauto. Qed.

(* ------------------------------------------------------------------------------------------------ *)
(* one witness per open class: the faithful model deviates from the Spec (replayed on the real binary by the check) *)
Definition refutes (K0 : cfg) (w : string) (cl : option cls) : Prop :=
  let p := parse_prog w in
  wf_prog p = true /\ in_known_class p = cl /\
  exists rs rm, eval_spec p 20 = Some rs /\ run_m K0 p 2000 = Some rm /\ rs <> rm.

Ltac refute := unfold refutes; vm_compute; split; [reflexivity|split; [reflexivity|]];
  do 2 eexists; split; [reflexivity|split; [reflexivity|discriminate]].

Definition wit_early_exit_break := "1 7 1 6 0 1 9 2 1 2 2".
Definition wit_early_exit_return2 := "6 0 1 6 0 1 11 1 2 2 2 3".
Definition wit_early_exit_catch := "6 1 1 4 1 11 2 2 3".
Definition wit_return_no_finally := "1 6 1 0 11 1 0 1 2 2 11 3".
Definition wit_finally_local := "6 0 1 4 1 7 1 2 2;1 6 1 0 12 0 3 2 3".
Definition wit_he_global_nested := "6 0 1 4 1 6 1 0 4 2 0;1 6 1 0 12 0 3 2 3".
Definition wit_he_global_callee := "6 0 1 2 1 2 2;6 0 1 4 3 12 0;6 1 0 12 1 3".
Definition wit_abrupt_finally := "1 7 1 6 0 1 4 1 9 1 6 0 1 2 2 2 3 1 2 4 11 5".
Definition wit_pending_return := "6 0 1 11 1 4 2;1 6 1 0 12 0 3 1 6 0 1 2 3 2 4 1 2 5 11 6".
Definition wit_catch_pops_outer := "6 1 0 1 6 1 0 4 1 0 4 2 1 3 2 9".
Definition wit_break_in_try := "1 7 2 6 1 0 9 2 5 4 7;6 1 0 12 0 3".

Lemma early_exit_skips_finally_refuted : refutes cfg_today wit_early_exit_break (Some EarlyExitSkipsFinally).
Proof. refute. Qed.
Lemma return_through_two_tries_refuted : refutes cfg_today wit_early_exit_return2 (Some EarlyExitSkipsFinally).
Proof. refute. Qed.
Lemma return_in_catch_skips_finally_refuted : refutes cfg_today wit_early_exit_catch (Some EarlyExitSkipsFinally).
Proof. refute. Qed.
Lemma return_in_try_catch_no_finally_refuted : refutes cfg_today wit_return_no_finally (Some ReturnInTryCatchNoFinally).
Proof. refute. Qed.
Lemma finally_local_refuted : refutes cfg_today wit_finally_local (Some FinallyLocal).
Proof. refute. Qed.
Lemma handling_exception_global_refuted : refutes cfg_today wit_he_global_nested (Some HandlingExceptionGlobal).
Proof. refute. Qed.
Lemma handling_exception_global_callee_refuted : refutes cfg_today wit_he_global_callee (Some HandlingExceptionGlobal).
Proof. refute. Qed.
Lemma abrupt_exit_from_finally_refuted : refutes cfg_today wit_abrupt_finally (Some AbruptExitFromFinally).
Proof. refute. Qed.
Lemma pending_return_survives_throw_refuted : refutes cfg_today wit_pending_return (Some PendingReturnSurvivesThrow).
Proof. refute. Qed.

(* the repaired defects, on the model variants the translator would select for the old emitters: the programs are
   OUTSIDE every class, so with today's configuration handlers_refine_spec covers them *)
Lemma catch_pops_outer_refuted_old : refutes cfg_old_catch_pops wit_catch_pops_outer None.
Proof. refute. Qed.
Lemma break_in_try_refuted_old : refutes cfg_old_break wit_break_in_try None.
Proof. refute. Qed.
(* a refactoring that stops deriving the flag in unwind_stack must set it at EVERY raise site: with the native site
   left out, a native failure whose innermost handler is finally-only is dropped by EndFinally *)
Definition wit_native_finally := "6 0 1 13 2 1;6 1 0 12 0 3".
Lemma native_site_needs_flag_refuted : refutes cfg_flag_at_sites_but_native wit_native_finally None.
Proof. refute. Qed.
(* popping at most one handler: a break that leaves two nested try blocks keeps the outer handler, which takes a
   later exception of the same function and re-enters the loop's catch clause *)
Definition wit_break_two_tries := "1 7 2 6 1 0 6 1 0 9 2 5 2 6 4 7;6 1 0 12 0 3".
Lemma break_pops_all_refuted_one : refutes cfg_break_pops_one wit_break_two_tries None.
Proof. refute. Qed.
Lemma repaired_today :
  eval_spec (parse_prog wit_catch_pops_outer) 20 = run_m cfg_today (parse_prog wit_catch_pops_outer) 2000 /\
  eval_spec (parse_prog wit_break_in_try) 20 = run_m cfg_today (parse_prog wit_break_in_try) 2000 /\
  eval_spec (parse_prog wit_native_finally) 20 = run_m cfg_today (parse_prog wit_native_finally) 2000 /\
  eval_spec (parse_prog wit_break_two_tries) 20 = run_m cfg_today (parse_prog wit_break_two_tries) 2000.
Proof. vm_compute. repeat split; reflexivity. Qed.

(* the headline for any configuration that equals today's (props/C08.v instantiates it with the regenerated one) *)
Theorem handlers_refine_spec_cfg : forall K0 ts vs ns, K0 = cfg_assign ts vs ns -> forall p fuel res,
  wf_prog p = true -> in_known_class p = None -> fuel <= 63 ->
  eval_spec p fuel = Some res -> exists n, run_m K0 p n = Some res.
Proof. intros K0 ts vs ns ->. exact (handlers_refine_spec ts vs ns). Qed.
