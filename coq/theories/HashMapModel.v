(* HashMapModel.v -- C12: what `ObjHashMap.elements : std::HashMap<Value, Value, BuildPassThroughHasher>` and the
   natives of core.rs (`hash_map_*`, `validate_hash_map_key`) / vm.rs (`build_hash_map`) do.  Definitions only.

   Mechanism M.  The contract of std::HashMap: a key is looked up among the stored entries WHOSE HASH IS THE
   LOOKED-UP KEY'S HASH, and there it is matched with `==` (`k.eq(stored)`).  With the pass-through hasher the
   hash is exactly `Value::hash` (`vhash`).  M is therefore a list of buckets, one per hash value met so far; a
   bucket lists its entries in insertion order.  Two `==` keys with different hashes land in different buckets
   and become two entries: that is how the 0 / -0 defect shows.  (hashbrown really compares 7 bits of the hash
   and a probe position rather than all 64 bits; for keys whose hashes differ M predicts "not found", which is
   what hashbrown does whenever those 7 bits differ -- true of hash(0.0)=0 vs hash(-0.0)=0x60b4...; when `==`
   keys hash equally the difference is unobservable.)
     insert on a present key replaces the VALUE and keeps the OLD KEY (std: "the key is not updated").
     Iteration order is unspecified: keys/values/items are compared as multisets.

   Spec S.  An association list under the language's `==`: one flat list, first match wins. *)
From Coq Require Import List ZArith NArith Bool.
Import ListNotations.

Section Map.
  Variables K V : Type.
  Variable keq : K -> K -> bool.        (* k.eq(stored) *)
  Variable khash : K -> Z.
  Variable khashable : K -> bool.

  Definition entry : Type := (K * V)%type.

  (* ---- operations on one list of entries (a bucket of M, or the whole of S) ---- *)
  Fixpoint find_entry (k : K) (es : list entry) : option V :=
    match es with
    | [] => None
    | (k', v) :: r => if keq k k' then Some v else find_entry k r
    end.

  Fixpoint replace_entry (k : K) (v : V) (es : list entry) : list entry :=
    match es with
    | [] => []
    | (k', v') :: r => if keq k k' then (k', v) :: r else (k', v') :: replace_entry k v r
    end.

  Fixpoint remove_entry (k : K) (es : list entry) : list entry :=
    match es with
    | [] => []
    | (k', v') :: r => if keq k k' then r else (k', v') :: remove_entry k r
    end.

  Definition upsert (k : K) (v : V) (es : list entry) : list entry * option V :=
    match find_entry k es with
    | Some old => (replace_entry k v es, Some old)
    | None => (es ++ [(k, v)], None)
    end.

  (* ---- Spec S ---- *)
  Definition sstate : Type := list entry.
  Definition s_insert (s : sstate) (k : K) (v : V) : sstate * option V := upsert k v s.
  Definition s_get (s : sstate) (k : K) : option V := find_entry k s.
  Definition s_has_key (s : sstate) (k : K) : bool := match find_entry k s with Some _ => true | None => false end.
  Definition s_remove (s : sstate) (k : K) : sstate * option V :=
    match find_entry k s with
    | Some old => (remove_entry k s, Some old)
    | None => (s, None)
    end.
  Definition s_clear : sstate := [].
  Definition s_entries (s : sstate) : list entry := s.

  (* ---- Mechanism M ---- *)
  Definition mstate : Type := list (Z * list entry).

  Fixpoint get_bucket (m : mstate) (h : Z) : list entry :=
    match m with
    | [] => []
    | (h', es) :: r => if Z.eqb h h' then es else get_bucket r h
    end.

  Fixpoint set_bucket (m : mstate) (h : Z) (es : list entry) : mstate :=
    match m with
    | [] => [(h, es)]
    | (h', es') :: r => if Z.eqb h h' then (h', es) :: r else (h', es') :: set_bucket r h es
    end.

  Definition m_insert (m : mstate) (k : K) (v : V) : mstate * option V :=
    let h := khash k in
    let '(es, old) := upsert k v (get_bucket m h) in (set_bucket m h es, old).
  Definition m_get (m : mstate) (k : K) : option V := find_entry k (get_bucket m (khash k)).
  Definition m_has_key (m : mstate) (k : K) : bool :=
    match m_get m k with Some _ => true | None => false end.
  Definition m_remove (m : mstate) (k : K) : mstate * option V :=
    let h := khash k in
    match find_entry k (get_bucket m h) with
    | Some old => (set_bucket m h (remove_entry k (get_bucket m h)), Some old)
    | None => (m, None)
    end.
  Definition m_clear : mstate := [].
  Definition m_entries (m : mstate) : list entry := concat (map snd m).
  Definition m_len (m : mstate) : nat := length (m_entries m).
  Definition m_keys (m : mstate) : list K := map fst (m_entries m).
  Definition m_values (m : mstate) : list V := map snd (m_entries m).
  Definition m_items (m : mstate) : list entry := m_entries m.

  (* ---- the natives: unhashable-key check first (ValueError, map untouched) ---- *)
  Inductive op : Type :=
  | OInsert (k : K) (v : V)
  | OGet (k : K)
  | OHasKey (k : K)
  | ORemove (k : K)
  | OClear
  | OLen
  | OKeys
  | OValues
  | OItems
  | OLiteral (kvs : list entry).   (* `m = {k1: v1, ...};` BuildHashMap: a NEW map, pairs inserted left to right *)

  Inductive res : Type :=
  | RVal (o : option V)       (* `.unwrap_or(Value::None)`: None prints as nil *)
  | RBool (b : bool)
  | RLen (n : nat)
  | RKeys (l : list K)
  | RValues (l : list V)
  | RItems (l : list entry)
  | RNil                      (* clear returns nil; a literal assignment prints nothing *)
  | RErr (k : K).             (* ValueError "Cannot use unhashable value '<k>' as HashMap key." *)

  Definition op_keys (o : op) : list K :=
    match o with
    | OInsert k _ | OGet k | OHasKey k | ORemove k => [k]
    | OLiteral kvs => map fst kvs
    | _ => []
    end.

  (* first unhashable key of a literal, if any (build_hash_map returns at the first one) *)
  Fixpoint first_unhashable (kvs : list entry) : option K :=
    match kvs with
    | [] => None
    | (k, _) :: r => if khashable k then first_unhashable r else Some k
    end.

  Definition m_step (m : mstate) (o : op) : mstate * res :=
    match o with
    | OInsert k v => if khashable k then let '(m', old) := m_insert m k v in (m', RVal old) else (m, RErr k)
    | OGet k => if khashable k then (m, RVal (m_get m k)) else (m, RErr k)
    | OHasKey k => if khashable k then (m, RBool (m_has_key m k)) else (m, RErr k)
    | ORemove k => if khashable k then let '(m', old) := m_remove m k in (m', RVal old) else (m, RErr k)
    | OClear => (m_clear, RNil)
    | OLen => (m, RLen (m_len m))
    | OKeys => (m, RKeys (m_keys m))
    | OValues => (m, RValues (m_values m))
    | OItems => (m, RItems (m_items m))
    | OLiteral kvs =>
        match first_unhashable kvs with
        | Some k => (m, RErr k)
        | None => (fold_left (fun acc e => fst (m_insert acc (fst e) (snd e))) kvs m_clear, RNil)
        end
    end.

  Definition s_step (s : sstate) (o : op) : sstate * res :=
    match o with
    | OInsert k v => if khashable k then let '(s', old) := s_insert s k v in (s', RVal old) else (s, RErr k)
    | OGet k => if khashable k then (s, RVal (s_get s k)) else (s, RErr k)
    | OHasKey k => if khashable k then (s, RBool (s_has_key s k)) else (s, RErr k)
    | ORemove k => if khashable k then let '(s', old) := s_remove s k in (s', RVal old) else (s, RErr k)
    | OClear => (s_clear, RNil)
    | OLen => (s, RLen (length s))
    | OKeys => (s, RKeys (map fst s))
    | OValues => (s, RValues (map snd s))
    | OItems => (s, RItems s)
    | OLiteral kvs =>
        match first_unhashable kvs with
        | Some k => (s, RErr k)
        | None => (fold_left (fun acc e => fst (s_insert acc (fst e) (snd e))) kvs s_clear, RNil)
        end
    end.

  Fixpoint m_run (m : mstate) (ops : list op) : list res * mstate :=
    match ops with
    | [] => ([], m)
    | o :: r => let '(m', x) := m_step m o in let '(xs, m'') := m_run m' r in (x :: xs, m'')
    end.

  Fixpoint s_run (s : sstate) (ops : list op) : list res * sstate :=
    match ops with
    | [] => ([], s)
    | o :: r => let '(s', x) := s_step s o in let '(xs, s'') := s_run s' r in (x :: xs, s'')
    end.
End Map.

Arguments OClear {K V}.
Arguments OLen {K V}.
Arguments OKeys {K V}.
Arguments OValues {K V}.
Arguments OItems {K V}.
Arguments RNil {K V}.
Arguments RBool {K V} b.
Arguments RLen {K V} n.
Arguments OGet {K V} k.
Arguments OHasKey {K V} k.
Arguments ORemove {K V} k.
Arguments RVal {K V} o.
Arguments RKeys {K V} l.
Arguments RValues {K V} l.
Arguments RItems {K V} l.
Arguments RErr {K V} k.
Arguments OInsert {K V} k v.
Arguments OLiteral {K V} kvs.
