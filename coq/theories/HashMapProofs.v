(* HashMapProofs.v -- C12 proofs.
   Part A (generic in the key type): the bucket mechanism M refines the association list S for every
            operation sequence whose keys are coherent (== keys hash equally); enumeration; unhashable keys;
            keys that equal nothing (NaN).
   Part B (yarel values): coherence of vhash/veq -- for ALL values when hash_number normalises -0, refuted
            otherwise (0 / -0), and for all values without a negative zero in either case. *)
From Coq Require Import List ZArith NArith Bool Lia Permutation.
From Coq Require Import Strings.Byte Floats.SpecFloat.
From YV Require Import Num NumProofs ValueEq HashMapModel RangeCache RangeCacheModel.
Import ListNotations.

(* ===================================================================== *)
(* Part A                                                                *)
(* ===================================================================== *)
Section MapProofs.
  Variables K V : Type.
  Variable keq : K -> K -> bool.
  Variable khash : K -> Z.
  Variable khashable : K -> bool.

  Notation entry := (entry K V).
  Notation find_entry := (find_entry K V keq).
  Notation replace_entry := (replace_entry K V keq).
  Notation remove_entry := (remove_entry K V keq).
  Notation upsert := (upsert K V keq).
  Notation get_bucket := (get_bucket K V).
  Notation set_bucket := (set_bucket K V).
  Notation m_insert := (m_insert K V keq khash).
  Notation m_get := (m_get K V keq khash).
  Notation m_remove := (m_remove K V keq khash).
  Notation m_entries := (m_entries K V).
  Notation m_step := (m_step K V keq khash khashable).
  Notation s_step := (s_step K V keq khashable).
  Notation m_run := (m_run K V keq khash khashable).
  Notation s_run := (s_run K V keq khashable).

  Definition hsel (h : Z) (e : entry) : bool := Z.eqb (khash (fst e)) h.
  Definition hfilter (h : Z) (s : list entry) : list entry := filter (hsel h) s.

  (* ---- buckets ---- *)
  Lemma get_set_bucket : forall m h es h',
    get_bucket (set_bucket m h es) h' = if Z.eqb h' h then es else get_bucket m h'.
  Proof.
    induction m as [|[h0 es0] r IH]; intros h es h'; cbn.
    - destruct (Z.eqb h' h); reflexivity.
    - destruct (Z.eqb h h0) eqn:E; cbn.
      + apply Z.eqb_eq in E; subst h0. destruct (Z.eqb h' h); reflexivity.
      + destruct (Z.eqb h' h0) eqn:E2.
        * apply Z.eqb_eq in E2; subst h0.
          destruct (Z.eqb h' h) eqn:E3; [|reflexivity].
          apply Z.eqb_eq in E3; subst h'. rewrite Z.eqb_refl in E. discriminate.
        * apply IH.
  Qed.

  Lemma set_bucket_keys_in : forall m h es x,
    In x (map fst (set_bucket m h es)) -> x = h \/ In x (map fst m).
  Proof.
    induction m as [|[h0 es0] r IH]; intros h es x; cbn.
    - intros [H|[]]; auto.
    - destruct (Z.eqb h h0) eqn:E; cbn.
      + intros [H|H]; auto.
      + intros [H|H]; auto. destruct (IH _ _ _ H); auto.
  Qed.

  Lemma set_bucket_nodup : forall m h es, NoDup (map fst m) -> NoDup (map fst (set_bucket m h es)).
  Proof.
    induction m as [|[h0 es0] r IH]; intros h es Hn; cbn.
    - constructor; [intros []|constructor].
    - cbn in Hn. inversion Hn as [|a l Hni Hn']; subst.
      destruct (Z.eqb h h0) eqn:E; cbn.
      + constructor; assumption.
      + constructor; [|apply IH; assumption].
        intros Hin. destruct (set_bucket_keys_in _ _ _ _ Hin) as [H|H].
        * subst. rewrite Z.eqb_refl in E. discriminate.
        * contradiction.
  Qed.

  Lemma get_bucket_nonempty_in : forall m h, get_bucket m h <> [] -> In h (map fst m).
  Proof.
    induction m as [|[h0 es0] r IH]; intros h; cbn.
    - intros H; congruence.
    - destruct (Z.eqb h h0) eqn:E.
      + apply Z.eqb_eq in E. auto.
      + intros H. right. apply IH; assumption.
  Qed.

  Lemma entries_by_bucket : forall m, NoDup (map fst m) ->
    m_entries m = concat (map (get_bucket m) (map fst m)).
  Proof.
    unfold HashMapModel.m_entries.
    induction m as [|[h0 es0] r IH]; intros Hn; cbn; [reflexivity|].
    cbn in Hn. inversion Hn as [|a l Hni Hn']; subst.
    rewrite Z.eqb_refl. f_equal. rewrite IH by assumption. f_equal.
    apply map_ext_in. intros h Hin.
    destruct (Z.eqb h h0) eqn:E; [|reflexivity].
    apply Z.eqb_eq in E; subst. contradiction.
  Qed.

  (* ---- a list is a permutation of the concatenation of its hash classes ---- *)
  Lemma filter_disjoint_perm : forall (p q : entry -> bool) s,
    (forall e, In e s -> p e = true -> q e = false) ->
    Permutation (filter p s ++ filter q s) (filter (fun e => p e || q e) s).
  Proof.
    intros p q. induction s as [|e s IH]; intros Hd; cbn; [constructor|].
    assert (IH' := IH (fun e0 H => Hd e0 (or_intror H))).
    destruct (p e) eqn:Ep; cbn.
    - rewrite (Hd e (or_introl eq_refl) Ep). constructor. exact IH'.
    - destruct (q e) eqn:Eq.
      + apply Permutation_sym. eapply Permutation_trans; [|apply Permutation_middle].
        constructor. apply Permutation_sym. exact IH'.
      + exact IH'.
  Qed.

  Lemma classes_perm : forall hs s, NoDup hs ->
    Permutation (concat (map (fun h => hfilter h s) hs))
                (filter (fun e => existsb (fun h => hsel h e) hs) s).
  Proof.
    induction hs as [|h hs IH]; intros s Hn; cbn.
    - induction s as [|e s IHs]; cbn; [constructor|exact IHs].
    - inversion Hn as [|a l Hni Hn']; subst.
      eapply Permutation_trans; [apply Permutation_app_head, IH; assumption|].
      apply (filter_disjoint_perm (hsel h) (fun e => existsb (fun h0 => hsel h0 e) hs)).
      intros e _ Hp. unfold hsel in Hp. apply Z.eqb_eq in Hp.
      destruct (existsb (fun h0 => hsel h0 e) hs) eqn:Ex; [|reflexivity].
      apply existsb_exists in Ex. destruct Ex as [h0 [Hin Hh0]]. unfold hsel in Hh0.
      apply Z.eqb_eq in Hh0. subst. contradiction.
  Qed.

  Lemma filter_all : forall (p : entry -> bool) s, (forall e, In e s -> p e = true) -> filter p s = s.
  Proof.
    induction s as [|e s IH]; intros H; cbn; [reflexivity|].
    rewrite (H e (or_introl eq_refl)). f_equal. apply IH. intros e0 H0. apply H. right; assumption.
  Qed.

  (* the abstraction relation: bucket h of M is the sub-list of S with hash h, in S's order *)
  Definition Rel (m : mstate K V) (s : sstate K V) : Prop :=
    (forall h, get_bucket m h = hfilter h s) /\ NoDup (map fst m).

  Lemma rel_entries_perm : forall m s, Rel m s -> Permutation (m_entries m) s.
  Proof.
    intros m s [Hb Hn]. rewrite entries_by_bucket by assumption.
    rewrite (map_ext _ _ Hb).
    eapply Permutation_trans; [apply classes_perm; assumption|].
    rewrite filter_all; [apply Permutation_refl|].
    intros e He. apply existsb_exists. exists (khash (fst e)). split.
    - apply get_bucket_nonempty_in. rewrite Hb. intros Hnil.
      assert (Hin : In e (hfilter (khash (fst e)) s)).
      { apply filter_In. split; [assumption|]. unfold hsel. apply Z.eqb_refl. }
      rewrite Hnil in Hin. destruct Hin.
    - unfold hsel. apply Z.eqb_refl.
  Qed.

  Lemma rel_empty : Rel [] [].
  Proof. split; [reflexivity|constructor]. Qed.

  (* ---- coherence of one looked-up key w.r.t. the stored keys ---- *)
  Definition coh_with (k : K) (s : list entry) : Prop :=
    forall e, In e s -> keq k (fst e) = true -> khash (fst e) = khash k.

  Lemma coh_with_tail : forall k e s, coh_with k (e :: s) -> coh_with k s.
  Proof. intros k e s H e0 Hin. apply H. right; assumption. Qed.

  Lemma hsel_pair : forall h k' (x : V), hsel h (k', x) = Z.eqb (khash k') h.
  Proof. reflexivity. Qed.

  Lemma find_hfilter : forall k s, coh_with k s -> find_entry k (hfilter (khash k) s) = find_entry k s.
  Proof.
    unfold hfilter.
    induction s as [|[k' v'] s IH]; intros Hc; [reflexivity|].
    assert (IH' := IH (coh_with_tail _ _ _ Hc)).
    assert (Hk : keq k k' = true -> khash k' = khash k) by (intros E0; apply (Hc (k', v') (or_introl eq_refl) E0)).
    cbn [HashMapModel.find_entry filter]. rewrite hsel_pair.
    destruct (keq k k') eqn:E.
    - rewrite (Hk eq_refl), Z.eqb_refl. cbn [HashMapModel.find_entry]. rewrite E. reflexivity.
    - destruct (Z.eqb (khash k') (khash k)); cbn [HashMapModel.find_entry]; rewrite ?E; exact IH'.
  Qed.

  Lemma replace_hfilter : forall k v s h, coh_with k s ->
    hfilter h (replace_entry k v s) =
    if Z.eqb h (khash k) then replace_entry k v (hfilter h s) else hfilter h s.
  Proof.
    unfold hfilter.
    induction s as [|[k' v'] s IH]; intros h Hc.
    - cbn. destruct (Z.eqb h (khash k)); reflexivity.
    - assert (IH' := IH h (coh_with_tail _ _ _ Hc)).
      assert (Hk : keq k k' = true -> khash k' = khash k) by (intros E0; apply (Hc (k', v') (or_introl eq_refl) E0)).
      cbn [HashMapModel.replace_entry filter].
      destruct (keq k k') eqn:E; cbn [filter]; rewrite !hsel_pair.
      + rewrite (Hk eq_refl), (Z.eqb_sym h (khash k)).
        destruct (Z.eqb (khash k) h) eqn:E2; [|reflexivity].
        cbn [HashMapModel.replace_entry]. rewrite E. reflexivity.
      + rewrite IH'.
        destruct (Z.eqb (khash k') h); destruct (Z.eqb h (khash k)); cbn [HashMapModel.replace_entry];
          rewrite ?E; reflexivity.
  Qed.

  Lemma remove_hfilter : forall k s h, coh_with k s ->
    hfilter h (remove_entry k s) =
    if Z.eqb h (khash k) then remove_entry k (hfilter h s) else hfilter h s.
  Proof.
    unfold hfilter.
    induction s as [|[k' v'] s IH]; intros h Hc.
    - cbn. destruct (Z.eqb h (khash k)); reflexivity.
    - assert (IH' := IH h (coh_with_tail _ _ _ Hc)).
      assert (Hk : keq k k' = true -> khash k' = khash k) by (intros E0; apply (Hc (k', v') (or_introl eq_refl) E0)).
      cbn [HashMapModel.remove_entry filter].
      destruct (keq k k') eqn:E; cbn [filter]; rewrite ?hsel_pair.
      + rewrite (Hk eq_refl), (Z.eqb_sym h (khash k)).
        destruct (Z.eqb (khash k) h) eqn:E2; [|reflexivity].
        cbn [HashMapModel.remove_entry]. rewrite E. reflexivity.
      + rewrite IH'.
        destruct (Z.eqb (khash k') h); destruct (Z.eqb h (khash k)); cbn [HashMapModel.remove_entry];
          rewrite ?E; reflexivity.
  Qed.

  Lemma snoc_hfilter : forall k v s h,
    hfilter h (s ++ [(k, v)]) = if Z.eqb h (khash k) then hfilter h s ++ [(k, v)] else hfilter h s.
  Proof.
    intros k v s h. unfold hfilter. rewrite filter_app. cbn. unfold hsel at 2. cbn [fst].
    rewrite (Z.eqb_sym (khash k) h). destruct (Z.eqb h (khash k)); [reflexivity|apply app_nil_r].
  Qed.

  (* ---- one operation: same result, relation kept ---- *)
  Lemma get_sim : forall m s k, Rel m s -> coh_with k s -> m_get m k = s_get K V keq s k.
  Proof.
    intros m s k [Hb _] Hc. unfold HashMapModel.m_get, s_get. rewrite Hb. apply find_hfilter; assumption.
  Qed.

  Lemma insert_sim : forall m s k v, Rel m s -> coh_with k s ->
    snd (m_insert m k v) = snd (s_insert K V keq s k v) /\
    Rel (fst (m_insert m k v)) (fst (s_insert K V keq s k v)).
  Proof.
    intros m s k v [Hb Hn] Hc. unfold HashMapModel.m_insert, s_insert, HashMapModel.upsert.
    rewrite Hb, find_hfilter by assumption.
    destruct (find_entry k s) as [old|] eqn:Ef; cbn.
    - split; [reflexivity|]. split; [|apply set_bucket_nodup; assumption].
      intros h. rewrite get_set_bucket, replace_hfilter by assumption.
      destruct (Z.eqb h (khash k)) eqn:E; [|apply Hb].
      apply Z.eqb_eq in E; subst h. reflexivity.
    - split; [reflexivity|]. split; [|apply set_bucket_nodup; assumption].
      intros h. rewrite get_set_bucket, snoc_hfilter.
      destruct (Z.eqb h (khash k)) eqn:E; [|apply Hb].
      apply Z.eqb_eq in E; subst h. reflexivity.
  Qed.

  Lemma remove_sim : forall m s k, Rel m s -> coh_with k s ->
    snd (m_remove m k) = snd (s_remove K V keq s k) /\
    Rel (fst (m_remove m k)) (fst (s_remove K V keq s k)).
  Proof.
    intros m s k [Hb Hn] Hc. unfold HashMapModel.m_remove, s_remove.
    rewrite Hb, find_hfilter by assumption.
    destruct (find_entry k s) as [old|] eqn:Ef; cbn.
    - split; [reflexivity|]. split; [|apply set_bucket_nodup; assumption].
      intros h. rewrite get_set_bucket, remove_hfilter by assumption.
      destruct (Z.eqb h (khash k)) eqn:E; [|apply Hb].
      apply Z.eqb_eq in E; subst h. reflexivity.
    - split; [reflexivity|]. split; assumption.
  Qed.

  (* ---- the key universe of a run ---- *)
  Definition coherent_on (ks : list K) : Prop :=
    forall a b, In a ks -> In b ks -> khashable a = true -> khashable b = true ->
                keq a b = true -> khash a = khash b.

  (* stored keys come from the universe and are hashable *)
  Definition stored_in (ks : list K) (s : list entry) : Prop :=
    forall e, In e s -> In (fst e) ks /\ khashable (fst e) = true.

  Lemma coh_from_universe : forall ks s k, coherent_on ks -> stored_in ks s -> In k ks -> khashable k = true ->
    coh_with k s.
  Proof.
    intros ks s k Hco Hst Hk Hh e He Heq. destruct (Hst e He) as [Hin Hhe].
    symmetry. apply Hco; assumption.
  Qed.

  Lemma replace_entry_in : forall k v s e, In e (replace_entry k v s) -> exists e0, In e0 s /\ fst e0 = fst e.
  Proof.
    induction s as [|[k' v'] s IH]; intros e; cbn; [intros []|].
    destruct (keq k k').
    - intros [H|H]; [exists (k', v'); subst; auto | exists e; auto].
    - intros [H|H]; [exists (k', v'); subst; auto|].
      destruct (IH e H) as [e0 [H0 H1]]. exists e0; auto.
  Qed.

  Lemma remove_entry_in : forall k s e, In e (remove_entry k s) -> In e s.
  Proof.
    induction s as [|[k' v'] s IH]; intros e; cbn; [intros []|].
    destruct (keq k k'); [auto|]. intros [H|H]; auto.
  Qed.

  Lemma stored_insert : forall ks s k v, stored_in ks s -> In k ks -> khashable k = true ->
    stored_in ks (fst (s_insert K V keq s k v)).
  Proof.
    intros ks s k v Hst Hk Hh. unfold s_insert, HashMapModel.upsert.
    destruct (find_entry k s); cbn; intros e He.
    - destruct (replace_entry_in _ _ _ _ He) as [e0 [H0 H1]]. rewrite <- H1. apply Hst; assumption.
    - apply in_app_or in He. destruct He as [He|[He|[]]]; [apply Hst; assumption|]. subst e. cbn. auto.
  Qed.

  Lemma stored_remove : forall ks s k, stored_in ks s -> stored_in ks (fst (s_remove K V keq s k)).
  Proof.
    intros ks s k Hst. unfold s_remove. destruct (find_entry k s); cbn; [|assumption].
    intros e He. apply Hst. eapply remove_entry_in; eassumption.
  Qed.

  (* ---- no duplicates under == : a later key never matches an earlier one ---- *)
  Fixpoint nodupk (s : list entry) : Prop :=
    match s with
    | [] => True
    | e :: r => Forall (fun e2 => keq (fst e2) (fst e) = false) r /\ nodupk r
    end.

  Lemma find_none_forall : forall k s, find_entry k s = None <-> Forall (fun e => keq k (fst e) = false) s.
  Proof.
    induction s as [|[k' v'] s IH]; cbn; [split; [constructor|reflexivity]|].
    destruct (keq k k') eqn:E; split; intros H.
    - discriminate.
    - inversion H; subst. cbn in *. congruence.
    - constructor; [assumption|apply IH; assumption].
    - inversion H; subst. apply IH; assumption.
  Qed.

  Lemma nodupk_snoc : forall s e, nodupk s -> Forall (fun e1 => keq (fst e) (fst e1) = false) s -> nodupk (s ++ [e]).
  Proof.
    induction s as [|e0 s IH]; intros e Hn Hf; cbn; [split; constructor|].
    destruct Hn as [H1 H2]. inversion Hf; subst. split.
    - apply Forall_app. split; [assumption|]. constructor; [assumption|constructor].
    - apply IH; assumption.
  Qed.

  Lemma nodupk_replace : forall k v s, nodupk s -> nodupk (replace_entry k v s).
  Proof.
    induction s as [|[k' v'] s IH]; intros Hn; cbn; [exact I|].
    destruct Hn as [H1 H2]. destruct (keq k k'); cbn; [split; assumption|]. split; [|apply IH; assumption].
    apply Forall_forall. intros e He. destruct (replace_entry_in _ _ _ _ He) as [e0 [H0 H3]].
    rewrite <- H3. rewrite Forall_forall in H1. apply H1; assumption.
  Qed.

  Lemma nodupk_remove : forall k s, nodupk s -> nodupk (remove_entry k s).
  Proof.
    induction s as [|[k' v'] s IH]; intros Hn; cbn; [exact I|].
    destruct Hn as [H1 H2]. destruct (keq k k'); cbn; [assumption|]. split; [|apply IH; assumption].
    apply Forall_forall. intros e He. rewrite Forall_forall in H1. apply H1. eapply remove_entry_in; eassumption.
  Qed.

  Lemma nodupk_insert : forall s k v, nodupk s -> nodupk (fst (s_insert K V keq s k v)).
  Proof.
    intros s k v Hn. unfold s_insert, HashMapModel.upsert. destruct (find_entry k s) eqn:Ef; cbn.
    - apply nodupk_replace; assumption.
    - apply nodupk_snoc; [assumption|]. apply find_none_forall; assumption.
  Qed.

  Lemma nodupk_s_remove : forall s k, nodupk s -> nodupk (fst (s_remove K V keq s k)).
  Proof.
    intros s k Hn. unfold s_remove. destruct (find_entry k s); cbn; [apply nodupk_remove|]; assumption.
  Qed.

  (* ---- the invariant of a run ---- *)
  Definition Inv (ks : list K) (m : mstate K V) (s : sstate K V) : Prop :=
    Rel m s /\ stored_in ks s /\ nodupk s.

  Lemma inv_empty : forall ks, Inv ks [] [].
  Proof. intros ks. split; [apply rel_empty|]. split; [intros e []|exact I]. Qed.

  (* observable results: enumeration order is unspecified *)
  Definition res_equiv (a b : res K V) : Prop :=
    match a, b with
    | RKeys l, RKeys l' => Permutation l l'
    | RValues l, RValues l' => Permutation l l'
    | RItems l, RItems l' => Permutation l l'
    | _, _ => a = b
    end.

  Lemma first_unhashable_none : forall kvs, first_unhashable K V khashable kvs = None ->
    forall e, In e kvs -> khashable (fst e) = true.
  Proof.
    induction kvs as [|[k v] r IH]; cbn; intros H e; [intros []|].
    destruct (khashable k) eqn:E; [|discriminate]. intros [He|He]; [subst; assumption|apply IH; assumption].
  Qed.

  Lemma literal_sim : forall ks kvs, coherent_on ks -> (forall e, In e kvs -> In (fst e) ks /\ khashable (fst e) = true) ->
    forall m s, Inv ks m s ->
    Inv ks (fold_left (fun acc e => fst (m_insert acc (fst e) (snd e))) kvs m)
           (fold_left (fun acc e => fst (s_insert K V keq acc (fst e) (snd e))) kvs s).
  Proof.
    intros ks kvs Hco. induction kvs as [|[k v] r IH]; intros Hk m s Hi; cbn; [assumption|].
    apply IH; [intros e He; apply Hk; right; assumption|].
    destruct Hi as [Hr [Hst Hn]]. destruct (Hk (k, v) (or_introl eq_refl)) as [Hin Hh]. cbn [fst snd] in *.
    assert (Hc : coh_with k s) by (eapply coh_from_universe; eassumption).
    split; [apply insert_sim; assumption|]. split; [apply stored_insert; assumption|apply nodupk_insert; assumption].
  Qed.

  Ltac inv_ok := cbn [fst snd]; unfold Inv; split; [assumption|split; assumption].

  Lemma step_sim : forall ks m s o, coherent_on ks -> incl (op_keys K V o) ks -> Inv ks m s ->
    res_equiv (snd (m_step m o)) (snd (s_step s o)) /\ Inv ks (fst (m_step m o)) (fst (s_step s o)).
  Proof.
    intros ks m s o Hco Hin [Hr [Hst Hn]].
    assert (Hperm := rel_entries_perm _ _ Hr).
    destruct o as [k v|k|k|k| | | | | |kvs]; cbn [HashMapModel.m_step HashMapModel.s_step op_keys] in *.
    - destruct (khashable k) eqn:Eh; [|split; [reflexivity|inv_ok]].
      assert (Hc : coh_with k s) by (eapply coh_from_universe; try eassumption; apply Hin; left; reflexivity).
      destruct (insert_sim m s k v Hr Hc) as [H1 H2].
      destruct (m_insert m k v) as [m' old]; destruct (s_insert K V keq s k v) as [s' old'] eqn:Es; cbn in *.
      subst old'. split; [reflexivity|]. split; [assumption|]. split.
      + replace s' with (fst (s_insert K V keq s k v)) by (rewrite Es; reflexivity).
        apply stored_insert; try assumption. apply Hin; left; reflexivity.
      + replace s' with (fst (s_insert K V keq s k v)) by (rewrite Es; reflexivity). apply nodupk_insert; assumption.
    - destruct (khashable k) eqn:Eh; [|split; [reflexivity|inv_ok]].
      assert (Hc : coh_with k s) by (eapply coh_from_universe; try eassumption; apply Hin; left; reflexivity).
      cbn. rewrite (get_sim m s k Hr Hc). split; [reflexivity|inv_ok].
    - destruct (khashable k) eqn:Eh; [|split; [reflexivity|inv_ok]].
      assert (Hc : coh_with k s) by (eapply coh_from_universe; try eassumption; apply Hin; left; reflexivity).
      cbn. unfold HashMapModel.m_has_key, s_has_key. rewrite (get_sim m s k Hr Hc). unfold s_get.
      split; [reflexivity|inv_ok].
    - destruct (khashable k) eqn:Eh; [|split; [reflexivity|inv_ok]].
      assert (Hc : coh_with k s) by (eapply coh_from_universe; try eassumption; apply Hin; left; reflexivity).
      destruct (remove_sim m s k Hr Hc) as [H1 H2].
      destruct (m_remove m k) as [m' old]; destruct (s_remove K V keq s k) as [s' old'] eqn:Es; cbn in *.
      subst old'. split; [reflexivity|]. split; [assumption|]. split.
      + replace s' with (fst (s_remove K V keq s k)) by (rewrite Es; reflexivity). apply stored_remove; assumption.
      + replace s' with (fst (s_remove K V keq s k)) by (rewrite Es; reflexivity). apply nodupk_s_remove; assumption.
    - split; [reflexivity|apply inv_empty].
    - cbn. unfold HashMapModel.m_len. rewrite (Permutation_length Hperm).
      split; [reflexivity|inv_ok].
    - cbn. split; [apply Permutation_map; assumption|inv_ok].
    - cbn. split; [apply Permutation_map; assumption|inv_ok].
    - cbn. split; [assumption|inv_ok].
    - destruct (first_unhashable K V khashable kvs) eqn:Ef; cbn; [split; [reflexivity|inv_ok]|].
      split; [reflexivity|]. apply literal_sim; [assumption| |apply inv_empty].
      intros e He. split; [apply Hin; apply in_map; assumption|].
      eapply first_unhashable_none; eassumption.
  Qed.

  Lemma run_sim : forall ks ops m s, coherent_on ks -> incl (flat_map (op_keys K V) ops) ks -> Inv ks m s ->
    Forall2 res_equiv (fst (m_run m ops)) (fst (s_run s ops)) /\
    Inv ks (snd (m_run m ops)) (snd (s_run s ops)).
  Proof.
    intros ks ops. induction ops as [|o r IH]; intros m s Hco Hin Hi; cbn; [split; [constructor|assumption]|].
    cbn in Hin. apply incl_app_inv in Hin. destruct Hin as [Hin1 Hin2].
    destruct (step_sim ks m s o Hco Hin1 Hi) as [He Hi'].
    destruct (m_step m o) as [m' x]; destruct (s_step s o) as [s' y]; cbn in *.
    destruct (IH m' s' Hco Hin2 Hi') as [Hf Hi''].
    destruct (m_run m' r) as [xs m'']; destruct (s_run s' r) as [ys s'']; cbn in *.
    split; [constructor; assumption|assumption].
  Qed.

  (* T buckets_refine_assoc: for every operation sequence over keys on which hash and == are coherent, every
     observable result of the bucket mechanism equals the association list's (enumerations as multisets). *)
  Theorem buckets_refine_assoc : forall ops, coherent_on (flat_map (op_keys K V) ops) ->
    Forall2 res_equiv (fst (m_run [] ops)) (fst (s_run [] ops)).
  Proof.
    intros ops Hco. apply (run_sim _ ops [] [] Hco (incl_refl _) (inv_empty _)).
  Qed.

  (* T enumerate_once: in every reachable state keys/values/items of M are permutations of S's entries, and
     S holds no two entries whose keys are == (a later key never equals an earlier one). *)
  Theorem enumerate_once : forall ops, coherent_on (flat_map (op_keys K V) ops) ->
    let m := snd (m_run [] ops) in let s := snd (s_run [] ops) in
    Permutation (m_items K V m) s /\ Permutation (m_keys K V m) (map fst s) /\
    Permutation (m_values K V m) (map snd s) /\ m_len K V m = length s /\ nodupk s.
  Proof.
    intros ops Hco m s.
    destruct (run_sim _ ops [] [] Hco (incl_refl _) (inv_empty _)) as [_ [Hr [_ Hn]]].
    fold m s in Hr, Hn. assert (Hp := rel_entries_perm _ _ Hr).
    repeat split; try assumption.
    - apply Permutation_map; assumption.
    - apply Permutation_map; assumption.
    - unfold HashMapModel.m_len. apply Permutation_length; assumption.
  Qed.

  (* T unhashable_rejected_unchanged: ValueError naming the key, state untouched -- in M and in S. *)
  Definition key_of_op (o : op K V) : option K :=
    match o with
    | OInsert k _ | OGet k | OHasKey k | ORemove k => Some k
    | OLiteral kvs => first_unhashable K V khashable kvs
    | _ => None
    end.

  Theorem unhashable_rejected_unchanged : forall m s o k, key_of_op o = Some k -> khashable k = false ->
    m_step m o = (m, RErr k) /\ s_step s o = (s, RErr k).
  Proof.
    intros m s o k Hk Hh.
    destruct o as [k0 v|k0|k0|k0| | | | | |kvs]; cbn in Hk; try discriminate;
      try (injection Hk as ->; cbn; rewrite Hh; split; reflexivity).
    cbn. rewrite Hk. split; reflexivity.
  Qed.

  Lemma first_unhashable_is : forall kvs k, first_unhashable K V khashable kvs = Some k -> khashable k = false.
  Proof.
    induction kvs as [|[k0 v] r IH]; cbn; intros k H; [discriminate|].
    destruct (khashable k0) eqn:E; [apply IH; assumption|]. injection H as <-. assumption.
  Qed.

  (* ---- keys that equal nothing, themselves included (NaN) ---- *)
  Lemma find_entry_never : forall k es, (forall k', keq k k' = false) -> find_entry k es = None.
  Proof. intros k es Hn. induction es as [|[k' v'] r IH]; cbn; [reflexivity|]. rewrite Hn. assumption. Qed.

  Lemma entries_set_bucket_snoc : forall m h e, NoDup (map fst m) ->
    Permutation (m_entries (set_bucket m h (get_bucket m h ++ [e]))) (e :: m_entries m).
  Proof.
    unfold HashMapModel.m_entries.
    induction m as [|[h0 es0] r IH]; intros h e Hn; cbn.
    - constructor. constructor.
    - cbn in Hn. inversion Hn as [|a l Hni Hn']; subst.
      destruct (Z.eqb h h0) eqn:E; cbn.
      + rewrite <- app_assoc. apply Permutation_sym.
        apply (Permutation_middle es0 (concat (map snd r)) e).
      + eapply Permutation_trans; [apply Permutation_app_head, IH; assumption|].
        apply Permutation_sym, Permutation_middle.
  Qed.

  Theorem never_equal_keys : forall k v, (forall k', keq k k' = false) ->
    (forall m, NoDup (map fst m) ->
       snd (m_insert m k v) = None /\
       m_len K V (fst (m_insert m k v)) = S (m_len K V m) /\
       m_get (fst (m_insert m k v)) k = None /\ m_get m k = None /\
       NoDup (map fst (fst (m_insert m k v)))) /\
    (forall s, snd (s_insert K V keq s k v) = None /\
       length (fst (s_insert K V keq s k v)) = S (length s) /\
       s_get K V keq (fst (s_insert K V keq s k v)) k = None /\ s_get K V keq s k = None).
  Proof.
    intros k v Hn. split.
    - intros m Hnd. unfold HashMapModel.m_insert, HashMapModel.upsert, HashMapModel.m_get, HashMapModel.m_len.
      rewrite !find_entry_never by assumption. cbn [fst snd]. rewrite ?find_entry_never by assumption.
      repeat split.
      + exact (Permutation_length (entries_set_bucket_snoc m (khash k) (k, v) Hnd)).
      + apply set_bucket_nodup; assumption.
    - intros s. unfold s_insert, HashMapModel.upsert, s_get. rewrite !find_entry_never by assumption. cbn.
      repeat split. rewrite app_length. cbn. lia.
  Qed.
End MapProofs.

Print Assumptions buckets_refine_assoc.
Print Assumptions enumerate_once.
Print Assumptions unhashable_rejected_unchanged.
Print Assumptions never_equal_keys.

(* ===================================================================== *)
(* Part B: yarel values                                                  *)
(* ===================================================================== *)

(* induction principle for the nested type *)
Section KvInd.
  Variable P : kv -> Prop.
  Hypothesis HNil : P KNil.
  Hypothesis HBool : forall b, P (KBool b).
  Hypothesis HNum : forall x, P (KNum x).
  Hypothesis HStr : forall s, P (KStr s).
  Hypothesis HClass : forall i n, P (KClass i n).
  Hypothesis HRange : forall i b e, P (KRange i b e).
  Hypothesis HTuple : forall i l, Forall P l -> P (KTuple i l).
  Hypothesis HUn : forall t, P (KUnhashable t).

  Fixpoint kv_ind2 (a : kv) : P a :=
    match a with
    | KNil => HNil
    | KBool b => HBool b
    | KNum x => HNum x
    | KStr s => HStr s
    | KClass i n => HClass i n
    | KRange i b e => HRange i b e
    | KTuple i l =>
        HTuple i l ((fix go (l : list kv) : Forall P l :=
                       match l with
                       | [] => Forall_nil P
                       | x :: r => Forall_cons x (kv_ind2 x) (go r)
                       end) l)
    | KUnhashable t => HUn t
    end.
End KvInd.

Lemma bytes_eqb_eq : forall a b, bytes_eqb a b = true -> a = b.
Proof.
  induction a as [|x a IH]; intros [|y b] H; cbn in H; try discriminate; [reflexivity|].
  apply andb_prop in H. destruct H as [H1 H2]. apply Byte.byte_dec_bl in H1. subst. f_equal. apply IH; assumption.
Qed.

Lemma veq_tuple_unfold : forall i l j m,
  veq (KTuple i l) (KTuple j m) = kv_same (KTuple i l) (KTuple j m) || veq_list l m.
Proof.
  reflexivity.
Qed.

Lemma kv_same_tuple_unfold : forall i l j m,
  kv_same (KTuple i l) (KTuple j m) = N.eqb i j && kv_same_list l m.
Proof.
  reflexivity.
Qed.

Lemma kv_same_eq : forall a b, kv_same a b = true -> a = b.
Proof.
  induction a as [ |x|x|s|i n|i b0 e0|i l IH|t] using kv_ind2; intros [ |y|y|s'|j n'|j b1 e1|j m|t'] H;
    try (cbn in H; discriminate).
  - reflexivity.
  - cbn in H. apply eqb_prop in H. subst; reflexivity.
  - cbn in H. apply f64_eq_exact_true in H. subst; reflexivity.
  - cbn in H. apply bytes_eqb_eq in H. subst; reflexivity.
  - cbn in H. apply andb_prop in H. destruct H as [H1 H2]. apply N.eqb_eq in H1. apply bytes_eqb_eq in H2.
    subst; reflexivity.
  - cbn in H. apply andb_prop in H. destruct H as [H H3]. apply andb_prop in H. destruct H as [H1 H2].
    apply N.eqb_eq in H1. apply Z.eqb_eq in H2. apply Z.eqb_eq in H3. subst; reflexivity.
  - rewrite kv_same_tuple_unfold in H. apply andb_prop in H. destruct H as [H1 H2]. apply N.eqb_eq in H1. subst j.
    f_equal. revert m H2. induction IH as [|x l Hx Hl IHl]; intros [|y m] H2; cbn in H2; try discriminate; [reflexivity|].
    apply andb_prop in H2. destruct H2 as [H2 H3]. f_equal; [apply Hx; assumption|apply IHl; assumption].
  - cbn in H. apply N.eqb_eq in H. subst; reflexivity.
Qed.

(* IEEE == : equal means identical, except that the two zeros are equal; NaN equals nothing *)
Lemma feqb_cases : forall x y, feqb x y = true ->
  x = y \/ (exists s1 s2, x = S754_zero s1 /\ y = S754_zero s2).
Proof.
  intros [s1|s1| |s1 m1 e1] [s2|s2| |s2 m2 e2]; unfold feqb, SFeqb, SFcompare; intros H;
    try discriminate; try (destruct s1; discriminate); try (destruct s2; discriminate).
  - right. eauto.
  - left. destruct s1, s2; try discriminate; reflexivity.
  - left. destruct s1, s2; try discriminate.
    + destruct (Z.compare e1 e2) eqn:Ec; try discriminate. apply Z.compare_eq in Ec. subst e2.
      destruct (Pos.compare_cont Eq m1 m2) eqn:Em; try discriminate.
      apply Pos.compare_eq in Em. subst; reflexivity.
    + destruct (Z.compare e1 e2) eqn:Ec; try discriminate. apply Z.compare_eq in Ec. subst e2.
      destruct (Pos.compare_cont Eq m1 m2) eqn:Em; try discriminate.
      apply Pos.compare_eq in Em. subst; reflexivity.
Qed.

Lemma feqb_nan_l : forall y, feqb S754_nan y = false.
Proof. intros y. reflexivity. Qed.

Definition nnz (x : f64) : bool := match x with S754_zero true => false | _ => true end.

Fixpoint no_neg_zero (a : kv) : bool :=
  match a with
  | KNum x => nnz x
  | KTuple _ l => forallb no_neg_zero l
  | _ => true
  end.

Section Coherence.
  Variable norm : bool.
  Variable hc : hconsts.

  Notation vhash := (vhash norm hc).
  Notation hash_number' := (hash_number' norm).

  (* equal numbers hash equally, provided hash_number normalises -0 or no negative zero is involved *)
  Lemma feqb_hash : forall x y, norm = true \/ (nnz x = true /\ nnz y = true) ->
    feqb x y = true -> hash_number' x = hash_number' y.
  Proof.
    intros x y Hc H. destruct (feqb_cases x y H) as [->|[s1 [s2 [-> ->]]]]; [reflexivity|].
    unfold ValueEq.hash_number'. destruct Hc as [->|[H1 H2]]; [reflexivity|].
    destruct s1, s2; cbn in H1, H2; try discriminate. reflexivity.
  Qed.

  Lemma vhash_tuple : forall i l, vhash (KTuple i l) = fold_left (t_comb hc) (map vhash l) (t_seed hc).
  Proof. reflexivity. Qed.

  (* T tuple_hash_structural: the hash of a tuple depends only on the hashes of its elements, in order *)
  Theorem tuple_hash_structural : forall i l j m,
    Forall2 (fun a b => vhash a = vhash b) l m -> vhash (KTuple i l) = vhash (KTuple j m).
  Proof.
    intros i l j m H. rewrite !vhash_tuple. f_equal.
    induction H as [|a b l m Hab Hlm IH]; cbn; [reflexivity|]. rewrite Hab, IH. reflexivity.
  Qed.

  Definition cond (a b : kv) : Prop := norm = true \/ (no_neg_zero a = true /\ no_neg_zero b = true).

  Theorem coherent_gen : forall a b, cond a b -> veq a b = true -> vhash a = vhash b.
  Proof.
    induction a as [ |x|x|s|i n|i b0 e0|i l IH|t] using kv_ind2; intros [ |y|y|s'|j n'|j b1 e1|j m|t'] Hc H;
      try (cbn in H; discriminate).
    - reflexivity.
    - cbn in H. apply eqb_prop in H. subst; reflexivity.
    - cbn in H. cbn [ValueEq.vhash]. apply feqb_hash; [|assumption]. destruct Hc as [Hc|Hc]; [left; assumption|right; exact Hc].
    - cbn in H. apply bytes_eqb_eq in H. subst; reflexivity.
    - cbn in H. apply andb_prop in H. destruct H as [_ H]. apply bytes_eqb_eq in H. subst; reflexivity.
    - cbn in H. apply andb_prop in H. destruct H as [H H3]. apply andb_prop in H. destruct H as [_ H2].
      apply Z.eqb_eq in H2. apply Z.eqb_eq in H3. subst; reflexivity.
    - rewrite veq_tuple_unfold in H. apply orb_prop in H. destruct H as [H|H].
      + apply kv_same_eq in H. rewrite H. reflexivity.
      + apply tuple_hash_structural.
        assert (Hc' : norm = true \/ (forallb no_neg_zero l = true /\ forallb no_neg_zero m = true)) by exact Hc.
        clear Hc. revert m H Hc'.
        induction IH as [|x l Hx Hl IHl]; intros [|y m] H Hc; cbn in H; try discriminate; [constructor|].
        apply andb_prop in H. destruct H as [H1 H2]. constructor.
        * apply Hx; [|assumption]. destruct Hc as [Hc|[Hc1 Hc2]]; [left; assumption|right].
          cbn in Hc1, Hc2. apply andb_prop in Hc1. apply andb_prop in Hc2. split; [apply Hc1|apply Hc2].
        * apply IHl; [assumption|]. destruct Hc as [Hc|[Hc1 Hc2]]; [left; assumption|right].
          cbn in Hc1, Hc2. apply andb_prop in Hc1. apply andb_prop in Hc2. split; [apply Hc1|apply Hc2].
    - reflexivity.
  Qed.
End Coherence.

Definition coherent (norm : bool) (hc : hconsts) : Prop :=
  forall a b, has_hash a = true -> has_hash b = true -> veq a b = true -> vhash norm hc a = vhash norm hc b.

(* T coherent_hashable: with hash_number normalising -0, == values hash equally -- ALL values, whatever the
   constants of the Boolean/None arms and the fold of the tuple hash *)
Theorem coherent_hashable : forall hc, coherent true hc.
Proof. intros hc a b _ _ H. apply coherent_gen; [left; reflexivity|assumption]. Qed.

(* without the normalisation: all values free of negative zeros *)
Theorem coherent_except_neg_zero : forall hc a b, no_neg_zero a = true -> no_neg_zero b = true ->
  veq a b = true -> vhash false hc a = vhash false hc b.
Proof. intros hc a b Ha Hb H. apply coherent_gen; [right; split; assumption|assumption]. Qed.

(* T coherent_refuted: today's hash_number (no normalisation): 0 and -0 are == and hash differently; also
   inside tuples, also nested *)
Theorem coherent_refuted_num : forall hc, ~ coherent false hc.
Proof.
  intros hc H. specialize (H (KNum f64_zero) (KNum f64_neg_zero) eq_refl eq_refl eq_refl).
  vm_compute in H. discriminate.
Qed.

Theorem coherent_refuted : ~ coherent false hconsts_today /\
  (exists a b, has_hash a = true /\ has_hash b = true /\ veq a b = true /\
               vhash false hconsts_today a <> vhash false hconsts_today b /\
               a = KTuple 1 [KNum f64_zero; KStr []] /\ b = KTuple 2 [KNum f64_neg_zero; KStr []]) /\
  (exists a b, has_hash a = true /\ has_hash b = true /\ veq a b = true /\
               vhash false hconsts_today a <> vhash false hconsts_today b /\
               a = KTuple 1 [KTuple 3 [KNum f64_neg_zero]; KNil] /\ b = KTuple 2 [KTuple 4 [KNum f64_zero]; KNil]).
Proof.
  split; [apply coherent_refuted_num|]. split.
  - eexists; eexists. repeat split; try reflexivity. vm_compute. discriminate.
  - eexists; eexists. repeat split; try reflexivity. vm_compute. discriminate.
Qed.

(* ---- NaN keys ---- *)
Lemma nan_never_equal : forall k', veq (KNum f64_nan) k' = false.
Proof. intros [ | | | | | | | ]; reflexivity. Qed.

(* the address shortcut of ObjTuple::eq: one tuple object equals itself even with a NaN inside;
   two tuples built separately do not *)
Example nan_tuple_identity :
  veq (KTuple 7 [KNum f64_nan]) (KTuple 7 [KNum f64_nan]) = true /\
  veq (KTuple 7 [KNum f64_nan]) (KTuple 8 [KNum f64_nan]) = false.
Proof. split; reflexivity. Qed.

Section KvMap.
  Variable V : Type.
  Variable norm : bool.
  Variable hc : hconsts.

  Notation M_run := (m_run kv V veq (vhash norm hc) has_hash).
  Notation S_run := (s_run kv V veq has_hash).

  Lemma coherent_on_all : coherent norm hc -> forall ks, coherent_on kv veq (vhash norm hc) has_hash ks.
  Proof. intros H ks a b _ _ Ha Hb E. apply H; assumption. Qed.

  (* T nan_keys: every insert of NaN adds an entry (old value: none, len + 1) and no lookup of NaN hits,
     in M and in S alike *)
  Theorem nan_keys : forall v,
    (forall m, NoDup (map fst m) ->
       snd (m_insert kv V veq (vhash norm hc) m (KNum f64_nan) v) = None /\
       m_len kv V (fst (m_insert kv V veq (vhash norm hc) m (KNum f64_nan) v)) = S (m_len kv V m) /\
       m_get kv V veq (vhash norm hc) (fst (m_insert kv V veq (vhash norm hc) m (KNum f64_nan) v)) (KNum f64_nan) = None /\
       m_get kv V veq (vhash norm hc) m (KNum f64_nan) = None /\
       NoDup (map fst (fst (m_insert kv V veq (vhash norm hc) m (KNum f64_nan) v)))) /\
    (forall s, snd (s_insert kv V veq s (KNum f64_nan) v) = None /\
       length (fst (s_insert kv V veq s (KNum f64_nan) v)) = S (length s) /\
       s_get kv V veq (fst (s_insert kv V veq s (KNum f64_nan) v)) (KNum f64_nan) = None /\
       s_get kv V veq s (KNum f64_nan) = None).
  Proof. intros v. apply never_equal_keys. apply nan_never_equal. Qed.

  (* the property, unconditional once coherence holds for all values *)
  Theorem refines_when_coherent : coherent norm hc -> forall ops,
    Forall2 (res_equiv kv V) (fst (M_run [] ops)) (fst (S_run [] ops)).
  Proof. intros H ops. apply buckets_refine_assoc. apply coherent_on_all; assumption. Qed.
End KvMap.

(* today's code: the refinement holds for every operation sequence whose keys contain no negative zero *)
Theorem refines_except_neg_zero : forall V hc (ops : list (op kv V)),
  Forall (fun k => no_neg_zero k = true) (flat_map (op_keys kv V) ops) ->
  Forall2 (res_equiv kv V) (fst (m_run kv V veq (vhash false hc) has_hash [] ops))
                           (fst (s_run kv V veq has_hash [] ops)).
Proof.
  intros V hc ops Hk. apply buckets_refine_assoc. intros a b Ha Hb _ _ E.
  rewrite Forall_forall in Hk. apply coherent_except_neg_zero; auto.
Qed.

(* and it fails with one: M and S disagree on `{0: v}.has_key(-0)` *)
Theorem refinement_refuted_neg_zero :
  let ops := [OInsert (KNum f64_zero) 1%N; OHasKey (KNum f64_neg_zero); OInsert (KNum f64_neg_zero) 2%N; OLen] in
  fst (m_run kv N veq (vhash false hconsts_today) has_hash [] ops) = [RVal None; RBool false; RVal None; RLen 2] /\
  fst (s_run kv N veq has_hash [] ops) = [RVal None; RBool true; RVal (Some 1%N); RLen 1].
Proof. split; vm_compute; reflexivity. Qed.

(* hypotheses satisfiable / non-trivial states *)
Example refine_example :
  let k1 := KTuple 1 [KNum f64_one; KStr [x61; x62]] in
  let k2 := KTuple 2 [KNum f64_one; KStr [x61; x62]] in
  let ops := [OInsert k1 1%N; OInsert (KBool false) 2%N; OInsert (KNum f64_zero) 3%N; OInsert k2 4%N;
              ORemove (KNum f64_neg_zero); OLen; OGet k2] in
  fst (m_run kv N veq (vhash true hconsts_today) has_hash [] ops) =
    [RVal None; RVal None; RVal None; RVal (Some 1%N); RVal (Some 3%N); RLen 2; RVal (Some 4%N)] /\
  fst (s_run kv N veq has_hash [] ops) = fst (m_run kv N veq (vhash true hconsts_today) has_hash [] ops).
Proof. split; vm_compute; reflexivity. Qed.

Print Assumptions coherent_hashable.
Print Assumptions coherent_except_neg_zero.
Print Assumptions coherent_refuted.
Print Assumptions tuple_hash_structural.
Print Assumptions nan_keys.
Print Assumptions refines_when_coherent.
Print Assumptions refines_except_neg_zero.
Print Assumptions refinement_refuted_neg_zero.

(* ---- ranges: identity depends on the cache (RangeCache.v), the hash does not ---- *)
Lemma range_veq_same_bounds : forall i j b e, veq (KRange i b e) (KRange j b e) = N.eqb i j.
Proof. intros. cbn. rewrite !Z.eqb_refl, !andb_true_r. reflexivity. Qed.

Lemma range_hash_bounds_only : forall norm hc i j b e, vhash norm hc (KRange i b e) = vhash norm hc (KRange j b e).
Proof. reflexivity. Qed.

(* `a..b`, then n distinct other ranges, then `a..b` again, from an empty cache of 8 entries: the two values
   are == (one box) for n = 7 and not == (the box was evicted and re-created) for n = 8; a..b evaluated with
   fewer ranges in between is always the same box *)
Theorem range_identity_within_8 : forall n, (n <= 7)%nat ->
  exists x y, twice_with_gap 8 0 3 n = Some (x, y) /\ veq x y = true.
Proof.
  intros n Hn. do 8 (destruct n as [|n]; [eexists; eexists; split; vm_compute; reflexivity|]). lia.
Qed.

Theorem range_identity_beyond_8 :
  exists x y, twice_with_gap 8 0 3 8 = Some (x, y) /\ veq x y = false /\
              forall norm hc, vhash norm hc x = vhash norm hc y.
Proof.
  eexists; eexists. split; [vm_compute; reflexivity|]. split; [reflexivity|]. intros; reflexivity.
Qed.

Print Assumptions range_identity_within_8.
Print Assumptions range_identity_beyond_8.
