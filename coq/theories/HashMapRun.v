(* HashMapRun.v -- executable entry points for the correspondence checks of C12 (tools/props/C12.py).
   Definitions only.  Inputs arrive in the compact wire format of YV.Wire.parse_nss: groups of decimal numbers.

   key description (prefix code):
     0 nil | 1 false | 2 true | 3 <bits> number | 4 <len> <byte>* string | 5 <id> <len> <byte>* class
     6 <begin+2^40> <end+2^40> range expression evaluated NOW through the range cache
     7 <n> <desc>*n  tuple built NOW (fresh object) | 8 <tag> unhashable value | 9 <i> the i-th declared value
   statement (one group):
     11 <desc>            declare (evaluate and remember; `var kI = <expr>;`)
     0 <v> <desc> insert | 1 <desc> get | 2 <desc> has_key | 3 <desc> remove | 4 clear | 5 len
     6 keys | 7 values | 8 items | 9 <n> (<v> <desc>)*n  literal `m = {..}`
   map values are numbers <v>; 0 stands for nil. *)
From Coq Require Import List ZArith NArith Bool String Ascii.
From Coq Require Import Strings.Byte Floats.SpecFloat.
From YV Require Import Num Show Wire RangeCache ValueEq HashMapModel RangeCacheModel.
Import ListNotations.
Open Scope string_scope.

Record bst : Type := mkB { b_cache : rcache; b_next : N; b_built : list kv }.
Definition bst_init : bst := mkB rc_init 0 [].

Definition off40 : Z := 1099511627776.

Section Parse.
  Variable size : nat.   (* RANGE_CACHE_SIZE *)

  Fixpoint parse_key (fuel : nat) (st : bst) (l : list N) : option (kv * bst * list N) :=
    match fuel with
    | O => None
    | S f =>
      match l with
      | 0%N :: r => Some (KNil, st, r)
      | 1%N :: r => Some (KBool false, st, r)
      | 2%N :: r => Some (KBool true, st, r)
      | 3%N :: b :: r => Some (KNum (f64_of_bits (Z.of_N b)), st, r)
      | 4%N :: n :: r => Some (KStr (bytes_of_Ns (firstn (N.to_nat n) r)), st, skipn (N.to_nat n) r)
      | 5%N :: id :: n :: r =>
          Some (KClass id (bytes_of_Ns (firstn (N.to_nat n) r)), st, skipn (N.to_nat n) r)
      | 6%N :: b :: e :: r =>
          let '(k, c') := eval_range size (b_cache st) (Z.of_N b - off40) (Z.of_N e - off40) in
          Some (k, mkB c' (b_next st) (b_built st), r)
      | 7%N :: n :: r =>
          match (fix elems (cnt : nat) (st : bst) (r : list N) (acc : list kv) : option (list kv * bst * list N) :=
                   match cnt with
                   | O => Some (rev acc, st, r)
                   | S c => match parse_key f st r with
                            | Some (k, st', r') => elems c st' r' (k :: acc)
                            | None => None
                            end
                   end) (N.to_nat n) st r [] with
          | Some (ks, st', r') => Some (KTuple (b_next st') ks, mkB (b_cache st') (b_next st' + 1) (b_built st'), r')
          | None => None
          end
      | 8%N :: t :: r => Some (KUnhashable t, st, r)
      | 9%N :: i :: r => match nth_error (b_built st) (N.to_nat i) with
                         | Some k => Some (k, st, r)
                         | None => None
                         end
      | _ => None
      end
    end.

  Definition pkey (st : bst) (l : list N) := parse_key (S (List.length l)) st l.

  Fixpoint parse_pairs (cnt : nat) (st : bst) (l : list N) (acc : list (kv * N)) : option (list (kv * N) * bst) :=
    match cnt with
    | O => Some (rev acc, st)
    | S c => match l with
             | v :: r => match pkey st r with
                         | Some (k, st', r') => parse_pairs c st' r' ((k, v) :: acc)
                         | None => None
                         end
             | [] => None
             end
    end.

  Inductive stmt : Type := SDecl | SOp (o : op kv N) | SBad.

  Definition parse_stmt (st : bst) (g : list N) : stmt * bst :=
    match g with
    | 11%N :: r => match pkey st r with
                   | Some (k, st', _) => (SDecl, mkB (b_cache st') (b_next st') (b_built st' ++ [k]))
                   | None => (SBad, st)
                   end
    | 0%N :: v :: r => match pkey st r with Some (k, st', _) => (SOp (OInsert k v), st') | None => (SBad, st) end
    | 1%N :: r => match pkey st r with Some (k, st', _) => (SOp (OGet k), st') | None => (SBad, st) end
    | 2%N :: r => match pkey st r with Some (k, st', _) => (SOp (OHasKey k), st') | None => (SBad, st) end
    | 3%N :: r => match pkey st r with Some (k, st', _) => (SOp (ORemove k), st') | None => (SBad, st) end
    | [4%N] => (SOp OClear, st)
    | [5%N] => (SOp OLen, st)
    | [6%N] => (SOp OKeys, st)
    | [7%N] => (SOp OValues, st)
    | [8%N] => (SOp OItems, st)
    | 9%N :: n :: r => match parse_pairs (N.to_nat n) st r [] with
                       | Some (kvs, st') => (SOp (OLiteral kvs), st')
                       | None => (SBad, st)
                       end
    | _ => (SBad, st)
    end.
End Parse.

(* ---- rendering ---- *)
Fixpoint show_kv (a : kv) : string :=
  match a with
  | KNil => "z"
  | KBool b => if b then "t" else "f"
  | KNum x => "n" ++ show_Z (bits_of_f64 x)
  | KStr s => "s" ++ hex_of_bytes s
  | KClass _ n => "c" ++ hex_of_bytes n
  | KRange _ b e => "r" ++ show_Z b ++ "_" ++ show_Z e
  | KTuple _ l => "(" ++ (fix go (l : list kv) : string :=
                            match l with
                            | [] => ""
                            | [x] => show_kv x
                            | x :: r => show_kv x ++ "," ++ go r
                            end) l ++ ")"
  | KUnhashable t => "u" ++ show_N t
  end.

Definition show_val (v : N) : string := "v" ++ show_N v.
Definition show_entry (e : kv * N) : string := show_kv (fst e) ++ "=" ++ show_val (snd e).

Definition show_res (r : res kv N) : string :=
  match r with
  | RVal None => "-"
  | RVal (Some v) => show_val v
  | RBool b => show_bool b
  | RLen n => "L" ++ show_nat n
  | RKeys l => "K[" ++ show_sep ";" show_kv l ++ "]"
  | RValues l => "W[" ++ show_sep ";" show_val l ++ "]"
  | RItems l => "I[" ++ show_sep ";" show_entry l ++ "]"
  | RNil => "N"
  | RErr k => "E" ++ show_kv k
  end.

Section Run.
  Variable size : nat.
  Variable norm : bool.
  Variable hc : hconsts.

  Notation MS := (mstate kv N).
  Notation SS := (sstate kv N).

  (* which stored key of S does a keyed operation meet?  (coverage measurement only)
     h<stored key> hit | n<key> insert of a new entry | m miss | - no key / rejected *)
  Fixpoint find_key (k : kv) (s : SS) : option kv :=
    match s with
    | [] => None
    | (k', _) :: r => if veq k k' then Some k' else find_key k r
    end.

  Definition op_info (s : SS) (o : op kv N) : string :=
    let look (k : kv) (ins : bool) :=
      if has_hash k then
        match find_key k s with
        | Some k' => "h" ++ show_kv k'
        | None => if ins then "n" ++ show_kv k else "m"
        end
      else "-" in
    match o with
    | OInsert k _ => look k true
    | OGet k | OHasKey k | ORemove k => look k false
    | _ => "-"
    end.

  (* runs the statements on M and on S side by side; output: results of M, "|", results of S, "|", op_info *)
  Fixpoint run_stmts (gs : list (list N)) (st : bst) (m : MS) (s : SS) (accm accs acci : list string)
    : list string * list string * list string :=
    match gs with
    | [] => (rev accm, rev accs, rev acci)
    | g :: r =>
        match parse_stmt size st g with
        | (SDecl, st') => run_stmts r st' m s accm accs acci
        | (SBad, st') => (rev ("BAD" :: accm), rev ("BAD" :: accs), rev acci)
        | (SOp o, st') =>
            let '(m', x) := m_step kv N veq (vhash norm hc) has_hash m o in
            let '(s', y) := s_step kv N veq has_hash s o in
            run_stmts r st' m' s' (show_res x :: accm) (show_res y :: accs) (op_info s o :: acci)
        end
    end.

  Definition run_prog_w (w : string) : string :=
    let '(a, b, c) := run_stmts (parse_nss w) bst_init [] [] [] [] [] in
    show_sep " " (fun x => x) a ++ "|" ++ show_sep " " (fun x => x) b ++ "|" ++ show_sep " " (fun x => x) c.

  (* value level: every group is one key description, evaluated in order (declared, so `9 i` may refer back);
     output: per value has_hash and hash, then the matrix of == (row i: value i against every value) *)
  Fixpoint build_vals (gs : list (list N)) (st : bst) : option (list kv) :=
    match gs with
    | [] => Some (b_built st)
    | g :: r => match pkey size st g with
                | Some (k, st', _) => build_vals r (mkB (b_cache st') (b_next st') (b_built st' ++ [k]))
                | None => None
                end
    end.

  Definition run_vals_w (w : string) : string :=
    match build_vals (parse_nss w) bst_init with
    | None => "BAD"
    | Some ks =>
        show_sep " " (fun k => show_bool (has_hash k) ++ ":" ++ show_Z (vhash norm hc k)) ks ++ "|" ++
        show_sep " " (fun a => String.concat "" (map (fun b => show_bool (veq a b)) ks)) ks
    end.
End Run.
