(* C12, round 9 - SCALE theorems: nothing in has_hash / == / the map depends on how deep or how wide a key is.
   A cons-list path `(node, rest)` with n links (the keys of the nesting-depth ladder of tools/props/C12.py), built
   twice (different tuple objects: ids / ids'), for EVERY n:
     deep_key_hashable     hashable nodes and leaf  -> the path is hashable (no depth bound in has_hash)
     deep_key_unhashable   unhashable leaf          -> the path is unhashable at any depth
     deep_key_eq           the separately built path is == to it
     deep_key_neq          a path that differs at the innermost position only is not ==
     wide_key_hashable     a tuple of ANY number of hashable elements is hashable
     deep_key_roundtrip    insert p; has_key q; get q; len; has_key o; insert o; len  on the mechanism M gives
                           none, true, v, 1, false, none, 2  for every depth n (through refines_when_coherent)
   Proofs only; the definitions are those of ValueEq.v / HashMapModel.v. *)
From Coq Require Import List ZArith NArith Bool Lia Permutation.
From YV Require Import Num ValueEq HashMapModel HashMapProofs.
Import ListNotations.

Fixpoint path (ids : nat -> N) (node : nat -> kv) (leaf : kv) (n : nat) : kv :=
  match n with
  | O => leaf
  | S n' => KTuple (ids n') [node n'; path ids node leaf n']
  end.

Theorem deep_key_hashable : forall ids node leaf n,
  (forall i, has_hash (node i) = true) -> has_hash leaf = true -> has_hash (path ids node leaf n) = true.
Proof.
  intros ids node leaf n Hn Hl. induction n as [|n IH]; cbn; [assumption|].
  rewrite Hn, IH. reflexivity.
Qed.

Theorem deep_key_unhashable : forall ids node leaf n,
  has_hash leaf = false -> has_hash (path ids node leaf n) = false.
Proof.
  intros ids node leaf n Hl. induction n as [|n IH]; cbn; [assumption|].
  rewrite IH. destruct (has_hash (node n)); reflexivity.
Qed.

Theorem wide_key_hashable : forall id l, Forall (fun x => has_hash x = true) l -> has_hash (KTuple id l) = true.
Proof.
  intros id l H. cbn. apply forallb_forall. apply Forall_forall. assumption.
Qed.

Theorem wide_key_unhashable : forall id l x, In x l -> has_hash x = false -> has_hash (KTuple id l) = false.
Proof.
  intros id l x Hin Hx. cbn. destruct (forallb has_hash l) eqn:E; [|reflexivity].
  rewrite forallb_forall in E. rewrite (E x Hin) in Hx. discriminate.
Qed.

Theorem deep_key_eq : forall ids ids' node leaf n,
  (forall i, veq (node i) (node i) = true) -> veq leaf leaf = true ->
  veq (path ids node leaf n) (path ids' node leaf n) = true.
Proof.
  intros ids ids' node leaf n Hn Hl. induction n as [|n IH]; [assumption|].
  cbn [path]. rewrite veq_tuple_unfold. cbn [veq_list]. rewrite Hn, IH. cbn. apply orb_true_r.
Qed.

Theorem deep_key_neq : forall ids ids' node leaf leaf' n,
  veq leaf leaf' = false -> kv_same leaf leaf' = false ->
  veq (path ids node leaf n) (path ids' node leaf' n) = false /\
  kv_same (path ids node leaf n) (path ids' node leaf' n) = false.
Proof.
  intros ids ids' node leaf leaf' n Hv Hs. induction n as [|n [IH1 IH2]]; [split; assumption|].
  cbn [path]. rewrite veq_tuple_unfold, kv_same_tuple_unfold. cbn [veq_list kv_same_list].
  rewrite IH1, IH2.
  destruct (N.eqb (ids n) (ids' n)), (kv_same (node n) (node n)), (veq (node n) (node n)); split; reflexivity.
Qed.

Section Roundtrip.
  Variable V : Type.
  Variable norm : bool.
  Variable hc : hconsts.
  Hypothesis Hcoh : coherent norm hc.

  Definition scalar_res (r : res kv V) : Prop :=
    match r with RKeys _ | RValues _ | RItems _ => False | _ => True end.

  Lemma res_equiv_scalar : forall l l', Forall2 (res_equiv kv V) l l' -> Forall scalar_res l' -> l = l'.
  Proof.
    intros l l' H. induction H as [|a b l l' Hab _ IH]; intros Hs; [reflexivity|].
    inversion Hs; subst. f_equal; [|apply IH; assumption].
    destruct b; cbn in *; try contradiction; destruct a; cbn in Hab; assumption.
  Qed.

  Theorem deep_key_roundtrip : forall ids ids' node leaf leaf' n (v w : V),
    (forall i, has_hash (node i) = true) -> (forall i, veq (node i) (node i) = true) ->
    has_hash leaf = true -> veq leaf leaf = true ->
    has_hash leaf' = true -> veq leaf' leaf = false -> kv_same leaf' leaf = false ->
    let p := path ids node leaf n in
    let q := path ids' node leaf n in
    let o := path ids' node leaf' n in
    fst (m_run kv V veq (vhash norm hc) has_hash []
           [OInsert p v; OHasKey q; OGet q; OLen; OHasKey o; OInsert o w; OLen; OGet p]) =
    [RVal None; RBool true; RVal (Some v); RLen 1; RBool false; RVal None; RLen 2; RVal (Some v)].
  Proof.
    intros ids ids' node leaf leaf' n v w Hh Hr Hlh Hlr Hlh' Hne Hns p q o.
    pose proof (refines_when_coherent V norm hc Hcoh
      [OInsert p v; OHasKey q; OGet q; OLen; OHasKey o; OInsert o w; OLen; OGet p]) as R.
    assert (Hp : has_hash p = true) by (apply deep_key_hashable; assumption).
    assert (Hq : has_hash q = true) by (apply deep_key_hashable; assumption).
    assert (Ho : has_hash o = true) by (apply deep_key_hashable; assumption).
    assert (Eqp : veq q p = true) by (apply deep_key_eq; assumption).
    assert (Epp : veq p p = true) by (apply deep_key_eq; assumption).
    assert (Eop : veq o p = false) by (apply deep_key_neq; assumption).
    assert (HS : fst (s_run kv V veq has_hash []
                        [OInsert p v; OHasKey q; OGet q; OLen; OHasKey o; OInsert o w; OLen; OGet p]) =
                 [RVal None; RBool true; RVal (Some v); RLen 1; RBool false; RVal None; RLen 2; RVal (Some v)]).
    { cbn [s_run s_step]. rewrite Hp, Hq, Ho. unfold s_insert, s_get, s_has_key, upsert. cbn [find_entry app].
      rewrite Eqp. cbn [find_entry app length fst snd]. rewrite Eop. cbn [find_entry app length fst snd].
      rewrite Epp. reflexivity. }
    rewrite HS in R. apply res_equiv_scalar in R; [exact R|].
    repeat constructor.
  Qed.
End Roundtrip.
