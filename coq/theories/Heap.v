(* Heap.v -- object graph of yarel's managed heap (memory.rs `Heap.objects`).
   Definitions only.  A heap is the Vec of boxes in allocation order; every box has a kind
   (the Rust type behind `GcBox<T>`), a root count (`num_roots`), its outgoing `Gc` pointers
   tagged with the struct field ("role") that holds them, and `mem::size_of::<T>()`. *)
From Coq Require Import List NArith Bool Arith.
Import ListNotations.

Definition addr := N.

(* one constructor per managed Rust type *)
Inductive kind : Type :=
| KString | KStringIter | KUpvalue | KFunction | KNative | KClosure | KClass | KInstance
| KBoundMethod | KBoundNative | KVec | KVecIter | KTuple | KTupleIter | KRange | KRangeIter
| KHashMap | KModule | KFiber | KChunk.

(* one constructor per pointer-carrying field *)
Inductive role : Type :=
| RElem            (* ObjVec.elements / ObjTuple.elements                     *)
| RKey             (* ObjHashMap.elements keys                                *)
| RValue           (* ObjHashMap.elements values                              *)
| RClass           (* `class` field of any object                             *)
| RSuperclass      (* ObjClass.superclass                                     *)
| RMetaclass       (* ObjClass.metaclass                                      *)
| RMethod          (* ObjClass.methods values                                 *)
| RMethodName      (* ObjClass.methods keys (Gc<ObjString>)                   *)
| RName            (* ObjClass.name / ObjFunction.name / ObjNative.name       *)
| RField           (* ObjInstance.fields values                               *)
| RFieldName       (* ObjInstance.fields keys                                 *)
| RReceiver        (* ObjBoundMethod.receiver                                 *)
| RBoundFn         (* ObjBoundMethod.method                                   *)
| RUpvalue         (* ObjClosure.upvalues                                     *)
| RClosedValue     (* ObjUpvalue.data = Closed(v)                             *)
| ROpenSlot        (* ObjUpvalue.data = Open(raw ptr): the fiber owning the stack slot *)
| RNext            (* ObjUpvalue.next                                         *)
| RFunction        (* ObjClosure.function                                     *)
| RChunk           (* ObjFunction.chunk                                       *)
| RConstant        (* Chunk.constants                                         *)
| RConstKey        (* Chunk.constant_map keys                                 *)
| RModule          (* ObjClosure.module                                       *)
| RModulePath      (* ObjFunction.module_path                                 *)
| RAttr            (* ObjModule.attributes values                             *)
| RAttrName        (* ObjModule.attributes keys                               *)
| RIterable        (* iterator -> iterable                                    *)
| RStack           (* ObjFiber.stack[0..len]                                  *)
| RFrameClosure    (* ObjFiber.frames[i].closure                              *)
| RCaller          (* ObjFiber.caller                                         *)
| RReturnValue     (* ObjFiber.return_value                                   *)
| ROpenUpvalues    (* ObjFiber.open_upvalues                                  *)
| RPath.           (* ObjModule.path                                          *)

Definition N_of_kind (k : kind) : N :=
  match k with
  | KString => 0 | KStringIter => 1 | KUpvalue => 2 | KFunction => 3 | KNative => 4
  | KClosure => 5 | KClass => 6 | KInstance => 7 | KBoundMethod => 8 | KBoundNative => 9
  | KVec => 10 | KVecIter => 11 | KTuple => 12 | KTupleIter => 13 | KRange => 14
  | KRangeIter => 15 | KHashMap => 16 | KModule => 17 | KFiber => 18 | KChunk => 19
  end%N.

(* numbering in constructor order; out-of-range numerals map to the last constructor *)
Definition kind_of_N (n : N) : kind :=
  match n with
  | 0 => KString | 1 => KStringIter | 2 => KUpvalue | 3 => KFunction | 4 => KNative
  | 5 => KClosure | 6 => KClass | 7 => KInstance | 8 => KBoundMethod | 9 => KBoundNative
  | 10 => KVec | 11 => KVecIter | 12 => KTuple | 13 => KTupleIter | 14 => KRange
  | 15 => KRangeIter | 16 => KHashMap | 17 => KModule | 18 => KFiber | _ => KChunk
  end%N.

Definition N_of_role (r : role) : N :=
  match r with
  | RElem => 0 | RKey => 1 | RValue => 2 | RClass => 3 | RSuperclass => 4 | RMetaclass => 5
  | RMethod => 6 | RMethodName => 7 | RName => 8 | RField => 9 | RFieldName => 10
  | RReceiver => 11 | RBoundFn => 12 | RUpvalue => 13 | RClosedValue => 14 | ROpenSlot => 15
  | RNext => 16 | RFunction => 17 | RChunk => 18 | RConstant => 19 | RConstKey => 20
  | RModule => 21 | RModulePath => 22 | RAttr => 23 | RAttrName => 24 | RIterable => 25
  | RStack => 26 | RFrameClosure => 27 | RCaller => 28 | RReturnValue => 29
  | ROpenUpvalues => 30 | RPath => 31
  end%N.

Definition role_of_N (n : N) : role :=
  match n with
  | 0 => RElem | 1 => RKey | 2 => RValue | 3 => RClass | 4 => RSuperclass | 5 => RMetaclass
  | 6 => RMethod | 7 => RMethodName | 8 => RName | 9 => RField | 10 => RFieldName
  | 11 => RReceiver | 12 => RBoundFn | 13 => RUpvalue | 14 => RClosedValue | 15 => ROpenSlot
  | 16 => RNext | 17 => RFunction | 18 => RChunk | 19 => RConstant | 20 => RConstKey
  | 21 => RModule | 22 => RModulePath | 23 => RAttr | 24 => RAttrName | 25 => RIterable
  | 26 => RStack | 27 => RFrameClosure | 28 => RCaller | 29 => RReturnValue
  | 30 => ROpenUpvalues | _ => RPath
  end%N.

Definition kind_eqb (a b : kind) : bool := N.eqb (N_of_kind a) (N_of_kind b).
Definition role_eqb (a b : role) : bool := N.eqb (N_of_role a) (N_of_role b).

Definition all_kinds : list kind :=
  [KString; KStringIter; KUpvalue; KFunction; KNative; KClosure; KClass; KInstance;
   KBoundMethod; KBoundNative; KVec; KVecIter; KTuple; KTupleIter; KRange; KRangeIter;
   KHashMap; KModule; KFiber; KChunk].

Definition all_roles : list role :=
  [RElem; RKey; RValue; RClass; RSuperclass; RMetaclass; RMethod; RMethodName; RName; RField;
   RFieldName; RReceiver; RBoundFn; RUpvalue; RClosedValue; ROpenSlot; RNext; RFunction;
   RChunk; RConstant; RConstKey; RModule; RModulePath; RAttr; RAttrName; RIterable; RStack;
   RFrameClosure; RCaller; RReturnValue; ROpenUpvalues; RPath].

Definition role_mem (r : role) (l : list role) : bool := existsb (role_eqb r) l.

Record obj : Type := mkObj {
  okind  : kind;
  oroots : nat;                  (* GcBox.num_roots *)
  oedges : list (role * addr);   (* outgoing Gc pointers in the order the Rust code visits them *)
  osize  : N                     (* mem::size_of::<T>() *)
}.

(* allocation order, oldest first: Heap.objects *)
Definition heap := list (addr * obj).

Fixpoint lookup (h : heap) (a : addr) : option obj :=
  match h with
  | [] => None
  | (b, o) :: r => if N.eqb b a then Some o else lookup r a
  end.

Definition in_heapb (h : heap) (a : addr) : bool :=
  match lookup h a with Some _ => true | None => false end.

Definition addrs (h : heap) : list addr := map fst h.

Definition rooted (o : obj) : bool := negb (Nat.eqb (oroots o) 0).

Definition total_size (h : heap) : N := fold_right (fun p acc => N.add (osize (snd p)) acc) 0%N h.

Definition total_edges (h : heap) : nat :=
  fold_right (fun p acc => length (oedges (snd p)) + acc) 0 h.

Fixpoint mem_addr (a : addr) (l : list addr) : bool :=
  match l with
  | [] => false
  | b :: r => if N.eqb b a then true else mem_addr a r
  end.

Fixpoint nodup_addrs (l : list addr) : bool :=
  match l with
  | [] => true
  | a :: r => negb (mem_addr a r) && nodup_addrs r
  end.

(* well-formedness: addresses unique *)
Definition wf (h : heap) : Prop := NoDup (addrs h).
Definition wfb (h : heap) : bool := nodup_addrs (addrs h).

(* ... and below the allocation counter [n], as are all edge targets (which may dangle) *)
Definition bounded_obj (n : N) (o : obj) : bool :=
  forallb (fun e => N.ltb (snd e) n) (oedges o).
Definition wf_atb (n : N) (h : heap) : bool :=
  wfb h && forallb (fun p => N.ltb (fst p) n && bounded_obj n (snd p)) h.
Definition wf_at (n : N) (h : heap) : Prop :=
  wf h /\ forall a o, In (a, o) h -> (a < n)%N /\ forall r t, In (r, t) (oedges o) -> (t < n)%N.

(* object update helpers used by the mutator *)
Fixpoint update (h : heap) (a : addr) (f : obj -> obj) : heap :=
  match h with
  | [] => []
  | (b, o) :: r => if N.eqb b a then (b, f o) :: r else (b, o) :: update r a f
  end.

Definition inc_roots (o : obj) : obj := mkObj (okind o) (S (oroots o)) (oedges o) (osize o).
Definition dec_roots (o : obj) : obj := mkObj (okind o) (pred (oroots o)) (oedges o) (osize o).
Definition set_edges (es : list (role * addr)) (o : obj) : obj :=
  mkObj (okind o) (oroots o) es (osize o).

(* ---- checks on the per-type tables (the tables themselves are parameters) ---- *)

Definition all_pairs : list (kind * role) :=
  flat_map (fun k => map (fun r => (k, r)) all_roles) all_kinds.

(* every role an object can hold is followed by `mark`, or its target is pinned *)
Definition uncovered (holds : kind -> list role) (marks pinned : kind -> role -> bool)
  : list (kind * role) :=
  flat_map (fun k => map (fun r => (k, r))
                         (filter (fun r => negb (marks k r || pinned k r)) (holds k)))
           all_kinds.

Definition tables_cover (holds : kind -> list role) (marks pinned : kind -> role -> bool) : bool :=
  forallb (fun k => forallb (fun r => marks k r || pinned k r) (holds k)) all_kinds.

(* nothing is traced that the struct cannot hold *)
Definition tables_within (holds : kind -> list role) (marks bb bm : kind -> role -> bool) : bool :=
  forallb (fun p => let '(k, r) := p in
                    implb (marks k r || bb k r || bm k r) (role_mem r (holds k))) all_pairs.

(* blacken follows nothing that mark does not follow *)
Definition tables_agree (marks bb bm : kind -> role -> bool) : bool :=
  forallb (fun p => let '(k, r) := p in implb (bb k r || bm k r) (marks k r)) all_pairs.

(* blacken never calls mark *)
Definition no_regrey (bm : kind -> role -> bool) : bool :=
  forallb (fun p => let '(k, r) := p in negb (bm k r)) all_pairs.
