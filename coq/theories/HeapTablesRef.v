(* HeapTablesRef.v -- reference instances of the per-type tracing tables, transcribed BY HAND from
   the Rust sources of /repo/yarel/src.  Definitions only.

   Line numbers are those of the pristine sources (before the `verif_hooks` instrumentation, which
   shifts object.rs/memory.rs by a few lines); every entry also names the item so it can be found.

   holds_ref k          : roles an object of kind k can hold (struct definitions)
   marks_ref k r        : `<T as GcManaged>::mark` follows role r
   blackens_black_ref   : `<T as GcManaged>::blacken` calls `.blacken()` on role r
   blackens_mark_ref    : `<T as GcManaged>::blacken` calls `.mark()` on role r
   pinned_ref k r       : r is NOT traced, but its target is kept alive by a permanent root *)
From Coq Require Import List NArith Bool.
From YV Require Import Heap.
Import ListNotations.

Definition holds_ref (k : kind) : list role :=
  match k with
  (* object.rs:35-39  ObjString { class: Gc<ObjClass>, string, hash } *)
  | KString      => [RClass]
  (* object.rs:120-124 ObjStringIter { class, iterable: Gc<ObjString>, pos } *)
  | KStringIter  => [RClass; RIterable]
  (* object.rs:165-168,180-183 ObjUpvalue { data: Closed(Value) | Open(raw ptr into a fiber stack), next } *)
  | KUpvalue     => [RClosedValue; ROpenSlot; RNext]
  (* object.rs:250-256 ObjFunction { arity, upvalue_count, chunk, name, module_path } *)
  | KFunction    => [RChunk; RName; RModulePath]
  (* object.rs:300-304 ObjNative { name, function, manages_stack } *)
  | KNative      => [RName]
  (* object.rs:340-344 ObjClosure { function, upvalues, module } *)
  | KClosure     => [RFunction; RUpvalue; RModule]
  (* object.rs:379-384 ObjClass { name, metaclass, superclass, methods: HashMap<Gc<ObjString>,Value> } *)
  | KClass       => [RName; RMetaclass; RSuperclass; RMethodName; RMethod]
  (* object.rs:429-432 ObjInstance { class, fields: HashMap<Gc<ObjString>,Value> } *)
  | KInstance    => [RClass; RFieldName; RField]
  (* object.rs:462-465 ObjBoundMethod<T> { receiver: Value, method: Gc<T> }, T = ObjClosure | ObjNative *)
  | KBoundMethod => [RReceiver; RBoundFn]
  | KBoundNative => [RReceiver; RBoundFn]
  (* object.rs:524-528 ObjVec { class, elements: Vec<Value>, disp_lock } *)
  | KVec         => [RClass; RElem]
  (* object.rs:586-590 ObjVecIter { class, iterable, current } *)
  | KVecIter     => [RClass; RIterable]
  (* object.rs:796-800 ObjTuple { class, elements, self_lock } *)
  | KTuple       => [RClass; RElem]
  (* object.rs:886-890 ObjTupleIter { class, iterable, current } *)
  | KTupleIter   => [RClass; RIterable]
  (* object.rs:629-633 ObjRange { class, begin, end } *)
  | KRange       => [RClass]
  (* object.rs:691-696 ObjRangeIter { class, iterable, current, step } *)
  | KRangeIter   => [RClass; RIterable]
  (* object.rs:736-740 ObjHashMap { class, elements: HashMap<Value,Value>, disp_lock } *)
  | KHashMap     => [RClass; RKey; RValue]
  (* object.rs:928-933 ObjModule { imported, class, path, attributes: HashMap<Gc<ObjString>,Value> } *)
  | KModule      => [RClass; RPath; RAttrName; RAttr]
  (* object.rs:994-1006 ObjFiber { class, caller, stack, frames: Vec<CallFrame{closure,..}>,
                                   open_upvalues, return_value, .. } *)
  | KFiber       => [RClass; RCaller; RStack; RFrameClosure; ROpenUpvalues; RReturnValue]
  (* chunk.rs:236-241 Chunk { code, lines, constant_map: HashMap<Value,usize>, constants: Vec<Value> } *)
  | KChunk       => [RConstKey; RConstant]
  end.

Definition marks_ref (k : kind) (r : role) : bool :=
  match k, r with
  (* object.rs:105-109  ObjString::mark is empty *)
  (* object.rs:148-151  ObjStringIter::mark: iterable *)
  | KStringIter, RIterable => true
  (* object.rs:227-236  ObjUpvalue::mark: Closed(value) => value.mark(); Open(_) => {}; next *)
  | KUpvalue, RClosedValue | KUpvalue, RNext => true
  (* object.rs:276-280  ObjFunction::mark: name, chunk (module_path is not traced) *)
  | KFunction, RName | KFunction, RChunk => true
  (* object.rs:327-328  ObjNative::mark is empty *)
  (* object.rs:360-364  ObjClosure::mark: function, upvalues (module is not traced) *)
  | KClosure, RFunction | KClosure, RUpvalue => true
  (* object.rs:410-414  ObjClass::mark: metaclass, methods (memory.rs:498-503: values only);
                        name and superclass are not traced *)
  | KClass, RMetaclass | KClass, RMethod => true
  (* object.rs:443-447  ObjInstance::mark: class, fields (values only) *)
  | KInstance, RClass | KInstance, RField => true
  (* object.rs:473-477  ObjBoundMethod::mark: receiver, method *)
  | KBoundMethod, RReceiver | KBoundMethod, RBoundFn => true
  | KBoundNative, RReceiver | KBoundNative, RBoundFn => true
  (* object.rs:548-552  ObjVec::mark: class, elements (memory.rs:484-489) *)
  | KVec, RClass | KVec, RElem => true
  (* object.rs:612-615  ObjVecIter::mark: iterable *)
  | KVecIter, RIterable => true
  (* object.rs:826-830  ObjTuple::mark: class, elements *)
  | KTuple, RClass | KTuple, RElem => true
  (* object.rs:911-914  ObjTupleIter::mark: iterable *)
  | KTupleIter, RIterable => true
  (* object.rs:674-677  ObjRange::mark: class *)
  | KRange, RClass => true
  (* object.rs:719-722  ObjRangeIter::mark: iterable *)
  | KRangeIter, RIterable => true
  (* object.rs:752-756  ObjHashMap::mark: class, elements; memory.rs:498-503
                        `impl GcManaged for HashMap<K,V,S>` iterates `self.values()` only *)
  | KHashMap, RClass | KHashMap, RValue => true
  (* object.rs:946-949  ObjModule::mark: attributes (values only) *)
  | KModule, RAttr => true
  (* object.rs:1135-1146 ObjFiber::mark: stack (stack.rs:94-98), frames (object.rs:969-972:
                        CallFrame::mark: closure), open_upvalues, caller, return_value *)
  | KFiber, RStack | KFiber, RFrameClosure | KFiber, ROpenUpvalues
  | KFiber, RCaller | KFiber, RReturnValue => true
  (* chunk.rs:271-274   Chunk::mark: constants *)
  | KChunk, RConstant => true
  | _, _ => false
  end.

(* `blacken` of every type mirrors its `mark` with `.blacken()` calls, EXCEPT
   object.rs:479-482  ObjBoundMethod::blacken: `self.receiver.mark(); self.method.blacken();` *)
Definition blackens_mark_ref (k : kind) (r : role) : bool :=
  match k, r with
  | KBoundMethod, RReceiver | KBoundNative, RReceiver => true
  | _, _ => false
  end.

Definition blackens_black_ref (k : kind) (r : role) : bool :=
  marks_ref k r && negb (blackens_mark_ref k r).

(* Untraced roles whose target is kept alive by a permanent root. *)
Definition pinned_ref (k : kind) (r : role) : bool :=
  match k, r with
  (* Every ObjString is created by Vm::new_gc_obj_string (vm.rs:266-284), the only caller of
     ObjString::new outside tests, which stores a Root<ObjString> in `Vm.string_store`
     (vm.rs:132, insert at vm.rs:282); ObjStringStore (vm.rs:1941-2030) never removes an entry.
     Hence every Gc<ObjString> is pinned: *)
  | KFunction, RModulePath        (* object.rs:255 *)
  | KNative, RName                (* object.rs:301 *)
  | KClass, RName                 (* object.rs:380 *)
  | KClass, RMethodName           (* object.rs:383, keys *)
  | KInstance, RFieldName         (* object.rs:431, keys *)
  | KModule, RPath                (* object.rs:931 *)
  | KModule, RAttrName            (* object.rs:932, keys *)
      => true
  (* ObjString.class is always `Vm.string_class: Option<Root<ObjClass>>` (vm.rs:131, used at vm.rs:277) *)
  | KString, RClass => true
  (* iterator / module / fiber `class` fields are always core classes fetched from
     `Vm.class_store` (CoreClassStore holds Root<ObjClass>, class_store.template.rs:24-29):
     vm.rs:353 string_iter_class, vm.rs:387 vec_iter_class, vm.rs:377 tuple_iter_class,
     vm.rs:367 range_iter_class, vm.rs:440 module_class, vm.rs:430 fiber_class *)
  | KStringIter, RClass | KVecIter, RClass | KTupleIter, RClass | KRangeIter, RClass
  | KModule, RClass | KFiber, RClass => true
  (* ObjClosure.module (object.rs:343) is the active module, a member of
     `Vm.modules: HashMap<_, Root<RefCell<ObjModule>>>` (vm.rs:129, inserted at vm.rs:444).
     CAVEAT: Vm::reset (vm.rs:409-416) drops every module except "main" (and every non-core
     chunk root) while closures created under them may survive in "main"'s callers. *)
  | KClosure, RModule => true
  (* Chunk.constant_map keys (chunk.rs:239) are exactly the elements of Chunk.constants
     (Chunk::add_constant, chunk.rs:253-264 inserts into both), which `mark` follows. *)
  | KChunk, RConstKey => true
  | _, _ => false
  end.

(* The tables after the three missing edges are traced and ObjBoundMethod::blacken blackens
   (instead of marks) its receiver. *)
Definition marks_fixed (k : kind) (r : role) : bool :=
  match k, r with
  | KHashMap, RKey | KClass, RSuperclass | KUpvalue, ROpenSlot => true
  | _, _ => marks_ref k r
  end.
Definition blackens_black_fixed (k : kind) (r : role) : bool := marks_fixed k r.
Definition blackens_mark_fixed (_ : kind) (_ : role) : bool := false.

Definition no_pins (_ : kind) (_ : role) : bool := false.
