(* Integer-index logic of yarel, abstracted from floats.  Definitions only (proofs: IndexProofs.v).
   Models  utils.rs   validate_integer
           value.rs   Value::try_as_bounded_index
           object.rs  ObjRange::make_bounded_range
   isize is 64 bit. *)
From Coq Require Import List ZArith Bool String.
Import ListNotations.
Local Open Scope string_scope.
Local Open Scope Z_scope.

(* ---------- results and errors ---------- *)
Inductive result (A E : Type) : Type :=
| Ok (a : A)
| Error (e : E).
Arguments Ok {A E} a.
Arguments Error {A E} e.

(* The three yarel error classes these operations may raise, with the exact message text.
   [RustPanic] is NOT a yarel error: it stands for a Rust panic (slice index out of range or not on a
   char boundary, Vec index out of range).  The M model produces it wherever the Rust code would
   panic; StrProofs.v shows it is unreachable. *)
Inductive err : Type :=
| TypeError (msg : string)
| ValueError (msg : string)
| IndexError (msg : string)
| RustPanic (msg : string).

Definition bind {A B E} (r : result A E) (f : A -> result B E) : result B E :=
  match r with Ok a => f a | Error e => Error e end.

(* ---------- isize ---------- *)
Definition isize_min : Z := - 2 ^ 63.
Definition isize_max : Z := 2 ^ 63 - 1.
Definition in_isize (z : Z) : bool := (isize_min <=? z) && (z <=? isize_max).

(* two's-complement wrap-around (release build; a debug build panics instead when the
   wrapped value differs from the exact one) *)
Definition isize_wrap (z : Z) : Z := (z + 2 ^ 63) mod 2 ^ 64 - 2 ^ 63.
Definition isize_add (a b : Z) : Z := isize_wrap (a + b).

(* ---------- numbers as seen by the index logic ---------- *)
(* A yarel Number (f64) matters here only through: is it NaN / fractional, is it infinite,
   or which mathematical integer is it. *)
Inductive num : Type :=
| NumInt (z : Z)            (* finite, n.trunc() == n ; z any integer a double can hold *)
| NumNonIntegral            (* NaN or a finite non-integer: n.trunc() != n *)
| NumInf (negative : bool). (* +-inf : n.trunc() == n *)

(* Rust  [n as isize]  for n with n.trunc() == n : saturating *)
Definition sat_isize (z : Z) : Z :=
  if z <? isize_min then isize_min else if isize_max <? z then isize_max else z.

Inductive idx : Type :=
| INotNumber                (* the Value is not a Number *)
| INotIntegral              (* Number with n.trunc() != n (includes NaN) *)
| IInt (z : Z).             (* Number with n.trunc() == n ; z = n as isize, saturated *)

Definition idx_of_num (n : num) : idx :=
  match n with
  | NumInt z => IInt (sat_isize z)
  | NumNonIntegral => INotIntegral
  | NumInf true => IInt isize_min
  | NumInf false => IInt isize_max
  end.

Definition idx_wf (i : idx) : bool :=
  match i with IInt z => in_isize z | _ => true end.

(* ---------- utils.rs validate_integer ---------- *)
(* [shown] is the Display rendering of the offending Value *)
Definition validate_integer (shown : string) (i : idx) : result Z err :=
  match i with
  | IInt z => Ok z
  | INotIntegral => Error (ValueError ("Expected an integer value but found '" ++ shown ++ "'."))
  | INotNumber => Error (TypeError ("Expected an integer value but found '" ++ shown ++ "'."))
  end.

(* ---------- value.rs Value::try_as_bounded_index ---------- *)
Definition bounded_index (kind shown : string) (i : idx) (bound : Z) : result nat err :=
  match validate_integer shown i with
  | Error e => Error e
  | Ok index =>
    let index := if index <? 0 then isize_add index bound else index in
    if (index <? 0) || (index >=? bound)
    then Error (IndexError (kind ++ " index out of bounds."))
    else Ok (Z.to_nat index)
  end.

(* ---------- object.rs ObjRange::make_bounded_range ---------- *)
Definition bounded_range (kind : string) (rbegin rend limit : Z) : result (nat * nat) err :=
  let b := if rbegin <? 0 then isize_add rbegin limit else rbegin in
  if (b <? 0) || (b >=? limit)
  then Error (IndexError (kind ++ " slice start out of range."))
  else
    let e := if rend <? 0 then isize_add rend limit else rend in
    if (e <? 0) || (e >? limit)
    then Error (IndexError (kind ++ " slice end out of range."))
    else Ok (Z.to_nat b, Z.to_nat (if e >=? b then e else b)).

(* ---------- reference (Spec) ---------- *)
(* Python-style normalisation of a possibly negative position *)
Definition norm_pos (z limit : Z) : Z := if z <? 0 then z + limit else z.

Definition spec_index (z bound : Z) : option nat :=
  if (- bound <=? z) && (z <? bound) then Some (Z.to_nat (z mod bound)) else None.

Definition spec_range (rbegin rend limit : Z) : option (nat * nat) :=
  let b := norm_pos rbegin limit in
  let e := norm_pos rend limit in
  if (0 <=? b) && (b <? limit) && (0 <=? e) && (e <=? limit)
  then Some (Z.to_nat b, Z.to_nat (Z.max b e))
  else None.
