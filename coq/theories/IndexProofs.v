(* Proofs about the integer-index logic (Index.v). *)
From Coq Require Import String.
From Coq Require Import List ZArith Bool Lia.
From YV Require Import Index.
Import ListNotations.
Local Open Scope Z_scope.

Ltac Zify.zify_post_hook ::= Z.to_euclidean_division_equations.

Lemma pow63 : 2 ^ 63 = 9223372036854775808. Proof. reflexivity. Qed.
Lemma pow64 : 2 ^ 64 = 18446744073709551616. Proof. reflexivity. Qed.

Ltac isize_unfold :=
  unfold in_isize, isize_add, isize_wrap, isize_min, isize_max in *;
  rewrite ?pow63, ?pow64 in *.

Ltac zbool :=
  repeat match goal with
  | H : (_ && _)%bool = true |- _ => apply andb_true_iff in H; destruct H
  | H : (_ && _)%bool = false |- _ => apply andb_false_iff in H
  | H : (_ || _)%bool = true |- _ => apply orb_true_iff in H
  | H : (_ || _)%bool = false |- _ => apply orb_false_iff in H; destruct H
  | H : (_ <? _) = true |- _ => apply Z.ltb_lt in H
  | H : (_ <? _) = false |- _ => apply Z.ltb_ge in H
  | H : (_ <=? _) = true |- _ => apply Z.leb_le in H
  | H : (_ <=? _) = false |- _ => apply Z.leb_gt in H
  | H : (_ >=? _) = true |- _ => rewrite Z.geb_leb in H
  | H : (_ >=? _) = false |- _ => rewrite Z.geb_leb in H
  | H : (_ >? _) = true |- _ => rewrite Z.gtb_ltb in H
  | H : (_ >? _) = false |- _ => rewrite Z.gtb_ltb in H
  end.

(* `index += bound` / `self.begin + limit`: index < 0 and 0 <= bound <= isize::MAX, so the isize
   addition never overflows (no debug-build panic, no release-build wrap-around). *)
Lemma isize_add_no_overflow : forall a b,
  isize_min <= a < 0 -> 0 <= b <= isize_max -> isize_add a b = a + b.
Proof. intros a b Ha Hb. isize_unfold. lia. Qed.

Lemma isize_add_in_range : forall a b,
  isize_min <= a < 0 -> 0 <= b <= isize_max -> isize_min <= a + b <= isize_max.
Proof. intros a b Ha Hb. isize_unfold. lia. Qed.

Lemma sat_isize_in_range : forall z, in_isize (sat_isize z) = true.
Proof.
  intros z. unfold sat_isize.
  destruct (z <? isize_min) eqn:E1; [reflexivity|].
  destruct (isize_max <? z) eqn:E2; [reflexivity|].
  zbool. unfold in_isize. apply andb_true_iff. split; apply Z.leb_le; lia.
Qed.

Lemma sat_isize_id : forall z, in_isize z = true -> sat_isize z = z.
Proof.
  intros z H. unfold in_isize in H. zbool. unfold sat_isize.
  destruct (z <? isize_min) eqn:E1; zbool; [lia|].
  destruct (isize_max <? z) eqn:E2; zbool; [lia|reflexivity].
Qed.

(* whatever the number (huge, negative, fractional, NaN, infinite), its classification is well formed *)
Lemma idx_of_num_wf : forall n, idx_wf (idx_of_num n) = true.
Proof.
  intros [z| |[|]]; cbn [idx_of_num idx_wf]; try reflexivity. apply sat_isize_in_range.
Qed.

Lemma spec_index_iff : forall z b k,
  spec_index z b = Some k <-> (- b <= z < b /\ k = Z.to_nat (z mod b)).
Proof.
  intros z b k. unfold spec_index.
  destruct ((- b <=? z) && (z <? b))%bool eqn:E.
  - zbool. split; [intros Hs; inversion Hs; subst; split; [lia|reflexivity]|intros [_ ->]; reflexivity].
  - zbool. split; [discriminate|]. intros [Hs _]. destruct E as [E|E]; zbool; lia.
Qed.

(* Theorem 3 *)
Theorem bounded_index_exact : forall kind shown i b,
  0 <= b <= isize_max -> idx_wf i = true ->
  bounded_index kind shown i b =
  match i with
  | INotNumber => Error (TypeError ("Expected an integer value but found '" ++ shown ++ "'."))
  | INotIntegral => Error (ValueError ("Expected an integer value but found '" ++ shown ++ "'."))
  | IInt z =>
    match spec_index z b with
    | Some k => Ok k
    | None => Error (IndexError (kind ++ " index out of bounds."))
    end
  end.
Proof.
  intros kind shown i b Hb Hwf. destruct i as [| |z]; try reflexivity.
  cbn [idx_wf] in Hwf. unfold in_isize in Hwf. zbool.
  unfold bounded_index, validate_integer, spec_index.
  destruct (z <? 0) eqn:Ez; zbool.
  - rewrite isize_add_no_overflow by lia.
    destruct ((z + b <? 0) || (z + b >=? b))%bool eqn:E1;
    destruct ((- b <=? z) && (z <? b))%bool eqn:E2; zbool; try reflexivity.
    + destruct E1 as [E1|E1]; zbool; lia.
    + f_equal. f_equal. apply (Z.mod_unique z b (-1)); lia.
    + destruct E2 as [E2|E2]; zbool; lia.
  - destruct ((z <? 0) || (z >=? b))%bool eqn:E1;
    destruct ((- b <=? z) && (z <? b))%bool eqn:E2; zbool; try reflexivity.
    + destruct E1 as [E1|E1]; zbool; lia.
    + f_equal. f_equal. symmetry. apply Z.mod_small. lia.
    + destruct E2 as [E2|E2]; zbool; lia.
Qed.
Print Assumptions bounded_index_exact.

(* the same, in "iff" form *)
Corollary bounded_index_ok_iff : forall kind shown i b k,
  0 <= b <= isize_max -> idx_wf i = true ->
  (bounded_index kind shown i b = Ok k <->
   exists z, i = IInt z /\ - b <= z < b /\ k = Z.to_nat (z mod b)).
Proof.
  intros kind shown i b k Hb Hwf. rewrite bounded_index_exact by assumption.
  destruct i as [| |z].
  - split; [discriminate|intros [z [H _]]; discriminate].
  - split; [discriminate|intros [z [H _]]; discriminate].
  - destruct (spec_index z b) as [k'|] eqn:E.
    + apply spec_index_iff in E. destruct E as [E1 E2]. split.
      * intros H. inversion H; subst. exists z. repeat split; lia.
      * intros [z' [Hz [_ Hk]]]. inversion Hz; subst. reflexivity.
    + split; [discriminate|]. intros [z' [Hz [Hr Hk]]]. inversion Hz; subst z'.
      assert (spec_index z b = Some k) by (apply spec_index_iff; split; assumption). congruence.
Qed.

Corollary bounded_index_lt : forall kind shown i b k,
  0 <= b <= isize_max -> idx_wf i = true ->
  bounded_index kind shown i b = Ok k -> (Z.of_nat k < b).
Proof.
  intros kind shown i b k Hb Hwf H. apply bounded_index_ok_iff in H; try assumption.
  destruct H as [z [_ [Hr ->]]]. rewrite Z2Nat.id; lia.
Qed.

Example bounded_index_ex :
  bounded_index "String" "-1" (IInt (-1)) 11 = Ok 10%nat
  /\ bounded_index "String" "inf" (idx_of_num (NumInf false)) 11
     = Error (IndexError "String index out of bounds.")
  /\ bounded_index "String" "-1e300" (idx_of_num (NumInt (- 10 ^ 300))) 11
     = Error (IndexError "String index out of bounds.")
  /\ bounded_index "Vec" "NaN" (idx_of_num NumNonIntegral) 11
     = Error (ValueError "Expected an integer value but found 'NaN'.")
  /\ bounded_index "Vec" "0" (IInt 0) 0 = Error (IndexError "Vec index out of bounds.").
Proof. vm_compute. repeat split. Qed.

(* Theorem 4 *)
Theorem bounded_range_exact : forall kind rb re limit,
  0 <= limit <= isize_max -> in_isize rb = true -> in_isize re = true ->
  bounded_range kind rb re limit =
  let b := norm_pos rb limit in
  let e := norm_pos re limit in
  if negb ((0 <=? b) && (b <? limit)) then Error (IndexError (kind ++ " slice start out of range."))
  else if negb ((0 <=? e) && (e <=? limit)) then Error (IndexError (kind ++ " slice end out of range."))
  else Ok (Z.to_nat b, Z.to_nat (Z.max b e)).
Proof.
  intros kind rb re limit Hl Hb He. unfold in_isize in Hb, He. zbool.
  unfold bounded_range, norm_pos. cbv zeta.
  assert (Eb : (if rb <? 0 then isize_add rb limit else rb) = (if rb <? 0 then rb + limit else rb)).
  { destruct (rb <? 0) eqn:E; zbool; [apply isize_add_no_overflow; lia|reflexivity]. }
  assert (Ee : (if re <? 0 then isize_add re limit else re) = (if re <? 0 then re + limit else re)).
  { destruct (re <? 0) eqn:E; zbool; [apply isize_add_no_overflow; lia|reflexivity]. }
  rewrite Eb, Ee. clear Eb Ee.
  set (b := if rb <? 0 then rb + limit else rb).
  set (e := if re <? 0 then re + limit else re).
  destruct ((b <? 0) || (b >=? limit))%bool eqn:E1;
  destruct ((0 <=? b) && (b <? limit))%bool eqn:E2; zbool; cbn [negb];
    try (exfalso; destruct E1 as [E1|E1]; zbool; lia);
    try (exfalso; destruct E2 as [E2|E2]; zbool; lia); try reflexivity.
  destruct ((e <? 0) || (e >? limit))%bool eqn:E3;
  destruct ((0 <=? e) && (e <=? limit))%bool eqn:E4; zbool; cbn [negb];
    try (exfalso; destruct E3 as [E3|E3]; zbool; lia);
    try (exfalso; destruct E4 as [E4|E4]; zbool; lia); try reflexivity.
  f_equal. f_equal. f_equal.
  destruct (e >=? b) eqn:E5; zbool; lia.
Qed.
Print Assumptions bounded_range_exact.

Corollary bounded_range_spec : forall kind rb re limit,
  0 <= limit <= isize_max -> in_isize rb = true -> in_isize re = true ->
  bounded_range kind rb re limit =
  match spec_range rb re limit with
  | Some be => Ok be
  | None =>
    if negb ((0 <=? norm_pos rb limit) && (norm_pos rb limit <? limit))
    then Error (IndexError (kind ++ " slice start out of range."))
    else Error (IndexError (kind ++ " slice end out of range."))
  end.
Proof.
  intros kind rb re limit Hl Hb He. rewrite bounded_range_exact by assumption. cbv zeta.
  unfold spec_range.
  destruct ((0 <=? norm_pos rb limit) && (norm_pos rb limit <? limit))%bool; cbn [negb andb]; [|reflexivity].
  destruct ((0 <=? norm_pos re limit) && (norm_pos re limit <=? limit))%bool; reflexivity.
Qed.

(* Ok results are in range: begin < limit, begin <= end <= limit *)
Corollary bounded_range_bounds : forall kind rb re limit b e,
  0 <= limit <= isize_max -> in_isize rb = true -> in_isize re = true ->
  bounded_range kind rb re limit = Ok (b, e) ->
  (b <= e)%nat /\ Z.of_nat e <= limit /\ Z.of_nat b < limit.
Proof.
  intros kind rb re limit b e Hl Hb He H. rewrite bounded_range_exact in H by assumption.
  cbv zeta in H.
  destruct ((0 <=? norm_pos rb limit) && (norm_pos rb limit <? limit))%bool eqn:E1; cbn [negb] in H; [|discriminate].
  destruct ((0 <=? norm_pos re limit) && (norm_pos re limit <=? limit))%bool eqn:E2; cbn [negb] in H; [|discriminate].
  inversion H; subst. zbool. lia.
Qed.

(* the empty slice at begin = limit is REJECTED (e.g. "abc"[3..3], ""[0..0], [][0..0]) *)
Example bounded_range_empty_at_end_rejected : forall kind limit,
  0 <= limit <= isize_max ->
  bounded_range kind limit limit limit = Error (IndexError (kind ++ " slice start out of range.")).
Proof.
  intros kind limit Hl.
  assert (Hin : in_isize limit = true).
  { unfold in_isize. apply andb_true_iff. split; apply Z.leb_le; isize_unfold; lia. }
  rewrite bounded_range_exact by assumption.
  cbv zeta. unfold norm_pos.
  destruct (limit <? 0) eqn:E; zbool; [lia|].
  replace (limit <? limit) with false by (symmetry; apply Z.ltb_ge; lia).
  rewrite andb_false_r. reflexivity.
Qed.

Example bounded_range_ex :
  bounded_range "String" 1 4 7 = Ok (1, 4)%nat
  /\ bounded_range "String" 3 1 7 = Ok (3, 3)%nat
  /\ bounded_range "String" (-3) (-1) 7 = Ok (4, 6)%nat
  /\ bounded_range "String" 0 isize_max 7 = Error (IndexError "String slice end out of range.")
  /\ bounded_range "Vec" isize_min 0 7 = Error (IndexError "Vec slice start out of range.")
  /\ bounded_range "Vec" 0 0 0 = Error (IndexError "Vec slice start out of range.").
Proof. vm_compute. repeat split. Qed.
