(* Mechanism model (M) of yarel's string intern table: vm.rs `mod string_store`
   (ObjStringStore: entries / size / mask, find_index, get, insert, adjust_capacity)
   and of Vm::new_gc_obj_string, plus the Spec (S): a map from byte strings to identities.
   DEFINITIONS ONLY - proofs are in InternProofs.v. *)
From Coq Require Import List NArith Bool Arith.
From Coq Require Import Strings.Byte.
Import ListNotations.

Definition text := list byte.

Definition text_eqb (a b : text) : bool :=
  if list_eq_dec Byte.byte_eq_dec a b then true else false.

Record entry := { ehash : N; etext : text; eid : N }.

(* capacity = length entries ; mask = capacity - 1 in every reachable table *)
Record table := { entries : list (option entry); size : nat; mask : N }.

(* The constants of `mod string_store`, regenerated from the source into YVGen.Consts and passed
   in as parameters: INIT_CAPACITY, and MAX_LOAD as an exact fraction load_num / load_den. *)
Section WithConsts.
Variable init_capacity : nat.
Variables load_num load_den : nat.

Definition empty_table : table :=
  {| entries := repeat None init_capacity; size := 0; mask := (N.of_nat init_capacity - 1)%N |}.

Definition key_matches (e : entry) (h : N) (s : text) : bool :=
  N.eqb (ehash e) h && text_eqb (etext e) s.

(* fn find_index(entries, key, mask): the Rust loop has no bound; the model takes fuel and
   returns None when it runs out (= the Rust code would spin forever).  InternProofs shows that
   fuel = length entries is always enough on reachable tables. *)
Fixpoint probe (fuel : nat) (es : list (option entry)) (h : N) (s : text) (m : N) (index : N)
  : option nat :=
  match fuel with
  | O => None
  | S f =>
    match nth_error es (N.to_nat index) with
    | None => None                                   (* index out of bounds: Rust would panic *)
    | Some None => Some (N.to_nat index)
    | Some (Some e) =>
      if key_matches e h s then Some (N.to_nat index)
      else probe f es h s m (N.land (index + 1)%N m)
    end
  end.

Definition find_index (es : list (option entry)) (h : N) (s : text) (m : N) : option nat :=
  probe (S (length es)) es h s m (N.land h m).

Definition get (t : table) (h : N) (s : text) : option (option entry) :=
  match find_index (entries t) h s (mask t) with
  | None => None
  | Some i => Some (match nth_error (entries t) i with Some (Some e) => Some e | _ => None end)
  end.

Fixpoint set_nth {A} (l : list A) (i : nat) (x : A) : list A :=
  match l, i with
  | [], _ => []
  | _ :: r, O => x :: r
  | y :: r, S j => y :: set_nth r j x
  end.

(* adjust_capacity: re-insert every entry, in slot order, into a fresh table of the new size *)
Fixpoint rehash (old : list (option entry)) (new : list (option entry)) (m : N)
  : option (list (option entry)) :=
  match old with
  | [] => Some new
  | None :: r => rehash r new m
  | Some e :: r =>
    match find_index new (ehash e) (etext e) m with
    | None => None
    | Some i => rehash r (set_nth new i (Some e)) m
    end
  end.

Definition adjust_capacity (t : table) (new_capacity : nat) : option table :=
  let m := (N.of_nat new_capacity - 1)%N in
  match rehash (entries t) (repeat None new_capacity) m with
  | None => None
  | Some es => Some {| entries := es; size := size t; mask := m |}
  end.

(* (self.entries.len() as f64 * MAX_LOAD) as usize, for MAX_LOAD = load_num / load_den *)
Definition load_limit (cap : nat) : nat := (cap * load_num) / load_den.

(* insert: returns the new table and the entry that was replaced, if any *)
Definition insert (t : table) (e : entry) : option (table * option entry) :=
  let grown :=
    if Nat.ltb (load_limit (length (entries t))) (size t + 1)
    then adjust_capacity t (length (entries t) * 2)
    else Some t in
  match grown with
  | None => None
  | Some t1 =>
    match find_index (entries t1) (ehash e) (etext e) (mask t1) with
    | None => None
    | Some i =>
      let old := match nth_error (entries t1) i with Some (Some o) => Some o | _ => None end in
      let sz := match old with None => S (size t1) | Some _ => size t1 end in
      Some ({| entries := set_nth (entries t1) i (Some e); size := sz; mask := mask t1 |}, old)
    end
  end.

(* Vm::new_gc_obj_string for an arbitrary hash function: state = table + next fresh identity *)
Record istate := { tbl : table; next_id : N }.

Definition init_state : istate := {| tbl := empty_table; next_id := 0 |}.

Definition intern (hashf : text -> N) (st : istate) (s : text) : option (istate * N) :=
  let h := hashf s in
  match get (tbl st) h s with
  | None => None
  | Some (Some e) => Some (st, eid e)
  | Some None =>
    let e := {| ehash := h; etext := s; eid := next_id st |} in
    match insert (tbl st) e with
    | None => None
    | Some (t', _) => Some ({| tbl := t'; next_id := (next_id st + 1)%N |}, next_id st)
    end
  end.

Fixpoint intern_all (hashf : text -> N) (st : istate) (l : list text) : option (istate * list N) :=
  match l with
  | [] => Some (st, [])
  | s :: r =>
    match intern hashf st s with
    | None => None
    | Some (st1, i) =>
      match intern_all hashf st1 r with
      | None => None
      | Some (st2, is) => Some (st2, i :: is)
      end
    end
  end.

End WithConsts.

(* ---- Spec (S): identities are handed out per distinct byte string ---- *)
Fixpoint assoc_find (m : list (text * N)) (s : text) : option N :=
  match m with
  | [] => None
  | (k, v) :: r => if text_eqb k s then Some v else assoc_find r s
  end.

Fixpoint spec_intern_all (m : list (text * N)) (next : N) (l : list text) : list N :=
  match l with
  | [] => []
  | s :: r =>
    match assoc_find m s with
    | Some i => i :: spec_intern_all m next r
    | None => next :: spec_intern_all ((s, next) :: m) (next + 1)%N r
    end
  end.

(* ---- operation-level interface used by the correspondence check (hook H3 drives the real
   table with caller-chosen (hash, text) pairs) ---- *)
Inductive op := OGet (h : N) (s : text) | OInsert (h : N) (s : text).

Inductive opres := RGet (r : option N) | RInsert (id : N) (replaced : bool) | RStuck.

Section Ops.
Variable init_capacity : nat.
Variables load_num load_den : nat.

Fixpoint run_ops (t : table) (next : N) (ops : list op) : list opres * table :=
  match ops with
  | [] => ([], t)
  | OGet h s :: r =>
    match get t h s with
    | None => ([RStuck], t)
    | Some oe =>
      let '(rs, t') := run_ops t next r in
      (RGet (match oe with Some e => Some (eid e) | None => None end) :: rs, t')
    end
  | OInsert h s :: r =>
    match insert load_num load_den t {| ehash := h; etext := s; eid := next |} with
    | None => ([RStuck], t)
    | Some (t1, old) =>
      let '(rs, t') := run_ops t1 (next + 1)%N r in
      (RInsert next (match old with Some _ => true | None => false end) :: rs, t')
    end
  end.

End Ops.
