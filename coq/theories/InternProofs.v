(* Proofs about the string intern table model YV.Intern (property C11).
   No axioms; see the Print Assumptions at the end of the file. *)
From Coq Require Import List NArith Bool Arith Lia.
From Coq Require Import Strings.Byte.
From YV Require Import Intern.
Import ListNotations.

Arguments Nat.modulo : simpl never.
Arguments Nat.div : simpl never.
Arguments N.land : simpl never.
Arguments N.to_nat : simpl never.
Arguments N.of_nat : simpl never.
Arguments N.add : simpl never.
Arguments N.sub : simpl never.
Arguments Nat.pow : simpl never.

(* ------------------------------------------------------------------ *)
(* Generic helpers                                                     *)
(* ------------------------------------------------------------------ *)

Lemma text_eqb_iff (a b : text) : text_eqb a b = true <-> a = b.
Proof.
  unfold text_eqb. destruct (list_eq_dec Byte.byte_eq_dec a b) as [He|Hne]; split;
    intros H; try reflexivity; try assumption; try discriminate. contradiction.
Qed.

Lemma text_eqb_refl (a : text) : text_eqb a a = true.
Proof. apply text_eqb_iff. reflexivity. Qed.

Lemma text_eqb_false (a b : text) : text_eqb a b = false <-> a <> b.
Proof.
  split.
  - intros H He. apply text_eqb_iff in He. congruence.
  - intros H. destruct (text_eqb a b) eqn:E; [apply text_eqb_iff in E; contradiction|reflexivity].
Qed.

Lemma key_matches_iff (e : entry) (h : N) (s : text) :
  key_matches e h s = true <-> ehash e = h /\ etext e = s.
Proof.
  unfold key_matches. rewrite andb_true_iff, N.eqb_eq, text_eqb_iff. reflexivity.
Qed.

Lemma key_matches_self (e : entry) : key_matches e (ehash e) (etext e) = true.
Proof. apply key_matches_iff. split; reflexivity. Qed.

Lemma first_true (f : nat -> bool) (n : nat) :
  f n = true ->
  exists d, d <= n /\ f d = true /\ forall d', d' < d -> f d' = false.
Proof.
  intros Hn.
  assert (Hall : forall m, (forall d', d' < m -> f d' = false) \/
                 exists d, d < m /\ f d = true /\ forall d', d' < d -> f d' = false).
  { induction m as [|m IHm].
    - left. intros d' Hd'. lia.
    - destruct IHm as [Hnone | (d & Hd & Hfd & Hbefore)].
      + destruct (f m) eqn:Efm.
        * right. exists m. split; [lia|]. split; assumption.
        * left. intros d' Hd'. destruct (Nat.eq_dec d' m) as [->|Hne]; [assumption|].
          apply Hnone. lia.
      + right. exists d. split; [lia|]. split; assumption. }
  destruct (Hall n) as [Hnone | (d & Hd & Hfd & Hbefore)].
  - exists n. split; [lia|]. split; assumption.
  - exists d. split; [lia|]. split; assumption.
Qed.

(* ---- set_nth ---- *)
Lemma set_nth_length {A} (l : list A) (i : nat) (x : A) : length (set_nth l i x) = length l.
Proof.
  revert i. induction l as [|y r IH]; intros i; [reflexivity|].
  destruct i as [|j]; cbn [set_nth length]; [reflexivity|]. rewrite IH. reflexivity.
Qed.

Lemma nth_error_set_nth_eq {A} (l : list A) (i : nat) (x : A) :
  i < length l -> nth_error (set_nth l i x) i = Some x.
Proof.
  revert i. induction l as [|y r IH]; intros i Hi; cbn [length] in Hi; [lia|].
  destruct i as [|j]; cbn [set_nth nth_error]; [reflexivity|]. apply IH. lia.
Qed.

Lemma nth_error_set_nth_neq {A} (l : list A) (i j : nat) (x : A) :
  i <> j -> nth_error (set_nth l i x) j = nth_error l j.
Proof.
  revert i j. induction l as [|y r IH]; intros i j Hij; [reflexivity|].
  destruct i as [|i']; destruct j as [|j']; cbn [set_nth nth_error]; try reflexivity; try lia.
  apply IH. lia.
Qed.

(* ---- counting occupied slots ---- *)
Fixpoint count_some (es : list (option entry)) : nat :=
  match es with
  | [] => 0
  | None :: r => count_some r
  | Some _ :: r => S (count_some r)
  end.

Lemma count_some_repeat_none (n : nat) : count_some (repeat None n) = 0.
Proof. induction n as [|n IH]; [reflexivity|]. cbn [repeat count_some]. exact IH. Qed.

Lemma count_some_le (es : list (option entry)) : count_some es <= length es.
Proof.
  induction es as [|[e|] r IH]; cbn [count_some length]; lia.
Qed.

Lemma free_slot (es : list (option entry)) :
  count_some es < length es -> exists i, nth_error es i = Some None.
Proof.
  induction es as [|[e|] r IH]; cbn [count_some length]; intros H.
  - lia.
  - destruct IH as [i Hi]; [lia|]. exists (S i). exact Hi.
  - exists 0. reflexivity.
Qed.

Lemma count_some_set_nth (es : list (option entry)) (i : nat) (o : option entry) (e : entry) :
  nth_error es i = Some o ->
  count_some (set_nth es i (Some e)) =
  count_some es + match o with None => 1 | Some _ => 0 end.
Proof.
  revert i. induction es as [|y r IH]; intros i Hi.
  - destruct i; discriminate.
  - destruct i as [|j]; cbn [nth_error] in Hi.
    + injection Hi as ->. cbn [set_nth count_some]. destruct o; lia.
    + cbn [set_nth]. specialize (IH j Hi). destruct y; cbn [count_some]; lia.
Qed.

(* ------------------------------------------------------------------ *)
(* Probing                                                             *)
(* ------------------------------------------------------------------ *)

(* the mask really computes "mod capacity" *)
Definition mask_ok (m : N) (cap : nat) : Prop :=
  forall x : N, N.to_nat (N.land x m) = N.to_nat x mod cap.

Lemma pow2_mask_ok (k : nat) : mask_ok (N.of_nat (2 ^ k) - 1)%N (2 ^ k).
Proof.
  intros x.
  rewrite Nat2N.inj_pow. change (N.of_nat 2) with 2%N.
  rewrite N.sub_1_r, <- N.ones_equiv, N.land_ones, N2Nat.inj_mod, N2Nat.inj_pow.
  change (N.to_nat 2) with 2. rewrite Nat2N.id. reflexivity.
Qed.

Lemma pow2_pos (k : nat) : 0 < 2 ^ k.
Proof. assert (H : 2 ^ k <> 0) by (apply Nat.pow_nonzero; lia). lia. Qed.

(* slot at distance d from the home slot of hash h *)
Definition slot (cap : nat) (h : N) (d : nat) : nat := (N.to_nat h + d) mod cap.

(* the probe loop stops at slot i: it is free, or holds the key *)
Definition stopb (es : list (option entry)) (h : N) (s : text) (i : nat) : bool :=
  match nth_error es i with
  | Some None => true
  | Some (Some e) => key_matches e h s
  | None => false
  end.

(* the probe for (h,s) stops exactly at distance d *)
Definition walk (es : list (option entry)) (h : N) (s : text) (d : nat) : Prop :=
  d < length es /\
  stopb es h s (slot (length es) h d) = true /\
  forall d', d' < d -> stopb es h s (slot (length es) h d') = false.

Lemma slot_lt (cap : nat) (h : N) (d : nat) : 0 < cap -> slot cap h d < cap.
Proof. intros H. unfold slot. apply Nat.mod_upper_bound. lia. Qed.

Lemma probe_walk (es : list (option entry)) (h : N) (s : text) (m : N) :
  mask_ok m (length es) -> 0 < length es ->
  forall n fuel idx,
    n < fuel -> N.to_nat idx < length es ->
    (forall d', d' < n -> stopb es h s ((N.to_nat idx + d') mod length es) = false) ->
    stopb es h s ((N.to_nat idx + n) mod length es) = true ->
    probe fuel es h s m idx = Some ((N.to_nat idx + n) mod length es).
Proof.
  intros Hm Hpos. induction n as [|n IH]; intros fuel idx Hfuel Hidx Hbefore Hstop.
  - destruct fuel as [|f]; [lia|].
    rewrite Nat.add_0_r, Nat.mod_small in * by assumption.
    unfold stopb in Hstop. cbn [probe].
    destruct (nth_error es (N.to_nat idx)) as [[e|]|]; [|reflexivity|discriminate].
    rewrite Hstop. reflexivity.
  - destruct fuel as [|f]; [lia|].
    assert (H0 := Hbefore 0 ltac:(lia)).
    rewrite Nat.add_0_r, Nat.mod_small in H0 by assumption.
    unfold stopb in H0. cbn [probe].
    destruct (nth_error es (N.to_nat idx)) as [[e|]|] eqn:En.
    + rewrite H0.
      assert (Hnext : N.to_nat (N.land (idx + 1) m) = (N.to_nat idx + 1) mod length es).
      { rewrite Hm, N2Nat.inj_add. reflexivity. }
      assert (Hshift : forall d, (N.to_nat (N.land (idx + 1) m) + d) mod length es
                                 = (N.to_nat idx + S d) mod length es).
      { intros d. rewrite Hnext, Nat.add_mod_idemp_l by lia. f_equal. lia. }
      rewrite (IH f (N.land (idx + 1) m)).
      * rewrite Hshift. reflexivity.
      * lia.
      * rewrite Hnext. apply Nat.mod_upper_bound. lia.
      * intros d' Hd'. rewrite Hshift. apply Hbefore. lia.
      * rewrite Hshift. exact Hstop.
    + discriminate.
    + apply nth_error_None in En. lia.
Qed.

Lemma find_index_walk (es : list (option entry)) (h : N) (s : text) (m : N) (d : nat) :
  mask_ok m (length es) -> 0 < length es ->
  walk es h s d -> find_index es h s m = Some (slot (length es) h d).
Proof.
  intros Hm Hpos (Hd & Hstop & Hbefore). unfold find_index.
  assert (Hhome : forall d', (N.to_nat (N.land h m) + d') mod length es = slot (length es) h d').
  { intros d'. unfold slot. rewrite Hm, Nat.add_mod_idemp_l by lia. reflexivity. }
  rewrite (probe_walk es h s m Hm Hpos d).
  - rewrite Hhome. reflexivity.
  - lia.
  - rewrite Hm. apply Nat.mod_upper_bound. lia.
  - intros d' Hd'. rewrite Hhome. apply Hbefore. exact Hd'.
  - rewrite Hhome. exact Hstop.
Qed.

(* every slot is at some distance < cap from any home slot *)
Lemma slot_surj (cap : nat) (h : N) (i : nat) :
  i < cap -> exists d, d < cap /\ slot cap h d = i.
Proof.
  intros Hi. assert (Hc : cap <> 0) by lia.
  exists ((i + cap - N.to_nat h mod cap) mod cap). split.
  - apply Nat.mod_upper_bound. exact Hc.
  - unfold slot. rewrite Nat.add_mod_idemp_r by exact Hc.
    assert (Hlt := Nat.mod_upper_bound (N.to_nat h) cap Hc).
    rewrite (Nat.div_mod (N.to_nat h) cap Hc) at 1.
    replace (cap * (N.to_nat h / cap) + N.to_nat h mod cap + (i + cap - N.to_nat h mod cap))
      with (i + (N.to_nat h / cap + 1) * cap) by lia.
    rewrite Nat.mod_add by exact Hc. apply Nat.mod_small. exact Hi.
Qed.

Lemma walk_exists (es : list (option entry)) (h : N) (s : text) :
  (exists i, nth_error es i = Some None) -> exists d, walk es h s d.
Proof.
  intros [i Hi].
  assert (Hlt : i < length es) by (apply nth_error_Some; congruence).
  destruct (slot_surj (length es) h i Hlt) as (d & Hd & Hslot).
  destruct (first_true (fun d => stopb es h s (slot (length es) h d)) d) as (d0 & Hd0 & Hs0 & Hb0).
  - rewrite Hslot. unfold stopb. rewrite Hi. reflexivity.
  - exists d0. split; [lia|]. split; assumption.
Qed.

Lemma stopb_false_occupied (es : list (option entry)) (h : N) (s : text) (i : nat) :
  i < length es -> stopb es h s i = false ->
  exists e, nth_error es i = Some (Some e) /\ key_matches e h s = false.
Proof.
  intros Hi H. unfold stopb in H.
  destruct (nth_error es i) as [[e|]|] eqn:En.
  - exists e. split; [reflexivity|exact H].
  - discriminate.
  - apply nth_error_None in En. lia.
Qed.

(* ------------------------------------------------------------------ *)
(* Structural invariant on the slot array                              *)
(* ------------------------------------------------------------------ *)

(* every stored entry is probe-reachable from its home slot without crossing a free slot *)
Definition reach (es : list (option entry)) : Prop :=
  forall i e, nth_error es i = Some (Some e) ->
    exists d, d < length es /\ slot (length es) (ehash e) d = i /\
      forall d', d' < d -> exists e', nth_error es (slot (length es) (ehash e) d') = Some (Some e').

(* no two slots hold entries with the same (hash, text) *)
Definition uniq (es : list (option entry)) : Prop :=
  forall i j ei ej, nth_error es i = Some (Some ei) -> nth_error es j = Some (Some ej) ->
    ehash ei = ehash ej -> etext ei = etext ej -> i = j.

(* "find the entry with this (hash,text) anywhere in the array" *)
Definition lookup_es (es : list (option entry)) (h : N) (s : text) : option entry :=
  match find (fun oe => match oe with Some e => key_matches e h s | None => false end) es with
  | Some (Some e) => Some e
  | _ => None
  end.

Definition lookup (t : table) (h : N) (s : text) : option entry := lookup_es (entries t) h s.

Lemma lookup_es_inv (es : list (option entry)) (h : N) (s : text) (e : entry) :
  lookup_es es h s = Some e ->
  exists j, nth_error es j = Some (Some e) /\ key_matches e h s = true.
Proof.
  unfold lookup_es. intros H.
  destruct (find _ es) as [[e'|]|] eqn:Ef; try discriminate.
  injection H as ->. apply find_some in Ef. destruct Ef as [Hin Hk].
  apply In_nth_error in Hin. destruct Hin as [j Hj]. exists j. split; assumption.
Qed.

Lemma lookup_es_none (es : list (option entry)) (h : N) (s : text) :
  (forall j e, nth_error es j = Some (Some e) -> key_matches e h s = false) ->
  lookup_es es h s = None.
Proof.
  intros H. unfold lookup_es.
  destruct (find _ es) as [[e'|]|] eqn:Ef; try reflexivity.
  apply find_some in Ef. destruct Ef as [Hin Hk].
  apply In_nth_error in Hin. destruct Hin as [j Hj]. rewrite (H j e' Hj) in Hk. discriminate.
Qed.

Lemma lookup_es_some (es : list (option entry)) (j : nat) (e : entry) (h : N) (s : text) :
  uniq es -> nth_error es j = Some (Some e) -> key_matches e h s = true ->
  lookup_es es h s = Some e.
Proof.
  intros Hu Hj Hk. destruct (lookup_es es h s) as [e'|] eqn:El.
  - apply lookup_es_inv in El. destruct El as (j' & Hj' & Hk').
    apply key_matches_iff in Hk, Hk'. destruct Hk as [Hh Hs], Hk' as [Hh' Hs'].
    assert (j' = j) by (apply (Hu j' j e' e Hj' Hj); congruence). subst j'. congruence.
  - exfalso. unfold lookup_es in El.
    destruct (find _ es) as [[e'|]|] eqn:Ef; try discriminate.
    + apply find_some in Ef. destruct Ef as [_ Hf]. discriminate.
    + assert (Hin : In (Some e) es) by (eapply nth_error_In; exact Hj).
      apply (find_none _ _ Ef) in Hin. cbv beta iota in Hin. congruence.
Qed.

(* lookup only depends on the set of stored entries *)
Lemma lookup_es_ext (es es' : list (option entry)) (h : N) (s : text) :
  uniq es -> uniq es' ->
  (forall e, In (Some e) es <-> In (Some e) es') ->
  lookup_es es h s = lookup_es es' h s.
Proof.
  intros Hu Hu' Hin. destruct (lookup_es es h s) as [e|] eqn:El.
  - apply lookup_es_inv in El. destruct El as (j & Hj & Hk).
    apply nth_error_In, Hin, In_nth_error in Hj. destruct Hj as [j' Hj'].
    symmetry. eapply lookup_es_some; eassumption.
  - symmetry. apply lookup_es_none. intros j e Hj.
    destruct (key_matches e h s) eqn:Hk; [|reflexivity].
    apply nth_error_In, Hin, In_nth_error in Hj. destruct Hj as [j' Hj'].
    rewrite (lookup_es_some es j' e h s Hu Hj' Hk) in El. discriminate.
Qed.

(* Where the probe stops, given reach + uniq. *)
Lemma walk_finds (es : list (option entry)) (h : N) (s : text) (d : nat) (j : nat) (e : entry) :
  0 < length es -> reach es -> uniq es -> walk es h s d ->
  nth_error es j = Some (Some e) -> key_matches e h s = true ->
  slot (length es) h d = j.
Proof.
  intros Hpos Hr Hu (Hd & Hstop & Hbefore) Hj Hk.
  assert (Hk' := Hk). apply key_matches_iff in Hk'. destruct Hk' as [Hh Hs].
  destruct (Hr j e Hj) as (de & Hde & Hslot & Hocc). rewrite Hh in Hslot, Hocc.
  destruct (lt_eq_lt_dec d de) as [[Hlt|Heq]|Hgt].
  - destruct (Hocc d Hlt) as [e' He']. unfold stopb in Hstop. rewrite He' in Hstop.
    apply key_matches_iff in Hstop. destruct Hstop as [Hh' Hs'].
    apply (Hu _ _ e' e He' Hj); congruence.
  - subst de. exact Hslot.
  - specialize (Hbefore de Hgt). rewrite Hslot in Hbefore. unfold stopb in Hbefore.
    rewrite Hj, Hk in Hbefore. discriminate.
Qed.

Lemma walk_slot_none (es : list (option entry)) (h : N) (s : text) (d : nat) :
  walk es h s d ->
  (forall j e, nth_error es j = Some (Some e) -> key_matches e h s = false) ->
  nth_error es (slot (length es) h d) = Some None.
Proof.
  intros (Hd & Hstop & Hbefore) Hnone. unfold stopb in Hstop.
  destruct (nth_error es (slot (length es) h d)) as [[e|]|] eqn:En; try discriminate.
  - rewrite (Hnone _ _ En) in Hstop. discriminate.
  - reflexivity.
Qed.

(* storing the key where its probe stops preserves reach and uniq *)
Lemma set_preserves (es : list (option entry)) (e : entry) (d : nat) :
  0 < length es -> reach es -> uniq es -> walk es (ehash e) (etext e) d ->
  let es' := set_nth es (slot (length es) (ehash e) d) (Some e) in
  reach es' /\ uniq es'.
Proof.
  intros Hpos Hr Hu Hw es'.
  assert (Hw' := Hw). destruct Hw' as (Hd & Hstop & Hbefore).
  set (i := slot (length es) (ehash e) d) in *.
  assert (Hi : i < length es) by (apply slot_lt; exact Hpos).
  assert (Hlen : length es' = length es) by apply set_nth_length.
  assert (Hocc : forall j x, nth_error es j = Some (Some x) ->
                             exists x', nth_error es' j = Some (Some x')).
  { intros j x Hj. destruct (Nat.eq_dec i j) as [<-|Hne].
    - exists e. apply nth_error_set_nth_eq. exact Hi.
    - exists x. unfold es'. rewrite nth_error_set_nth_neq by exact Hne. exact Hj. }
  split.
  - intros j x Hj. rewrite Hlen. destruct (Nat.eq_dec i j) as [<-|Hne].
    + unfold es' in Hj. rewrite nth_error_set_nth_eq in Hj by exact Hi. injection Hj as <-.
      exists d. split; [exact Hd|]. split; [reflexivity|].
      intros d' Hd'. specialize (Hbefore d' Hd').
      apply stopb_false_occupied in Hbefore; [|apply slot_lt; exact Hpos].
      destruct Hbefore as (x & Hx & _). eapply Hocc. exact Hx.
    + unfold es' in Hj. rewrite nth_error_set_nth_neq in Hj by exact Hne.
      destruct (Hr j x Hj) as (dx & Hdx & Hslot & Hoccx).
      exists dx. split; [exact Hdx|]. split; [exact Hslot|].
      intros d' Hd'. destruct (Hoccx d' Hd') as [x' Hx']. eapply Hocc. exact Hx'.
  - intros j1 j2 x1 x2 H1 H2 Hh Hs. unfold es' in H1, H2.
    destruct (Nat.eq_dec i j1) as [E1|N1]; destruct (Nat.eq_dec i j2) as [E2|N2].
    + congruence.
    + subst j1. rewrite nth_error_set_nth_eq in H1 by exact Hi. injection H1 as <-.
      rewrite nth_error_set_nth_neq in H2 by exact N2.
      apply (walk_finds es (ehash e) (etext e) d j2 x2 Hpos Hr Hu Hw H2).
      apply key_matches_iff. split; congruence.
    + subst j2. rewrite nth_error_set_nth_eq in H2 by exact Hi. injection H2 as <-.
      rewrite nth_error_set_nth_neq in H1 by exact N1. symmetry.
      apply (walk_finds es (ehash e) (etext e) d j1 x1 Hpos Hr Hu Hw H1).
      apply key_matches_iff. split; congruence.
    + rewrite nth_error_set_nth_neq in H1 by exact N1.
      rewrite nth_error_set_nth_neq in H2 by exact N2.
      apply (Hu j1 j2 x1 x2 H1 H2 Hh Hs).
Qed.

Lemma reach_repeat_none (n : nat) : reach (repeat None n).
Proof.
  intros i e Hi. apply nth_error_In, repeat_spec in Hi. discriminate.
Qed.

Lemma uniq_repeat_none (n : nat) : uniq (repeat None n).
Proof.
  intros i j ei ej Hi. apply nth_error_In, repeat_spec in Hi. discriminate.
Qed.

Lemma uniq_tail (x : option entry) (r : list (option entry)) : uniq (x :: r) -> uniq r.
Proof.
  intros H i j ei ej Hi Hj Hh Hs. apply eq_add_S. apply (H (S i) (S j) ei ej Hi Hj Hh Hs).
Qed.

Lemma uniq_head (e e' : entry) (r : list (option entry)) :
  uniq (Some e :: r) -> In (Some e') r -> ehash e = ehash e' -> etext e = etext e' -> False.
Proof.
  intros H Hin Hh Hs. apply In_nth_error in Hin. destruct Hin as [j Hj].
  assert (E : 0 = S j) by (apply (H 0 (S j) e e' eq_refl Hj Hh Hs)). discriminate.
Qed.

Lemma in_set_nth_none (es : list (option entry)) (i : nat) (e x : entry) :
  nth_error es i = Some None ->
  (In (Some x) (set_nth es i (Some e)) <-> x = e \/ In (Some x) es).
Proof.
  intros Hi. assert (Hlt : i < length es) by (apply nth_error_Some; congruence). split.
  - intros Hin. apply In_nth_error in Hin. destruct Hin as [j Hj].
    destruct (Nat.eq_dec i j) as [<-|Hne].
    + rewrite nth_error_set_nth_eq in Hj by exact Hlt. left. congruence.
    + rewrite nth_error_set_nth_neq in Hj by exact Hne. right. eapply nth_error_In. exact Hj.
  - intros [->|Hin].
    + eapply nth_error_In. apply nth_error_set_nth_eq. exact Hlt.
    + apply In_nth_error in Hin. destruct Hin as [j Hj].
      assert (Hne : i <> j) by (intros ->; congruence).
      eapply nth_error_In. rewrite nth_error_set_nth_neq by exact Hne. exact Hj.
Qed.

(* the probe's result, under the structural invariant and with at least one free slot *)
Lemma find_index_char (es : list (option entry)) (m : N) (h : N) (s : text) :
  mask_ok m (length es) -> 0 < length es -> reach es -> uniq es ->
  (exists i, nth_error es i = Some None) ->
  exists d, walk es h s d /\
    find_index es h s m = Some (slot (length es) h d) /\
    nth_error es (slot (length es) h d) =
      match lookup_es es h s with Some e => Some (Some e) | None => Some None end.
Proof.
  intros Hm Hpos Hr Hu Hfree.
  destruct (walk_exists es h s Hfree) as [d Hw]. exists d. split; [exact Hw|].
  split; [apply find_index_walk; assumption|].
  destruct (lookup_es es h s) as [e|] eqn:El.
  - apply lookup_es_inv in El. destruct El as (j & Hj & Hk).
    rewrite (walk_finds es h s d j e Hpos Hr Hu Hw Hj Hk). exact Hj.
  - apply (walk_slot_none es h s d Hw). intros j x Hj.
    destruct (key_matches x h s) eqn:Hk; [|reflexivity].
    rewrite (lookup_es_some es j x h s Hu Hj Hk) in El. discriminate.
Qed.

(* adjust_capacity's loop: re-inserting pairwise distinct, not yet present keys *)
Lemma rehash_ok (m : N) : forall old new,
  mask_ok m (length new) -> 0 < length new -> reach new -> uniq new ->
  count_some new + count_some old < length new ->
  uniq old ->
  (forall e e', In (Some e) old -> In (Some e') new ->
                ehash e = ehash e' -> etext e = etext e' -> False) ->
  exists new', rehash old new m = Some new' /\ length new' = length new /\
    reach new' /\ uniq new' /\ count_some new' = count_some new + count_some old /\
    forall x, In (Some x) new' <-> In (Some x) new \/ In (Some x) old.
Proof.
  induction old as [|[e|] r IH]; intros new Hm Hpos Hr Hu Hcount Huo Hdisj.
  - exists new. cbn [rehash count_some]. repeat split; try assumption; try lia.
    + intros H. left. exact H.
    + intros [H|H]; [exact H|destruct H].
  - cbn [rehash]. cbn [count_some] in Hcount.
    assert (Hfree : exists i, nth_error new i = Some None) by (apply free_slot; lia).
    destruct (find_index_char new m (ehash e) (etext e) Hm Hpos Hr Hu Hfree)
      as (d & Hw & Hfi & Hslot).
    rewrite Hfi. set (i := slot (length new) (ehash e) d) in *.
    assert (Hnone : nth_error new i = Some None).
    { destruct (lookup_es new (ehash e) (etext e)) as [o|] eqn:El; [|exact Hslot].
      exfalso. apply lookup_es_inv in El. destruct El as (j & Hj & Hk).
      apply key_matches_iff in Hk. destruct Hk as [Hh Hs].
      apply (Hdisj e o); [left; reflexivity|eapply nth_error_In; exact Hj|congruence|congruence]. }
    destruct (set_preserves new e d Hpos Hr Hu Hw) as [Hr2 Hu2]. fold i in Hr2, Hu2.
    assert (Hlen2 : length (set_nth new i (Some e)) = length new) by apply set_nth_length.
    assert (Hc2 := count_some_set_nth new i None e Hnone). cbv beta iota in Hc2.
    destruct (IH (set_nth new i (Some e))) as (new' & Hre & Hlen' & Hr' & Hu' & Hc' & Hin').
    + rewrite Hlen2. exact Hm.
    + rewrite Hlen2. exact Hpos.
    + exact Hr2.
    + exact Hu2.
    + rewrite Hlen2, Hc2. lia.
    + eapply uniq_tail. exact Huo.
    + intros x x' Hx Hx' Hh Hs. apply (in_set_nth_none new i e x' Hnone) in Hx'.
      destruct Hx' as [->|Hx'].
      * apply (uniq_head e x r Huo Hx); congruence.
      * apply (Hdisj x x'); [right; exact Hx|exact Hx'|exact Hh|exact Hs].
    + exists new'. split; [exact Hre|]. split; [congruence|]. split; [exact Hr'|].
      split; [exact Hu'|]. split; [cbn [count_some]; lia|].
      intros x. rewrite Hin', (in_set_nth_none new i e x Hnone). cbn [In].
      split.
      * intros [[->|H]|H]; [right; left; reflexivity|left; exact H|right; right; exact H].
      * intros [H|[H|H]]; [left; right; exact H|left; left; congruence|right; exact H].
  - cbn [rehash]. cbn [count_some] in Hcount.
    destruct (IH new Hm Hpos Hr Hu Hcount (uniq_tail _ _ Huo))
      as (new' & Hre & Hlen' & Hr' & Hu' & Hc' & Hin').
    + intros x x' Hx Hx'. apply (Hdisj x x'); [right; exact Hx|exact Hx'].
    + exists new'. split; [exact Hre|]. split; [exact Hlen'|]. split; [exact Hr'|].
      split; [exact Hu'|]. split; [cbn [count_some]; lia|].
      intros x. rewrite Hin'. cbn [In]. split.
      * intros [H|H]; [left; exact H|right; right; exact H].
      * intros [H|[H|H]]; [left; exact H|discriminate|right; exact H].
Qed.

(* ------------------------------------------------------------------ *)
(* Spec-side lemmas                                                    *)
(* ------------------------------------------------------------------ *)

Fixpoint spec_final (m : list (text * N)) (next : N) (l : list text) : list (text * N) :=
  match l with
  | [] => m
  | s :: r =>
    match assoc_find m s with
    | Some _ => spec_final m next r
    | None => spec_final ((s, next) :: m) (next + 1)%N r
    end
  end.

Definition bounded (m : list (text * N)) (next : N) : Prop :=
  forall s v, assoc_find m s = Some v -> (v < next)%N.

Definition inj (m : list (text * N)) : Prop :=
  forall s1 s2 v, assoc_find m s1 = Some v -> assoc_find m s2 = Some v -> s1 = s2.

Lemma spec_final_ext : forall l m next s v,
  assoc_find m s = Some v -> assoc_find (spec_final m next l) s = Some v.
Proof.
  induction l as [|s0 r IH]; intros m next s v H; cbn [spec_final]; [exact H|].
  destruct (assoc_find m s0) eqn:E0.
  - apply IH. exact H.
  - apply IH. cbn [assoc_find]. destruct (text_eqb s0 s) eqn:Eq; [|exact H].
    apply text_eqb_iff in Eq. subst s0. congruence.
Qed.

Lemma spec_final_inj : forall l m next, bounded m next -> inj m -> inj (spec_final m next l).
Proof.
  induction l as [|s0 r IH]; intros m next Hb Hi; cbn [spec_final]; [exact Hi|].
  destruct (assoc_find m s0) eqn:E0.
  - apply IH; assumption.
  - apply IH.
    + intros s v. cbn [assoc_find]. destruct (text_eqb s0 s).
      * intros H. injection H as <-. lia.
      * intros H. apply Hb in H. lia.
    + intros s1 s2 v. cbn [assoc_find].
      destruct (text_eqb s0 s1) eqn:E1; destruct (text_eqb s0 s2) eqn:E2; intros H1 H2.
      * apply text_eqb_iff in E1, E2. congruence.
      * injection H1 as <-. apply Hb in H2. lia.
      * injection H2 as <-. apply Hb in H1. lia.
      * apply (Hi s1 s2 v H1 H2).
Qed.

Lemma spec_nth : forall l m next i, i < length l ->
  assoc_find (spec_final m next l) (nth i l []) = Some (nth i (spec_intern_all m next l) 0%N).
Proof.
  induction l as [|s0 r IH]; intros m next i Hi; cbn [length] in Hi; [lia|].
  cbn [spec_final spec_intern_all]. destruct (assoc_find m s0) as [v|] eqn:E0.
  - destruct i as [|i']; cbn [nth].
    + apply spec_final_ext. exact E0.
    + apply IH. lia.
  - destruct i as [|i']; cbn [nth].
    + apply spec_final_ext. cbn [assoc_find]. rewrite text_eqb_refl. reflexivity.
    + apply IH. lia.
Qed.

Lemma spec_intern_all_length : forall l m next, length (spec_intern_all m next l) = length l.
Proof.
  induction l as [|s r IH]; intros m next; [reflexivity|].
  cbn [spec_intern_all]. destruct (assoc_find m s); cbn [length]; rewrite IH; reflexivity.
Qed.

(* C11 at the Spec level: same identity iff same bytes *)
Lemma spec_identity_iff_equal (l : list text) (i j : nat) :
  i < length l -> j < length l ->
  (nth i (spec_intern_all [] 0%N l) 0%N = nth j (spec_intern_all [] 0%N l) 0%N
   <-> nth i l [] = nth j l []).
Proof.
  intros Hi Hj.
  assert (Hinj : inj (spec_final [] 0%N l)).
  { apply spec_final_inj; intros s; cbn [assoc_find]; intros; discriminate. }
  assert (Ni := spec_nth l [] 0%N i Hi). assert (Nj := spec_nth l [] 0%N j Hj). split.
  - intros E. rewrite E in Ni. apply (Hinj _ _ _ Ni Nj).
  - intros E. rewrite E in Ni. congruence.
Qed.

(* ------------------------------------------------------------------ *)
(* The table invariant and the theorems                                *)
(* ------------------------------------------------------------------ *)

Section Proofs.
Variable init_capacity : nat.
Variables load_num load_den : nat.

(* Side conditions on the constants (discharged by computation for 4, 3, 4 below).
   Hcap and Hlim, about init_capacity, are introduced further down, where first needed. *)
Hypothesis Hload : 0 < load_num < load_den.

Notation limit := (load_limit load_num load_den).


Record Inv (t : table) : Prop := {
  inv_cap : exists k, length (entries t) = 2 ^ k;
  inv_mask : mask t = (N.of_nat (length (entries t)) - 1)%N;
  inv_size : size t = count_some (entries t);
  inv_load : size t <= limit (length (entries t));
  inv_lim1 : 1 <= limit (length (entries t));
  inv_reach : reach (entries t);
  inv_uniq : uniq (entries t) }.

Lemma limit_lt (cap : nat) : 0 < cap -> limit cap < cap.
Proof.
  intros Hc. unfold load_limit. apply Nat.div_lt_upper_bound; [lia|]. nia.
Qed.

Lemma limit_double (cap : nat) : 2 * limit cap <= limit (cap * 2).
Proof.
  unfold load_limit. replace (cap * 2 * load_num) with (2 * (cap * load_num)) by lia.
  apply Nat.div_mul_le. lia.
Qed.

Lemma Inv_facts (t : table) : Inv t ->
  mask_ok (mask t) (length (entries t)) /\ 0 < length (entries t) /\
  count_some (entries t) < length (entries t) /\
  exists i, nth_error (entries t) i = Some None.
Proof.
  intros [[k Hk] Hmask Hsize Hld Hl1 Hr Hu].
  assert (Hpos : 0 < length (entries t)) by (rewrite Hk; apply pow2_pos).
  assert (Hlt := limit_lt _ Hpos).
  split; [|split; [exact Hpos|split; [lia|apply free_slot; lia]]].
  rewrite Hmask, Hk. apply pow2_mask_ok.
Qed.

(* The invariant implies at least one free slot, as a standalone statement. *)
Lemma Inv_free_slot (t : table) : Inv t -> exists i, nth_error (entries t) i = Some None.
Proof. intros H. apply Inv_facts in H. tauto. Qed.

(* 2 *)
Theorem find_index_total (t : table) (h : N) (s : text) :
  Inv t -> exists i, find_index (entries t) h s (mask t) = Some i /\ i < length (entries t).
Proof.
  intros HI. destruct (Inv_facts t HI) as (Hm & Hpos & _ & Hfree).
  destruct (find_index_char (entries t) (mask t) h s Hm Hpos (inv_reach t HI) (inv_uniq t HI) Hfree)
    as (d & _ & Hfi & _).
  eexists. split; [exact Hfi|]. apply slot_lt. exact Hpos.
Qed.

(* 3 *)
Theorem find_index_spec (t : table) (h : N) (s : text) :
  Inv t -> exists i, find_index (entries t) h s (mask t) = Some i /\ i < length (entries t) /\
    nth_error (entries t) i =
      match lookup t h s with Some e => Some (Some e) | None => Some None end.
Proof.
  intros HI. destruct (Inv_facts t HI) as (Hm & Hpos & _ & Hfree).
  destruct (find_index_char (entries t) (mask t) h s Hm Hpos (inv_reach t HI) (inv_uniq t HI) Hfree)
    as (d & _ & Hfi & Hslot).
  eexists. split; [exact Hfi|]. split; [apply slot_lt; exact Hpos|exact Hslot].
Qed.

Theorem get_spec (t : table) (h : N) (s : text) : Inv t -> get t h s = Some (lookup t h s).
Proof.
  intros HI. destruct (find_index_spec t h s HI) as (i & Hfi & _ & Hslot).
  unfold get. rewrite Hfi, Hslot. destruct (lookup t h s); reflexivity.
Qed.

(* what `lookup` means, under Inv *)
Lemma lookup_some_iff (t : table) (h : N) (s : text) (e : entry) : Inv t ->
  (lookup t h s = Some e <-> In (Some e) (entries t) /\ ehash e = h /\ etext e = s).
Proof.
  intros HI. unfold lookup. split.
  - intros H. apply lookup_es_inv in H. destruct H as (j & Hj & Hk).
    split; [eapply nth_error_In; exact Hj|apply key_matches_iff; exact Hk].
  - intros (Hin & Hk). apply In_nth_error in Hin. destruct Hin as [j Hj].
    apply (lookup_es_some _ j e h s (inv_uniq t HI) Hj). apply key_matches_iff. exact Hk.
Qed.

Lemma lookup_none_iff (t : table) (h : N) (s : text) :
  lookup t h s = None <-> forall e, In (Some e) (entries t) -> ~ (ehash e = h /\ etext e = s).
Proof.
  unfold lookup. split.
  - intros H e Hin Hk. apply key_matches_iff in Hk. unfold lookup_es in H.
    destruct (find _ (entries t)) as [[e'|]|] eqn:Ef; try discriminate.
    + apply find_some in Ef. destruct Ef as [_ Hf]. discriminate.
    + apply (find_none _ _ Ef) in Hin. cbv beta iota in Hin. congruence.
  - intros H. apply lookup_es_none. intros j e Hj.
    destruct (key_matches e h s) eqn:Hk; [|reflexivity].
    exfalso. apply (H e); [eapply nth_error_In; exact Hj|apply key_matches_iff; exact Hk].
Qed.

(* adjust_capacity (doubling) preserves every entry, Inv and lookup, and makes room *)
Theorem adjust_capacity_ok (t : table) : Inv t ->
  exists t1, adjust_capacity t (length (entries t) * 2) = Some t1 /\
    Inv t1 /\ size t1 = size t /\ length (entries t1) = length (entries t) * 2 /\
    size t1 + 1 <= limit (length (entries t1)) /\
    (forall x, In (Some x) (entries t1) <-> In (Some x) (entries t)) /\
    (forall h s, lookup t1 h s = lookup t h s).
Proof.
  intros HI. assert (HI0 := HI). destruct HI as [[k Hk] Hmask Hsize Hld Hl1 Hr Hu].
  assert (Hpos : 0 < length (entries t)) by (rewrite Hk; apply pow2_pos).
  assert (Hlt := limit_lt _ Hpos). assert (Hdbl := limit_double (length (entries t))).
  assert (Hk2 : length (entries t) * 2 = 2 ^ S k) by (rewrite Nat.pow_succ_r'; lia).
  unfold adjust_capacity.
  destruct (rehash_ok (N.of_nat (length (entries t) * 2) - 1)%N (entries t)
              (repeat None (length (entries t) * 2))) as (new' & Hre & Hlen' & Hr' & Hu' & Hc' & Hin').
  - rewrite repeat_length, Hk2. apply pow2_mask_ok.
  - rewrite repeat_length. lia.
  - apply reach_repeat_none.
  - apply uniq_repeat_none.
  - rewrite repeat_length, count_some_repeat_none. lia.
  - exact Hu.
  - intros e e' _ Hin. apply repeat_spec in Hin. discriminate.
  - rewrite Hre. eexists. split; [reflexivity|]. cbn [entries size mask].
    rewrite repeat_length in Hlen'. rewrite count_some_repeat_none in Hc'.
    assert (Hmem : forall x, In (Some x) new' <-> In (Some x) (entries t)).
    { intros x. rewrite Hin'. split; [intros [H|H]|intros H].
      - apply repeat_spec in H. discriminate.
      - exact H.
      - right. exact H. }
    split; [|split; [reflexivity|split; [exact Hlen'|split; [rewrite Hlen'; lia|split]]]].
    + constructor; cbn [entries size mask]; rewrite ?Hlen'.
      * exists (S k). exact Hk2.
      * reflexivity.
      * lia.
      * lia.
      * lia.
      * exact Hr'.
      * exact Hu'.
    + exact Hmem.
    + intros h s. unfold lookup. cbn [entries]. apply lookup_es_ext; assumption.
Qed.

(* the growth step at the head of `insert` *)
Lemma grow_ok (t : table) : Inv t ->
  exists t1,
    (if Nat.ltb (limit (length (entries t))) (size t + 1)
     then adjust_capacity t (length (entries t) * 2) else Some t) = Some t1 /\
    Inv t1 /\ size t1 = size t /\ size t1 + 1 <= limit (length (entries t1)) /\
    (forall x, In (Some x) (entries t1) <-> In (Some x) (entries t)).
Proof.
  intros HI. destruct (Nat.ltb_spec (limit (length (entries t))) (size t + 1)) as [Hgrow|Hfit].
  - destruct (adjust_capacity_ok t HI) as (t1 & Ha & HI1 & Hsz & _ & Hroom & Hin & _).
    exists t1. split; [exact Ha|]. split; [exact HI1|]. split; [exact Hsz|]. split; [exact Hroom|exact Hin].
  - exists t. split; [reflexivity|]. split; [exact HI|]. split; [reflexivity|]. split; [lia|].
    intros x. reflexivity.
Qed.

(* full description of one `insert` *)
Lemma insert_char (t : table) (e : entry) : Inv t ->
  exists t1 i,
    Inv t1 /\ (forall x, In (Some x) (entries t1) <-> In (Some x) (entries t)) /\
    i < length (entries t1) /\
    nth_error (entries t1) i =
      match lookup t1 (ehash e) (etext e) with Some o => Some (Some o) | None => Some None end /\
    let t' := {| entries := set_nth (entries t1) i (Some e);
                 size := match lookup t1 (ehash e) (etext e) with
                         | None => S (size t) | Some _ => size t end;
                 mask := mask t1 |} in
    insert load_num load_den t e = Some (t', lookup t1 (ehash e) (etext e)) /\ Inv t'.
Proof.
  intros HI. destruct (grow_ok t HI) as (t1 & Hg & HI1 & Hsz1 & Hroom & Hin1).
  destruct (Inv_facts t1 HI1) as (Hm & Hpos & _ & Hfree).
  destruct (find_index_char (entries t1) (mask t1) (ehash e) (etext e) Hm Hpos
              (inv_reach t1 HI1) (inv_uniq t1 HI1) Hfree) as (d & Hw & Hfi & Hslot).
  set (i := slot (length (entries t1)) (ehash e) d) in *.
  change (lookup_es (entries t1) (ehash e) (etext e)) with (lookup t1 (ehash e) (etext e)) in Hslot.
  exists t1, i. split; [exact HI1|]. split; [exact Hin1|].
  split; [apply slot_lt; exact Hpos|]. split; [exact Hslot|].
  intros t'. split.
  - unfold insert. rewrite Hg, Hfi. fold i. rewrite Hslot. unfold t'. rewrite Hsz1.
    destruct (lookup t1 (ehash e) (etext e)); reflexivity.
  - destruct (set_preserves (entries t1) e d Hpos (inv_reach t1 HI1) (inv_uniq t1 HI1) Hw)
      as [Hr' Hu']. fold i in Hr', Hu'.
    destruct HI1 as [Hk1 Hmask1 Hsize1 Hld1 Hl11 Hr1 Hu1].
    constructor; unfold t'; cbn [entries size mask]; rewrite ?set_nth_length; try assumption.
    + destruct (lookup t1 (ehash e) (etext e)) as [o|].
      * rewrite (count_some_set_nth _ _ _ e Hslot). lia.
      * rewrite (count_some_set_nth _ _ _ e Hslot). lia.
    + destruct (lookup t1 (ehash e) (etext e)); lia.
Qed.

(* 4 *)
Theorem insert_inv (t : table) (e : entry) : Inv t ->
  exists t' old, insert load_num load_den t e = Some (t', old) /\ Inv t' /\
    old = lookup t (ehash e) (etext e) /\
    size t' = match old with None => S (size t) | Some _ => size t end.
Proof.
  intros HI. destruct (insert_char t e HI) as (t1 & i & HI1 & Hin1 & _ & _ & Hins & HI').
  eexists. eexists. split; [exact Hins|]. split; [exact HI'|].
  split; [|reflexivity].
  apply lookup_es_ext; [exact (inv_uniq t1 HI1)|exact (inv_uniq t HI)|exact Hin1].
Qed.

(* 5 *)
Theorem insert_lookup (t t' : table) (e : entry) (old : option entry) : Inv t ->
  insert load_num load_den t e = Some (t', old) ->
  lookup t' (ehash e) (etext e) = Some e /\
  (forall h s, ~ (h = ehash e /\ s = etext e) -> lookup t' h s = lookup t h s) /\
  old = lookup t (ehash e) (etext e).
Proof.
  intros HI Hins.
  destruct (insert_char t e HI) as (t1 & i & HI1 & Hin1 & Hi & Hslot & Hins' & HI').
  cbv zeta in Hins', HI'. rewrite Hins in Hins'. injection Hins' as Et' Eold.
  rewrite <- Et' in HI'.
  assert (Hext : forall h s, lookup t1 h s = lookup t h s).
  { intros h s. apply lookup_es_ext; [exact (inv_uniq t1 HI1)|exact (inv_uniq t HI)|exact Hin1]. }
  assert (Hent : entries t' = set_nth (entries t1) i (Some e)) by (rewrite Et'; reflexivity).
  split; [|split].
  - unfold lookup. apply (lookup_es_some _ i e); [exact (inv_uniq t' HI')| |apply key_matches_self].
    rewrite Hent. apply nth_error_set_nth_eq. exact Hi.
  - intros h s Hne. rewrite <- Hext. unfold lookup. rewrite Hent.
    destruct (lookup_es (entries t1) h s) as [x|] eqn:El.
    + apply lookup_es_inv in El. destruct El as (j & Hj & Hk).
      assert (Hij : i <> j).
      { intros <-. rewrite Hj in Hslot.
        destruct (lookup t1 (ehash e) (etext e)) as [o|] eqn:Eo; [|discriminate].
        injection Hslot as ->. apply lookup_es_inv in Eo. destruct Eo as (_ & _ & Hko).
        apply key_matches_iff in Hk, Hko. apply Hne. destruct Hk, Hko. split; congruence. }
      apply (lookup_es_some _ j x); [rewrite <- Hent; exact (inv_uniq t' HI')| |exact Hk].
      rewrite nth_error_set_nth_neq by exact Hij. exact Hj.
    + apply lookup_es_none. intros j x Hj.
      destruct (Nat.eq_dec i j) as [<-|Hij].
      * rewrite nth_error_set_nth_eq in Hj by exact Hi. injection Hj as <-.
        destruct (key_matches e h s) eqn:Hk; [|reflexivity].
        apply key_matches_iff in Hk. exfalso. apply Hne. destruct Hk. split; congruence.
      * rewrite nth_error_set_nth_neq in Hj by exact Hij.
        destruct (key_matches x h s) eqn:Hk; [|reflexivity].
        rewrite (lookup_es_some _ j x h s (inv_uniq t1 HI1) Hj Hk) in El. discriminate.
  - rewrite Eold. apply Hext.
Qed.

(* ---- 6: intern refines the Spec map ---- *)

(* simulation relation between the interpreter state and the Spec state *)
Definition sim (hashf : text -> N) (st : istate) (m : list (text * N)) (next : N) : Prop :=
  Inv (tbl st) /\ next_id st = next /\
  forall s, option_map eid (lookup (tbl st) (hashf s) s) = assoc_find m s.

Lemma intern_step (hashf : text -> N) (st : istate) (m : list (text * N)) (next : N) (s : text) :
  sim hashf st m next ->
  match assoc_find m s with
  | Some i => intern load_num load_den hashf st s = Some (st, i)
  | None => exists st', intern load_num load_den hashf st s = Some (st', next) /\
                        sim hashf st' ((s, next) :: m) (next + 1)%N
  end.
Proof.
  intros (HI & Hnext & Hsim). unfold intern. rewrite (get_spec _ _ _ HI).
  specialize (Hsim s) as Hs. destruct (lookup (tbl st) (hashf s) s) as [e|] eqn:El;
    cbn [option_map] in Hs; rewrite <- Hs.
  - reflexivity.
  - set (e := {| ehash := hashf s; etext := s; eid := next_id st |}).
    destruct (insert_inv (tbl st) e HI) as (t' & old & Hins & HI' & _ & _).
    rewrite Hins. eexists. split; [rewrite Hnext; reflexivity|].
    destruct (insert_lookup (tbl st) t' e old HI Hins) as (Hnew & Hother & _).
    split; [exact HI'|]. split; [cbn [next_id]; try rewrite Hnext; reflexivity|].
    intros s'. cbn [tbl assoc_find]. destruct (text_eqb s s') eqn:Eq.
    + apply text_eqb_iff in Eq. subst s'. change (lookup t' (hashf s) s = Some e) in Hnew. rewrite Hnew. cbn [option_map eid e]. congruence.
    + apply text_eqb_false in Eq. rewrite Hother; [apply Hsim|].
      cbn [e ehash etext]. intros [_ E]. congruence.
Qed.

Lemma intern_all_sim (hashf : text -> N) : forall l st m next,
  sim hashf st m next ->
  exists st', intern_all load_num load_den hashf st l = Some (st', spec_intern_all m next l) /\
              Inv (tbl st').
Proof.
  induction l as [|s r IH]; intros st m next Hsim.
  - exists st. split; [reflexivity|]. destruct Hsim as [HI _]. exact HI.
  - cbn [intern_all spec_intern_all]. assert (Hstep := intern_step hashf st m next s Hsim).
    destruct (assoc_find m s) as [i|].
    + rewrite Hstep. destruct (IH st m next Hsim) as (st' & Hall & HI').
      rewrite Hall. exists st'. split; [reflexivity|exact HI'].
    + destruct Hstep as (st1 & Hint & Hsim1). rewrite Hint.
      destruct (IH st1 _ _ Hsim1) as (st' & Hall & HI').
      rewrite Hall. exists st'. split; [reflexivity|exact HI'].
Qed.

Lemma run_ops_inv : forall ops t next, Inv t ->
  ~ In RStuck (fst (run_ops load_num load_den t next ops)) /\
  Inv (snd (run_ops load_num load_den t next ops)).
Proof.
  induction ops as [|[h s|h s] r IH]; intros t next HI; cbn [run_ops].
  - split; [intros []|exact HI].
  - rewrite (get_spec t h s HI). specialize (IH t next HI).
    destruct (run_ops load_num load_den t next r) as [rs t']. cbn [fst snd] in *.
    destruct IH as [Hns HI']. split; [|exact HI'].
    intros [Hd|Hin]; [discriminate|contradiction].
  - destruct (insert_inv t {| ehash := h; etext := s; eid := next |} HI)
      as (t1 & old & Hins & HI1 & _ & _).
    rewrite Hins. specialize (IH t1 (next + 1)%N HI1).
    destruct (run_ops load_num load_den t1 (next + 1)%N r) as [rs t']. cbn [fst snd] in *.
    destruct IH as [Hns HI']. split; [|exact HI'].
    intros [Hd|Hin]; [discriminate|contradiction].
Qed.

(* ---- side conditions on the initial capacity (only the theorems about the empty table
   and whole histories depend on them) ---- *)
Hypothesis Hcap : exists k, init_capacity = 2 ^ k.
(* Needed: if load_limit init_capacity = 0 (e.g. capacity 1, load 1/4) the first insert doubles
   the capacity once, the limit may still be 0, and `size <= load_limit` fails (see report and
   Example hlim_needed). *)
Hypothesis Hlim : 1 <= load_limit load_num load_den init_capacity.

(* `0 < init_capacity` is implied by Hcap *)
Lemma init_capacity_pos : 0 < init_capacity.
Proof. destruct Hcap as [k ->]. apply pow2_pos. Qed.

(* 1 *)
Theorem empty_inv : Inv (empty_table init_capacity).
Proof.
  unfold empty_table. constructor; cbn [entries size mask]; rewrite ?repeat_length.
  - exact Hcap.
  - reflexivity.
  - rewrite count_some_repeat_none. reflexivity.
  - lia.
  - exact Hlim.
  - apply reach_repeat_none.
  - apply uniq_repeat_none.
Qed.

Lemma sim_init (hashf : text -> N) : sim hashf (init_state init_capacity) [] 0%N.
Proof.
  unfold init_state. split; [exact empty_inv|]. split; [reflexivity|].
  intros s. cbn [tbl assoc_find]. unfold lookup. rewrite lookup_es_none; [reflexivity|].
  intros j e Hj. cbn [empty_table entries] in Hj.
  apply nth_error_In, repeat_spec in Hj. discriminate.
Qed.

(* Main theorem: for every hash function and every history, interning never gets stuck and
   hands out exactly the identities of the Spec (one per distinct byte string). *)
Theorem intern_refines_map (hashf : text -> N) (l : list text) :
  exists st, intern_all load_num load_den hashf (init_state init_capacity) l
             = Some (st, spec_intern_all [] 0%N l) /\ Inv (tbl st).
Proof. apply intern_all_sim. apply sim_init. Qed.

(* C11: two intern calls return the same identity iff their byte strings are equal *)
Corollary intern_identity_iff_equal (hashf : text -> N) (l : list text) (st : istate) (ids : list N) :
  intern_all load_num load_den hashf (init_state init_capacity) l = Some (st, ids) ->
  length ids = length l /\
  forall i j, i < length l -> j < length l ->
    (nth i ids 0%N = nth j ids 0%N <-> nth i l [] = nth j l []).
Proof.
  intros H. destruct (intern_refines_map hashf l) as (st' & H' & _).
  rewrite H in H'. injection H' as _ ->. split.
  - apply spec_intern_all_length.
  - intros i j Hi Hj. apply spec_identity_iff_equal; assumption.
Qed.

(* ---- 7: the operation-level interface never gets stuck ---- *)
Theorem run_ops_never_stuck (ops : list op) (next : N) :
  ~ In RStuck (fst (run_ops load_num load_den (empty_table init_capacity) next ops)) /\
  Inv (snd (run_ops load_num load_den (empty_table init_capacity) next ops)).
Proof. apply run_ops_inv. exact empty_inv. Qed.

End Proofs.

(* ------------------------------------------------------------------ *)
(* Today's constants: INIT_CAPACITY = 4, MAX_LOAD = 3/4                 *)
(* ------------------------------------------------------------------ *)

Lemma consts_cap : exists k, 4 = 2 ^ k.
Proof. exists 2. reflexivity. Qed.
Lemma consts_load : 0 < 3 < 4.
Proof. lia. Qed.
Lemma consts_lim : 1 <= load_limit 3 4 4.
Proof. vm_compute. lia. Qed.

Definition intern_refines_map_4_3_4 := intern_refines_map 4 3 4 consts_load consts_cap consts_lim.
Definition intern_identity_iff_equal_4_3_4 :=
  intern_identity_iff_equal 4 3 4 consts_load consts_cap consts_lim.
Definition run_ops_never_stuck_4_3_4 := run_ops_never_stuck 4 3 4 consts_load consts_cap consts_lim.

(* one-byte texts; hash 4*b+3: all hashes collide in the low 2 bits (3, 7, 11, 15, ...) *)
Definition ex_text (n : N) : text := match Byte.of_N n with Some b => [b] | None => [] end.
Definition ex_hash (s : text) : N := match s with [b] => (4 * Byte.to_N b + 3)%N | _ => 0%N end.
Definition ex_hist : list text :=
  map ex_text [0; 1; 0; 2; 3; 1; 4; 5; 6; 4; 7; 8; 9; 10; 11; 0; 11]%N.

Definition shape (t : table) : nat * nat * N * nat :=
  (length (entries t), size t, mask t, count_some (entries t)).
Definition ids_layout (t : table) : list (option N) := map (option_map eid) (entries t).

Definition ex_after (n : nat) : option table :=
  option_map (fun r => tbl (fst r)) (intern_all 3 4 ex_hash (init_state 4) (map ex_text (firstn n [0;1;2;3;4;5;6;7;8;9;10;11]%N))).

(* 12 inserts (17 intern calls), identities as the Spec says *)
Example ex_intern_ids :
  option_map snd (intern_all 3 4 ex_hash (init_state 4) ex_hist)
  = Some [0; 1; 0; 2; 3; 1; 4; 5; 6; 4; 7; 8; 9; 10; 11; 0; 11]%N.
Proof. vm_compute. reflexivity. Qed.

Example ex_intern_spec :
  option_map snd (intern_all 3 4 ex_hash (init_state 4) ex_hist)
  = Some (spec_intern_all [] 0%N ex_hist).
Proof. vm_compute. reflexivity. Qed.

(* capacity 4: homes all = 3, the chain wraps 3 -> 0 -> 1 *)
Example ex_shape_3 : option_map shape (ex_after 3) = Some (4, 3, 3%N, 3).
Proof. vm_compute. reflexivity. Qed.
Example ex_layout_3 : option_map ids_layout (ex_after 3) = Some [Some 1; Some 2; None; Some 0]%N.
Proof. vm_compute. reflexivity. Qed.
(* 4th insert: 3 + 1 > 3 -> first growth, 4 -> 8 *)
Example ex_shape_4 : option_map shape (ex_after 4) = Some (8, 4, 7%N, 4).
Proof. vm_compute. reflexivity. Qed.
Example ex_layout_4 :
  option_map ids_layout (ex_after 4)
  = Some [Some 3; None; None; Some 2; Some 0; None; None; Some 1]%N.
Proof. vm_compute. reflexivity. Qed.
Example ex_shape_6 : option_map shape (ex_after 6) = Some (8, 6, 7%N, 6).
Proof. vm_compute. reflexivity. Qed.
(* 7th insert: 6 + 1 > 6 -> second growth, 8 -> 16 *)
Example ex_shape_7 : option_map shape (ex_after 7) = Some (16, 7, 15%N, 7).
Proof. vm_compute. reflexivity. Qed.
Example ex_shape_12 : option_map shape (ex_after 12) = Some (16, 12, 15%N, 12).
Proof. vm_compute. reflexivity. Qed.
(* hashes 3,7,11,15,19,... mod 16: the chain from home 15 (ids 3, 7, 11) wraps to slots 0, 1 *)
Example ex_layout_12 :
  option_map ids_layout (ex_after 12)
  = Some [Some 7; Some 11; None; Some 0; Some 4; Some 8; None; Some 5;
          Some 1; Some 9; None; Some 2; Some 6; Some 10; None; Some 3]%N.
Proof. vm_compute. reflexivity. Qed.

(* identical full hashes for every string: one chain of 12 from home 3, still the Spec's identities *)
Example ex_intern_const_hash :
  option_map snd (intern_all 3 4 (fun _ => 3%N) (init_state 4) ex_hist)
  = Some (spec_intern_all [] 0%N ex_hist).
Proof. vm_compute. reflexivity. Qed.
Example ex_layout_const_hash :
  option_map (fun r => ids_layout (tbl (fst r))) (intern_all 3 4 (fun _ => 3%N) (init_state 4) ex_hist)
  = Some [None; None; None; Some 5; Some 1; Some 2; Some 0; Some 3;
          Some 4; Some 6; Some 7; Some 8; Some 9; Some 10; Some 11; None]%N.
Proof. vm_compute. reflexivity. Qed.

(* operation level: the same text under different hashes is a different key; re-insert replaces *)
Definition ex_ops : list op :=
  let a := ex_text 65 in
  [OInsert 3 a; OInsert 7 a; OGet 3 a; OGet 7 a; OInsert 3 a; OGet 3 a; OGet 11 a;
   OInsert 11 (ex_text 66); OInsert 15 (ex_text 67)].
Example ex_run_ops :
  let '(rs, t) := run_ops 3 4 (empty_table 4) 0%N ex_ops in
  (rs, shape t) =
  ([RInsert 0 false; RInsert 1 false; RGet (Some 0%N); RGet (Some 1%N); RInsert 2 true;
    RGet (Some 2%N); RGet None; RInsert 3 false; RInsert 4 false], (8, 4, 7%N, 4)).
Proof. vm_compute. reflexivity. Qed.

(* the hypotheses of the implication theorems are satisfiable by a non-trivial state *)
Example ex_inv_nontrivial : Inv 3 4 (snd (run_ops 3 4 (empty_table 4) 0%N ex_ops)).
Proof. apply run_ops_never_stuck_4_3_4. Qed.

(* Why Hlim is a hypothesis: with INIT_CAPACITY = 1 and MAX_LOAD = 1/4 the clause
   `size <= load_limit capacity` of Inv fails after the first insert (the table is nevertheless
   not stuck: size < capacity still holds). *)
Example hlim_needed :
  option_map (fun r => let t := fst r in (shape t, load_limit 1 4 (length (entries t))))
    (insert 1 4 (empty_table 1) {| ehash := 0; etext := []; eid := 0 |})
  = Some ((2, 1, 1%N, 1), 0).
Proof. vm_compute. reflexivity. Qed.

Print Assumptions intern_refines_map.
Print Assumptions intern_identity_iff_equal.
Print Assumptions insert_inv.
Print Assumptions insert_lookup.
Print Assumptions find_index_spec.
Print Assumptions run_ops_never_stuck.
Print Assumptions find_index_total.
