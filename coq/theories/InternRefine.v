(* Operation-level refinement: Intern.v's table driven by arbitrary get/insert histories returns
   what an association list keyed by (hash, text) returns (the Spec of InternRun.v). *)
From Coq Require Import List NArith Bool Arith Lia.
From Coq Require Import Strings.Byte.
From YV Require Import Intern InternRun InternProofs.
Import ListNotations.

Section Refine.
Variable init_capacity : nat.
Variables load_num load_den : nat.
Hypothesis Hload : 0 < load_num < load_den.

Notation Inv := (Inv load_num load_den).

(* abstraction relation between a table and the Spec's association list *)
Definition absrel (t : table) (m : list (N * text * N)) : Prop :=
  forall h s, option_map eid (lookup t h s) = spec_find m h s.

Lemma spec_find_cons_same m h s i : spec_find ((h, s, i) :: m) h s = Some i.
Proof. cbn [spec_find]. rewrite N.eqb_refl, text_eqb_refl. reflexivity. Qed.

Lemma spec_find_cons_other m h s i h' s' :
  ~ (h' = h /\ s' = s) -> spec_find ((h, s, i) :: m) h' s' = spec_find m h' s'.
Proof.
  intros Hne. cbn [spec_find].
  destruct (N.eqb h h') eqn:Eh; [|reflexivity].
  destruct (text_eqb s s') eqn:Es; [|reflexivity].
  exfalso. apply Hne. apply N.eqb_eq in Eh. apply text_eqb_iff in Es. split; congruence.
Qed.

Lemma run_ops_refines : forall ops t m next,
  Inv t -> absrel t m ->
  fst (run_ops load_num load_den t next ops) = spec_run_ops m next ops.
Proof.
  induction ops as [|[h s|h s] r IH]; intros t m next HI Habs; cbn [run_ops spec_run_ops].
  - reflexivity.
  - rewrite (get_spec load_num load_den Hload t h s HI).
    specialize (IH t m next HI Habs).
    destruct (run_ops load_num load_den t next r) as [rs t'] eqn:E. cbn [fst] in *.
    f_equal; [|exact IH]. f_equal. rewrite <- Habs.
    destruct (lookup t h s); reflexivity.
  - set (e := {| ehash := h; etext := s; eid := next |}).
    destruct (insert_inv load_num load_den Hload t e HI) as (t1 & old & Hins & HI1 & Hold & _).
    rewrite Hins.
    destruct (insert_lookup load_num load_den Hload t t1 e old HI Hins) as (Hnew & Hoth & _).
    assert (Habs1 : absrel t1 ((h, s, next) :: m)).
    { intros h' s'.
      destruct (N.eq_dec h' h) as [Eh|Nh]; [destruct (list_eq_dec Byte.byte_eq_dec s' s) as [Es|Ns]|].
      - subst h' s'. rewrite spec_find_cons_same. change h with (ehash e). change s with (etext e) at 1.
        rewrite Hnew. reflexivity.
      - rewrite spec_find_cons_other by (intros [_ ?]; contradiction).
        rewrite (Hoth h' s') by (cbn; intros [_ ?]; contradiction). apply Habs.
      - rewrite spec_find_cons_other by (intros [? _]; contradiction).
        rewrite (Hoth h' s') by (cbn; intros [? _]; contradiction). apply Habs. }
    specialize (IH t1 ((h, s, next) :: m) (next + 1)%N HI1 Habs1).
    destruct (run_ops load_num load_den t1 (next + 1)%N r) as [rs t'] eqn:E. cbn [fst] in *.
    f_equal; [|exact IH]. f_equal.
    rewrite Hold. cbn [ehash etext e]. specialize (Habs h s).
    destruct (lookup t h s); cbn [option_map] in Habs; rewrite <- Habs; reflexivity.
Qed.

Hypothesis Hcap : exists k, init_capacity = 2 ^ k.
Hypothesis Hlim : 1 <= load_limit load_num load_den init_capacity.

Lemma absrel_empty : absrel (empty_table init_capacity) [].
Proof.
  intros h s. cbn [spec_find]. unfold lookup. rewrite lookup_es_none; [reflexivity|].
  intros j e Hj. cbn [empty_table entries] in Hj.
  apply nth_error_In, repeat_spec in Hj. discriminate.
Qed.

Theorem run_ops_refines_spec (ops : list op) :
  fst (run_ops load_num load_den (empty_table init_capacity) 0%N ops) = spec_run_ops [] 0%N ops.
Proof.
  apply run_ops_refines; [|exact absrel_empty].
  exact (empty_inv init_capacity load_num load_den Hload Hcap Hlim).
Qed.

End Refine.
