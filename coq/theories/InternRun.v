(* Rendering of Intern.v runs for the correspondence check (hook H3 / harness command `intern`). *)
From Coq Require Import List NArith Bool String.
From Coq Require Import Strings.Byte.
From YV Require Import Show Wire Intern.
Import ListNotations.
Open Scope string_scope.

Definition show_opres (r : opres) : string :=
  match r with
  | RGet None => "G-"
  | RGet (Some i) => "G" ++ show_N i
  | RInsert i b => "I" ++ show_N i ++ (if b then "r" else "n")
  | RStuck => "STUCK"
  end.

Fixpoint show_entries (i : nat) (es : list (option entry)) : string :=
  match es with
  | [] => ""
  | None :: r => show_entries (S i) r
  | Some e :: r =>
    "E" ++ show_nat i ++ ":" ++ show_N (ehash e) ++ ":" ++ hex_of_bytes (etext e) ++ ":" ++ show_N (eid e)
    ++ ";" ++ show_entries (S i) r
  end.

Definition show_table (t : table) : string :=
  "L" ++ show_nat (size t) ++ "," ++ show_N (mask t) ++ "," ++ show_nat (List.length (entries t)) ++ ";"
  ++ show_entries 0 (entries t).

(* ops arrive as (is_insert, hash, bytes-as-N) *)
Definition mk_op (x : bool * N * list N) : op :=
  let '(ins, h, s) := x in if ins then OInsert h (bytes_of_Ns s) else OGet h (bytes_of_Ns s).

Definition run_intern_case (cap ln ld : N) (xs : list (bool * N * list N)) : string :=
  let '(rs, t) := run_ops (N.to_nat ln) (N.to_nat ld)
                    (empty_table (N.to_nat cap)) 0%N (map mk_op xs) in
  show_sep "," show_opres rs ++ "|" ++ show_table t.

(* Vm::new_gc_obj_string: identities of a list of texts under the FNV hash of the model *)
Definition run_spec_ids (xs : list (list N)) : string :=
  show_sep "," show_N (spec_intern_all [] 0%N (map bytes_of_Ns xs)).

(* ---- Spec for the op-level interface: an association list keyed by (hash, text) ---- *)
Fixpoint spec_find (m : list (N * text * N)) (h : N) (s : text) : option N :=
  match m with
  | [] => None
  | (h', s', i) :: r => if N.eqb h' h && text_eqb s' s then Some i else spec_find r h s
  end.

Fixpoint spec_run_ops (m : list (N * text * N)) (next : N) (ops : list op) : list opres :=
  match ops with
  | [] => []
  | OGet h s :: r => RGet (spec_find m h s) :: spec_run_ops m next r
  | OInsert h s :: r =>
    RInsert next (match spec_find m h s with Some _ => true | None => false end)
      :: spec_run_ops ((h, s, next) :: m) (next + 1)%N r
  end.

Definition run_intern_spec (xs : list (bool * N * list N)) : string :=
  show_sep "," show_opres (spec_run_ops [] 0%N (map mk_op xs)).

(* compact wire format: one group per op: ins(0/1) hash byte* *)
Definition op_of_group (g : list N) : bool * N * list N :=
  match g with
  | i :: h :: s => (negb (N.eqb i 0), h, s)
  | _ => (false, 0%N, [])
  end.

Definition run_intern_case_w (cap ln ld : N) (w : string) : string :=
  run_intern_case cap ln ld (map op_of_group (parse_nss w)).
Definition run_intern_spec_w (w : string) : string :=
  run_intern_spec (map op_of_group (parse_nss w)).
Definition run_spec_ids_w (w : string) : string := run_spec_ids (parse_nss w).
