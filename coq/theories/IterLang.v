(* C18 - the mini-language of the tie: programs built from iterables, adapter chains, for loops with
   break / continue / return, manual next() on shared iterators and push / pop on the iterated vector.
   (a) eval_spec : Spec S (elements + List.map/filter/fold_left; index-based for a mutated vector; SKIP where
       the property text does not determine the outcome: adapters over a SHARED iterator, adapters over a
       vector mutated meanwhile, reading past the end of an endless / early-ending user iterator)
   (b) eval_mech : Mechanism M (IterModel: cursors on a heap, MapIter/FilterIter objects, the for protocol with
       its hidden locals on a stack; `#h` lines = height of that stack at the markers around each loop)
   (c) render    : the yarel text (prelude with the user classes and the total helper functions)
   Definitions only. *)
From Coq Require Import String.
From Coq Require Import List ZArith NArith Bool Arith.
From Coq Require Import Strings.Byte Ascii.
From YV Require Import Show Wire Utf8 IterModel IterSpec.
Import ListNotations.
Local Open Scope nat_scope.

(* ---------- syntax ---------- *)
Inductive iexp : Type :=
| EVec (xs : list value)          (* [..] *)
| ETup (xs : list value)          (* (..) *)
| ERange (a b : Z)                (* (a..b) *)
| EStr (s : list byte)            (* ".." *)
| EScript (items : list value)    (* Script.new([..]) *)
| ECount (lo hi : Z)              (* Count.new(lo, hi) *)
| EForever (lo : Z)               (* Forever.new(lo) *)
| EVecVar (n : nat)               (* wN *)
| ESlot (n : nat)                 (* itN : a shared iterator *)
| EObj (n : nat)                  (* obN : a user-defined iterable whose iter() does real work *)
| ERVar (n h : nat)               (* a Range VALUE built earlier and held h = 0: in the variable rgN | 1: in a vec, rgN[0] |
                                     2: in a field, rgN.v | 3: in rgN and passed through a function, idf(rgN) *)
| EMap (f : fn) (e : iexp)        (* e.iter().map(f) *)
| EFilter (p : pr) (e : iexp).    (* e.iter().filter(p) *)

Inductive stmt : Type :=
| SPrintVar (d : nat)                        (* print(sh(xD)); *)
| SPrintLit (z : Z)                          (* print(z); *)
| SFor (e : iexp) (body : list stmt)         (* nil; cD = 0; for xD in e { cD = cD + 1; body } nil; *)
| SIf (d k : nat) (body : list stmt)         (* if cD == k { body } *)
| SBreak | SContinue | SReturn
| SLet (n : nat) (e : iexp)                  (* itN = e.iter(); *)
| SNext (n : nat)                            (* print(sh(itN.next())); *)
| SPush (n : nat) (v : value)                (* wN.push(v); *)
| SPop (n : nat)                             (* if wN.len() > 0 { wN.pop(); } *)
| SSetVec (n : nat) (xs : list value)        (* wN = [..]; *)
| SCollect (e : iexp)                        (* pv(e.iter().collect()); *)
| SReduce (g : rd) (init : value) (e : iexp)  (* print(sh(e.iter().reduce(g, init))); *)
| SObj (n : nat) (k : okind) (items : list value) (z : Z)  (* obN = Deck|Bag|VBag|Chained.new([..] [, z]); *)
| SRange (n h : nat) (a e : Z)               (* rgN = (a..e); | [(a..e)]; | Box.new((a..e)); | (a..e); *)
| SPress (lo : Z) (k : nat)                  (* press(lo, k); builds the k other ranges lo..lo+1, .., lo..lo+k *)
| SPrintCalls (n : nat)                      (* print("@${obN.calls}"); how often the FIELD next of obN was called (M only) *)
| SPrintCnt (d : nat)                        (* print(cD); the number of rounds of the last loop at depth d *)
| SDeep (n : nat) (body : list stmt).        (* descend(n, || { body }); the block runs n call frames deeper (top level only) *)

Record prog : Type := mkProg {
  p_fun : bool;        (* body inside fn main() (needed for return) or at top level *)
  p_locals : bool;     (* every loop body declares a local; two locals declared after the body *)
  p_direct : bool;     (* render x.map(f) / x.filter(p) / x.collect() / x.reduce(..) WITHOUT the explicit .iter() wherever x
                          derives Iter: by core.yl (gen/IterFns.v) every consumer calls self.iter() itself, so the
                          meaning is the same *)
  p_fuel : nat;        (* model fuel: bound on statements per block and rounds per loop *)
  p_body : list stmt }.

(* ---------- printing of values (helper sh of the prelude + print) ---------- *)
Definition b (s : string) : list byte := bytes_of_string s.
Definition line_of (v : value) : list byte :=
  match v with
  | VNum z => num_text z
  | VStr s => s
  | VNil => b "nil"
  | VStop => b "<stop>"
  | VSub => b "<sub>"
  end.
(* pv: "[" + each element + "," ... + "]" *)
Definition line_of_vec (l : list value) : list byte :=
  (b "[" ++ concat (map (fun v => line_of v ++ b ",") l) ++ b "]")%list.

(* =====================================================================================
   (b) Mechanism
   ===================================================================================== *)
Inductive lval : Type := LVal (v : value) | LIter (id : nat).

Record mstate : Type := mkM {
  ms : store;
  slots : list nat;        (* itN -> object *)
  wvars : list nat;        (* wN -> vector *)
  cnts : list nat;         (* cD *)
  stack : list lval;       (* the locals of the loops, bottom first *)
  out : list (list byte) } (* printed lines, latest first *).

Definition OFUEL : nat := 200.

Definition m_print (m : mstate) (l : list byte) : mstate :=
  mkM (ms m) (slots m) (wvars m) (cnts m) (stack m) (l :: out m).
Definition m_store (m : mstate) (s : store) : mstate :=
  mkM s (slots m) (wvars m) (cnts m) (stack m) (out m).
Definition m_stack (m : mstate) (s : list lval) : mstate :=
  mkM (ms m) (slots m) (wvars m) (cnts m) s (out m).
Definition m_cnts (m : mstate) (c : list nat) : mstate :=
  mkM (ms m) (slots m) (wvars m) c (stack m) (out m).
Definition m_slots (m : mstate) (c : list nat) : mstate :=
  mkM (ms m) c (wvars m) (cnts m) (stack m) (out m).
Definition m_wvars (m : mstate) (c : list nat) : mstate :=
  mkM (ms m) (slots m) c (cnts m) (stack m) (out m).

Definition push (m : mstate) (x : lval) : mstate := m_stack m (stack m ++ [x]).
Definition pop (m : mstate) : mstate := m_stack m (removelast (stack m)).
Definition marker (m : mstate) : mstate :=
  m_print m (b "#" ++ b (show_nat (length (stack m))))%list.

(* it0..it2 and ob0..ob2 (slots OBJ..OBJ+2) start as (0..0).iter() *)
Definition OBJ : nat := 3.
Definition RG : nat := 6.
Definition init_heap : list iobj := repeat (ORangeIter 0 0 (-1)) 9.
Definition init_m : mstate := mkM (mkStore init_heap [[]; []]) [0; 1; 2; 3; 4; 5; 6; 7; 8] [0; 1] [0; 0; 0; 0; 0] [] [].

(* <e>.iter(): the iterator object a for loop / adapter pulls from *)
Fixpoint eval_iter (e : iexp) (m : mstate) : nat * mstate :=
  let alloc o m := let '(id, s) := alloc_obj (ms m) o in (id, m_store m s) in
  match e with
  | EVec xs => let '(vid, s) := alloc_vec (ms m) xs in alloc (OVecIter vid 0) (m_store m s)
  | ETup xs => alloc (OTupIter xs 0) m
  | ERange a z => let '(c, st) := range_new a z in alloc (ORangeIter z c st) m
  | EStr s => alloc (OStrIter s 0) m
  | EScript items => alloc (OScript items 0) m
  | ECount lo hi => alloc (OCount hi lo) m
  | EForever lo => alloc (OForever lo) m
  | EVecVar n => alloc (OVecIter (nth n (wvars m) 0) 0) m
  | ESlot n => let '(i, s) := obj_iter (ms m) (nth n (slots m) 0) in (i, m_store m s)
  | EObj n => let '(i, s) := obj_iter (ms m) (nth (OBJ + n) (slots m) 0) in (i, m_store m s)
  | ERVar n _ => let '(i, s) := obj_iter (ms m) (nth (RG + n) (slots m) 0) in (i, m_store m s)
  | EMap f e1 => let '(i, m1) := eval_iter e1 m in alloc (OMap f i) m1
  | EFilter p e1 => let '(i, m1) := eval_iter e1 m in alloc (OFilter p i) m1
  end.

Definition m_next (ofuel : nat) (id : nat) (m : mstate) : option (value * mstate) :=
  match obj_next ofuel (ms m) id with
  | None => None
  | Some (v, s) => Some (v, m_store m s)
  end.

(* IterNext: CopyTop (the hidden iterator is the top of the stack at loop_start) + Invoke next *)
Definition next_hidden (ofuel : nat) (m : mstate) : option (value * mstate) :=
  match last (stack m) (LVal VNil) with
  | LIter id => m_next ofuel id m
  | LVal _ => Some (VNil, m)
  end.
(* SetLocal loop_var: the slot just below the iterator *)
Definition set_loopvar (m : mstate) (v : value) : mstate :=
  m_stack m (upd (stack m) (length (stack m) - 2) (LVal v)).

Definition var_index (loc : bool) (d : nat) : nat := d * (if loc then 3 else 2).
Definition get_var (loc : bool) (m : mstate) (d : nat) : value :=
  match nth_error (stack m) (var_index loc d) with Some (LVal v) => v | _ => VNil end.

(* cnts also holds, at index EARLY, how many rounds ended by break / return (coverage measure only) *)
Definition EARLY : nat := 4.
Definition wrap_body (loc : bool) (d : nat) (run : mstate -> ctl * mstate) (m : mstate) : ctl * mstate :=
  let c := S (nth d (cnts m) 0) in
  let m1 := m_cnts m (upd (cnts m) d c) in                               (* cD = cD + 1; *)
  let m2 := if loc then push m1 (LVal (VNum (Z.of_nat c))) else m1 in    (* var tD = cD; *)
  let '(r, m3a) := run m2 in
  let m3 := match r with
            | CBreak | CReturn => m_cnts m3a (upd (cnts m3a) EARLY (S (nth EARLY (cnts m3a) 0)))
            | _ => m3a
            end in
  match r with
  | CReturn | CFuel => (r, m3)
  | _ => (r, if loc then pop m3 else m3)      (* scope end of the body: also emitted before break / continue *)
  end.

(* one statement; [rec d' ss] runs a nested block at loop depth d' *)
Definition exec_stmt (rec : nat -> list stmt -> mstate -> ctl * mstate) (k ofuel : nat) (loc : bool) (d : nat)
  (s : stmt) (m : mstate) : ctl * mstate :=
  match s with
  | SPrintVar v => (CNormal, m_print m (line_of (get_var loc m v)))
  | SPrintLit z => (CNormal, m_print m (num_text z))
  | SFor e body =>
    let m1 := push (marker m) (LVal VNil) in
    let '(id, m2) := eval_iter e m1 in
    let m3 := push m2 (LIter id) in
    let m4 := m_cnts m3 (upd (cnts m3) d 0) in
    let '(c, m5) := for_rounds (next_hidden ofuel) set_loopvar (wrap_body loc d (rec (S d) body)) k m4 in
    match c with
    | CReturn | CFuel => (c, m5)
    | _ => (CNormal, marker (pop (pop m5)))
    end
  | SIf v n body => if Nat.eqb (nth v (cnts m) 0) n then rec d body m else (CNormal, m)
  | SBreak => (CBreak, m)
  | SContinue => (CContinue, m)
  | SReturn => (CReturn, m)
  | SLet n e => let '(id, m1) := eval_iter e m in (CNormal, m_slots m1 (upd (slots m1) n id))
  | SNext n =>
    match m_next ofuel (nth n (slots m) 0) m with
    | None => (CFuel, m)
    | Some (v, m1) => (CNormal, m_print m1 (line_of v))
    end
  | SPush n v =>
    let vid := nth n (wvars m) 0 in
    (CNormal, m_store m (set_vec (ms m) vid (get_vec (ms m) vid ++ [v])))
  | SPop n =>
    let vid := nth n (wvars m) 0 in
    (CNormal, m_store m (set_vec (ms m) vid (removelast (get_vec (ms m) vid))))
  | SSetVec n xs =>
    let '(vid, s) := alloc_vec (ms m) xs in (CNormal, m_wvars (m_store m s) (upd (wvars m) n vid))
  | SCollect e =>
    let '(id, m1) := eval_iter e m in
    match collect_loop k ofuel (ms m1) id with
    | (CNormal, (acc, _, s)) => (CNormal, m_print (m_store m1 s) (line_of_vec acc))
    | (_, (_, _, s)) => (CFuel, m_store m1 s)
    end
  | SReduce g init e =>
    let '(id, m1) := eval_iter e m in
    match fold_loop k ofuel (apply_rd g) init (ms m1) id with
    | (CNormal, (acc, _, s)) => (CNormal, m_print (m_store m1 s) (line_of acc))
    | (_, (_, _, s)) => (CFuel, m_store m1 s)
    end
  | SObj n kd items z =>
    let '(id, s) :=
      match kd with
      | KDeck => alloc_obj (ms m) (ODeck items 0)
      | KBag => alloc_obj (ms m) (OBag items)
      | KVBag => let '(vid, s1) := alloc_vec (ms m) items in alloc_obj s1 (OVBag vid)
      | KChained => let '(vid, s1) := alloc_vec (ms m) items in alloc_obj s1 (OChained vid z)
      | KScaled => alloc_obj (ms m) (OWrapped items 0 (WScale z) 0)
      | KLimited => alloc_obj (ms m) (OWrapped items 0 (WLimit (Z.to_nat z)) 0)
      | KCounted => alloc_obj (ms m) (OWrapped items 0 WCount 0)
      | KFieldIter => alloc_obj (ms m) (OBag items)       (* the field iter returns Script.new(items) *)
      end in
    (CNormal, m_slots (m_store m s) (upd (slots m) (OBJ + n) id))
  | SRange n _ a e =>
    let '(id, s) := alloc_obj (ms m) (ORange a e) in
    (CNormal, m_slots (m_store m s) (upd (slots m) (RG + n) id))
  | SPress _ _ => (CNormal, m)     (* other Range objects are built; no existing object changes *)
  | SPrintCalls n =>
    (CNormal, m_print m (b "@" ++ match nth_error (heap (ms m)) (nth (OBJ + n) (slots m) 0) with
                                  | Some (OWrapped _ _ _ calls) => b (show_nat calls)
                                  | _ => b "nil"
                                  end)%list)
  | SPrintCnt v => (CNormal, m_print m (b (show_nat (nth v (cnts m) 0))))
  | SDeep _ body => rec d body m   (* the depth of the call stack is not part of the meaning *)
  end.

Fixpoint exec (fuel ofuel : nat) (loc : bool) (d : nat) (ss : list stmt) (m : mstate) : ctl * mstate :=
  match fuel with
  | O => (CFuel, m)
  | S k =>
    match ss with
    | [] => (CNormal, m)
    | s :: rest =>
      match exec_stmt (exec k ofuel loc) k ofuel loc d s m with
      | (CNormal, m') => exec k ofuel loc d rest m'
      | other => other
      end
    end
  end.

(* bounds the number of statements of a block and the rounds of a loop (not the total work) *)
Definition FUEL : nat := 150.   (* default of the generators; a program carries its own bound p_fuel *)

Definition finish (loc : bool) (r : ctl * mstate) : list (list byte) :=
  let '(c, m) := r in
  let m1 := match c with
            | CNormal => if loc then m_print (m_print m (b "111")) (b "222") else m
            | _ => m
            end in
  match c with
  | CFuel => rev (b "!FUEL" :: out m1)
  | _ => rev (b "end" :: out m1)
  end.

Definition eval_mech (p : prog) : list (list byte) :=
  finish (p_locals p) (exec (p_fuel p) (p_fuel p + 100) (p_locals p) 0 (p_body p) init_m).
Definition early_exits (p : prog) : nat :=
  nth EARLY (cnts (snd (exec (p_fuel p) (p_fuel p + 100) (p_locals p) 0 (p_body p) init_m))) 0.

(* =====================================================================================
   (a) Spec
   ===================================================================================== *)
(* what follows the remaining elements: the sentinel for ever | the sentinel once, then not determined (a user
   iterator that goes on after its early sentinel) | not determined (an endless iterator cut at TRUNC) *)
Inductive stail : Type := TStop | TStopOnce | TUnknown.
Inductive sit : Type :=
| SRem (l : list value) (t : stail)      (* the elements still to come *)
| SIdx (vid i : nat)                     (* index into a vector that may change *)
| SDeckS (cards rest : list value) (known : bool)  (* a Deck: ONE cursor shared by all its traversals; iter() rewinds it;
                                            known = false: its position is not determined (a lazy chain over it
                                            was left half-way) until the next rewind *)
| SFresh (l : list value).               (* Bag / VBag / Chained: every iter() starts a new traversal of l *)

Record sstate : Type := mkS {
  sheap : list sit; svecs : list (list value); sslots : list nat; swvars : list nat; scnts : list nat;
  svars : list value; sout : list (list byte) }.

Definition s_print (s : sstate) (l : list byte) : sstate :=
  mkS (sheap s) (svecs s) (sslots s) (swvars s) (scnts s) (svars s) (l :: sout s).
Definition s_heap (s : sstate) (h : list sit) : sstate :=
  mkS h (svecs s) (sslots s) (swvars s) (scnts s) (svars s) (sout s).
Definition s_vecs (s : sstate) (v : list (list value)) : sstate :=
  mkS (sheap s) v (sslots s) (swvars s) (scnts s) (svars s) (sout s).
Definition s_slots (s : sstate) (v : list nat) : sstate :=
  mkS (sheap s) (svecs s) v (swvars s) (scnts s) (svars s) (sout s).
Definition s_wvars (s : sstate) (v : list nat) : sstate :=
  mkS (sheap s) (svecs s) (sslots s) v (scnts s) (svars s) (sout s).
Definition s_cnts (s : sstate) (v : list nat) : sstate :=
  mkS (sheap s) (svecs s) (sslots s) (swvars s) v (svars s) (sout s).
Definition s_vars (s : sstate) (v : list value) : sstate :=
  mkS (sheap s) (svecs s) (sslots s) (swvars s) (scnts s) v (sout s).

Definition init_s : sstate :=
  mkS (repeat (SRem [] TStop) 9) [[]; []] [0; 1; 2; 3; 4; 5; 6; 7; 8] [0; 1] [0; 0; 0; 0] [VNil; VNil; VNil; VNil] [].

Definition TRUNC : nat := 40.

(* base of a chain and its adapters, innermost first *)
Fixpoint chain_of (e : iexp) : iexp * list op :=
  match e with
  | EMap f e1 => let '(x, ops) := chain_of e1 in (x, ops ++ [OpMap f])%list
  | EFilter p e1 => let '(x, ops) := chain_of e1 in (x, ops ++ [OpFilter p])%list
  | _ => (e, [])
  end.

Definition s_alloc (s : sstate) (x : sit) : nat * sstate := (length (sheap s), s_heap s (sheap s ++ [x])).

(* None: the Spec does not determine this case *)
(* [full]: the consumer drains the iterator at once (collect / reduce) *)
Definition spec_iter (mut full : bool) (e : iexp) (s : sstate) : option (nat * sstate) :=
  let '(x, ops) := chain_of e in
  let fresh l t := Some (s_alloc s (SRem (chain_spec ops l) t)) in
  match x with
  | EVec xs => fresh (elements (SrcVec xs)) TStop
  | ETup xs => fresh (elements (SrcTup xs)) TStop
  | ERange a z => fresh (elements (SrcRange a z)) TStop
  | EStr t => fresh (elements (SrcStr t)) TStop
  | EScript items => fresh (elements (SrcScript items)) (if existsb is_stop items then TStopOnce else TStop)
  | ECount lo hi => fresh (elements (SrcCount lo hi)) TStop
  | EForever lo => fresh (z_up lo TRUNC) TUnknown
  | EVecVar n =>
    match ops with
    | [] => Some (s_alloc s (SIdx (nth n (swvars s) 0) 0))
    | _ => if mut then None else fresh (nth (nth n (swvars s) 0) (svecs s) []) TStop
    end
  | ESlot n =>
    let id := nth n (sslots s) 0 in
    match ops with
    | [] =>
      match nth_error (sheap s) id with
      | Some (SDeckS cards _ _) => Some (id, s_heap s (upd (sheap s) id (SDeckS cards (until_stop cards) true)))
      | _ => Some (id, s)
      end
    | _ => None
    end
  | EObj n =>
    let id := nth (OBJ + n) (sslots s) 0 in
    match nth_error (sheap s) id with
    | Some (SFresh l) => fresh l TStop
    | Some (SRem l t) =>          (* an iterator object (wrapped Script): ONE cursor shared by all its consumers *)
      match ops with
      | [] => Some (id, s)
      | _ => Some (s_alloc (s_heap s (upd (sheap s) id (SRem [] (if full then t else TUnknown))))
                           (SRem (chain_spec ops l) t))
      end
    | Some (SDeckS cards _ _) =>
      match ops with
      | [] => Some (id, s_heap s (upd (sheap s) id (SDeckS cards (until_stop cards) true)))
      | _ => Some (s_alloc (s_heap s (upd (sheap s) id (SDeckS cards [] full)))
                           (SRem (chain_spec ops (until_stop cards)) TStop))
      end
    | _ => None
    end
  | ERVar n _ =>
    match nth_error (sheap s) (nth (RG + n) (sslots s) 0) with
    | Some (SFresh l) => fresh l TStop
    | _ => None
    end
  | _ => None
  end.

(* an adapter chain over a Deck object: lazy in the language, so the Spec only speaks when nothing else can touch
   the deck before the chain is consumed *)
Definition deck_chain (e : iexp) (s : sstate) : bool :=
  let '(x, ops) := chain_of e in
  match x, ops with
  | EObj n, _ :: _ => match nth_error (sheap s) (nth (OBJ + n) (sslots s) 0) with
                      | Some (SDeckS _ _ _) | Some (SRem _ _) => true
                      | _ => false
                      end
  | _, _ => false
  end.
Definition shared_base (e : iexp) : bool :=
  match fst (chain_of e) with EObj _ | ESlot _ => true | _ => false end.

Definition spec_next (id : nat) (s : sstate) : option (value * sstate) :=
  match nth_error (sheap s) id with
  | Some (SRem (v :: l) t) => Some (v, s_heap s (upd (sheap s) id (SRem l t)))
  | Some (SRem [] TStop) => Some (VStop, s)
  | Some (SRem [] TStopOnce) => Some (VStop, s_heap s (upd (sheap s) id (SRem [] TUnknown)))
  | Some (SRem [] TUnknown) => None
  | Some (SIdx vid i) =>
    match nth_error (nth vid (svecs s) []) i with
    | Some v => Some (v, s_heap s (upd (sheap s) id (SIdx vid (S i))))
    | None => Some (VStop, s)
    end
  | Some (SDeckS cards (v :: l) true) => Some (v, s_heap s (upd (sheap s) id (SDeckS cards l true)))
  | Some (SDeckS cards [] true) => Some (VStop, s)
  | Some (SDeckS _ _ false) => None
  | Some (SFresh _) => None
  | None => None
  end.

Fixpoint spec_drain (fuel : nat) (id : nat) (s : sstate) (acc : list value) : option (list value * sstate) :=
  match fuel with
  | O => None
  | S k =>
    match spec_next id s with
    | None => None
    | Some (v, s1) => if is_stop v then Some (acc, s1) else spec_drain k id s1 (acc ++ [v])%list
    end
  end.

(* does a block use an object / shared-iterator variable at all? *)
Fixpoint touches (fuel : nat) (ss : list stmt) : bool :=
  match fuel with
  | O => true
  | S k =>
    existsb (fun s => match s with
                      | SFor e body => shared_base e || touches k body
                      | SIf _ _ body | SDeep _ body => touches k body
                      | SLet _ _ | SNext _ | SObj _ _ _ _ => true
                      | SCollect e | SReduce _ _ e => shared_base e
                      | _ => false
                      end) ss
  end.

Definition swrap (d : nat) (run : sstate -> ctl * sstate) (s : sstate) : ctl * sstate :=
  run (s_cnts s (upd (scnts s) d (S (nth d (scnts s) 0)))).

Fixpoint sexec (fuel : nat) (mut : bool) (d : nat) (ss : list stmt) (s : sstate) : ctl * sstate :=
  match fuel with
  | O => (CFuel, s)
  | S k =>
    match ss with
    | [] => (CNormal, s)
    | st :: rest =>
      let r : ctl * sstate :=
        match st with
        | SPrintVar v => (CNormal, s_print s (line_of (nth v (svars s) VNil)))
        | SPrintLit z => (CNormal, s_print s (num_text z))
        | SFor e body =>
          match (if deck_chain e s && touches 20 body then None else spec_iter mut false e s) with
          | None => (CFuel, s)
          | Some (id, s1) =>
            let s2 := s_cnts s1 (upd (scnts s1) d 0) in
            let '(c, s3) := for_rounds (spec_next id) (fun s v => s_vars s (upd (svars s) d v))
                                       (swrap d (sexec k mut (S d) body)) k s2 in
            match c with
            | CReturn | CFuel => (c, s3)
            | _ => (CNormal, s3)
            end
          end
        | SIf v n body => if Nat.eqb (nth v (scnts s) 0) n then sexec k mut d body s else (CNormal, s)
        | SBreak => (CBreak, s)
        | SContinue => (CContinue, s)
        | SReturn => (CReturn, s)
        | SLet n e =>
          match (if deck_chain e s then None else spec_iter mut false e s) with
          | None => (CFuel, s)
          | Some (id, s1) => (CNormal, s_slots s1 (upd (sslots s1) n id))
          end
        | SNext n =>
          match spec_next (nth n (sslots s) 0) s with
          | None => (CFuel, s)
          | Some (v, s1) => (CNormal, s_print s1 (line_of v))
          end
        | SPush n v =>
          let vid := nth n (swvars s) 0 in
          (CNormal, s_vecs s (upd (svecs s) vid (nth vid (svecs s) [] ++ [v])%list))
        | SPop n =>
          let vid := nth n (swvars s) 0 in
          (CNormal, s_vecs s (upd (svecs s) vid (removelast (nth vid (svecs s) []))))
        | SSetVec n xs =>
          (CNormal, s_wvars (s_vecs s (svecs s ++ [xs])%list) (upd (swvars s) n (length (svecs s))))
        | SCollect e =>
          match spec_iter mut true e s with
          | None => (CFuel, s)
          | Some (id, s1) =>
            match spec_drain k id s1 [] with
            | None => (CFuel, s1)
            | Some (acc, s2) => (CNormal, s_print s2 (line_of_vec acc))
            end
          end
        | SReduce g init e =>
          match spec_iter mut true e s with
          | None => (CFuel, s)
          | Some (id, s1) =>
            match spec_drain k id s1 [] with
            | None => (CFuel, s1)
            | Some (acc, s2) => (CNormal, s_print s2 (line_of (fold_left (apply_rd g) acc init)))
            end
          end
        | SObj n kd items z =>
          let x := match kd with
                   | KDeck => SDeckS items (until_stop items) true
                   | KScaled | KLimited | KCounted => SRem (obj_elems kd items z) TStop
                   | _ => SFresh (obj_elems kd items z)
                   end in
          let '(id, s1) := s_alloc s x in
          (CNormal, s_slots s1 (upd (sslots s1) (OBJ + n) id))
        | SRange n _ a e =>
          (* a range value is immutable: its elements depend only on its bounds *)
          let '(id, s1) := s_alloc s (SFresh (elements (SrcRange a e))) in
          (CNormal, s_slots s1 (upd (sslots s1) (RG + n) id))
        | SPress _ _ => (CNormal, s)
        | SPrintCalls _ => (CNormal, s)       (* call counts are not part of the property: `@` lines are M-only *)
        | SPrintCnt v => (CNormal, s_print s (b (show_nat (nth v (scnts s) 0))))
        | SDeep _ body => sexec k mut d body s
        end in
      match r with
      | (CNormal, s') => sexec k mut d rest s'
      | other => other
      end
    end
  end.

(* does the program change a vector in place? *)
Fixpoint mutates (fuel : nat) (ss : list stmt) : bool :=
  match fuel with
  | O => true
  | S k =>
    existsb (fun s => match s with
                      | SPush _ _ | SPop _ => true
                      | SFor _ body | SIf _ _ body | SDeep _ body => mutates k body
                      | _ => false
                      end) ss
  end.

Definition eval_spec (p : prog) : list (list byte) :=
  let '(c, s) := sexec (p_fuel p) (mutates 20 (p_body p)) 0 (p_body p) init_s in
  match c with
  | CFuel => [b "SKIP"]
  | CNormal => rev (b "end" :: ((if p_locals p then [b "222"; b "111"] else []) ++ sout s)%list)
  | _ => rev (b "end" :: sout s)
  end.

(* =====================================================================================
   (c) render
   ===================================================================================== *)
Local Open Scope string_scope.
Definition nl : string := String (ascii_of_nat 10) EmptyString.
Definition dq : string := String (ascii_of_nat 34) EmptyString.

Definition prelude : string :=
  "#[derive(StopIter)]" ++ nl ++
  "class MyStop { #[constructor] fn new(self) { super.new(); } }" ++ nl ++
  "#[derive(Iter)]" ++ nl ++
  "class Script {" ++ nl ++
  "  #[constructor] fn new(self, items) { self.items = items; self.i = 0; }" ++ nl ++
  "  fn next(self) {" ++ nl ++
  "    if self.i >= self.items.len() { return StopIter.new(); }" ++ nl ++
  "    var r = self.items[self.i]; self.i = self.i + 1; return r;" ++ nl ++
  "  }" ++ nl ++
  "}" ++ nl ++
  "#[derive(Iter)]" ++ nl ++
  "class Count {" ++ nl ++
  "  #[constructor] fn new(self, lo, hi) { self.cur = lo; self.hi = hi; }" ++ nl ++
  "  fn iter(self) { return self; }" ++ nl ++
  "  fn next(self) {" ++ nl ++
  "    if self.cur >= self.hi { return StopIter.new(); }" ++ nl ++
  "    var r = self.cur; self.cur = self.cur + 1; return r;" ++ nl ++
  "  }" ++ nl ++
  "}" ++ nl ++
  "#[derive(Iter)]" ++ nl ++
  "class Forever {" ++ nl ++
  "  #[constructor] fn new(self, lo) { self.cur = lo; }" ++ nl ++
  "  fn next(self) { var r = self.cur; self.cur = self.cur + 1; return r; }" ++ nl ++
  "}" ++ nl ++
  "#[derive(Iter)]" ++ nl ++
  "class Deck {" ++ nl ++
  "  #[constructor] fn new(self, cards) { self.cards = cards; self.pos = 0; }" ++ nl ++
  "  fn iter(self) { self.pos = 0; return self; }" ++ nl ++
  "  fn next(self) {" ++ nl ++
  "    if self.pos >= self.cards.len() { return StopIter.new(); }" ++ nl ++
  "    var r = self.cards[self.pos]; self.pos = self.pos + 1; return r;" ++ nl ++
  "  }" ++ nl ++
  "}" ++ nl ++
  "#[derive(Iter)]" ++ nl ++
  "class Bag {" ++ nl ++
  "  #[constructor] fn new(self, items) { self.items = items; }" ++ nl ++
  "  fn iter(self) { return Script.new(self.items); }" ++ nl ++
  "}" ++ nl ++
  "#[derive(Iter)]" ++ nl ++
  "class VBag {" ++ nl ++
  "  #[constructor] fn new(self, items) { self.items = items; }" ++ nl ++
  "  fn iter(self) { return self.items.iter(); }" ++ nl ++
  "}" ++ nl ++
  "var Num = type(0); var Str = type(" ++ dq ++ dq ++ ");" ++ nl ++
  "fn addk(x, k) { if type(x) == Num { return x + k; } return x; }" ++ nl ++
  "fn mulk(x, k) { if type(x) == Num { return x * k; } return x; }" ++ nl ++
  "fn tag(x, t) { if type(x) == Num || type(x) == Str { return " ++ dq ++ "${x}" ++ dq ++ " + t; } return x; }" ++ nl ++
  "fn iseven(x) { if type(x) == Num { return x % 2 == 0; } return false; }" ++ nl ++
  "fn gtk(x, k) { if type(x) == Num { return x > k; } return false; }" ++ nl ++
  "fn plus(a, v) { if type(a) == type(v) && (type(a) == Num || type(a) == Str) { return a + v; } return a; }" ++ nl ++
  "#[derive(Iter)]" ++ nl ++
  "class Chained {" ++ nl ++
  "  #[constructor] fn new(self, items, k) { self.items = items; self.k = k; }" ++ nl ++
  "  fn iter(self) { var k = self.k; return self.items.iter().filter(|x| iseven(x)).map(|x| addk(x, k)); }" ++ nl ++
  "}" ++ nl ++
  "class Box { #[constructor] fn new(self, v) { self.v = v; } }" ++ nl ++
  "fn idf(x) { return x; }" ++ nl ++
  "fn press(lo, n) { var i = 1; while i <= n { var t = (lo..(lo + i)); i = i + 1; } }" ++ nl ++
  "fn pid(x, lo, n) { press(lo, n); return x; }" ++ nl ++
  "fn deep(x, d, k) { if d <= 1 { return addk(x, k); } return deep(x, d - 1, k); }" ++ nl ++
  "fn notin(x, lo, hi) { if type(x) == Num { return x < lo || x >= hi; } return true; }" ++ nl ++
  "fn descend(n, f) { if n <= 0 { f(); return; } descend(n - 1, f); }" ++ nl ++
  "fn wrap(items, mode, k) {" ++ nl ++
  "  var c = Script.new(items);" ++ nl ++
  "  c.calls = 0;" ++ nl ++
  "  var plain = c.next;" ++ nl ++
  "  c.next = || {" ++ nl ++
  "    var seen = c.calls; c.calls = seen + 1;" ++ nl ++
  "    if mode == 1 && seen >= k { return StopIter.new(); }" ++ nl ++
  "    var v = plain();" ++ nl ++
  "    if v.derives(StopIter) { return v; }" ++ nl ++
  "    if mode == 0 { return mulk(v, k); }" ++ nl ++
  "    return v;" ++ nl ++
  "  };" ++ nl ++
  "  return c;" ++ nl ++
  "}" ++ nl ++
  "fn fielditer(items) { var c = Script.new([99, 98]); c.iter = || { return Script.new(items); }; return c; }" ++ nl ++
  "fn sh(v) {" ++ nl ++
  "  if v.derives(StopIter) { if v.derives(MyStop) { return " ++ dq ++ "<sub>" ++ dq ++ "; } return " ++ dq ++ "<stop>" ++ dq ++ "; }" ++ nl ++
  "  if v == nil { return " ++ dq ++ "nil" ++ dq ++ "; }" ++ nl ++
  "  return v;" ++ nl ++
  "}" ++ nl ++
  "fn pv(r) {" ++ nl ++
  "  var i = 0; var s = " ++ dq ++ "[" ++ dq ++ ";" ++ nl ++
  "  while i < r.len() { s = s + " ++ dq ++ "${sh(r[i])}" ++ dq ++ " + " ++ dq ++ "," ++ dq ++ "; i = i + 1; }" ++ nl ++
  "  print(s + " ++ dq ++ "]" ++ dq ++ ");" ++ nl ++
  "}" ++ nl.

Definition r_str (s : list byte) : string := dq ++ string_of_bytes s ++ dq.
Definition r_value (v : value) : string :=
  match v with
  | VNum z => show_Z z
  | VStr s => r_str s
  | VNil => "nil"
  | VStop => "StopIter.new()"
  | VSub => "MyStop.new()"
  end.
Definition r_values (l : list value) : string := show_sep ", " r_value l.
Definition r_tuple (l : list value) : string :=
  match l with
  | [x] => "(" ++ r_value x ++ ",)"
  | _ => "(" ++ r_values l ++ ")"
  end.
Definition r_fn (f : fn) : string :=
  match f with
  | AddK k => "|x| addk(x, " ++ show_Z k ++ ")"
  | MulK k => "|x| mulk(x, " ++ show_Z k ++ ")"
  | Tag t => "|x| tag(x, " ++ r_str t ++ ")"
  | ConstK k => "|x| " ++ show_Z k
  | PressF lo n => "|x| pid(x, " ++ show_Z lo ++ ", " ++ show_nat n ++ ")"
  | DeepK d k => "|x| deep(x, " ++ show_nat d ++ ", " ++ show_Z k ++ ")"
  end.
Definition r_pr (p : pr) : string :=
  match p with
  | IsEven => "|x| iseven(x)"
  | GtK k => "|x| gtk(x, " ++ show_Z k ++ ")"
  | NeV v => "|x| x != " ++ r_value v
  | TrueP => "|x| true"
  | FalseP => "|x| false"
  | NotIn lo hi => "|x| notin(x, " ++ show_Z lo ++ ", " ++ show_Z hi ++ ")"
  end.
Definition r_rd (g : rd) : string :=
  match g with
  | RSum => "|a, v| plus(a, v)"
  | RCount => "|a, v| addk(a, 1)"
  end.

(* does the VALUE of the expression derive Iter (so that it has map / filter / collect / reduce itself)? *)
Definition iterish (e : iexp) : bool :=
  match e with
  | EVec _ | ETup _ | ERange _ _ | EStr _ | EVecVar _ | ERVar _ _ => false
  | _ => true
  end.
Definition dot_iter (dir : bool) (e : iexp) : string := if dir && iterish e then "" else ".iter()".

Fixpoint r_iexp (dir : bool) (e : iexp) : string :=
  match e with
  | EVec xs => "[" ++ r_values xs ++ "]"
  | ETup xs => r_tuple xs
  | ERange a z => "(" ++ show_Z a ++ ".." ++ show_Z z ++ ")"
  | EStr s => r_str s
  | EScript items => "Script.new([" ++ r_values items ++ "])"
  | ECount lo hi => "Count.new(" ++ show_Z lo ++ ", " ++ show_Z hi ++ ")"
  | EForever lo => "Forever.new(" ++ show_Z lo ++ ")"
  | EVecVar n => "w" ++ show_nat n
  | ESlot n => "it" ++ show_nat n
  | EObj n => "ob" ++ show_nat n
  | ERVar n h =>
    match h with
    | 0 => "rg" ++ show_nat n
    | 1 => "rg" ++ show_nat n ++ "[0]"
    | 2 => "rg" ++ show_nat n ++ ".v"
    | _ => "idf(rg" ++ show_nat n ++ ")"
    end
  | EMap f e1 => r_iexp dir e1 ++ dot_iter dir e1 ++ ".map(" ++ r_fn f ++ ")"
  | EFilter p e1 => r_iexp dir e1 ++ dot_iter dir e1 ++ ".filter(" ++ r_pr p ++ ")"
  end.

Fixpoint r_stmts (fuel : nat) (loc dir : bool) (d : nat) (ss : list stmt) : string :=
  match fuel with
  | O => ""
  | S k =>
    String.concat "" (map (fun s =>
      match s with
      | SPrintVar v => "print(sh(x" ++ show_nat v ++ "));" ++ nl
      | SPrintLit z => "print(" ++ show_Z z ++ ");" ++ nl
      | SFor e body =>
        let c := "c" ++ show_nat d in
        "nil;" ++ nl ++ c ++ " = 0;" ++ nl ++
        "for x" ++ show_nat d ++ " in " ++ r_iexp dir e ++ " {" ++ nl ++
        c ++ " = " ++ c ++ " + 1;" ++ nl ++
        (if loc then "var t" ++ show_nat d ++ " = " ++ c ++ ";" ++ nl else "") ++
        r_stmts k loc dir (S d) body ++ "}" ++ nl ++ "nil;" ++ nl
      | SIf v n body => "if c" ++ show_nat v ++ " == " ++ show_nat n ++ " {" ++ nl ++ r_stmts k loc dir d body ++ "}" ++ nl
      | SBreak => "break;" ++ nl
      | SContinue => "continue;" ++ nl
      | SReturn => "return;" ++ nl
      | SLet n e => "it" ++ show_nat n ++ " = " ++ r_iexp dir e ++ ".iter();" ++ nl
      | SNext n => "print(sh(it" ++ show_nat n ++ ".next()));" ++ nl
      | SPush n v => "w" ++ show_nat n ++ ".push(" ++ r_value v ++ ");" ++ nl
      | SPop n => "if w" ++ show_nat n ++ ".len() > 0 { w" ++ show_nat n ++ ".pop(); }" ++ nl
      | SSetVec n xs => "w" ++ show_nat n ++ " = [" ++ r_values xs ++ "];" ++ nl
      | SCollect e => "pv(" ++ r_iexp dir e ++ dot_iter dir e ++ ".collect());" ++ nl
      | SReduce g init e => "print(sh(" ++ r_iexp dir e ++ dot_iter dir e ++ ".reduce(" ++ r_rd g ++ ", " ++ r_value init ++ ")));" ++ nl
      | SObj n kd items z =>
        "ob" ++ show_nat n ++ " = " ++
        match kd with
        | KDeck => "Deck.new([" ++ r_values items ++ "])"
        | KBag => "Bag.new([" ++ r_values items ++ "])"
        | KVBag => "VBag.new([" ++ r_values items ++ "])"
        | KChained => "Chained.new([" ++ r_values items ++ "], " ++ show_Z z ++ ")"
        | KScaled => "wrap([" ++ r_values items ++ "], 0, " ++ show_Z z ++ ")"
        | KLimited => "wrap([" ++ r_values items ++ "], 1, " ++ show_Z z ++ ")"
        | KCounted => "wrap([" ++ r_values items ++ "], 2, 0)"
        | KFieldIter => "fielditer([" ++ r_values items ++ "])"
        end ++ ";" ++ nl
      | SRange n h a e =>
        let r := "(" ++ show_Z a ++ ".." ++ show_Z e ++ ")" in
        "rg" ++ show_nat n ++ " = " ++
        match h with
        | 1 => "[" ++ r ++ "]"
        | 2 => "Box.new(" ++ r ++ ")"
        | _ => r
        end ++ ";" ++ nl
      | SPress lo n => "press(" ++ show_Z lo ++ ", " ++ show_nat n ++ ");" ++ nl
      | SPrintCalls n => "print(" ++ dq ++ "@${ob" ++ show_nat n ++ ".calls}" ++ dq ++ ");" ++ nl
      | SPrintCnt v => "print(c" ++ show_nat v ++ ");" ++ nl
      | SDeep n body => "descend(" ++ show_nat n ++ ", || {" ++ nl ++ r_stmts k loc dir d body ++ "});" ++ nl
      end) ss)
  end.

Definition decls : string :=
  "var c0 = 0; var c1 = 0; var c2 = 0; var c3 = 0;" ++ nl ++
  "var it0 = (0..0).iter(); var it1 = (0..0).iter(); var it2 = (0..0).iter();" ++ nl ++
  "var ob0 = (0..0).iter(); var ob1 = (0..0).iter(); var ob2 = (0..0).iter();" ++ nl ++
  "var rg0 = nil; var rg1 = nil; var rg2 = nil;" ++ nl ++
  "var w0 = []; var w1 = [];" ++ nl.
Definition tail_locals : string := "var z1 = 111; var z2 = 222; print(z1); print(z2);" ++ nl.

(* the program text is prelude ++ render_main *)
Definition render_main (p : prog) : string :=
  let body := decls ++ r_stmts 30 (p_locals p) (p_direct p) 0 (p_body p) ++ (if p_locals p then tail_locals else "") in
  (if p_fun p then "fn main() {" ++ nl ++ body ++ "}" ++ nl ++ "main();" ++ nl else body) ++
  "print(" ++ dq ++ "end" ++ dq ++ ");" ++ nl.
Definition render (p : prog) : string := prelude ++ render_main p.

(* =====================================================================================
   wire format: one group of numbers, prefix encoding (numbers z as z + 1000)
   ===================================================================================== *)
Local Open Scope nat_scope.
Definition zof (n : N) : Z := (Z.of_N n - 1000)%Z.
Definition p_bytes (ts : list N) : list byte * list N :=
  match ts with
  | [] => ([], [])
  | n :: r => (bytes_of_Ns (firstn (N.to_nat n) r), skipn (N.to_nat n) r)
  end.
Definition p_value (ts : list N) : value * list N :=
  match ts with
  | 0%N :: z :: r => (VNum (zof z), r)
  | 1%N :: r => let '(x, r') := p_bytes r in (VStr x, r')
  | 2%N :: r => (VNil, r)
  | 3%N :: r => (VStop, r)
  | 4%N :: r => (VSub, r)
  | _ => (VNil, [])
  end.
Fixpoint p_values (n : nat) (ts : list N) : list value * list N :=
  match n with
  | O => ([], ts)
  | S k => let '(v, r) := p_value ts in let '(vs, r') := p_values k r in (v :: vs, r')
  end.
Definition p_vlist (ts : list N) : list value * list N :=
  match ts with n :: r => p_values (N.to_nat n) r | [] => ([], []) end.
Definition p_fn (ts : list N) : fn * list N :=
  match ts with
  | 0%N :: k :: r => (AddK (zof k), r)
  | 1%N :: k :: r => (MulK (zof k), r)
  | 2%N :: r => let '(x, r') := p_bytes r in (Tag x, r')
  | 3%N :: k :: r => (ConstK (zof k), r)
  | 4%N :: lo :: n :: r => (PressF (zof lo) (N.to_nat n), r)
  | 5%N :: d :: k :: r => (DeepK (N.to_nat d) (zof k), r)
  | _ => (AddK 0, [])
  end.
Definition p_pr (ts : list N) : pr * list N :=
  match ts with
  | 0%N :: r => (IsEven, r)
  | 1%N :: k :: r => (GtK (zof k), r)
  | 2%N :: r => let '(v, r') := p_value r in (NeV v, r')
  | 3%N :: r => (TrueP, r)
  | 5%N :: lo :: hi :: r => (NotIn (zof lo) (zof hi), r)
  | _ :: r => (FalseP, r)
  | [] => (FalseP, [])
  end.
Fixpoint p_iexp (fuel : nat) (ts : list N) : iexp * list N :=
  match fuel with
  | O => (EVec [], [])
  | S k =>
    match ts with
    | 0%N :: r => let '(x, r') := p_vlist r in (EVec x, r')
    | 1%N :: r => let '(x, r') := p_vlist r in (ETup x, r')
    | 2%N :: a :: z :: r => (ERange (zof a) (zof z), r)
    | 3%N :: r => let '(x, r') := p_bytes r in (EStr x, r')
    | 4%N :: r => let '(x, r') := p_vlist r in (EScript x, r')
    | 5%N :: a :: z :: r => (ECount (zof a) (zof z), r)
    | 6%N :: a :: r => (EForever (zof a), r)
    | 7%N :: n :: r => (EVecVar (N.to_nat n), r)
    | 8%N :: n :: r => (ESlot (N.to_nat n), r)
    | 11%N :: n :: r => (EObj (N.to_nat n), r)
    | 12%N :: n :: h :: r => (ERVar (N.to_nat n) (N.to_nat h), r)
    | 9%N :: r => let '(f, r1) := p_fn r in let '(e, r2) := p_iexp k r1 in (EMap f e, r2)
    | 10%N :: r => let '(p, r1) := p_pr r in let '(e, r2) := p_iexp k r1 in (EFilter p e, r2)
    | _ => (EVec [], [])
    end
  end.
Definition IF : nat := 10.
Fixpoint p_stmt (fuel : nat) (ts : list N) : stmt * list N :=
  match fuel with
  | O => (SBreak, [])
  | S k =>
    let p_block := fix p_block (n : nat) (ts : list N) : list stmt * list N :=
      match n with
      | O => ([], ts)
      | S j => let '(s, r) := p_stmt k ts in let '(ss, r') := p_block j r in (s :: ss, r')
      end in
    match ts with
    | 0%N :: v :: r => (SPrintVar (N.to_nat v), r)
    | 1%N :: z :: r => (SPrintLit (zof z), r)
    | 2%N :: r => let '(e, r1) := p_iexp IF r in
                  match r1 with
                  | n :: r2 => let '(ss, r3) := p_block (N.to_nat n) r2 in (SFor e ss, r3)
                  | [] => (SFor e [], [])
                  end
    | 3%N :: v :: c :: n :: r => let '(ss, r1) := p_block (N.to_nat n) r in (SIf (N.to_nat v) (N.to_nat c) ss, r1)
    | 4%N :: r => (SBreak, r)
    | 5%N :: r => (SContinue, r)
    | 6%N :: r => (SReturn, r)
    | 7%N :: n :: r => let '(e, r1) := p_iexp IF r in (SLet (N.to_nat n) e, r1)
    | 8%N :: n :: r => (SNext (N.to_nat n), r)
    | 9%N :: n :: r => let '(v, r1) := p_value r in (SPush (N.to_nat n) v, r1)
    | 10%N :: n :: r => (SPop (N.to_nat n), r)
    | 11%N :: n :: r => let '(x, r1) := p_vlist r in (SSetVec (N.to_nat n) x, r1)
    | 12%N :: r => let '(e, r1) := p_iexp IF r in (SCollect e, r1)
    | 13%N :: g :: r => let '(v, r1) := p_value r in let '(e, r2) := p_iexp IF r1 in
                         (SReduce (if N.eqb g 0 then RSum else RCount) v e, r2)
    | 14%N :: n :: kd :: r =>
      let '(x, r1) := p_vlist r in
      match r1 with
      | z :: r2 => (SObj (N.to_nat n) (match kd with 0%N => KDeck | 1%N => KBag | 2%N => KVBag | 3%N => KChained | 4%N => KScaled
                                         | 5%N => KLimited | 6%N => KCounted | _ => KFieldIter end) x (zof z), r2)
      | [] => (SBreak, [])
      end
    | 15%N :: n :: h :: a :: e :: r => (SRange (N.to_nat n) (N.to_nat h) (zof a) (zof e), r)
    | 16%N :: lo :: n :: r => (SPress (zof lo) (N.to_nat n), r)
    | 17%N :: n :: r => (SPrintCalls (N.to_nat n), r)
    | 18%N :: v :: r => (SPrintCnt (N.to_nat v), r)
    | 19%N :: dp :: n :: r => let '(ss, r1) := p_block (N.to_nat n) r in (SDeep (N.to_nat dp) ss, r1)
    | _ => (SBreak, [])
    end
  end.
Fixpoint p_stmts (n : nat) (ts : list N) : list stmt :=
  match n with
  | O => []
  | S j => let '(s, r) := p_stmt 30 ts in s :: p_stmts j r
  end.
(* header: fun locals direct fuel nstmts *)
Definition p_prog (ts : list N) : prog :=
  match ts with
  | f :: l :: dr :: fu :: n :: r =>
    mkProg (negb (N.eqb f 0)) (negb (N.eqb l 0)) (negb (N.eqb dr 0)) (N.to_nat fu) (p_stmts (N.to_nat n) r)
  | _ => mkProg false false false 0 []
  end.
Definition parse_prog (w : string) : prog := p_prog (List.concat (parse_nss w)).

Local Open Scope string_scope.
(* the methods of class Iter (core.yl) that the mini-language exercises on every kind of iterable:
   iter  - SLet / the explicit .iter() of the non-direct rendering / every for loop
   map, filter - EMap / EFilter, directly on the iterable in the direct rendering
   collect, reduce - SCollect / SReduce
   props/C18.v compares this list with the regenerated gen/IterFns.v: a new method of Iter is reported as uncovered *)
Definition covered_consumers : list string := ["iter"; "map"; "collect"; "filter"; "reduce"].
(* side conditions over the regenerated table gen/IterFns.v: (method, arity, how it gets the iterator of self) *)
Definition consumer_ok (r : string * nat * string) : bool :=
  let h := snd r in String.eqb h "self" || String.eqb h "iter" || String.eqb h "for".
Definition consumers_call_iter (tbl : list (string * nat * string)) : bool := forallb consumer_ok tbl.
Definition consumers_covered (tbl : list (string * nat * string)) : bool :=
  forallb (fun r => existsb (String.eqb (fst (fst r))) covered_consumers) tbl
  && forallb (fun c => existsb (fun r => String.eqb (fst (fst r)) c) tbl) covered_consumers.
Definition adapter_iter_is_self (tbl : list (string * nat * string)) : bool :=
  existsb (fun r => String.eqb (fst (fst r)) "iter" && String.eqb (snd r) "self") tbl.
Definition show_lines (l : list (list byte)) : string := show_sep "," hex_of_bytes l.
(* hex(render_main) | mech lines | spec lines | early exits *)
Definition run_case (w : string) : string :=
  let p := parse_prog w in
  hex_of_bytes (bytes_of_string (render_main p)) ++ "|" ++ show_lines (eval_mech p) ++ "|" ++ show_lines (eval_spec p)
  ++ "|" ++ show_nat (early_exits p).
Definition run_case_norender (w : string) : string :=
  let p := parse_prog w in show_lines (eval_mech p) ++ "|" ++ show_lines (eval_spec p).
