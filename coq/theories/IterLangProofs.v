(* C18 - proofs about the mini-language IterLang: the Mechanism's chains refine the Spec, the stack of hidden
   locals is balanced. *)
From Coq Require Import String.
From Coq Require Import List ZArith NArith Bool Arith Lia.
From Coq Require Import Strings.Byte.
From YV Require Import Show Utf8 Utf8Proofs Index StrFns StrSpec StrProofs IterModel IterSpec IterProofs IterLang.
Import ListNotations.
Local Open Scope nat_scope.

(* ------------------------------------------------------------------ *)
(* the mini-language (IterLang): chains, and the stack of hidden locals *)
(* ------------------------------------------------------------------ *)

Definition ext (st : store) (extra : list iobj) : store := mkStore (heap st ++ extra) (vecs st).

(* chains over a fresh iterable of a finite kind (no shared iterator, no endless source) *)
Fixpoint fresh (e : iexp) : bool :=
  match e with
  | EMap _ e1 | EFilter _ e1 => fresh e1
  | ESlot _ | EObj _ | ERVar _ _ | EForever _ => false
  | EStr s => valid_utf8 s
  | _ => true
  end.

(* what the base of the chain denotes when the iterator is created *)
Definition base_elems (e : iexp) (m : mstate) : list value :=
  match fst (chain_of e) with
  | EVec xs => until_stop xs
  | ETup xs => until_stop xs
  | ERange a z => elements (SrcRange a z)
  | EStr s => elements (SrcStr s)
  | EScript xs => elements (SrcScript xs)
  | ECount lo hi => elements (SrcCount lo hi)
  | EVecVar n => until_stop (get_vec (ms m) (nth n (wvars m) 0))
  | _ => []
  end.

Lemma nth_error_app_here : forall {A} (l r : list A) x, nth_error (l ++ x :: r) (length l) = Some x.
Proof. intros A l r x. rewrite nth_error_app2 by lia. rewrite Nat.sub_diag. reflexivity. Qed.

Lemma eval_iter_rep : forall e m id m', fresh e = true -> eval_iter e m = (id, m') ->
  forall extra, exists F, Rep F (ext (ms m') extra) id (chain_spec (snd (chain_of e)) (base_elems e m)).
Proof.
  induction e as [xs|xs|a z|s|xs|lo hi|lo|n|n|n|n h|f e IH|p e IH]; intros m id m' Fr H extra;
    cbn [fresh] in Fr; try discriminate Fr.
  - cbn in H. inversion H; subst. exists 1. cbn [chain_of snd chain_spec fold_left base_elems fst].
    destruct (fresh_iter_rep (ext (mkStore (heap (ms m) ++ [OVecIter (length (vecs (ms m))) 0]) (vecs (ms m) ++ [xs])) extra) (length (heap (ms m))))
      as [A _].
    specialize (A (length (vecs (ms m)))). unfold ext in A. cbn [heap vecs] in A.
    rewrite <- app_assoc in A. cbn [app] in A. specialize (A (nth_error_app_here _ _ _)).
    unfold get_vec in A. cbn [vecs] in A. rewrite app_nth2 in A by lia. rewrite Nat.sub_diag in A. cbn [nth] in A.
    unfold ext. cbn [heap vecs ms m_store]. rewrite <- app_assoc. exact A.
  - cbn in H. inversion H; subst. exists 1. cbn [chain_of snd chain_spec fold_left base_elems fst].
    destruct (fresh_iter_rep (ext (mkStore (heap (ms m) ++ [OTupIter xs 0]) (vecs (ms m))) extra) (length (heap (ms m))))
      as [_ [A _]].
    apply A. unfold ext. cbn [heap]. rewrite <- app_assoc. apply nth_error_app_here.
  - cbn [eval_iter] in H. destruct (range_new a z) as [c stp] eqn:RN. cbn in H. inversion H; subst.
    exists 1. cbn [chain_of snd chain_spec fold_left base_elems fst].
    destruct (fresh_iter_rep (ext (mkStore (heap (ms m) ++ [ORangeIter z c stp]) (vecs (ms m))) extra) (length (heap (ms m))))
      as [_ [_ [_ [A _]]]].
    apply (A a z). rewrite RN. cbn [fst snd]. unfold ext. cbn [heap]. rewrite <- app_assoc. apply nth_error_app_here.
  - cbn in H. inversion H; subst. exists 1. cbn [chain_of snd chain_spec fold_left base_elems fst].
    destruct (fresh_iter_rep (ext (mkStore (heap (ms m) ++ [OStrIter s 0]) (vecs (ms m))) extra) (length (heap (ms m))))
      as [_ [_ [_ [_ [A _]]]]].
    apply A; [exact Fr|]. unfold ext. cbn [heap]. rewrite <- app_assoc. apply nth_error_app_here.
  - cbn in H. inversion H; subst. exists 1. cbn [chain_of snd chain_spec fold_left base_elems fst].
    destruct (fresh_iter_rep (ext (mkStore (heap (ms m) ++ [OScript xs 0]) (vecs (ms m))) extra) (length (heap (ms m))))
      as [_ [_ [A _]]].
    apply A. unfold ext. cbn [heap]. rewrite <- app_assoc. apply nth_error_app_here.
  - cbn in H. inversion H; subst. exists 1. cbn [chain_of snd chain_spec fold_left base_elems fst].
    destruct (fresh_iter_rep (ext (mkStore (heap (ms m) ++ [OCount hi lo]) (vecs (ms m))) extra) (length (heap (ms m))))
      as [_ [_ [_ [_ [_ A]]]]].
    apply A. unfold ext. cbn [heap]. rewrite <- app_assoc. apply nth_error_app_here.
  - cbn in H. inversion H; subst. exists 1. cbn [chain_of snd chain_spec fold_left base_elems fst].
    destruct (fresh_iter_rep (ext (mkStore (heap (ms m) ++ [OVecIter (nth n (wvars m) 0) 0]) (vecs (ms m))) extra) (length (heap (ms m))))
      as [A _].
    specialize (A (nth n (wvars m) 0)). unfold ext in *. cbn [heap vecs ms m_store] in *. rewrite <- app_assoc in *.
    apply A. apply nth_error_app_here.
  - cbn [eval_iter] in H. destruct (eval_iter e m) as [i m1] eqn:E1. cbn in H. inversion H; subst.
    destruct (IH m i m1 Fr E1 (OMap f i :: extra)) as [F R].
    cbn [chain_of]. destruct (chain_of e) as [x ops] eqn:CO. cbn [snd] in *.
    assert (B : base_elems (EMap f e) m = base_elems e m) by (unfold base_elems; cbn [chain_of]; rewrite CO; reflexivity).
    rewrite B. rewrite chain_spec_snoc. cbn [apply_op]. exists (S F).
    assert (X : ext (mkStore (heap (ms m1) ++ [OMap f i]) (vecs (ms m1))) extra = ext (ms m1) (OMap f i :: extra)).
    { unfold ext. cbn [heap vecs]. rewrite <- app_assoc. reflexivity. }
    cbn [ms m_store]. rewrite X. eapply rep_map; [exact R|]. unfold ext. cbn [heap]. apply nth_error_app_here.
  - cbn [eval_iter] in H. destruct (eval_iter e m) as [i m1] eqn:E1. cbn in H. inversion H; subst.
    destruct (IH m i m1 Fr E1 (OFilter p i :: extra)) as [F R].
    cbn [chain_of]. destruct (chain_of e) as [x ops] eqn:CO. cbn [snd] in *.
    assert (B : base_elems (EFilter p e) m = base_elems e m) by (unfold base_elems; cbn [chain_of]; rewrite CO; reflexivity).
    rewrite B. rewrite chain_spec_snoc. cbn [apply_op]. eexists.
    assert (X : ext (mkStore (heap (ms m1) ++ [OFilter p i]) (vecs (ms m1))) extra = ext (ms m1) (OFilter p i :: extra)).
    { unfold ext. cbn [heap vecs]. rewrite <- app_assoc. reflexivity. }
    cbn [ms m_store]. rewrite X. eapply rep_filter; [exact R|]. unfold ext. cbn [heap]. apply nth_error_app_here.
Qed.

Lemma ext_nil : forall st, ext st [] = st.
Proof. intros [h v]. unfold ext. cbn. rewrite app_nil_r. reflexivity. Qed.

(* for EVERY fresh chain expression of the mini-language (any depth): the iterator object built by the
   Mechanism hands out List.map / List.filter composed over the elements of its base, so that collect()
   and reduce() over it return the Spec's list / fold (instance of map_filter_collect_reduce_spec) *)
Theorem lang_chain_collect_reduce : forall e m id m', fresh e = true -> eval_iter e m = (id, m') ->
  let l := chain_spec (snd (chain_of e)) (base_elems e m) in
  exists F, forall ofuel fuel, F <= ofuel -> length l < fuel ->
    (exists v st', collect_loop fuel ofuel (ms m') id = (CNormal, (l, v, st'))) /\
    (forall g init, exists v st',
       fold_loop fuel ofuel (apply_rd g) init (ms m') id = (CNormal, (fold_left (apply_rd g) l init, v, st'))).
Proof.
  intros e m id m' Fr H l. destruct (eval_iter_rep e m id m' Fr H []) as [F R]. rewrite ext_nil in R.
  destruct (map_filter_collect_reduce_spec (ms m') id [] id F l (Chain_nil _ _) R) as [F' Q].
  exists F'. exact Q.
Qed.
Print Assumptions lang_chain_collect_reduce.

Example lang_chain_example :
  let e := EFilter IsEven (EMap (MulK 3) (EMap (AddK 1) (ERange 4 (-2)))) in
  let '(id, m') := eval_iter e init_m in
  fst (snd (collect_loop 50 OFUEL (ms m') id)) = ([VNum 12; VNum 6; VNum 0], VStop)
  /\ chain_spec (snd (chain_of e)) (base_elems e init_m) = [VNum 12; VNum 6; VNum 0].
Proof. vm_compute. split; reflexivity. Qed.

(* ---- user-defined iterables whose iter() is not the identity ---- *)
Lemma upd_upd : forall {A} (l : list A) i x y, upd (upd l i x) i y = upd l i y.
Proof.
  intros A l. induction l as [|h t IH]; intros i x y; [reflexivity|].
  destruct i as [|j]; cbn [upd]; [reflexivity|]. rewrite IH. reflexivity.
Qed.

(* whatever was traversed before (any cursor position of the Deck, any number of earlier cursors of the others),
   the iterator that x.iter() returns hands out the WHOLE sequence the iterable denotes *)
Theorem obj_iter_rep : forall st id,
  (forall cards pos, nth_error (heap st) id = Some (ODeck cards pos) ->
     Rep 1 (snd (obj_iter st id)) (fst (obj_iter st id)) (obj_elems KDeck cards 0)) /\
  (forall items, nth_error (heap st) id = Some (OBag items) ->
     Rep 1 (snd (obj_iter st id)) (fst (obj_iter st id)) (obj_elems KBag items 0)) /\
  (forall vid, nth_error (heap st) id = Some (OVBag vid) ->
     Rep 1 (snd (obj_iter st id)) (fst (obj_iter st id)) (obj_elems KVBag (get_vec st vid) 0)) /\
  (forall vid k, nth_error (heap st) id = Some (OChained vid k) ->
     exists F, Rep F (snd (obj_iter st id)) (fst (obj_iter st id)) (obj_elems KChained (get_vec st vid) k)).
Proof.
  intros st id. repeat split.
  - intros cards pos E. unfold obj_iter. rewrite E. cbn [fst snd obj_elems].
    eapply (rep_veclike _ _ id (ODeck cards 0) cards 0 (ODeck cards)); [|reflexivity|reflexivity].
    cbn [set_obj heap]. apply nth_error_upd_same. eapply nth_error_lt; eauto.
  - intros items E. unfold obj_iter. rewrite E. cbn [fst snd obj_elems alloc_obj].
    eapply (rep_veclike _ _ _ (OScript items 0) items 0 (OScript items)); [|reflexivity|reflexivity].
    cbn [heap]. apply nth_error_app_here.
  - intros vid E. unfold obj_iter. rewrite E. cbn [fst snd obj_elems alloc_obj].
    eapply (rep_veclike _ _ _ (OVecIter vid 0) (get_vec st vid) 0 (OVecIter vid)); [|reflexivity|reflexivity].
    cbn [heap]. apply nth_error_app_here.
  - intros vid k E. unfold obj_iter. rewrite E. cbn [fst snd obj_elems alloc_obj heap vecs].
    set (h := heap st).
    set (st3 := {| heap := ((h ++ [OVecIter vid 0]) ++ [OFilter IsEven (length h)]) ++ [OMap (AddK k) (length (h ++ [OVecIter vid 0]))];
                   vecs := vecs st |}).
    assert (EA : nth_error (heap st3) (length h) = Some (OVecIter vid 0)).
    { subst st3. cbn [heap]. rewrite <- !app_assoc. cbn [app]. apply nth_error_app_here. }
    assert (EB : nth_error (heap st3) (length (h ++ [OVecIter vid 0])) = Some (OFilter IsEven (length h))).
    { subst st3. cbn [heap]. rewrite <- (app_assoc (h ++ [OVecIter vid 0])). cbn [app]. apply nth_error_app_here. }
    assert (EC : nth_error (heap st3) (length ((h ++ [OVecIter vid 0]) ++ [OFilter IsEven (length h)]))
                 = Some (OMap (AddK k) (length (h ++ [OVecIter vid 0])))).
    { subst st3. cbn [heap]. apply nth_error_app_here. }
    pose proof (rep_veclike _ st3 (length h) (OVecIter vid 0) (get_vec st vid) 0 (OVecIter vid) EA eq_refl eq_refl) as R0.
    cbn [skipn] in R0.
    pose proof (rep_filter _ _ _ _ R0 _ _ EB) as R1.
    pose proof (rep_map _ _ _ _ R1 _ _ EC) as R2.
    eexists. exact R2.
Qed.
Print Assumptions obj_iter_rep.

(* a range VALUE is immutable: whatever else the store holds - however many other ranges were built, whichever
   iterators exist - iter() of a range a..e held in a variable / vec / field hands out range_elements a e, which
   depends only on its bounds *)
Theorem range_value_immutable : forall st id a e, nth_error (heap st) id = Some (ORange a e) ->
  Rep 1 (snd (obj_iter st id)) (fst (obj_iter st id)) (elements (SrcRange a e)).
Proof.
  intros st id a e E. unfold obj_iter. rewrite E. cbn [fst snd alloc_obj elements].
  apply rep_range. cbn [heap]. apply nth_error_app_here.
Qed.
Print Assumptions range_value_immutable.

(* building other ranges (statement press, or inside a mapping function) leaves the Mechanism's state alone *)
Theorem press_is_noop : forall rec k ofuel loc d lo n m, exec_stmt rec k ofuel loc d (SPress lo n) m = (CNormal, m).
Proof. reflexivity. Qed.
Theorem press_fn_is_identity : forall lo n v, apply_fn (PressF lo n) v = v.
Proof. intros lo n v. destruct v; reflexivity. Qed.

Example range_pressure_example :
  eval_mech (mkProg true false false 150 [SRange 0 1 0 3; SPress 100 9;
                                      SFor (ERVar 0 1) [SPrintVar 0; SPress 200 9];
                                      SCollect (EMap (PressF 300 9) (ERVar 0 1))])
  = map b ["#0"; "0"; "1"; "2"; "#0"; "[0,1,2,]"; "end"]%string.
Proof. vm_compute. reflexivity. Qed.

(* calling iter() on what iter() returned changes nothing: x.iter().map(f) (explicit) and x.map(f) (direct, core.yl
   calls self.iter() itself) build the same adapter *)
Theorem obj_iter_idem : forall st id,
  obj_iter (snd (obj_iter st id)) (fst (obj_iter st id)) = obj_iter st id.
Proof.
  intros st id. unfold obj_iter at 2 3 4. destruct (nth_error (heap st) id) as [o|] eqn:E.
  2:{ cbn [fst snd]. unfold obj_iter. rewrite E. reflexivity. }
  destruct o; cbn [fst snd]; try (unfold obj_iter; rewrite E; reflexivity).
  - unfold obj_iter. cbn [set_obj heap]. rewrite nth_error_upd_same by (eapply nth_error_lt; eauto).
    unfold set_obj. cbn [heap vecs]. rewrite upd_upd. reflexivity.
  - unfold alloc_obj, obj_iter. cbn [fst snd heap]. rewrite nth_error_app_here. reflexivity.
  - unfold alloc_obj, obj_iter. cbn [fst snd heap]. rewrite nth_error_app_here. reflexivity.
  - unfold alloc_obj. cbn [fst snd heap vecs]. unfold obj_iter. cbn [heap]. rewrite nth_error_app_here. reflexivity.
  - unfold alloc_obj, obj_iter. cbn [fst snd heap]. rewrite nth_error_app_here. reflexivity.
Qed.
Print Assumptions obj_iter_idem.

(* second traversal after the first exhausted it: a Deck run to its end and traversed again *)
Example deck_twice_example :
  eval_mech (mkProg false false true 150 [SObj 0 KDeck [VNum 1; VNum 2; VNum 3] 0;
                                      SCollect (EObj 0); SCollect (EFilter IsEven (EObj 0));
                                      SCollect (EMap (MulK 2) (EFilter (GtK 1) (EObj 0))); SReduce RSum (VNum 0) (EObj 0)])
  = map b ["[1,2,3,]"; "[2,]"; "[4,6,]"; "6"; "end"]%string.
Proof. vm_compute. reflexivity. Qed.

(* ---- iterator instances whose FIELD next wraps the class's next ---- *)
Definition wrapped_elems (mode : wmode) (calls : nat) (l : list value) : list value :=
  match mode with
  | WScale k => map (apply_fn (MulK k)) l
  | WLimit n => firstn (n - calls) l
  | WCount => l
  end.

Lemma wrapped_step : forall st id items i mode calls k, nth_error (heap st) id = Some (OWrapped items i mode calls) ->
  obj_next (S k) st id =
  (let '(v, c) :=
     match mode with
     | WLimit n => if n <=? calls then (VStop, i) else let '(r, c) := vec_next items i in (or_stop r, c)
     | WScale z => let '(r, c) := vec_next items i in (let v := or_stop r in if derives_stop v then v else apply_fn (MulK z) v, c)
     | WCount => let '(r, c) := vec_next items i in (or_stop r, c)
     end in Some (v, set_obj st id (OWrapped items c mode (S calls)))).
Proof. intros st id items i mode calls k E. cbn [obj_next]. rewrite E. reflexivity. Qed.

Lemma rep_wrapped : forall m st id items i mode calls, nth_error (heap st) id = Some (OWrapped items i mode calls) ->
  length items - i = m -> Rep 1 st id (wrapped_elems mode calls (until_stop (skipn i items))).
Proof.
  induction m as [|m IH]; intros st id items i mode calls E L.
  - rewrite skipn_all2 by lia. cbn [until_stop].
    replace (wrapped_elems mode calls []) with (@nil value) by (destruct mode; cbn; try rewrite firstn_nil; reflexivity).
    eapply Rep_nil with (v := VStop); [reflexivity|]. intros k Hk. destruct k as [|k]; [lia|].
    rewrite (wrapped_step _ _ _ _ _ _ k E). rewrite vec_next_ge by lia.
    destruct mode; cbn [or_stop derives_stop]; try reflexivity. destruct (n <=? calls); reflexivity.
  - destruct (nth_error items i) as [x|] eqn:EX; [|apply nth_error_None in EX; lia].
    rewrite (skipn_nth_error _ _ _ EX). cbn [until_stop].
    assert (LT : id < length (heap st)) by (eapply nth_error_lt; eauto).
    assert (NX : forall c', nth_error (heap (set_obj st id (OWrapped items (S i) mode c'))) id = Some (OWrapped items (S i) mode c')).
    { intros c'. cbn [set_obj heap]. apply nth_error_upd_same. exact LT. }
    destruct (is_stop x) eqn:SX.
    + replace (wrapped_elems mode calls []) with (@nil value) by (destruct mode; cbn; try rewrite firstn_nil; reflexivity).
      destruct mode as [z|n|].
      * eapply Rep_nil with (v := x); [exact SX|]. intros k Hk. destruct k as [|k]; [lia|].
        rewrite (wrapped_step _ _ _ _ _ _ k E). rewrite (vec_next_lt _ _ _ EX). cbn [or_stop].
        rewrite <- sentinel_uniform, SX. reflexivity.
      * destruct (n <=? calls) eqn:NC.
        -- eapply Rep_nil with (v := VStop); [reflexivity|]. intros k Hk. destruct k as [|k]; [lia|].
           rewrite (wrapped_step _ _ _ _ _ _ k E). rewrite NC. reflexivity.
        -- eapply Rep_nil with (v := x); [exact SX|]. intros k Hk. destruct k as [|k]; [lia|].
           rewrite (wrapped_step _ _ _ _ _ _ k E). rewrite NC, (vec_next_lt _ _ _ EX). reflexivity.
      * eapply Rep_nil with (v := x); [exact SX|]. intros k Hk. destruct k as [|k]; [lia|].
        rewrite (wrapped_step _ _ _ _ _ _ k E). rewrite (vec_next_lt _ _ _ EX). reflexivity.
    + destruct mode as [z|n|].
      * cbn [wrapped_elems map]. eapply Rep_cons with (st' := set_obj st id (OWrapped items (S i) (WScale z) (S calls))).
        -- apply apply_fn_not_stop. exact SX.
        -- intros k Hk. destruct k as [|k]; [lia|]. rewrite (wrapped_step _ _ _ _ _ _ k E).
           rewrite (vec_next_lt _ _ _ EX). cbn [or_stop]. rewrite <- sentinel_uniform, SX. reflexivity.
        -- apply (IH _ _ items (S i) (WScale z) (S calls)); [apply NX|lia].
      * cbn [wrapped_elems]. destruct (n <=? calls) eqn:NC.
        -- apply Nat.leb_le in NC. replace (n - calls) with 0 by lia. cbn [firstn].
           eapply Rep_nil with (v := VStop); [reflexivity|]. intros k Hk. destruct k as [|k]; [lia|].
           rewrite (wrapped_step _ _ _ _ _ _ k E). replace (n <=? calls) with true by (symmetry; apply Nat.leb_le; lia). reflexivity.
        -- pose proof NC as NC'. apply Nat.leb_gt in NC'. replace (n - calls) with (S (n - S calls)) by lia. cbn [firstn].
           eapply Rep_cons with (st' := set_obj st id (OWrapped items (S i) (WLimit n) (S calls))); [exact SX| |].
           ++ intros k Hk. destruct k as [|k]; [lia|]. rewrite (wrapped_step _ _ _ _ _ _ k E).
              rewrite NC, (vec_next_lt _ _ _ EX). reflexivity.
           ++ apply (IH _ _ items (S i) (WLimit n) (S calls)); [apply NX|lia].
      * cbn [wrapped_elems]. eapply Rep_cons with (st' := set_obj st id (OWrapped items (S i) WCount (S calls))); [exact SX| |].
        -- intros k Hk. destruct k as [|k]; [lia|]. rewrite (wrapped_step _ _ _ _ _ _ k E).
           rewrite (vec_next_lt _ _ _ EX). reflexivity.
        -- apply (IH _ _ items (S i) WCount (S calls)); [apply NX|lia].
Qed.

(* field_next_rep: an iterator whose instance FIELD next wraps its class's next hands out the sequence the FIELD
   produces - to every consumer, since every consumer pulls through obj_next (for loop, manual next, MapIter and
   FilterIter via rep_chain, collect and reduce via map_filter_collect_reduce_spec) *)
Theorem field_next_rep : forall st id items,
  (forall z, nth_error (heap st) id = Some (OWrapped items 0 (WScale z) 0) -> Rep 1 st id (obj_elems KScaled items z)) /\
  (forall z, nth_error (heap st) id = Some (OWrapped items 0 (WLimit (Z.to_nat z)) 0) -> Rep 1 st id (obj_elems KLimited items z)) /\
  (nth_error (heap st) id = Some (OWrapped items 0 WCount 0) -> Rep 1 st id (obj_elems KCounted items 0)).
Proof.
  intros st id items. repeat split.
  - intros z E. apply (rep_wrapped _ st id items 0 (WScale z) 0 E eq_refl).
  - intros z E. pose proof (rep_wrapped _ st id items 0 (WLimit (Z.to_nat z)) 0 E eq_refl) as R.
    cbn [wrapped_elems skipn] in R. rewrite Nat.sub_0_r in R. exact R.
  - intros E. apply (rep_wrapped _ st id items 0 WCount 0 E eq_refl).
Qed.
Print Assumptions field_next_rep.

Example field_next_example :
  eval_mech (mkProg true false true 150 [SObj 0 KScaled [VNum 3; VNum 2; VNum 1] 10; SFor (EObj 0) [SPrintVar 0]; SPrintCalls 0;
                                         SObj 1 KLimited [VNum 3; VNum 2; VNum 1] 2; SCollect (EMap (AddK 1) (EObj 1)); SPrintCalls 1])
  = map b ["#0"; "30"; "20"; "10"; "#0"; "@4"; "[4,3,]"; "@3"; "end"]%string.
Proof. vm_compute. reflexivity. Qed.

(* long rejected runs: the depth of FilterIter's search is bounded by fuel in the model only; the sequence is the
   Spec's whatever the length of the run (instance: 999 rejected elements in a row) *)
Example long_run_example :
  eval_mech (mkProg false false false 1100 [SCollect (EFilter (NotIn 0 999) (ERange 0 1000)); SReduce RCount (VNum 0) (EFilter FalseP (ECount 0 1000))])
  = map b ["[999,]"; "0"; "end"]%string.
Proof. vm_compute. reflexivity. Qed.

(* ---- the stack of hidden locals ---- *)
Definition ok_ctl (c : ctl) : Prop := c <> CReturn /\ c <> CFuel.

Lemma for_rounds_len : forall {M} (len : M -> nat) (nextf : M -> option (value * M)) setv body,
  (forall m v m', nextf m = Some (v, m') -> len m' = len m) ->
  (forall m v, len (setv m v) = len m) ->
  (forall m c m', body m = (c, m') -> ok_ctl c -> len m' = len m) ->
  forall fuel m c m', for_rounds nextf setv body fuel m = (c, m') -> ok_ctl c -> len m' = len m.
Proof.
  intros M len nextf setv body Hn Hs Hb. induction fuel as [|k IH]; intros m c m' H [O1 O2].
  - cbn in H. inversion H; subst. congruence.
  - cbn [for_rounds] in H. destruct (nextf m) as [[v m1]|] eqn:EN; [|inversion H; subst; congruence].
    destruct (is_stop v).
    + inversion H; subst. rewrite Hs. eapply Hn; eauto.
    + destruct (body (setv m1 v)) as [cb m3] eqn:EB.
      assert (L3 : ok_ctl cb -> len m3 = len m).
      { intros O. rewrite (Hb _ _ _ EB O), Hs. eapply Hn; eauto. }
      destruct cb.
      * rewrite (IH _ _ _ H (conj O1 O2)). apply L3. split; discriminate.
      * inversion H; subst. apply L3. split; discriminate.
      * rewrite (IH _ _ _ H (conj O1 O2)). apply L3. split; discriminate.
      * inversion H; subst. congruence.
      * inversion H; subst. congruence.
Qed.

Lemma eval_iter_stack : forall e m id m', eval_iter e m = (id, m') -> stack m' = stack m.
Proof.
  induction e as [xs|xs|a z|s|xs|lo hi|lo|n|n|n|n h|f e IH|p e IH]; intros m id m' H; cbn [eval_iter] in H.
  - cbn in H. inversion H; subst. reflexivity.
  - cbn in H. inversion H; subst. reflexivity.
  - destruct (range_new a z) as [c stp]. cbn in H. inversion H; subst. reflexivity.
  - cbn in H. inversion H; subst. reflexivity.
  - cbn in H. inversion H; subst. reflexivity.
  - cbn in H. inversion H; subst. reflexivity.
  - cbn in H. inversion H; subst. reflexivity.
  - cbn in H. inversion H; subst. reflexivity.
  - destruct (obj_iter (ms m) (nth n (slots m) 0)) as [i s]. inversion H; subst. reflexivity.
  - destruct (obj_iter (ms m) (nth (OBJ + n) (slots m) 0)) as [i s]. inversion H; subst. reflexivity.
  - destruct (obj_iter (ms m) (nth (RG + n) (slots m) 0)) as [i s]. inversion H; subst. reflexivity.
  - destruct (eval_iter e m) as [i m1] eqn:E. cbn in H. inversion H; subst. cbn. eapply IH; eauto.
  - destruct (eval_iter e m) as [i m1] eqn:E. cbn in H. inversion H; subst. cbn. eapply IH; eauto.
Qed.

Lemma m_next_stack : forall ofuel id m v m', m_next ofuel id m = Some (v, m') -> stack m' = stack m.
Proof.
  intros ofuel id m v m' H. unfold m_next in H. destruct (obj_next ofuel (ms m) id) as [[w s]|]; [|discriminate].
  injection H as _ <-. reflexivity.
Qed.

Lemma removelast_length : forall {A} (l : list A), length (removelast l) = length l - 1.
Proof.
  intros A l. induction l as [|x l IH]; [reflexivity|]. destruct l as [|y l]; [reflexivity|].
  cbn [removelast length] in *. rewrite IH. lia.
Qed.

Definition slen (m : mstate) : nat := length (stack m).

Lemma push_len : forall m x, slen (push m x) = S (slen m).
Proof. intros. unfold slen, push. cbn. rewrite app_length. cbn. lia. Qed.
Lemma pop_len : forall m, slen (pop m) = slen m - 1.
Proof. intros. unfold slen, pop. cbn. apply removelast_length. Qed.

Lemma wrap_body_len : forall loc d run, (forall m c m', run m = (c, m') -> ok_ctl c -> slen m' = slen m) ->
  forall m c m', wrap_body loc d run m = (c, m') -> ok_ctl c -> slen m' = slen m.
Proof.
  intros loc d run Hr m c m' H O. unfold wrap_body in H.
  match type of H with (let '(_, _) := run ?X in _) = _ => destruct (run X) as [r m3a] eqn:ER; set (m2 := X) in * end.
  assert (L2 : slen m2 = if loc then S (slen m) else slen m).
  { subst m2. destruct loc; [rewrite push_len|]; reflexivity. }
  clearbody m2. destruct O as [O1 O2].
  assert (P : forall X : mstate, slen X = slen m3a -> ok_ctl r -> slen (if loc then pop X else X) = slen m).
  { intros X EX Or. pose proof (Hr _ _ _ ER Or) as L3. destruct loc; [rewrite pop_len|]; lia. }
  destruct r; cbn [fst snd] in H; injection H as <- <-; try congruence; apply P; try reflexivity; split; discriminate.
Qed.

Lemma next_hidden_len : forall ofuel m v m', next_hidden ofuel m = Some (v, m') -> slen m' = slen m.
Proof.
  intros ofuel m v m' H. unfold next_hidden in H. destruct (last (stack m) (LVal VNil)).
  - inversion H; subst. reflexivity.
  - unfold slen. rewrite (m_next_stack _ _ _ _ _ H). reflexivity.
Qed.

Lemma set_loopvar_len : forall m v, slen (set_loopvar m v) = slen m.
Proof. intros. unfold slen, set_loopvar. cbn [stack m_stack]. apply upd_length. Qed.

Lemma exec_stmt_stack : forall rec k ofuel loc d s m c m',
  (forall d ss m c m', rec d ss m = (c, m') -> ok_ctl c -> slen m' = slen m) ->
  exec_stmt rec k ofuel loc d s m = (c, m') -> ok_ctl c -> slen m' = slen m.
Proof.
  intros rec k ofuel loc d s m c m' Hrec H O. destruct s; cbn [exec_stmt] in H.
  - inversion H; subst. reflexivity.
  - inversion H; subst. reflexivity.
  - destruct (eval_iter e (push (marker m) (LVal VNil))) as [id m2] eqn:EI.
    match type of H with (let '(_, _) := ?X in _) = _ => destruct X as [c5 m5] eqn:EF end.
    assert (L2 : slen m2 = S (slen m)).
    { unfold slen. rewrite (eval_iter_stack _ _ _ _ EI). fold (slen (push (marker m) (LVal VNil))). rewrite push_len. reflexivity. }
    assert (L5 : ok_ctl c5 -> slen m5 = S (S (slen m))).
    { intros O5. rewrite (for_rounds_len slen _ _ _ (next_hidden_len ofuel) set_loopvar_len
                             (wrap_body_len loc d _ (Hrec (S d) body)) _ _ _ _ EF O5).
      unfold slen at 1. cbn [m_cnts stack]. fold (slen (push m2 (LIter id))). rewrite push_len, L2. reflexivity. }
    destruct O as [O1 O2].
    destruct c5; inversion H; subst; try congruence;
      rewrite (fun p => p : slen (marker (pop (pop m5))) = slen (pop (pop m5))) by reflexivity;
      rewrite !pop_len, L5 by (split; discriminate); lia.
  - destruct (nth d0 (cnts m) 0 =? k0).
    + eapply Hrec; eauto.
    + inversion H; subst. reflexivity.
  - inversion H; subst. reflexivity.
  - inversion H; subst. reflexivity.
  - inversion H; subst. reflexivity.
  - destruct (eval_iter e m) as [id m1] eqn:EI. inversion H; subst. unfold slen. cbn [m_slots stack].
    rewrite (eval_iter_stack _ _ _ _ EI). reflexivity.
  - destruct (m_next ofuel (nth n (slots m) 0) m) as [[v m1]|] eqn:EN; inversion H; subst; [|reflexivity].
    unfold slen. cbn [m_print stack]. rewrite (m_next_stack _ _ _ _ _ EN). reflexivity.
  - inversion H; subst. reflexivity.
  - inversion H; subst. reflexivity.
  - cbn in H. inversion H; subst. reflexivity.
  - destruct (eval_iter e m) as [id m1] eqn:EI.
    destruct (collect_loop k ofuel (ms m1) id) as [cc [[acc v] s]].
    destruct cc; inversion H; subst; unfold slen; cbn [m_print m_store stack]; rewrite (eval_iter_stack _ _ _ _ EI); reflexivity.
  - destruct (eval_iter e m) as [id m1] eqn:EI.
    destruct (fold_loop k ofuel (apply_rd g) init (ms m1) id) as [cc [[acc v] s]].
    destruct cc; inversion H; subst; unfold slen; cbn [m_print m_store stack]; rewrite (eval_iter_stack _ _ _ _ EI); reflexivity.
  - destruct k0; cbn in H; inversion H; subst; reflexivity.
  - cbn in H. inversion H; subst. reflexivity.
  - inversion H; subst. reflexivity.
  - inversion H; subst. reflexivity.
  - inversion H; subst. reflexivity.
  - eapply Hrec; eauto.
Qed.

(* for_leaves_no_state ("break and continue leave no iteration state behind"): whatever a statement list does -
   loops ending normally, by break, continue rounds, nested loops, loops over shared iterators - the stack of
   hidden locals is as high afterwards as it was before, unless the function returned (the frame is discarded
   as a whole) or the model ran out of fuel *)
Theorem exec_stack : forall k ofuel loc d ss m c m', exec k ofuel loc d ss m = (c, m') -> ok_ctl c -> slen m' = slen m.
Proof.
  induction k as [|k IH]; intros ofuel loc d ss m c m' H O.
  - cbn in H. inversion H; subst. destruct O; congruence.
  - cbn [exec] in H. destruct ss as [|s rest]; [inversion H; subst; reflexivity|].
    destruct (exec_stmt (exec k ofuel loc) k ofuel loc d s m) as [c1 m1] eqn:E1.
    assert (L1 : ok_ctl c1 -> slen m1 = slen m).
    { intros O1. eapply exec_stmt_stack; [|exact E1|exact O1]. intros; eapply IH; eauto. }
    destruct c1; try (inversion H; subst; apply L1; exact O).
    rewrite (IH _ _ _ _ _ _ _ H O). apply L1. split; discriminate.
Qed.
Print Assumptions exec_stack.

(* the loop statement itself: the two hidden locals are gone on every exit path that stays in the function *)
Corollary for_leaves_no_state : forall k ofuel loc d e body m c m',
  exec (S k) ofuel loc d [SFor e body] m = (c, m') -> ok_ctl c -> length (stack m') = length (stack m).
Proof. intros. eapply (exec_stack (S k)); eauto. Qed.

(* for_loop_visits_elements, on the mini-language: a for loop over a fresh chain whose body only prints the
   loop variable prints exactly chain_spec (elements) - checked here on an instance by computation; the general
   statement is for_rounds_visits (any body that keeps the iterator's denotation) + lang_chain_collect_reduce *)
Example for_loop_example :
  eval_mech (mkProg true false false 150 [SFor (EFilter (GtK 0) (EMap (AddK (-2)) (EVec [VNum 1; VNum 5; VNum 2; VNum 7]))) [SPrintVar 0; SIf 0 2 [SBreak]]])
  = map b ["#0"; "3"; "5"; "#0"; "end"]%string.
Proof. vm_compute. reflexivity. Qed.

(* break out of nested loops over one shared iterator: nothing is left on the stack, the iterator keeps its place *)
Example shared_iterator_example :
  eval_mech (mkProg true true false 150 [SLet 0 (ERange 0 6);
                              SFor (ESlot 0) [SPrintVar 0; SFor (ESlot 0) [SPrintVar 1; SIf 1 2 [SBreak]]; SIf 0 1 [SBreak]];
                              SNext 0])
  = map b ["#0"; "0"; "#3"; "1"; "2"; "#3"; "#0"; "3"; "111"; "222"; "end"]%string.
Proof. vm_compute. reflexivity. Qed.
