(* C18 - Mechanism M of iteration.  Definitions only (proofs: IterProofs.v).
   Modelled code (/repo/yarel/src):
     object.rs  ObjVecIter::next / ObjTupleIter::next (index cursor, `current >= len` re-read each call),
                ObjRangeIter::new/next (step +1 iff begin < end, else -1; stops when current == end),
                ObjStringIter::next (byte cursor; reused from StrFns.iter_next / string_iter_next)
     core.rs    *_iter_next: `next.unwrap_or_else(StopIter instance)`
     core.yl    MapIter.next, FilterIter.next (both test `next.derives(StopIter)`), Iter.collect / Iter.reduce
     compiler.rs for_statement: hidden locals [loop variable; iterator], IterNext; SetLocal; JumpIfStopIter
     vm.rs      iter_next_impl (CopyTop + Invoke next 0), jump_if_stop_iter (class derived from StopIter)
   Numbers are integers (Z): the programs of the tie only use small integers; isize wrap-around of the
   range cursor is out of reach (|end - current| decreases by one each step). *)
From Coq Require Import String.
From Coq Require Import List ZArith NArith Bool Arith.
From Coq Require Import Strings.Byte.
From YV Require Import Show Utf8 Index StrFns.
Import ListNotations.
Local Open Scope nat_scope.

(* ---------- values ---------- *)
Inductive value : Type :=
| VNum (z : Z)
| VStr (s : list byte)
| VNil
| VStop          (* an instance of StopIter itself *)
| VSub.          (* an instance of a user class deriving StopIter *)

(* vm.rs jump_if_stop_iter: an instance whose class is StopIter or has StopIter on its superclass chain
   (since /repo 063cd78; before that only the exact class ended a for loop while the adapters below already
   used `derives`: finding stopiter_subclass_adapters, fixed) *)
Definition is_stop (v : value) : bool := match v with VStop | VSub => true | _ => false end.
(* core.yl `next.derives(StopIter)` *)
Definition derives_stop (v : value) : bool := match v with VStop | VSub => true | _ => false end.

Fixpoint bytes_eqb (a b : list byte) : bool :=
  match a, b with
  | [], [] => true
  | x :: a', y :: b' => Byte.eqb x y && bytes_eqb a' b'
  | _, _ => false
  end.

(* `==` of the language on these values: instances compare by identity, a fresh instance equals nothing *)
Definition veq (a b : value) : bool :=
  match a, b with
  | VNum x, VNum y => Z.eqb x y
  | VStr x, VStr y => bytes_eqb x y
  | VNil, VNil => true
  | _, _ => false
  end.

(* ---------- closures of the mini-language (defunctionalised; the yarel text is in IterLang.render) ---------- *)
Inductive fn : Type := AddK (k : Z) | MulK (k : Z) | Tag (t : list byte) | ConstK (k : Z)
  | PressF (lo : Z) (n : nat)
  | DeepK (d : nat) (k : Z).     (* |x| deep(x, d, k): addk(x, k) reached through d nested calls *)   (* |x| pid(x, lo, n): builds n other ranges lo..lo+1, .., lo..lo+n, returns x *)
Inductive pr : Type := IsEven | GtK (k : Z) | NeV (v : value) | TrueP | FalseP
  | NotIn (lo hi : Z).           (* |x| notin(x, lo, hi): rejects the run lo <= x < hi *)
Inductive rd : Type := RSum | RCount.

Definition num_text (z : Z) : list byte := bytes_of_string (show_Z z).

(* helpers addk / mulk / tag of the prelude dispatch on type(x): anything else is returned unchanged;
   ConstK k = |x| k maps EVERY value, also an instance: it would expose an adapter that applied the function to
   the sentinel *)
Definition apply_fn (f : fn) (v : value) : value :=
  match f, v with
  | AddK k, VNum z => VNum (z + k)
  | DeepK _ k, VNum z => VNum (z + k)
  | MulK k, VNum z => VNum (z * k)        (* generator: k > 0 only (0 * negative prints -0) *)
  | Tag t, VNum z => VStr (num_text z ++ t)
  | Tag t, VStr s => VStr (s ++ t)
  | ConstK k, _ => VNum k
  | PressF _ _, _ => v            (* a range value is immutable: building other ranges changes nothing *)
  | _, _ => v
  end.

Definition apply_pr (p : pr) (v : value) : bool :=
  match p, v with
  | IsEven, VNum z => Z.even z
  | IsEven, _ => false
  | GtK k, VNum z => Z.ltb k z
  | GtK _, _ => false
  | NeV w, _ => negb (veq v w)
  | TrueP, _ => true
  | FalseP, _ => false
  | NotIn lo hi, VNum z => negb (Z.leb lo z && Z.ltb z hi)
  | NotIn _ _, _ => true
  end.

(* plus(a, v): same-typed numbers / strings are added, otherwise a *)
Definition apply_rd (g : rd) (a v : value) : value :=
  match g with
  | RSum => match a, v with
            | VNum x, VNum y => VNum (x + y)
            | VStr x, VStr y => VStr (x ++ y)
            | _, _ => a
            end
  | RCount => match a with VNum x => VNum (x + 1) | _ => a end
  end.

(* ---------- native cursors (object.rs) ---------- *)
(* ObjVecIter::next / ObjTupleIter::next on the CURRENT elements *)
Definition vec_next (xs : list value) (cur : nat) : option value * nat :=
  if length xs <=? cur then (None, cur) else (nth_error xs cur, S cur).

(* ObjRangeIter::new *)
Definition range_new (b e : Z) : Z * Z := (b, if Z.ltb b e then 1%Z else (-1)%Z).
(* ObjRangeIter::next *)
Definition range_next (e cur step : Z) : option value * Z :=
  if Z.eqb cur e then (None, cur) else (Some (VNum cur), (cur + step)%Z).

(* ObjStringIter::next + core.rs string_iter_next (StrFns); a slice panic (unreachable on valid UTF-8,
   StrProofs.iter_no_panic) is folded into None *)
Definition str_next (s : list byte) (pos : nat) : option value * nat :=
  match string_iter_next s pos [] with
  | (Ok (RStr t), p) => (Some (VStr t), p)
  | (_, p) => (None, p)
  end.

(* user classes of the prelude *)
(* Count: if self.cur >= self.hi { return StopIter.new(); } var r = self.cur; self.cur = self.cur + 1; return r; *)
Definition count_next (hi cur : Z) : option value * Z :=
  if Z.leb hi cur then (None, cur) else (Some (VNum cur), (cur + 1)%Z).
(* Forever: never returns the sentinel *)
Definition forever_next (cur : Z) : option value * Z := (Some (VNum cur), (cur + 1)%Z).

(* core.rs: next.unwrap_or_else(|| StopIter instance) *)
Definition or_stop (o : option value) : value := match o with Some v => v | None => VStop end.

(* ---------- iterator objects on the heap ---------- *)
(* a Script instance whose FIELD `next` holds a closure wrapping the class's own next (prelude fn wrap): every call
   first counts itself in the field `calls`; WScale k multiplies the elements, WLimit n answers the sentinel from
   the n-th call on, WCount only counts.  vm.rs `invoke` looks at the instance's fields before its class, and
   IterNext, `it.next()` and the adapters' `self.iterable.next()` all go through `invoke`
   (side condition C18_side_for_next_by_plain_invoke over gen/ClassSrc.v): every consumer calls the FIELD *)
Inductive wmode : Type := WScale (k : Z) | WLimit (n : nat) | WCount.

Inductive iobj : Type :=
| OVecIter (vid : nat) (cur : nat)            (* refers to a vector of the store: sees its mutations *)
| OTupIter (xs : list value) (cur : nat)
| ORangeIter (e cur step : Z)
| OStrIter (s : list byte) (pos : nat)
| OScript (items : list value) (i : nat)      (* user class Script: items[i], may contain sentinels *)
| OCount (hi cur : Z)
| OForever (cur : Z)
| ODeck (cards : list value) (pos : nat)      (* user iterable Deck: iter() REWINDS (pos = 0) and returns self *)
| OBag (items : list value)                   (* user iterable Bag: iter() returns a separate cursor (Script); no next() *)
| OVBag (vid : nat)                           (* user iterable VBag: iter() returns the built-in iterator of its inner vec *)
| OChained (vid : nat) (k : Z)                (* user iterable Chained: iter() returns inner.iter().filter(even).map(+k) *)
| OWrapped (items : list value) (i : nat) (mode : wmode) (calls : nat)
| ORange (a e : Z)                            (* a Range VALUE a..e held in a variable / vec / field: iter() makes a RangeIter.
                                                 vm.rs build_range hands out ObjRange objects from an 8-entry cache keyed by
                                                 (begin, end); an ObjRange is never written after its creation (C16 models the
                                                 cache's bookkeeping), so the object a variable or a RangeIter holds keeps its
                                                 bounds however many other ranges are built *)
| OMap (f : fn) (inner : nat)                 (* MapIter { iterable, func } *)
| OFilter (p : pr) (inner : nat).             (* FilterIter { iterable, predicate } *)

Record store : Type := mkStore { heap : list iobj; vecs : list (list value) }.

Fixpoint upd {A} (l : list A) (i : nat) (x : A) : list A :=
  match l, i with
  | [], _ => []
  | _ :: t, O => x :: t
  | h :: t, S j => h :: upd t j x
  end.

Definition set_obj (st : store) (id : nat) (o : iobj) : store := mkStore (upd (heap st) id o) (vecs st).
Definition set_vec (st : store) (vid : nat) (xs : list value) : store := mkStore (heap st) (upd (vecs st) vid xs).
Definition get_vec (st : store) (vid : nat) : list value := nth vid (vecs st) [].
Definition alloc_obj (st : store) (o : iobj) : nat * store := (length (heap st), mkStore (heap st ++ [o]) (vecs st)).
Definition alloc_vec (st : store) (xs : list value) : nat * store := (length (vecs st), mkStore (heap st) (vecs st ++ [xs])).

(* the part of an object that never changes *)
Definition static (o : iobj) : iobj :=
  match o with
  | OVecIter vid _ => OVecIter vid 0
  | OTupIter xs _ => OTupIter xs 0
  | ORangeIter e _ step => ORangeIter e 0 step
  | OStrIter s _ => OStrIter s 0
  | OScript items _ => OScript items 0
  | OCount hi _ => OCount hi 0
  | OForever _ => OForever 0
  | ODeck cards _ => ODeck cards 0
  | OBag items => OBag items
  | OVBag vid => OVBag vid
  | OChained vid k => OChained vid k
  | ORange a e => ORange a e
  | OWrapped items _ mode _ => OWrapped items 0 mode 0
  | OMap f i => OMap f i
  | OFilter p i => OFilter p i
  end.

(* x.next() for the object [id]; None = out of fuel (FilterIter's while loop over an endless source).
   MapIter.next:    var next = self.iterable.next(); if next.derives(StopIter) { return next; } return self.func(next);
   FilterIter.next: var next = self.iterable.next();
                    while !next.derives(StopIter) && !self.predicate(next) { next = self.iterable.next(); } return next; *)
Fixpoint obj_next (fuel : nat) (st : store) (id : nat) : option (value * store) :=
  match fuel with
  | O => None
  | S k =>
    match nth_error (heap st) id with
    | None => Some (VNil, st)
    | Some o =>
      match o with
      | OVecIter vid cur =>
        let '(r, c) := vec_next (get_vec st vid) cur in Some (or_stop r, set_obj st id (OVecIter vid c))
      | OTupIter xs cur =>
        let '(r, c) := vec_next xs cur in Some (or_stop r, set_obj st id (OTupIter xs c))
      | ORangeIter e cur step =>
        let '(r, c) := range_next e cur step in Some (or_stop r, set_obj st id (ORangeIter e c step))
      | OStrIter s pos =>
        let '(r, p) := str_next s pos in Some (or_stop r, set_obj st id (OStrIter s p))
      | OScript items i =>
        let '(r, c) := vec_next items i in Some (or_stop r, set_obj st id (OScript items c))
      | OCount hi cur =>
        let '(r, c) := count_next hi cur in Some (or_stop r, set_obj st id (OCount hi c))
      | OForever cur =>
        let '(r, c) := forever_next cur in Some (or_stop r, set_obj st id (OForever c))
      | OWrapped items i mode calls =>
        let '(v, c) :=
          match mode with
          | WLimit n => if n <=? calls then (VStop, i) else let '(r, c) := vec_next items i in (or_stop r, c)
          | WScale k => let '(r, c) := vec_next items i in
                        (let v := or_stop r in if derives_stop v then v else apply_fn (MulK k) v, c)
          | WCount => let '(r, c) := vec_next items i in (or_stop r, c)
          end in
        Some (v, set_obj st id (OWrapped items c mode (S calls)))
      | ODeck cards pos =>
        let '(r, c) := vec_next cards pos in Some (or_stop r, set_obj st id (ODeck cards c))
      (* these iterables have no next(): AttributeError in the language; every consumer of core.yl calls iter()
         first (side condition C18_side_consumers_call_iter over gen/IterFns.v), so this is never reached *)
      | OBag _ | OVBag _ | OChained _ _ | ORange _ _ => Some (VNil, st)
      | OMap f inner =>
        match obj_next k st inner with
        | None => None
        | Some (v, st') => Some (if derives_stop v then v else apply_fn f v, st')
        end
      | OFilter p inner =>
        match obj_next k st inner with
        | None => None
        | Some (v, st') => if derives_stop v || apply_pr p v then Some (v, st') else obj_next k st' id
        end
      end
    end
  end.

(* x.iter(): Iter.iter / MapIter.iter / FilterIter.iter and the native iterators return the receiver; the user
   iterables of the prelude do real work *)
Definition obj_iter (st : store) (id : nat) : nat * store :=
  match nth_error (heap st) id with
  | Some (ODeck cards _) => (id, set_obj st id (ODeck cards 0))
  | Some (OBag items) => alloc_obj st (OScript items 0)
  | Some (OVBag vid) => alloc_obj st (OVecIter vid 0)
  | Some (OChained vid k) =>
    let '(a, s1) := alloc_obj st (OVecIter vid 0) in
    let '(c, s2) := alloc_obj s1 (OFilter IsEven a) in
    alloc_obj s2 (OMap (AddK k) c)
  | Some (ORange a e) => alloc_obj st (ORangeIter e (fst (range_new a e)) (snd (range_new a e)))
  | _ => (id, st)
  end.

(* n successive next() calls: the values, and the final store *)
Fixpoint nexts (fuel n : nat) (st : store) (id : nat) : option (list value * store) :=
  match n with
  | O => Some ([], st)
  | S m =>
    match obj_next fuel st id with
    | None => None
    | Some (v, st') =>
      match nexts fuel m st' id with
      | None => None
      | Some (vs, st'') => Some (v :: vs, st'')
      end
    end
  end.

(* ---------- the for protocol over an abstract state ----------
   compiler.rs for_statement:   Nil (loop variable) ; <iterable> ; Invoke iter 0 (hidden iterator local)
     loop_start: IterNext ; SetLocal v ; JumpIfStopIter exit ; Pop ; <body> ; Loop loop_start
     exit: Pop ; [break lands here] ; end_scope (pops iterator and loop variable)
   [nextf] = IterNext on the hidden iterator, [setv] = SetLocal, [body] returns a control outcome. *)
Inductive ctl : Type := CNormal | CBreak | CContinue | CReturn | CFuel.

Section ForProtocol.
  Context {M : Type}.
  Variable nextf : M -> option (value * M).
  Variable setv : M -> value -> M.
  Variable body : M -> ctl * M.

  Fixpoint for_rounds (fuel : nat) (m : M) : ctl * M :=
    match fuel with
    | O => (CFuel, m)
    | S k =>
      match nextf m with
      | None => (CFuel, m)
      | Some (v, m1) =>
        let m2 := setv m1 v in                      (* assigned BEFORE the end test *)
        if is_stop v then (CNormal, m2)             (* JumpIfStopIter *)
        else
          match body m2 with
          | (CNormal, m3) | (CContinue, m3) => for_rounds k m3
          | (CBreak, m3) => (CNormal, m3)
          | (c, m3) => (c, m3)
          end
      end
    end.
End ForProtocol.

(* Iter.collect / Iter.reduce of core.yl are for loops over `self`:
   var ret = init; for v in self { ret = func(ret, v); } return ret; *)
(* state of such a loop: accumulator, loop variable, store *)
Definition iter_fold {A : Type} (fuel ofuel : nat) (step : A -> value -> A) (init : A) (st : store) (id : nat)
  : ctl * (A * value * store) :=
  for_rounds (fun m : A * value * store =>
                match obj_next ofuel (snd m) id with
                | None => None
                | Some (v, st') => Some (v, (fst m, st'))
                end)
             (fun m v => (fst (fst m), v, snd m))
             (fun m => (CNormal, (step (fst (fst m)) (snd (fst m)), snd (fst m), snd m)))
             fuel (init, VNil, st).

Definition fold_loop (fuel ofuel : nat) (g : value -> value -> value) (init : value) (st : store) (id : nat) :=
  iter_fold fuel ofuel g init st id.
(* collect: the accumulator is the vector being built (ret.push(v)); kept as a list *)
Definition collect_loop (fuel ofuel : nat) (st : store) (id : nat) :=
  iter_fold fuel ofuel (fun (acc : list value) v => (acc ++ [v])%list) [] st id.
