(* C18 - proofs about the iteration Mechanism (IterModel) against the Spec (IterSpec). *)
From Coq Require Import String.
From Coq Require Import List ZArith NArith Bool Arith Lia.
From Coq Require Import Strings.Byte.
From YV Require Import Show Utf8 Utf8Proofs Index StrFns StrSpec StrProofs IterModel IterSpec.
Import ListNotations.
Local Open Scope nat_scope.

(* ------------------------------------------------------------------ *)
(* lists                                                               *)
(* ------------------------------------------------------------------ *)
Lemma upd_length : forall {A} (l : list A) i x, length (upd l i x) = length l.
Proof.
  intros A l. induction l as [|h t IH]; intros i x; [reflexivity|].
  destruct i as [|j]; cbn [upd length]; [reflexivity|]. rewrite IH. reflexivity.
Qed.

Lemma nth_error_upd_same : forall {A} (l : list A) i x, i < length l -> nth_error (upd l i x) i = Some x.
Proof.
  intros A l. induction l as [|h t IH]; intros i x H; [cbn in H; lia|].
  destruct i as [|j]; cbn [upd nth_error]; [reflexivity|]. apply IH. cbn in H. lia.
Qed.

Lemma nth_error_upd_other : forall {A} (l : list A) i j x, i <> j -> nth_error (upd l i x) j = nth_error l j.
Proof.
  intros A l. induction l as [|h t IH]; intros i j x H; [reflexivity|].
  destruct i as [|i']; destruct j as [|j']; cbn [upd nth_error]; try reflexivity; try lia.
  apply IH. lia.
Qed.

Lemma map_upd_same : forall {A B} (f : A -> B) (l : list A) i o o',
  nth_error l i = Some o -> f o' = f o -> map f (upd l i o') = map f l.
Proof.
  intros A B f l. induction l as [|h t IH]; intros i o o' H E; [reflexivity|].
  destruct i as [|j]; cbn [upd map nth_error] in *.
  - inversion H; subst. rewrite E. reflexivity.
  - f_equal. eapply IH; eauto.
Qed.

Lemma nth_error_lt : forall {A} (l : list A) i x, nth_error l i = Some x -> i < length l.
Proof. intros A l i x H. apply nth_error_Some. rewrite H. discriminate. Qed.

Lemma skipn_nth_error : forall {A} (l : list A) i x, nth_error l i = Some x -> skipn i l = x :: skipn (S i) l.
Proof.
  intros A l. induction l as [|h t IH]; intros i x H; [destruct i; discriminate|].
  destruct i as [|j]; cbn [nth_error] in H.
  - inversion H. reflexivity.
  - cbn [skipn]. rewrite (IH j x H). reflexivity.
Qed.

(* ------------------------------------------------------------------ *)
(* the sentinel test is the same at both sites                          *)
(* ------------------------------------------------------------------ *)
(* vm.rs jump_if_stop_iter and core.yl `derives(StopIter)` agree on every value *)
Theorem sentinel_uniform : forall v, is_stop v = derives_stop v.
Proof. intros v. destruct v; reflexivity. Qed.
Print Assumptions sentinel_uniform.

(* an instance of a SUBCLASS of StopIter ends a for loop (as it ends the adapters) *)
Example sentinel_derived_class : is_stop VSub = true /\ derives_stop VSub = true /\ is_stop VNil = false.
Proof. repeat split. Qed.

Lemma apply_fn_not_stop : forall f v, is_stop v = false -> is_stop (apply_fn f v) = false.
Proof. intros f v H. destruct f; destruct v; cbn in *; try reflexivity; try discriminate. Qed.

(* ------------------------------------------------------------------ *)
(* native cursors: next_enumerates (values of n successive calls)       *)
(* ------------------------------------------------------------------ *)
Lemma vec_next_lt : forall xs cur x, nth_error xs cur = Some x -> vec_next xs cur = (Some x, S cur).
Proof.
  intros xs cur x H. unfold vec_next. pose proof (nth_error_lt _ _ _ H) as L.
  replace (length xs <=? cur) with false by (symmetry; apply Nat.leb_gt; exact L). rewrite H. reflexivity.
Qed.

Lemma vec_next_ge : forall xs cur, length xs <= cur -> vec_next xs cur = (None, cur).
Proof. intros xs cur H. unfold vec_next. replace (length xs <=? cur) with true by (symmetry; apply Nat.leb_le; exact H). reflexivity. Qed.

(* a cursor as a pure state machine *)
Fixpoint run_cursor {S : Type} (step : S -> option value * S) (n : nat) (s : S) : list value :=
  match n with
  | O => []
  | S m => let '(r, s') := step s in or_stop r :: run_cursor step m s'
  end.

Lemma run_cursor_done : forall {S} (step : S -> option value * S) s n,
  step s = (None, s) -> run_cursor step n s = repeat VStop n.
Proof.
  intros S step s n H. induction n as [|n IH]; [reflexivity|].
  cbn [run_cursor repeat]. rewrite H. cbn [or_stop]. rewrite IH. reflexivity.
Qed.

Lemma firstn_app_repeat : forall {A} (xs : list A) (x : A) n,
  firstn n (xs ++ repeat x (S n)) = firstn n (xs ++ repeat x n).
Proof.
  intros A xs x n. rewrite !firstn_app. f_equal.
  rewrite !firstn_repeat by lia. reflexivity.
Qed.

(* vectors and tuples (and the user class Script): the elements from the cursor on, then the sentinel for ever *)
Theorem vec_next_enumerates : forall xs n cur,
  run_cursor (vec_next xs) n cur = firstn n (skipn cur xs ++ repeat VStop n).
Proof.
  intros xs n. induction n as [|n IH]; intros cur; [reflexivity|].
  cbn [run_cursor]. destruct (nth_error xs cur) as [x|] eqn:E.
  - rewrite (vec_next_lt _ _ _ E). cbn [or_stop]. rewrite (skipn_nth_error _ _ _ E).
    cbn [app firstn]. f_equal. rewrite IH. symmetry. apply firstn_app_repeat.
  - apply nth_error_None in E. rewrite (vec_next_ge _ _ E). cbn [or_stop].
    rewrite skipn_all2 by exact E. cbn [app repeat firstn]. f_equal.
    rewrite (run_cursor_done (vec_next xs) cur n (vec_next_ge _ _ E)).
    rewrite firstn_all2 by (rewrite repeat_length; lia). reflexivity.
Qed.
Print Assumptions vec_next_enumerates.

(* ranges: ascending and descending walks terminate for all bounds *)
Definition range_step (e : Z) (s : Z * Z) : option value * (Z * Z) :=
  let '(r, c) := range_next e (fst s) (snd s) in (r, (c, snd s)).

Lemma z_up_succ_firstn : forall k a n, firstn n (z_up a k ++ repeat VStop (S n)) = firstn n (z_up a k ++ repeat VStop n).
Proof. intros. apply firstn_app_repeat. Qed.

Lemma range_up_enumerates : forall k n cur e, (e - cur = Z.of_nat k)%Z ->
  run_cursor (range_step e) n (cur, 1%Z) = firstn n (z_up cur k ++ repeat VStop n).
Proof.
  induction k as [|k IH]; intros n cur e H.
  - assert (cur = e) by lia. subst cur. cbn [z_up app].
    rewrite (run_cursor_done (range_step e) (e, 1%Z) n).
    + rewrite firstn_all2 by (rewrite repeat_length; lia). reflexivity.
    + unfold range_step, range_next. cbn [fst snd]. rewrite Z.eqb_refl. reflexivity.
  - destruct n as [|n]; [reflexivity|]. cbn [run_cursor].
    unfold range_step at 1, range_next. cbn [fst snd].
    replace (cur =? e)%Z with false by (symmetry; apply Z.eqb_neq; lia).
    cbn [or_stop z_up app firstn]. f_equal.
    rewrite (IH n (cur + 1)%Z e) by lia. symmetry. apply firstn_app_repeat.
Qed.

Lemma range_down_enumerates : forall k n cur e, (cur - e = Z.of_nat k)%Z ->
  run_cursor (range_step e) n (cur, (-1)%Z) = firstn n (z_down cur k ++ repeat VStop n).
Proof.
  induction k as [|k IH]; intros n cur e H.
  - assert (cur = e) by lia. subst cur. cbn [z_down app].
    rewrite (run_cursor_done (range_step e) (e, (-1)%Z) n).
    + rewrite firstn_all2 by (rewrite repeat_length; lia). reflexivity.
    + unfold range_step, range_next. cbn [fst snd]. rewrite Z.eqb_refl. reflexivity.
  - destruct n as [|n]; [reflexivity|]. cbn [run_cursor].
    unfold range_step at 1, range_next. cbn [fst snd].
    replace (cur =? e)%Z with false by (symmetry; apply Z.eqb_neq; lia).
    cbn [or_stop z_down app firstn]. f_equal.
    replace (cur + -1)%Z with (cur - 1)%Z by lia.
    rewrite (IH n (cur - 1)%Z e) by lia. symmetry. apply firstn_app_repeat.
Qed.

Theorem range_next_enumerates : forall a e n,
  run_cursor (range_step e) n (range_new a e) = firstn n (range_elements a e ++ repeat VStop n).
Proof.
  intros a e n. unfold range_new, range_elements. destruct (a <? e)%Z eqn:L.
  - apply Z.ltb_lt in L. apply range_up_enumerates. rewrite Z2Nat.id by lia. reflexivity.
  - apply Z.ltb_ge in L. apply range_down_enumerates. rewrite Z2Nat.id by lia. reflexivity.
Qed.
Print Assumptions range_next_enumerates.

(* a = e yields nothing; a > e descends, end excluded *)
Example range_examples :
  range_elements 3 3 = [] /\ range_elements 2 (-2) = [VNum 2; VNum 1; VNum 0; VNum (-1)]
  /\ range_elements (-2) 1 = [VNum (-2); VNum (-1); VNum 0].
Proof. repeat split. Qed.

(* strings: one-character strings, by StrProofs.iter_visits_chars *)
Definition conv_res (r : res) : value :=
  match r with Ok (RStr t) => VStr t | _ => VStop end.

Lemma str_cursor_collect : forall s n pos, run_cursor (str_next s) n pos = map conv_res (iter_collect s pos n).
Proof.
  intros s n. induction n as [|n IH]; intros pos; [reflexivity|].
  cbn [run_cursor iter_collect]. unfold str_next.
  destruct (string_iter_next s pos []) as [r p] eqn:E.
  destruct r as [rv|e]; [destruct rv|]; cbn [map conv_res or_stop]; rewrite IH; reflexivity.
Qed.

Theorem str_next_enumerates : forall s n, valid_utf8 s = true ->
  run_cursor (str_next s) n 0 = firstn n (map VStr (chars s) ++ repeat VStop n).
Proof.
  intros s n H. rewrite str_cursor_collect. rewrite (iter_visits_chars s n H). unfold spec_iter.
  rewrite <- firstn_map. rewrite map_app. rewrite map_map. cbn [conv_res].
  f_equal. f_equal. clear. induction n as [|n IH]; [reflexivity|]. cbn [repeat map conv_res]. rewrite IH. reflexivity.
Qed.
Print Assumptions str_next_enumerates.

(* the user iterator Count *)
Theorem count_next_enumerates : forall k n cur hi, (hi - cur = Z.of_nat k)%Z ->
  run_cursor (count_next hi) n cur = firstn n (z_up cur k ++ repeat VStop n).
Proof.
  induction k as [|k IH]; intros n cur hi H.
  - cbn [z_up app]. rewrite (run_cursor_done (count_next hi) cur n).
    + rewrite firstn_all2 by (rewrite repeat_length; lia). reflexivity.
    + unfold count_next. replace (hi <=? cur)%Z with true by (symmetry; apply Z.leb_le; lia). reflexivity.
  - destruct n as [|n]; [reflexivity|]. cbn [run_cursor]. unfold count_next at 1.
    replace (hi <=? cur)%Z with false by (symmetry; apply Z.leb_gt; lia).
    cbn [or_stop z_up app firstn]. f_equal. rewrite (IH n (cur + 1)%Z hi) by lia.
    symmetry. apply firstn_app_repeat.
Qed.

(* next_enumerates, all kinds together: n calls on a fresh iterator give the elements in order, then the
   sentinel for ever *)
Theorem next_enumerates : forall n,
  (forall xs, run_cursor (vec_next xs) n 0 = firstn n (elements (SrcVec xs) ++ repeat VStop n)) /\
  (forall xs, run_cursor (vec_next xs) n 0 = firstn n (elements (SrcTup xs) ++ repeat VStop n)) /\
  (forall a e, run_cursor (range_step e) n (range_new a e) = firstn n (elements (SrcRange a e) ++ repeat VStop n)) /\
  (forall s, valid_utf8 s = true -> run_cursor (str_next s) n 0 = firstn n (elements (SrcStr s) ++ repeat VStop n)) /\
  (forall lo hi, run_cursor (count_next hi) n lo = firstn n (elements (SrcCount lo hi) ++ repeat VStop n)).
Proof.
  intros n. repeat split.
  - intros xs. apply (vec_next_enumerates xs n 0).
  - intros xs. apply (vec_next_enumerates xs n 0).
  - intros a e. apply range_next_enumerates.
  - intros s H. apply str_next_enumerates. exact H.
  - intros lo hi. cbn [elements]. destruct (Z_le_gt_dec hi lo) as [L|L].
    + replace (Z.to_nat (hi - lo)) with 0 by lia. cbn [z_up app].
      rewrite (run_cursor_done (count_next hi) lo n).
      * rewrite firstn_all2 by (rewrite repeat_length; lia). reflexivity.
      * unfold count_next. replace (hi <=? lo)%Z with true by (symmetry; apply Z.leb_le; lia). reflexivity.
    + apply count_next_enumerates. rewrite Z2Nat.id by lia. reflexivity.
Qed.
Print Assumptions next_enumerates.

(* ------------------------------------------------------------------ *)
(* iterator objects on the heap                                         *)
(* ------------------------------------------------------------------ *)
(* a step never changes the static part of any object, nor any vector *)
Lemma obj_next_static : forall k st id v st', obj_next k st id = Some (v, st') ->
  map static (heap st') = map static (heap st) /\ vecs st' = vecs st.
Proof.
  induction k as [|k IH]; intros st id v st' H; [discriminate|].
  cbn [obj_next] in H. destruct (nth_error (heap st) id) as [o|] eqn:E.
  2:{ inversion H; subst. split; reflexivity. }
  destruct o.
  - destruct (vec_next (get_vec st vid) cur) as [r c]. inversion H; subst. cbn [set_obj heap vecs]. split; [|reflexivity].
    eapply map_upd_same; [exact E|reflexivity].
  - destruct (vec_next xs cur) as [r c]. inversion H; subst. cbn [set_obj heap vecs]. split; [|reflexivity].
    eapply map_upd_same; [exact E|reflexivity].
  - destruct (range_next e cur step) as [r c]. inversion H; subst. cbn [set_obj heap vecs]. split; [|reflexivity].
    eapply map_upd_same; [exact E|reflexivity].
  - destruct (str_next s pos) as [r c]. inversion H; subst. cbn [set_obj heap vecs]. split; [|reflexivity].
    eapply map_upd_same; [exact E|reflexivity].
  - destruct (vec_next items i) as [r c]. inversion H; subst. cbn [set_obj heap vecs]. split; [|reflexivity].
    eapply map_upd_same; [exact E|reflexivity].
  - destruct (count_next hi cur) as [r c]. inversion H; subst. cbn [set_obj heap vecs]. split; [|reflexivity].
    eapply map_upd_same; [exact E|reflexivity].
  - destruct (forever_next cur) as [r c]. inversion H; subst. cbn [set_obj heap vecs]. split; [|reflexivity].
    eapply map_upd_same; [exact E|reflexivity].
  - destruct (vec_next cards pos) as [r c]. inversion H; subst. cbn [set_obj heap vecs]. split; [|reflexivity].
    eapply map_upd_same; [exact E|reflexivity].
  - inversion H; subst. split; reflexivity.
  - inversion H; subst. split; reflexivity.
  - inversion H; subst. split; reflexivity.
  - match type of H with (let '(_, _) := ?X in _) = _ => destruct X as [w c] end.
    inversion H; subst. cbn [set_obj heap vecs]. split; [|reflexivity].
    eapply map_upd_same; [exact E|reflexivity].
  - inversion H; subst. split; reflexivity.
  - destruct (obj_next k st inner) as [[w st1]|] eqn:E1; [|discriminate]. inversion H; subst. eapply IH; eauto.
  - destruct (obj_next k st inner) as [[w st1]|] eqn:E1; [|discriminate].
    destruct (IH _ _ _ _ E1) as [A1 A2].
    destruct (derives_stop w || apply_pr p w).
    + inversion H; subst. split; assumption.
    + destruct (IH _ _ _ _ H) as [B1 B2]. split; congruence.
Qed.

Lemma static_adapter : forall o f i, static o = OMap f i -> o = OMap f i.
Proof. intros o f i H. destruct o; cbn in H; try discriminate; exact H. Qed.
Lemma static_adapter' : forall o p i, static o = OFilter p i -> o = OFilter p i.
Proof. intros o p i H. destruct o; cbn in H; try discriminate; exact H. Qed.

Lemma lookup_static : forall h h' id o, map static h' = map static h -> nth_error h id = Some o ->
  exists o', nth_error h' id = Some o' /\ static o' = static o.
Proof.
  intros h h' id o M E. assert (X : nth_error (map static h') id = nth_error (map static h) id) by (rewrite M; reflexivity).
  rewrite !nth_error_map, E in X. destruct (nth_error h' id) as [o'|]; cbn in X; [|discriminate].
  exists o'. split; [reflexivity|]. inversion X. reflexivity.
Qed.

Lemma map_survives : forall k st id v st' mid f i, obj_next k st id = Some (v, st') ->
  nth_error (heap st) mid = Some (OMap f i) -> nth_error (heap st') mid = Some (OMap f i).
Proof.
  intros k st id v st' mid f i H E. destruct (obj_next_static _ _ _ _ _ H) as [M _].
  destruct (lookup_static _ _ _ _ M E) as [o' [E' S]]. rewrite E'. f_equal. apply static_adapter. exact S.
Qed.
Lemma filter_survives : forall k st id v st' mid p i, obj_next k st id = Some (v, st') ->
  nth_error (heap st) mid = Some (OFilter p i) -> nth_error (heap st') mid = Some (OFilter p i).
Proof.
  intros k st id v st' mid p i H E. destruct (obj_next_static _ _ _ _ _ H) as [M _].
  destruct (lookup_static _ _ _ _ M E) as [o' [E' S]]. rewrite E'. f_equal. apply static_adapter'. exact S.
Qed.

(* [Steps F st id v st']: with fuel F or more, x.next() returns v and leaves the store st' *)
Definition Steps (F : nat) (st : store) (id : nat) (v : value) (st' : store) : Prop :=
  forall k, F <= k -> obj_next k st id = Some (v, st').

(* [Rep F st id l]: the object [id] will hand out exactly l, in order, and then a sentinel *)
Inductive Rep (F : nat) : store -> nat -> list value -> Prop :=
| Rep_nil : forall st id v st', is_stop v = true -> Steps F st id v st' -> Rep F st id []
| Rep_cons : forall st id x l st', is_stop x = false -> Steps F st id x st' -> Rep F st' id l -> Rep F st id (x :: l).

Lemma Steps_mono : forall F F' st id v st', F <= F' -> Steps F st id v st' -> Steps F' st id v st'.
Proof. intros F F' st id v st' L H k Hk. apply H. lia. Qed.

Lemma Rep_mono : forall F F' st id l, F <= F' -> Rep F st id l -> Rep F' st id l.
Proof.
  intros F F' st id l L H. induction H.
  - eapply Rep_nil; eauto using Steps_mono.
  - eapply Rep_cons; eauto using Steps_mono.
Qed.

(* MapIter over an object that hands out l hands out map f l *)
Theorem rep_map : forall F st inner l, Rep F st inner l -> forall mid f,
  nth_error (heap st) mid = Some (OMap f inner) -> Rep (S F) st mid (map (apply_fn f) l).
Proof.
  intros F st inner l H. induction H as [st id v st' Hv Hs|st id x l st' Hx Hs Hr IH]; intros mid f E.
  - cbn [map]. eapply Rep_nil; [exact Hv|]. intros k Hk. destruct k as [|k]; [lia|].
    cbn [obj_next]. rewrite E. rewrite (Hs k) by lia. rewrite <- sentinel_uniform, Hv. reflexivity.
  - cbn [map]. eapply Rep_cons with (st' := st').
    + apply apply_fn_not_stop. exact Hx.
    + intros k Hk. destruct k as [|k]; [lia|]. cbn [obj_next]. rewrite E. rewrite (Hs k) by lia.
      rewrite <- sentinel_uniform, Hx. reflexivity.
    + apply IH. eapply map_survives; [apply (Hs F); lia|exact E].
Qed.

Lemma rep_skip : forall F st st' fid l,
  (forall k, F <= k -> obj_next (S k) st fid = obj_next k st' fid) ->
  Rep F st' fid l -> Rep (S F) st fid l.
Proof.
  intros F st st' fid l Hk H. inversion H; subst.
  - eapply Rep_nil; [eassumption|]. intros k Hk'. destruct k as [|k]; [lia|]. rewrite Hk by lia. apply H1. lia.
  - eapply Rep_cons; [eassumption| |eapply Rep_mono; [|eassumption]; lia].
    intros k Hk'. destruct k as [|k]; [lia|]. rewrite Hk by lia. apply H1. lia.
Qed.

(* FilterIter over an object that hands out l hands out filter p l *)
Theorem rep_filter : forall F st inner l, Rep F st inner l -> forall fid p,
  nth_error (heap st) fid = Some (OFilter p inner) -> Rep (F + length l + 1) st fid (filter (apply_pr p) l).
Proof.
  intros F st inner l H. induction H as [st id v st' Hv Hs|st id x l st' Hx Hs Hr IH]; intros fid p E.
  - cbn [filter length]. eapply Rep_nil; [exact Hv|]. intros k Hk. destruct k as [|k]; [lia|].
    cbn [obj_next]. rewrite E. rewrite (Hs k) by lia. rewrite <- sentinel_uniform, Hv. reflexivity.
  - assert (E' : nth_error (heap st') fid = Some (OFilter p id)) by (eapply filter_survives; [apply (Hs F); lia|exact E]).
    specialize (IH fid p E'). cbn [filter length]. destruct (apply_pr p x) eqn:P.
    + eapply Rep_cons with (st' := st'); [exact Hx| |eapply Rep_mono; [|exact IH]; lia].
      intros k Hk. destruct k as [|k]; [lia|]. cbn [obj_next]. rewrite E. rewrite (Hs k) by lia.
      rewrite P, orb_true_r. reflexivity.
    + replace (F + S (length l) + 1) with (S (F + length l + 1)) by lia.
      eapply rep_skip; [|exact IH]. intros k Hk. cbn [obj_next]. rewrite E. rewrite (Hs k) by lia.
      rewrite <- sentinel_uniform, Hx, P. reflexivity.
Qed.

(* chains of adapter objects: [Chain st x ops top] = top is ops (innermost first) stacked on the object x *)
Inductive Chain (st : store) (x : nat) : list op -> nat -> Prop :=
| Chain_nil : Chain st x [] x
| Chain_map : forall ops mid top f, Chain st x ops mid -> nth_error (heap st) top = Some (OMap f mid) ->
    Chain st x (ops ++ [OpMap f]) top
| Chain_filter : forall ops mid top p, Chain st x ops mid -> nth_error (heap st) top = Some (OFilter p mid) ->
    Chain st x (ops ++ [OpFilter p]) top.

Lemma chain_spec_snoc : forall ops o l, chain_spec (ops ++ [o]) l = apply_op o (chain_spec ops l).
Proof. intros ops o l. unfold chain_spec. rewrite fold_left_app. reflexivity. Qed.

Theorem rep_chain : forall st x ops top, Chain st x ops top -> forall F l, Rep F st x l ->
  exists F', Rep F' st top (chain_spec ops l).
Proof.
  intros st x ops top C. induction C as [|ops mid top f C IH E|ops mid top p C IH E]; intros F l R.
  - exists F. exact R.
  - destruct (IH F l R) as [F' R']. exists (S F'). rewrite chain_spec_snoc. cbn [apply_op].
    eapply rep_map; eauto.
  - destruct (IH F l R) as [F' R']. eexists. rewrite chain_spec_snoc. cbn [apply_op].
    eapply rep_filter; eauto.
Qed.

(* ------------------------------------------------------------------ *)
(* the for protocol                                                     *)
(* ------------------------------------------------------------------ *)
Section ForVisits.
  Context {M : Type}.
  Variable nextf : M -> option (value * M).
  Variable setv : M -> value -> M.
  Variable body : M -> ctl * M.
  (* [R m l]: in state m the hidden iterator denotes l *)
  Variable R : M -> list value -> Prop.
  Hypothesis R_nil : forall m, R m [] -> exists v m', nextf m = Some (v, m') /\ is_stop v = true.
  Hypothesis R_cons : forall m x l, R m (x :: l) ->
    is_stop x = false /\ exists m', nextf m = Some (x, m') /\
      (forall m3, snd (body (setv m' x)) = m3 -> R m3 l).

  (* what the loop must do: the body runs once per element, in order, the loop variable holding that
     element, until a break / return; the states are threaded through IterNext *)
  Fixpoint visit (l : list value) (m : M) : ctl * M :=
    match nextf m with
    | None => (CFuel, m)
    | Some (v, m1) =>
      match l with
      | [] => (CNormal, setv m1 v)
      | x :: r =>
        match body (setv m1 x) with
        | (CNormal, m3) | (CContinue, m3) => visit r m3
        | (CBreak, m3) => (CNormal, m3)
        | (c, m3) => (c, m3)
        end
      end
    end.

  Theorem for_rounds_visits : forall l m fuel, R m l -> length l < fuel ->
    for_rounds nextf setv body fuel m = visit l m.
  Proof.
    induction l as [|x l IH]; intros m fuel H L.
    - destruct fuel as [|k]; [cbn in L; lia|]. destruct (R_nil m H) as [v [m' [E S]]].
      cbn [for_rounds visit]. rewrite E, S. reflexivity.
    - destruct fuel as [|k]; [cbn in L; lia|]. destruct (R_cons m x l H) as [S [m' [E B]]].
      cbn [for_rounds visit]. rewrite E, S.
      destruct (body (setv m' x)) as [c m3] eqn:EB. specialize (B m3 eq_refl).
      destruct c; try reflexivity; apply IH; try exact B; cbn in L; lia.
  Qed.
End ForVisits.

(* collect / reduce (for loops of core.yl over `self`) over an object that hands out l *)
Theorem iter_fold_rep : forall {A} (step : A -> value -> A) F st id l, Rep F st id l ->
  forall fuel ofuel init v0, F <= ofuel -> length l < fuel ->
  exists v st',
    for_rounds (fun m : A * value * store =>
                  match obj_next ofuel (snd m) id with None => None | Some (v, st') => Some (v, (fst m, st')) end)
               (fun m v => (fst (fst m), v, snd m))
               (fun m => (CNormal, (step (fst (fst m)) (snd (fst m)), snd (fst m), snd m)))
               fuel (init, v0, st)
    = (CNormal, (fold_left step l init, v, st')).
Proof.
  intros A step F st id l H. induction H as [st id v st' Hv Hs|st id x l st' Hx Hs Hr IH]; intros fuel ofuel init v0 LF L.
  - destruct fuel as [|k]; [cbn in L; lia|]. cbn [for_rounds snd fst]. rewrite (Hs ofuel LF). cbn [fst snd]. rewrite Hv.
    exists v, st'. reflexivity.
  - destruct fuel as [|k]; [cbn in L; lia|]. cbn [for_rounds snd fst]. rewrite (Hs ofuel LF). cbn [fst snd]. rewrite Hx.
    cbn [fold_left]. apply IH; [exact LF|cbn in L; lia].
Qed.

Lemma fold_snoc : forall (l acc : list value), fold_left (fun (a : list value) v => (a ++ [v])%list) l acc = (acc ++ l)%list.
Proof.
  induction l as [|x l IH]; intros acc; cbn [fold_left]; [rewrite app_nil_r; reflexivity|].
  rewrite IH, <- app_assoc. reflexivity.
Qed.

(* map_filter_collect_reduce_spec: for EVERY chain of MapIter / FilterIter objects over an object that hands
   out l, collect() builds chain_spec ops l = List.map / List.filter composed, and reduce(g, init) returns
   fold_left g of it *)
Theorem map_filter_collect_reduce_spec : forall st x ops top F l, Chain st x ops top -> Rep F st x l ->
  exists F', forall ofuel fuel, F' <= ofuel -> length (chain_spec ops l) < fuel ->
    (exists v st', collect_loop fuel ofuel st top = (CNormal, (chain_spec ops l, v, st'))) /\
    (forall g init, exists v st',
        fold_loop fuel ofuel (apply_rd g) init st top = (CNormal, (fold_left (apply_rd g) (chain_spec ops l) init, v, st'))).
Proof.
  intros st x ops top F l C R. destruct (rep_chain _ _ _ _ C F l R) as [F' R']. exists F'.
  intros ofuel fuel LF L. split.
  - unfold collect_loop, iter_fold.
    destruct (iter_fold_rep (fun (acc : list value) v => (acc ++ [v])%list) F' st top _ R' fuel ofuel [] VNil LF L) as [v [st' E]].
    exists v, st'. rewrite E. rewrite fold_snoc. reflexivity.
  - intros g init. unfold fold_loop, iter_fold.
    destruct (iter_fold_rep (apply_rd g) F' st top _ R' fuel ofuel init VNil LF L) as [v [st' E]].
    exists v, st'. exact E.
Qed.
Print Assumptions map_filter_collect_reduce_spec.

(* ------------------------------------------------------------------ *)
(* native objects on the heap hand out their elements                   *)
(* ------------------------------------------------------------------ *)
Lemma is_stop_num : forall z, is_stop (VNum z) = false. Proof. reflexivity. Qed.
Lemma is_stop_str : forall s, is_stop (VStr s) = false. Proof. reflexivity. Qed.

Lemma until_stop_id : forall l, Forall (fun v => is_stop v = false) l -> until_stop l = l.
Proof. induction 1 as [|x l H F IH]; [reflexivity|]. cbn [until_stop]. rewrite H, IH. reflexivity. Qed.

(* objects that read position [cur] of a list *)
Definition veclike (st : store) (o : iobj) : option (list value * nat * (nat -> iobj)) :=
  match o with
  | OVecIter vid cur => Some (get_vec st vid, cur, OVecIter vid)
  | OTupIter xs cur => Some (xs, cur, OTupIter xs)
  | OScript xs cur => Some (xs, cur, OScript xs)
  | ODeck xs cur => Some (xs, cur, ODeck xs)
  | _ => None
  end.

Lemma veclike_step : forall st id o xs cur mk k, nth_error (heap st) id = Some o ->
  veclike st o = Some (xs, cur, mk) ->
  obj_next (S k) st id = (let '(r, c) := vec_next xs cur in Some (or_stop r, set_obj st id (mk c))).
Proof.
  intros st id o xs cur mk k E V. cbn [obj_next]. rewrite E.
  destruct o; cbn [veclike] in V; try discriminate; inversion V; subst; reflexivity.
Qed.

Lemma veclike_set : forall st id o xs cur mk c, veclike st o = Some (xs, cur, mk) ->
  veclike (set_obj st id (mk c)) (mk c) = Some (xs, c, mk).
Proof.
  intros st id o xs cur mk c V. destruct o; cbn [veclike] in V; try discriminate; inversion V; subst; reflexivity.
Qed.

Lemma rep_veclike : forall n st id o xs cur mk, nth_error (heap st) id = Some o ->
  veclike st o = Some (xs, cur, mk) -> length xs - cur = n ->
  Rep 1 st id (until_stop (skipn cur xs)).
Proof.
  induction n as [|n IH]; intros st id o xs cur mk E V L.
  - rewrite skipn_all2 by lia. cbn [until_stop]. eapply Rep_nil with (v := VStop); [reflexivity|].
    intros k Hk. destruct k as [|k]; [lia|]. rewrite (veclike_step _ _ _ _ _ _ k E V).
    rewrite vec_next_ge by lia. reflexivity.
  - destruct (nth_error xs cur) as [x|] eqn:EX; [|apply nth_error_None in EX; lia].
    rewrite (skipn_nth_error _ _ _ EX). cbn [until_stop].
    assert (ST : Steps 1 st id x (set_obj st id (mk (S cur)))).
    { intros k Hk. destruct k as [|k]; [lia|]. rewrite (veclike_step _ _ _ _ _ _ k E V).
      rewrite (vec_next_lt _ _ _ EX). reflexivity. }
    destruct (is_stop x) eqn:SX.
    + eapply Rep_nil; eauto.
    + eapply Rep_cons; [exact SX|exact ST|].
      eapply IH with (o := mk (S cur)) (mk := mk).
      * cbn [set_obj heap]. apply nth_error_upd_same. eapply nth_error_lt; eauto.
      * eapply veclike_set; eauto.
      * lia.
Qed.

Lemma rep_range_up : forall k st id e cur, nth_error (heap st) id = Some (ORangeIter e cur 1) ->
  (e - cur = Z.of_nat k)%Z -> Rep 1 st id (z_up cur k).
Proof.
  induction k as [|k IH]; intros st id e cur E H.
  - cbn [z_up]. eapply Rep_nil with (v := VStop); [reflexivity|]. intros j Hj. destruct j as [|j]; [lia|].
    cbn [obj_next]. rewrite E. unfold range_next. replace (cur =? e)%Z with true by (symmetry; apply Z.eqb_eq; lia). reflexivity.
  - cbn [z_up]. eapply Rep_cons with (st' := set_obj st id (ORangeIter e (cur + 1) 1)); [reflexivity| |].
    + intros j Hj. destruct j as [|j]; [lia|]. cbn [obj_next]. rewrite E. unfold range_next.
      replace (cur =? e)%Z with false by (symmetry; apply Z.eqb_neq; lia). reflexivity.
    + apply (IH _ _ e); [|lia]. cbn [set_obj heap]. apply nth_error_upd_same. eapply nth_error_lt; eauto.
Qed.

Lemma rep_range_down : forall k st id e cur, nth_error (heap st) id = Some (ORangeIter e cur (-1)) ->
  (cur - e = Z.of_nat k)%Z -> Rep 1 st id (z_down cur k).
Proof.
  induction k as [|k IH]; intros st id e cur E H.
  - cbn [z_down]. eapply Rep_nil with (v := VStop); [reflexivity|]. intros j Hj. destruct j as [|j]; [lia|].
    cbn [obj_next]. rewrite E. unfold range_next. replace (cur =? e)%Z with true by (symmetry; apply Z.eqb_eq; lia). reflexivity.
  - cbn [z_down]. eapply Rep_cons with (st' := set_obj st id (ORangeIter e (cur - 1) (-1))); [reflexivity| |].
    + intros j Hj. destruct j as [|j]; [lia|]. cbn [obj_next]. rewrite E. unfold range_next.
      replace (cur =? e)%Z with false by (symmetry; apply Z.eqb_neq; lia).
      replace (cur + -1)%Z with (cur - 1)%Z by lia. reflexivity.
    + apply (IH _ _ e); [|lia]. cbn [set_obj heap]. apply nth_error_upd_same. eapply nth_error_lt; eauto.
Qed.

Lemma rep_range : forall st id a e, nth_error (heap st) id = Some (ORangeIter e (fst (range_new a e)) (snd (range_new a e))) ->
  Rep 1 st id (range_elements a e).
Proof.
  intros st id a e E. unfold range_new in E. unfold range_elements. destruct (a <? e)%Z eqn:L; cbn [fst snd] in E.
  - apply Z.ltb_lt in L. eapply rep_range_up; [exact E|]. rewrite Z2Nat.id by lia. reflexivity.
  - apply Z.ltb_ge in L. eapply rep_range_down; [exact E|]. rewrite Z2Nat.id by lia. reflexivity.
Qed.

Lemma rep_count : forall k st id hi cur, nth_error (heap st) id = Some (OCount hi cur) ->
  ((hi - cur = Z.of_nat k)%Z \/ (k = 0 /\ (hi <= cur)%Z)) -> Rep 1 st id (z_up cur k).
Proof.
  induction k as [|k IH]; intros st id hi cur E H.
  - cbn [z_up]. eapply Rep_nil with (v := VStop); [reflexivity|]. intros j Hj. destruct j as [|j]; [lia|].
    cbn [obj_next]. rewrite E. unfold count_next. replace (hi <=? cur)%Z with true by (symmetry; apply Z.leb_le; lia). reflexivity.
  - cbn [z_up]. eapply Rep_cons with (st' := set_obj st id (OCount hi (cur + 1))); [reflexivity| |].
    + intros j Hj. destruct j as [|j]; [lia|]. cbn [obj_next]. rewrite E. unfold count_next.
      replace (hi <=? cur)%Z with false by (symmetry; apply Z.leb_gt; lia). reflexivity.
    + apply (IH _ _ hi); [|lia]. cbn [set_obj heap]. apply nth_error_upd_same. eapply nth_error_lt; eauto.
Qed.

Lemma rep_str : forall post pre s st id, Forall is_char post -> s = (pre ++ concat post)%list ->
  nth_error (heap st) id = Some (OStrIter s (length pre)) -> Rep 1 st id (map VStr post).
Proof.
  induction post as [|c post IH]; intros pre s st id F Hs E.
  - cbn [concat map] in *. rewrite app_nil_r in Hs. subst s. eapply Rep_nil with (v := VStop); [reflexivity|].
    intros j Hj. destruct j as [|j]; [lia|]. cbn [obj_next]. rewrite E. unfold str_next. rewrite iter_next_end. reflexivity.
  - apply Forall_cons_iff in F. destruct F as [Fc Fp]. cbn [concat] in Hs. cbn [map].
    pose proof (is_char_shaped c Fc) as Sc. pose proof (shaped_nonempty c Sc) as Lc.
    assert (Hsk : skipn (length pre) s = (c ++ concat post)%list).
    { rewrite Hs. rewrite skipn_app, Nat.sub_diag, skipn_all. reflexivity. }
    assert (Hho : head_ok (concat post) = true).
    { apply concat_head_ok. eapply Forall_impl; [|exact Fp]. apply is_char_shaped. }
    assert (Hlt : length pre < length s) by (rewrite Hs, !app_length; lia).
    eapply Rep_cons with (st' := set_obj st id (OStrIter s (length pre + length c))); [reflexivity| |].
    + intros j Hj. destruct j as [|j]; [lia|]. cbn [obj_next]. rewrite E. unfold str_next.
      rewrite (iter_next_char s (length pre) c (concat post) Hlt Hsk Sc Hho). reflexivity.
    + replace (length pre + length c) with (length (pre ++ c)) by apply app_length.
      apply (IH (pre ++ c)%list s); [exact Fp|rewrite Hs, app_assoc; reflexivity|].
      cbn [set_obj heap]. rewrite app_length. apply nth_error_upd_same. eapply nth_error_lt; eauto.
Qed.

(* a fresh native iterator (cursor at the start) hands out the elements the iterable denotes *)
Theorem fresh_iter_rep : forall st id,
  (forall vid, nth_error (heap st) id = Some (OVecIter vid 0) -> Rep 1 st id (until_stop (get_vec st vid))) /\
  (forall xs, nth_error (heap st) id = Some (OTupIter xs 0) -> Rep 1 st id (until_stop xs)) /\
  (forall xs, nth_error (heap st) id = Some (OScript xs 0) -> Rep 1 st id (elements (SrcScript xs))) /\
  (forall a e, nth_error (heap st) id = Some (ORangeIter e (fst (range_new a e)) (snd (range_new a e))) ->
               Rep 1 st id (elements (SrcRange a e))) /\
  (forall s, valid_utf8 s = true -> nth_error (heap st) id = Some (OStrIter s 0) -> Rep 1 st id (elements (SrcStr s))) /\
  (forall lo hi, nth_error (heap st) id = Some (OCount hi lo) -> Rep 1 st id (elements (SrcCount lo hi))).
Proof.
  intros st id. repeat split.
  - intros vid E. eapply (rep_veclike _ st id _ (get_vec st vid) 0 (OVecIter vid)); [exact E|reflexivity|reflexivity].
  - intros xs E. eapply (rep_veclike _ st id _ xs 0 (OTupIter xs)); [exact E|reflexivity|reflexivity].
  - intros xs E. cbn [elements]. eapply (rep_veclike _ st id _ xs 0 (OScript xs)); [exact E|reflexivity|reflexivity].
  - intros a e E. apply rep_range. exact E.
  - intros s V E. cbn [elements]. apply (rep_str (chars s) [] s); [apply chars_is_char| |exact E].
    cbn [app]. symmetry. apply chars_concat. exact V.
  - intros lo hi E. cbn [elements]. eapply rep_count; [exact E|].
    destruct (Z_le_gt_dec hi lo) as [L|L]; [right|left].
    + split; lia.
    + rewrite Z2Nat.id by lia. reflexivity.
Qed.
Print Assumptions fresh_iter_rep.

(* ------------------------------------------------------------------ *)
(* independence of iterators                                            *)
(* ------------------------------------------------------------------ *)
Definition is_native (o : iobj) : bool :=
  match o with OMap _ _ | OFilter _ _ | OBag _ | OVBag _ | OChained _ _ | ORange _ _ => false | _ => true end.

Lemma native_step_frame : forall k st id o v st', nth_error (heap st) id = Some o -> is_native o = true ->
  obj_next k st id = Some (v, st') ->
  vecs st' = vecs st /\ forall j, j <> id -> nth_error (heap st') j = nth_error (heap st) j.
Proof.
  intros k st id o v st' E N H. destruct k as [|k]; [discriminate|]. cbn [obj_next] in H. rewrite E in H.
  destruct o; try discriminate N;
    match type of H with (let '(_, _) := ?X in _) = _ => destruct X as [r c] end;
    inversion H; subst; cbn [set_obj heap vecs]; (split; [reflexivity|]);
    intros j Hj; apply nth_error_upd_other; auto.
Qed.

(* loops_independent: any number of next() calls on one native iterator leaves every other iterator object,
   and every vector, as it was: in particular a second iterator over the SAME iterable still hands out all
   its remaining elements *)
Theorem loops_independent : forall n k st id1 o vs st', nth_error (heap st) id1 = Some o -> is_native o = true ->
  nexts k n st id1 = Some (vs, st') ->
  vecs st' = vecs st /\ forall j, j <> id1 -> nth_error (heap st') j = nth_error (heap st) j.
Proof.
  induction n as [|n IH]; intros k st id1 o vs st' E N H.
  - cbn [nexts] in H. inversion H; subst. split; [reflexivity|]. intros; reflexivity.
  - cbn [nexts] in H. destruct (obj_next k st id1) as [[v st1]|] eqn:E1; [|discriminate].
    destruct (nexts k n st1 id1) as [[vs' st2]|] eqn:E2; [|discriminate]. inversion H; subst.
    destruct (native_step_frame _ _ _ _ _ _ E N E1) as [V1 H1].
    destruct (obj_next_static _ _ _ _ _ E1) as [M _].
    destruct (lookup_static _ _ _ _ M E) as [o' [E' S']].
    assert (N' : is_native o' = true) by (destruct o; destruct o'; cbn in *; try discriminate; reflexivity).
    destruct (IH _ _ _ _ _ _ E' N' E2) as [V2 H2]. split; [congruence|].
    intros j Hj. rewrite H2, H1; auto.
Qed.
Print Assumptions loops_independent.

Corollary loops_independent_vec : forall n k st id1 id2 vid c1 c2 vs st', id1 <> id2 ->
  nth_error (heap st) id1 = Some (OVecIter vid c1) -> nth_error (heap st) id2 = Some (OVecIter vid c2) ->
  nexts k n st id1 = Some (vs, st') ->
  Rep 1 st' id2 (until_stop (skipn c2 (get_vec st vid))).
Proof.
  intros n k st id1 id2 vid c1 c2 vs st' D E1 E2 H.
  destruct (loops_independent _ _ _ _ _ _ _ E1 eq_refl H) as [V F].
  assert (G : get_vec st' vid = get_vec st vid) by (unfold get_vec; rewrite V; reflexivity).
  rewrite <- G. eapply (rep_veclike _ st' id2 (OVecIter vid c2) (get_vec st' vid) c2 (OVecIter vid)); [|reflexivity|reflexivity].
  rewrite F by auto. exact E2.
Qed.

(* ------------------------------------------------------------------ *)
(* mutation of the vector during the loop: index-based                  *)
(* ------------------------------------------------------------------ *)
(* rounds of a for loop over the vector [vid] whose body replaces the vector by [mut i xs] in round i *)
Fixpoint vec_rounds (rounds : nat) (mut : nat -> list value -> list value) (i : nat) (st : store) (id vid : nat)
  : list value :=
  match rounds with
  | O => []
  | S r =>
    match obj_next 1 st id with
    | Some (v, st') =>
      if is_stop v then [] else v :: vec_rounds r mut (S i) (set_vec st' vid (mut i (get_vec st' vid))) id vid
    | None => []
    end
  end.

Lemma nth_upd_same : forall {A} (l : list A) i x d, i < length l -> nth i (upd l i x) d = x.
Proof. intros A l i x d H. apply nth_error_nth. apply nth_error_upd_same. exact H. Qed.

Theorem vec_mutation_indexed : forall rounds mut i st id vid,
  nth_error (heap st) id = Some (OVecIter vid i) -> vid < length (vecs st) ->
  vec_rounds rounds mut i st id vid = indexed_visits mut i (get_vec st vid) rounds.
Proof.
  induction rounds as [|r IH]; intros mut i st id vid E L; [reflexivity|].
  cbn [vec_rounds indexed_visits obj_next]. rewrite E.
  destruct (nth_error (get_vec st vid) i) as [x|] eqn:EX.
  - rewrite (vec_next_lt _ _ _ EX). cbn [or_stop]. destruct (is_stop x); [reflexivity|]. f_equal.
    assert (G : get_vec (set_obj st id (OVecIter vid (S i))) vid = get_vec st vid) by reflexivity.
    rewrite G. rewrite IH.
    + f_equal. unfold get_vec, set_vec. cbn [vecs set_obj]. apply nth_upd_same. exact L.
    + cbn [set_vec set_obj heap]. apply nth_error_upd_same. eapply nth_error_lt; eauto.
    + cbn [set_vec set_obj vecs]. rewrite upd_length. exact L.
  - apply nth_error_None in EX. rewrite (vec_next_ge _ _ EX). reflexivity.
Qed.
Print Assumptions vec_mutation_indexed.

(* push while iterating extends the walk, pop shortens it: never a crash *)
Example vec_mutation_example :
  let st := mkStore [OVecIter 0 0] [[VNum 1; VNum 2; VNum 3]] in
  vec_rounds 10 (fun i xs => if Nat.eqb i 0 then xs ++ [VNum 9] else if Nat.eqb i 1 then removelast (removelast xs) else xs)%list
             0 st 0 0 = [VNum 1; VNum 2].
Proof. vm_compute. reflexivity. Qed.

