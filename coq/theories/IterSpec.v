(* C18 - Spec S of iteration: the sequence an iterable denotes, and map/filter/reduce/collect as the list
   functions of the standard library on that sequence.  Definitions only. *)
From Coq Require Import String.
From Coq Require Import List ZArith NArith Bool Arith.
From Coq Require Import Strings.Byte.
From YV Require Import Utf8 IterModel.
Import ListNotations.
Local Open Scope nat_scope.

(* sources: what a fresh iterable denotes *)
Inductive src : Type :=
| SrcVec (xs : list value)
| SrcTup (xs : list value)
| SrcRange (a b : Z)
| SrcStr (s : list byte)
| SrcScript (items : list value)     (* user iterator: hands out items; denotes them up to the first sentinel *)
| SrcCount (lo hi : Z).              (* user iterator counting lo, lo+1, .., hi-1 *)

(* a, a+1, .., a+n-1 *)
Fixpoint z_up (a : Z) (n : nat) : list value :=
  match n with O => [] | S k => VNum a :: z_up (a + 1) k end.
(* a, a-1, .., a-n+1 *)
Fixpoint z_down (a : Z) (n : nat) : list value :=
  match n with O => [] | S k => VNum a :: z_down (a - 1) k end.

(* a..b: ascending when a < b, descending when a > b (end excluded), empty when a = b *)
Definition range_elements (a b : Z) : list value :=
  if Z.ltb a b then z_up a (Z.to_nat (b - a)) else z_down a (Z.to_nat (a - b)).

(* the prefix of a list before the first exact sentinel *)
Fixpoint until_stop (l : list value) : list value :=
  match l with
  | [] => []
  | v :: r => if is_stop v then [] else v :: until_stop r
  end.

Definition elements (x : src) : list value :=
  match x with
  | SrcVec xs => xs
  | SrcTup xs => xs
  | SrcRange a b => range_elements a b
  | SrcStr s => map VStr (chars s)
  | SrcScript items => until_stop items
  | SrcCount lo hi => z_up lo (Z.to_nat (hi - lo))
  end.

(* user-defined ITERABLES whose iter() is not the identity (prelude of IterLang):
   Deck: iter() rewinds the cursor and returns self; Bag: iter() returns a separate cursor object;
   VBag: iter() returns the built-in iterator of an inner vec; Chained: iter() returns inner.iter().filter(even).map(+k).
   Whatever was traversed before, EVERY traversal (for, map, filter, collect, reduce, chains) sees this sequence: *)
Inductive okind : Type := KDeck | KBag | KVBag | KChained
  | KScaled | KLimited | KCounted   (* an iterator instance whose FIELD next wraps its class's next (scale by z | stop after z | count) *)
  | KFieldIter.                     (* an instance whose FIELD iter returns a fresh cursor over the items *)

(* adapter chains, innermost first *)
Inductive op : Type := OpMap (f : fn) | OpFilter (p : pr).

Definition apply_op (o : op) (l : list value) : list value :=
  match o with
  | OpMap f => List.map (apply_fn f) l
  | OpFilter p => List.filter (apply_pr p) l
  end.

Definition chain_spec (ops : list op) (l : list value) : list value :=
  fold_left (fun acc o => apply_op o acc) ops l.

Definition obj_elems (k : okind) (items : list value) (z : Z) : list value :=
  match k with
  | KChained => List.map (apply_fn (AddK z)) (List.filter (apply_pr IsEven) (until_stop items))
  | KScaled => List.map (apply_fn (MulK z)) (until_stop items)
  | KLimited => firstn (Z.to_nat z) (until_stop items)
  | _ => until_stop items
  end.

Definition collect_spec (ops : list op) (x : src) : list value := chain_spec ops (elements x).
Definition reduce_spec (g : rd) (init : value) (ops : list op) (x : src) : value :=
  fold_left (apply_rd g) (chain_spec ops (elements x)) init.

(* index-based iteration over a vector that changes between rounds ([mut i xs] = the vector after the body
   of round i ran): the loop reads index i of the CURRENT vector while i < its CURRENT length *)
Fixpoint indexed_visits (mut : nat -> list value -> list value) (i : nat) (xs : list value) (rounds : nat)
  : list value :=
  match rounds with
  | O => []
  | S r =>
    match nth_error xs i with
    | Some v => if is_stop v then [] else v :: indexed_visits mut (S i) (mut i xs) r
    | None => []
    end
  end.
