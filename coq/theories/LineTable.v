(* C17, round 9 - representations of `Chunk.lines`.  DEFINITIONS ONLY (proofs: LineTableProofs.v).

   Today (chunk.rs): `lines: Vec<i32>`, one entry per code byte, `write` pushes `line` for every byte; the VM reads
   `chunk.lines[offset]` (Lines.line_at = nth_error).  A seeded change of round 9 replaced the vector by a run-length encoded
   table `Vec<(line, run length)>` with the same `push` / `Index<usize>` interface and a SATURATING 16-bit run counter.
   `cap` is the counter's bound: None = unbounded (usize in practice), Some c = `saturating_add` at c. *)
From Coq Require Import List NArith Bool.
Import ListNotations.
Open Scope N_scope.

(* the flat table: S, and the mechanism of today's tree *)
Definition flat_index (ls : list N) (off : N) : option N := nth_error ls (N.to_nat off).

(* LineTable::push; runs newest first *)
Definition bump (cap : option N) (n : N) : N :=
  match cap with
  | None => n + 1
  | Some c => if n <? c then n + 1 else n
  end.

Definition rle_push (cap : option N) (rs : list (N * N)) (l : N) : list (N * N) :=
  match rs with
  | (l0, n) :: t => if l0 =? l then (l0, bump cap n) :: t else (l, 1) :: rs
  | [] => [(l, 1)]
  end.

Definition rle_build (cap : option N) (ls : list N) : list (N * N) := fold_left (rle_push cap) ls [].

(* Index<usize>: walk the runs oldest first; None = `panic!("Line table index {} out of range.")` *)
Fixpoint rle_lookup (rs : list (N * N)) (off : N) : option N :=
  match rs with
  | [] => None
  | (l, n) :: t => if off <? n then Some l else rle_lookup t (off - n)
  end.

Definition rle_index (rs : list (N * N)) (off : N) : option N := rle_lookup (rev rs) off.

(* the table the compiler builds for code whose bytes come from the lines `ls`, read at `off` *)
Definition rle_line (cap : option N) (ls : list N) (off : N) : option N := rle_index (rle_build cap ls) off.

(* what the runs stand for, oldest first *)
Definition expand (rs : list (N * N)) : list N := flat_map (fun r => repeat (fst r) (N.to_nat (snd r))) rs.

(* the class on which a capped counter is harmless: no run of the exact table is longer than the cap *)
Definition runs_within (c : N) (rs : list (N * N)) : bool := forallb (fun r => snd r <=? c) rs.
