(* C17, round 9 - proofs about LineTable.v *)
From Coq Require Import List NArith Bool Lia.
From YV Require Import LineTable.
Import ListNotations.
Open Scope N_scope.

Lemma expand_app : forall a b, expand (a ++ b) = expand a ++ expand b.
Proof. intros a b. unfold expand. apply flat_map_app. Qed.

Lemma expand_one : forall l n, expand [(l, n)] = repeat l (N.to_nat n).
Proof. intros l n. unfold expand. cbn [flat_map fst snd]. apply app_nil_r. Qed.

(* one push of the unbounded table appends exactly one entry *)
Lemma push_expand : forall rs l, expand (rev (rle_push None rs l)) = expand (rev rs) ++ [l].
Proof.
  intros rs l. destruct rs as [|[l0 n] t]; cbn [rle_push].
  - reflexivity.
  - destruct (l0 =? l) eqn:E.
    + apply N.eqb_eq in E. subst l0. cbn [rev]. rewrite !expand_app, !expand_one. cbn [bump].
      replace (N.to_nat (n + 1)) with (S (N.to_nat n)) by lia.
      cbn [repeat]. rewrite repeat_cons. rewrite app_assoc. reflexivity.
    + change (rev ((l, 1) :: (l0, n) :: t)) with (rev ((l0, n) :: t) ++ [(l, 1)]).
      rewrite expand_app, expand_one. reflexivity.
Qed.

Lemma build_expand_acc : forall ls acc, expand (rev (fold_left (rle_push None) ls acc)) = expand (rev acc) ++ ls.
Proof.
  induction ls as [|l ls IH]; intros acc; cbn [fold_left].
  - now rewrite app_nil_r.
  - rewrite IH, push_expand, <- app_assoc. reflexivity.
Qed.

Lemma lookup_expand : forall rs off, rle_lookup rs off = nth_error (expand rs) (N.to_nat off).
Proof.
  induction rs as [|[l n] t IH]; intros off.
  - cbn. now destruct (N.to_nat off).
  - change (expand ((l, n) :: t)) with (repeat l (N.to_nat n) ++ expand t). cbn [rle_lookup].
    destruct (off <? n) eqn:E.
    + apply N.ltb_lt in E. rewrite nth_error_app1 by (rewrite repeat_length; lia).
      symmetry. apply nth_error_repeat. lia.
    + apply N.ltb_ge in E. rewrite nth_error_app2 by (rewrite repeat_length; lia).
      rewrite repeat_length, IH. f_equal. lia.
Qed.

(* HEADLINE 1: a run-length encoded table with an UNBOUNDED counter is the flat table, at every offset of every chunk -
   that refactoring is harmless *)
Theorem rle_unbounded_exact : forall ls off, rle_line None ls off = flat_index ls off.
Proof.
  intros ls off. unfold rle_line, rle_index, rle_build, flat_index.
  rewrite lookup_expand, build_expand_acc. reflexivity.
Qed.
Print Assumptions rle_unbounded_exact.

(* the capped counter: as long as no run of the exact table exceeds the cap, both builds are the same table *)
Lemma push_cap_same : forall c rs l, runs_within c (rle_push None rs l) = true -> rle_push (Some c) rs l = rle_push None rs l.
Proof.
  intros c rs l H. destruct rs as [|[l0 n] t]; cbn [rle_push] in *.
  - reflexivity.
  - destruct (l0 =? l); [|reflexivity].
    cbn [runs_within forallb snd bump] in H. apply andb_true_iff in H. destruct H as [H _]. apply N.leb_le in H.
    cbn [bump]. replace (n <? c) with true by (symmetry; apply N.ltb_lt; lia). reflexivity.
Qed.

(* counters only grow and runs are never removed: a bounded final table had bounded intermediate tables *)
Lemma push_within_back : forall c rs l, runs_within c (rle_push None rs l) = true -> runs_within c rs = true.
Proof.
  intros c rs l H. destruct rs as [|[l0 n] t]; cbn [rle_push] in *.
  - reflexivity.
  - destruct (l0 =? l).
    + cbn [runs_within forallb snd bump] in *. apply andb_true_iff in H. destruct H as [H1 H2].
      apply andb_true_iff. split; [|exact H2]. apply N.leb_le in H1. apply N.leb_le. lia.
    + cbn [runs_within forallb] in *. apply andb_true_iff in H. tauto.
Qed.

Lemma fold_within_back : forall c ls acc, runs_within c (fold_left (rle_push None) ls acc) = true -> runs_within c acc = true.
Proof.
  induction ls as [|l ls IH]; intros acc H; cbn [fold_left] in H.
  - exact H.
  - apply IH in H. eapply push_within_back. exact H.
Qed.

Lemma fold_cap_same : forall c ls acc, runs_within c (fold_left (rle_push None) ls acc) = true ->
  fold_left (rle_push (Some c)) ls acc = fold_left (rle_push None) ls acc.
Proof.
  induction ls as [|l ls IH]; intros acc H; cbn [fold_left] in *.
  - reflexivity.
  - rewrite push_cap_same by (eapply fold_within_back; exact H). apply IH. exact H.
Qed.

(* HEADLINE 2: with a counter that saturates at c the table is still the flat table for every chunk in which no source line
   owns more than c consecutive code bytes - the class outside which the seeded change shows *)
Theorem rle_capped_exact_within : forall c ls off, runs_within c (rle_build None ls) = true ->
  rle_line (Some c) ls off = flat_index ls off.
Proof.
  intros c ls off H. unfold rle_line, rle_build. rewrite fold_cap_same by exact H. apply rle_unbounded_exact.
Qed.
Print Assumptions rle_capped_exact_within.

Example rle_capped_exact_within_example :
  runs_within 3 (rle_build None [1; 1; 2; 2; 2; 3; 1]) = true /\ rle_line (Some 3) [1; 1; 2; 2; 2; 3; 1] 4 = Some 2.
Proof. vm_compute. split; reflexivity. Qed.

(* HEADLINE 3: outside that class it is FALSE.  The seed's numbers: a 16-bit saturating counter, 65536 code bytes from
   line 2, then line 3, then line 5: the byte at offset 65536 (line 3) is reported as line 5, the byte at 65537 (line 5)
   is out of range (the Rust code panics "Line table index 65537 out of range.") *)
Definition long_line_chunk : list N := repeat 2 (N.to_nat 65536) ++ [3; 5].

Theorem rle_saturating_u16_refuted :
  flat_index long_line_chunk 65536 = Some 3 /\ rle_line (Some 65535) long_line_chunk 65536 = Some 5 /\
  flat_index long_line_chunk 65537 = Some 5 /\ rle_line (Some 65535) long_line_chunk 65537 = None /\
  runs_within 65535 (rle_build None long_line_chunk) = false /\
  rle_line None long_line_chunk 65536 = Some 3.
Proof. vm_compute. repeat split; reflexivity. Qed.
Print Assumptions rle_saturating_u16_refuted.

(* and for EVERY cap: one byte more than the cap on one line, then another line *)
Lemma fold_repeat_sat : forall c a k n, n <= c -> 
  fold_left (rle_push (Some c)) (repeat a k) [(a, n)] = [(a, N.min (n + N.of_nat k) c)].
Proof.
  intros c a k. induction k as [|k IH]; intros n Hn; cbn [repeat fold_left rle_push].
  - f_equal. f_equal. lia.
  - rewrite N.eqb_refl. cbn [bump]. destruct (n <? c) eqn:E.
    + apply N.ltb_lt in E. rewrite IH by lia. f_equal. f_equal. lia.
    + apply N.ltb_ge in E. rewrite IH by lia. f_equal. f_equal. lia.
Qed.

Theorem rle_saturating_refuted_every_cap : forall c a b, 1 <= c -> a <> b ->
  let ls := repeat a (S (N.to_nat c)) ++ [b; b] in
  flat_index ls c = Some a /\ rle_line (Some c) ls c = Some b.
Proof.
  intros c a b Hc Hab ls. split.
  - unfold flat_index, ls. rewrite nth_error_app1 by (rewrite repeat_length; lia). apply nth_error_repeat. lia.
  - unfold rle_line, rle_build, ls. rewrite fold_left_app. cbn [repeat fold_left rle_push].
    rewrite fold_repeat_sat by lia.
    replace (N.min (1 + N.of_nat (N.to_nat c)) c) with c by lia.
    cbn [fold_left rle_push]. replace (a =? b) with false by (symmetry; apply N.eqb_neq; exact Hab).
    cbn [rle_push]. rewrite N.eqb_refl. cbn [bump]. unfold rle_index. cbn [rev app rle_lookup].
    rewrite N.ltb_irrefl. replace (c - c) with 0 by lia.
    destruct (1 <? c); reflexivity.
Qed.
Print Assumptions rle_saturating_refuted_every_cap.

(* the tie to the mechanism of Lines.v: `Lines.line_at` (chunk.lines[offset - 1] on the flat table) is what an unbounded
   run-length encoded table answers, for every function description and every saved ip *)
From YV Require Lines.
Theorem rle_unbounded_is_line_at : forall fd i,
  rle_line None (Lines.fd_lines fd) (N.of_nat i) = Lines.line_at fd (S i).
Proof.
  intros fd i. rewrite rle_unbounded_exact. unfold flat_index, Lines.line_at. now rewrite Nat2N.id.
Qed.
Print Assumptions rle_unbounded_is_line_at.
