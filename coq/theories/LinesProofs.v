(* C17 - proofs about Lines.v / LinesSpec.v.
   1. kind_class_roundtrip      ErrorKind -> class -> ErrorKind over the regenerated tables
   2. trace_one_entry_per_frame runtime_error: one entry per frame of the running fiber, innermost first
   3. mech_refines_spec / error_ip_scoped   saved ips + error_ip give the Spec's positions, for every
      well-formed history (with the flags as unwind_stack is written today); refuted variants
   4. line_index_in_range       verified code + parallel line table: `offset - 1` is a valid index
   5. scanner lines / compile_error_has_line_partial *)
From Coq Require Import List String Ascii NArith Bool Arith Lia.
From Coq Require Import Strings.Byte.
From YV Require Import Show Utf8 NumText Scanner Parser ParseRun Bytecode Skeleton Verifier VerifierProofs Lines LinesSpec.
Import ListNotations.
Local Open Scope nat_scope.
Local Open Scope list_scope.

(* ------------------------------------------------------------------ *)
(** * 1. kind <-> class *)

Lemma string_eqb_true : forall a b, String.eqb a b = true -> a = b.
Proof. intros a b H. apply String.eqb_eq; exact H. Qed.

(* generic in the tables: props/C17.v instantiates it with YVGen.ErrKinds and decides the side
   condition by computation *)
Theorem kind_class_roundtrip_gen : forall k2c c2k d ks,
  forallb (fun k => String.eqb (kind_of_class_in c2k d (class_of_kind_in k2c k)) k)
          (runtime_kinds_of ks) = true ->
  forall k, In k ks -> k <> "CompileError"%string ->
            kind_of_class_in c2k d (class_of_kind_in k2c k) = k.
Proof.
  intros k2c c2k d ks H k Hin Hne.
  rewrite forallb_forall in H. apply string_eqb_true. apply H.
  unfold runtime_kinds_of. apply filter_In. split; [exact Hin|].
  destruct (String.eqb k "CompileError") eqn:E; [|reflexivity].
  apply String.eqb_eq in E. contradiction.
Qed.
Print Assumptions kind_class_roundtrip_gen.

(* CompileError shares RuntimeError's class, so it comes back as RuntimeError: by design *)
Theorem compile_error_shares_class_gen : forall k2c c2k d,
  String.eqb (class_of_kind_in k2c "CompileError") (class_of_kind_in k2c "RuntimeError") = true ->
  String.eqb (kind_of_class_in c2k d (class_of_kind_in k2c "RuntimeError")) "RuntimeError" = true ->
  kind_of_class_in c2k d (class_of_kind_in k2c "CompileError") = "RuntimeError"%string.
Proof.
  intros k2c c2k d H1 H2. apply string_eqb_true in H1. rewrite H1. apply string_eqb_true. exact H2.
Qed.

(* hypotheses are satisfiable: the tables of the tree this file was written against *)
Example roundtrip_example :
  forallb roundtrip_okb runtime_kinds = true /\ List.length runtime_kinds = 7.
Proof. split; vm_compute; reflexivity. Qed.

(* what the tables looked like before 09eec8f: the CompileError arm came first *)
Example roundtrip_refuted_old :
  let c2k_old := [("attribute_error_class", "AttributeError"); ("runtime_error_class", "CompileError");
                  ("runtime_error_class", "RuntimeError")]%string in
  kind_of_class_in c2k_old "RuntimeError" (class_of_kind "RuntimeError") = "CompileError"%string.
Proof. vm_compute. reflexivity. Qed.

(* ------------------------------------------------------------------ *)
(** * 2. one entry per frame, innermost first *)

Definition entry_who (e : entry) : string * string := (fst (fst e), snd e).
Definition frame_who (f : frame) : string * string := (fd_mod (fr_fn f), fd_name (fr_fn f)).

Lemma all_some_map_who : forall fs t,
  all_some (map frame_entry fs) = Some t -> map entry_who t = map frame_who fs.
Proof.
  induction fs as [|f r IH]; intros t H; cbn in H.
  - inversion H; reflexivity.
  - unfold frame_entry in H at 1.
    destruct (line_at (fr_fn f) (fr_ip f)) as [l|]; [|discriminate].
    destruct (all_some (map frame_entry r)) as [xs|] eqn:E; [|discriminate].
    inversion H; subst t. cbn. f_equal. apply IH; reflexivity.
Qed.

Lemma set_top_ip_who : forall fs ip, map frame_who (set_top_ip fs ip) = map frame_who fs.
Proof. intros [|f r] ip; reflexivity. Qed.

(* for EVERY state (hence every operation sequence): if runtime_error does not panic, its trace has
   exactly one entry per frame of the running fiber, in the order innermost first, each naming that
   frame's module and function *)
Theorem trace_one_entry_per_frame : forall fl fd0 ops t,
  muncaught (mrun fl (init_vm fd0) ops) = Some t ->
  map entry_who t = map frame_who (fb_frames (v_fib (mrun fl (init_vm fd0) ops))) /\
  List.length t = List.length (fb_frames (v_fib (mrun fl (init_vm fd0) ops))).
Proof.
  intros fl fd0 ops t H. set (s := mrun fl (init_vm fd0) ops) in *.
  unfold muncaught in H. destruct (fb_frames (v_fib s)) as [|f r] eqn:E; [discriminate|].
  apply all_some_map_who in H. rewrite set_top_ip_who in H.
  split; [exact H|].
  rewrite <- (map_length entry_who), H, map_length. reflexivity.
Qed.
Print Assumptions trace_one_entry_per_frame.

(* ------------------------------------------------------------------ *)
(** * 3. the mechanism gives the Spec's positions *)

Definition pending (fs : list sframe) : list nat :=
  flat_map (fun f => match sf_fail f with Some p => [p] | None => [] end) fs.

Arguments pending : simpl never.

(* with no failure being propagated the error position is empty - or stale but harmless, when every
   way of raising an exception overwrites it (records_all) *)
Definition eip_rel (rec : bool) (e : option nat) (fs : list sframe) : Prop :=
  match pending fs with [] => e = None \/ rec = true | [p] => e = Some p | _ => False end.

Definition fiber_match (mf : list frame) (sf : list sframe) : Prop :=
  map fr_fn mf = map sf_fn sf /\ map fr_ip (tl mf) = map sf_pos (tl sf).

Definition caller_rel (rec : bool) (c : fiber) (cs : list sframe) : Prop :=
  map fr_fn (fb_frames c) = map sf_fn cs /\ map fr_ip (fb_frames c) = map sf_pos cs /\
  eip_rel rec (fb_error_ip c) cs.

Definition Inv (fl : flags) (m : vmst) (s : sst) : Prop :=
  fiber_match (fb_frames (v_fib m)) (s_frames s) /\
  Forall2 (caller_rel (records_all fl)) (v_callers m) (s_callers s) /\
  (if s_raised s then
     exists p, top_fail (s_frames s) = Some p /\ pending (s_frames s) = [p] /\
               (fb_error_ip (v_fib m) = Some p \/
                (fb_error_ip (v_fib m) = None /\ v_ip m = p /\
                 exists st, s_site s = Some st /\ records fl st = false))
   else eip_rel (records_all fl) (fb_error_ip (v_fib m)) (s_frames s)).

Lemma no_pending_nil : forall fs, no_pending fs = true -> pending fs = [].
Proof.
  induction fs as [|f r IH]; intros H; [reflexivity|]. cbn in H.
  unfold pending in *. cbn [flat_map].
  destruct (sf_fail f); [discriminate|]. cbn. apply IH; exact H.
Qed.

Lemma pending_skipn_nil : forall k fs, pending fs = [] -> pending (skipn k fs) = [].
Proof.
  induction k as [|k IH]; intros fs H; [exact H|]. destruct fs as [|f r]; [reflexivity|].
  cbn [skipn]. apply IH. unfold pending in *. cbn in H. apply app_eq_nil in H. tauto.
Qed.

Lemma pending_set_top_pos : forall fs p, pending (set_top_pos fs p) = pending fs.
Proof. intros [|f r] p; reflexivity. Qed.

Lemma pending_cons : forall f r,
  pending (f :: r) = (match sf_fail f with Some p => [p] | None => [] end) ++ pending r.
Proof. reflexivity. Qed.

Lemma map_eq_cons_l : forall {A B C} (f : A -> C) (g : B -> C) l y r,
  map f l = map g (y :: r) -> exists x l', l = x :: l' /\ f x = g y /\ map f l' = map g r.
Proof.
  intros A B C f g [|x l'] y r H; [discriminate|]. cbn in H. inversion H. eauto.
Qed.

Lemma map_eq_length : forall {A B C} (f : A -> C) (g : B -> C) l l',
  map f l = map g l' -> List.length l = List.length l'.
Proof. intros. rewrite <- (map_length f l), H, map_length. reflexivity. Qed.

Lemma map_tl : forall {A B} (f : A -> B) l, map f (tl l) = tl (map f l).
Proof. intros A B f [|x r]; reflexivity. Qed.

Lemma top_ip_hd : forall l, top_ip l = hd 0 (map fr_ip l).
Proof. intros [|f r]; reflexivity. Qed.
Lemma top_pos_hd : forall l, top_pos l = hd 0 (map sf_pos l).
Proof. intros [|f r]; reflexivity. Qed.

Lemma skipn_S_tl : forall {A} k (l : list A), skipn (S k) l = skipn k (tl l).
Proof. intros A k [|x r]; [destruct k; reflexivity | reflexivity]. Qed.

Lemma tl_skipn : forall {A} k (l : list A), tl (skipn k l) = skipn k (tl l).
Proof.
  intros A k. induction k as [|k IH]; intros l; [reflexivity|].
  destruct l as [|x r]; [destruct k; reflexivity|]. cbn [skipn tl]. rewrite IH.
  destruct r; [destruct k; reflexivity | reflexivity].
Qed.

Lemma set_top_ip_fn : forall l ip, map fr_fn (set_top_ip l ip) = map fr_fn l.
Proof. intros [|f r] ip; reflexivity. Qed.
Lemma set_top_ip_tl : forall l ip, tl (set_top_ip l ip) = tl l.
Proof. intros [|f r] ip; reflexivity. Qed.
Lemma set_top_fail_fn : forall l x, map sf_fn (set_top_fail l x) = map sf_fn l.
Proof. intros [|f r] x; reflexivity. Qed.
Lemma set_top_fail_tl : forall l x, tl (set_top_fail l x) = tl l.
Proof. intros [|f r] x; reflexivity. Qed.
Lemma set_top_fail_pos : forall l x, map sf_pos (set_top_fail l x) = map sf_pos l.
Proof. intros [|f r] x; reflexivity. Qed.

Lemma pending_set_top_fail : forall f r x,
  pending (set_top_fail (f :: r) x) = (match x with Some p => [p] | None => [] end) ++ pending r.
Proof. reflexivity. Qed.

Lemma top_fail_pending_tl : forall fs p,
  top_fail fs = Some p -> pending fs = [p] -> pending (tl fs) = [].
Proof.
  intros [|f r] p H1 H2; [reflexivity|]. cbn in H1. rewrite pending_cons, H1 in H2.
  cbn in H2. inversion H2. reflexivity.
Qed.

Lemma pending_clear : forall fs, pending (clear_fails fs) = [].
Proof. induction fs as [|f r IH]; [reflexivity|]. cbn [clear_fails map]. rewrite pending_cons. cbn. exact IH. Qed.

Lemma pending_raise : forall f r pc, pending (set_top_fail (clear_fails (f :: r)) (Some pc)) = [pc].
Proof.
  intros f r pc. cbn [clear_fails map]. rewrite pending_set_top_fail.
  change (map (fun f0 => mkSF (sf_fn f0) (sf_pos f0) None) r) with (clear_fails r).
  rewrite pending_clear. reflexivity.
Qed.

Lemma clear_fails_fn : forall fs, map sf_fn (clear_fails fs) = map sf_fn fs.
Proof. induction fs as [|f r IH]; [reflexivity|]. cbn. rewrite <- IH. reflexivity. Qed.
Lemma clear_fails_pos : forall fs, map sf_pos (clear_fails fs) = map sf_pos fs.
Proof. induction fs as [|f r IH]; [reflexivity|]. cbn. rewrite <- IH. reflexivity. Qed.

Lemma fiber_match_raise : forall mf sf x,
  fiber_match mf sf -> fiber_match mf (set_top_fail (clear_fails sf) x).
Proof.
  intros mf sf x [H1 H2]. unfold fiber_match.
  rewrite set_top_fail_fn, set_top_fail_tl, clear_fails_fn. split; [exact H1|].
  rewrite (map_tl sf_pos (clear_fails sf)), clear_fails_pos, <- (map_tl sf_pos sf). exact H2.
Qed.

Section Sim.
  Variable fl : flags.
  Hypothesis Hclear : clear_on_catch fl = true \/ records_all fl = true.
  Hypothesis Hrebase : rebase_on_drop fl = true.

  Lemma sim_step : forall m s o,
    Inv fl m s -> op_okb s o = true ->
    kc_stepb fl s o = false ->
    Inv fl (mstep fl m o) (sstep s o).
  Proof.
    intros [[mf eip] vip mcs] [sf scs raised blt] o [[Hfn Hip] [Hcs Hr]] Hok Hkc.
    cbn [fb_frames v_fib s_frames v_callers s_callers s_raised fb_error_ip v_ip s_site] in *.
    destruct o as [pc fd | | pc | site pc | fc hc cpc | pc | pc fd | ].
    - (* OCall *)
      cbn in Hok. destruct raised; [discriminate|]. destruct sf as [|f r]; [discriminate|].
      destruct (map_eq_cons_l _ _ _ _ _ Hfn) as [g [mr [-> [Hg Hmr]]]].
      cbn in Hip. unfold Inv; cbn. split; [|split; [exact Hcs|]].
      + unfold fiber_match; cbn. split; [rewrite Hg, Hmr; reflexivity | rewrite Hip; reflexivity].
      + unfold eip_rel in *. exact Hr.
    - (* OReturn *)
      cbn in Hok. destruct raised; [discriminate|].
      destruct sf as [|f [|f2 r]]; try discriminate.
      destruct (sf_fail f) eqn:Ef; [discriminate|].
      destruct (map_eq_cons_l _ _ _ _ _ Hfn) as [g [mr [-> [Hg Hmr]]]].
      destruct (map_eq_cons_l _ _ _ _ _ Hmr) as [g2 [mr2 [-> [Hg2 Hmr2]]]].
      cbn in Hip. unfold Inv; cbn. split; [|split; [exact Hcs|]].
      + unfold fiber_match; cbn. split; [rewrite Hg2, Hmr2; reflexivity | inversion Hip; reflexivity].
      + unfold eip_rel in *. rewrite pending_cons, Ef in Hr. exact Hr.
    - (* OThrow *)
      cbn in Hok. destruct raised; [discriminate|]. cbn in Hok.
      destruct sf as [|f r]; [discriminate|].
      unfold Inv; cbn [mstep sstep fb_frames v_fib s_frames v_callers s_callers s_raised fb_error_ip v_ip s_site].
      split; [|split; [exact Hcs|]].
      + apply fiber_match_raise; exact (conj Hfn Hip).
      + exists pc. split; [reflexivity|]. split; [apply pending_raise | left; reflexivity].
    - (* OFail *)
      cbn in Hok. destruct raised; [discriminate|]. cbn in Hok.
      destruct sf as [|f r]; [discriminate|].
      unfold Inv; cbn [mstep sstep fb_frames v_fib s_frames v_callers s_callers s_raised fb_error_ip v_ip s_site].
      split; [|split; [exact Hcs|]].
      + apply fiber_match_raise; exact (conj Hfn Hip).
      + exists pc. split; [reflexivity|]. split; [apply pending_raise|].
        destruct (records fl site) eqn:Efr; [left; reflexivity|].
        right. unfold kc_stepb in Hkc. cbn [s_frames] in Hkc. rewrite Efr in Hkc. cbn [negb andb] in Hkc.
        apply negb_false_iff in Hkc. apply no_pending_nil in Hkc.
        unfold eip_rel in Hr. rewrite Hkc in Hr.
        destruct Hr as [Hr | Hr].
        * split; [exact Hr|]. split; [reflexivity|]. exists site. split; [reflexivity | exact Efr].
        * exfalso. unfold records_all in Hr. apply andb_true_iff in Hr as [Hr1 Hr2].
          destruct site; cbn in Efr; congruence.
    - (* OUnwind *)
      unfold op_okb in Hok. cbn [s_raised s_frames] in Hok. apply andb_true_iff in Hok as [Hok Hle2]. apply andb_true_iff in Hok as [Hra Hle1].
      subst raised. destruct Hr as [p [Htf [Hpend Hdisj]]].
      pose proof (map_eq_length _ _ _ _ Hfn) as Hlen.
      unfold mstep, sstep. cbn [fb_frames v_fib s_frames v_callers s_callers fb_error_ip].
      rewrite Hlen, Hle1, Hle2. cbn [andb]. rewrite Hrebase.
      apply Nat.leb_le in Hle1, Hle2.
      destruct (Nat.ltb fc (List.length sf)) eqn:Elt.
      + (* frames are discarded *)
        apply Nat.ltb_lt in Elt.
        unfold truncate_frames, struncate. rewrite Hlen.
        remember (List.length sf - fc) as k eqn:Ek.
        destruct k as [|k]; [lia|].
        rewrite !skipn_S_tl.
        assert (Hk1 : map fr_ip (skipn k (tl mf)) = map sf_pos (skipn k (tl sf)))
          by (rewrite <- !skipn_map, Hip; reflexivity).
        assert (Hk2 : map fr_fn (skipn k (tl mf)) = map sf_fn (skipn k (tl sf))).
        { rewrite <- !skipn_map. destruct mf, sf; try discriminate; try reflexivity.
          cbn in *. inversion Hfn. reflexivity. }
        assert (Hpk : pending (skipn k (tl sf)) = [])
          by (apply pending_skipn_nil; eapply top_fail_pending_tl; eassumption).
        assert (Hne : skipn k (tl sf) <> []).
        { intro E. apply (f_equal (@List.length _)) in E. rewrite skipn_length in E.
          destruct sf as [|f0 r0]; [cbn [List.length] in Ek; lia|].
          cbn [tl List.length] in *. lia. }
        unfold Inv. cbn [fb_frames v_fib s_frames v_callers s_callers s_raised fb_error_ip v_ip s_site].
        split; [|split; [exact Hcs|]].
        * unfold fiber_match. rewrite set_top_ip_fn, set_top_fail_fn, set_top_ip_tl, set_top_fail_tl.
          split; [exact Hk2|]. rewrite !map_tl. f_equal. exact Hk1.
        * unfold eip_rel. cbn [andb]. destruct (skipn k (tl sf)) as [|f r] eqn:Es; [contradiction|].
          rewrite pending_cons in Hpk. apply app_eq_nil in Hpk as [_ Hpr].
          destruct hc; cbn [andb].
          -- rewrite pending_set_top_fail, Hpr. cbn [app].
             destruct (clear_on_catch fl); [left; reflexivity|].
             destruct Hclear as [Hcl | Hcl]; [discriminate | right; exact Hcl].
          -- rewrite pending_set_top_fail, Hpr. cbn.
             rewrite top_ip_hd, Hk1, <- top_pos_hd. reflexivity.
      + (* the handler belongs to the innermost frame *)
        apply Nat.ltb_ge in Elt. assert (Efc : fc = List.length sf) by lia.
        unfold truncate_frames, struncate. rewrite Hlen, Efc, Nat.sub_diag. cbn [skipn].
        unfold Inv. cbn [fb_frames v_fib s_frames v_callers s_callers s_raised fb_error_ip v_ip s_site andb].
        split; [|split; [exact Hcs|]].
        * unfold fiber_match. rewrite set_top_ip_fn, set_top_fail_fn, set_top_ip_tl, set_top_fail_tl.
          exact (conj Hfn Hip).
        * unfold eip_rel. destruct sf as [|f r]; [discriminate|].
          pose proof (top_fail_pending_tl _ _ Htf Hpend) as Hpr. cbn [tl] in Hpr.
          destruct hc; cbn [andb].
          -- rewrite pending_set_top_fail, Hpr. cbn [app].
             destruct (clear_on_catch fl); [left; reflexivity|].
             destruct Hclear as [Hcl | Hcl]; [discriminate | right; exact Hcl].
          -- cbn [top_fail]. cbn in Htf. rewrite Htf, pending_set_top_fail, Hpr. cbn.
             destruct Hdisj as [E | [E1 [E2 [st [E3 E4]]]]]; [exact E|].
             exfalso. cbn in Hkc. rewrite E3, E4, Efc, Nat.eqb_refl in Hkc. discriminate.
    - (* ORethrow *)
      cbn in Hok. destruct raised; [discriminate|]. cbn in Hok.
      destruct (top_fail sf) as [p|] eqn:Etf; [|discriminate].
      unfold Inv; cbn. split; [exact (conj Hfn Hip)|]. split; [exact Hcs|].
      exists p. split; [exact Etf|].
      destruct sf as [|f r]; [discriminate|]. cbn in Etf.
      unfold eip_rel in Hr. rewrite pending_cons, Etf in Hr. cbn in Hr.
      destruct (pending r) as [|q qs] eqn:Ep; [|contradiction].
      split; [rewrite pending_cons, Etf, Ep; reflexivity | left; exact Hr].
    - (* OFiberCall *)
      cbn in Hok. destruct raised; [discriminate|]. destruct sf as [|f r]; [discriminate|].
      destruct (map_eq_cons_l _ _ _ _ _ Hfn) as [g [mr [-> [Hg Hmr]]]].
      cbn in Hip. unfold Inv; cbn. split; [|split].
      + unfold fiber_match; cbn. split; reflexivity.
      + constructor; [|exact Hcs]. unfold caller_rel; cbn. split; [|split].
        * rewrite Hg, Hmr; reflexivity.
        * rewrite Hip; reflexivity.
        * exact Hr.
      + left; reflexivity.
    - (* OFiberEnd *)
      cbn in Hok. destruct raised; [discriminate|]. destruct scs as [|c cs]; [discriminate|].
      inversion Hcs as [|mc c' mcs' cs' [Hc1 [Hc2 Hc3]] Hrest]; subst.
      unfold Inv; cbn. split; [|split; [exact Hrest | exact Hc3]].
      unfold fiber_match. split; [exact Hc1|]. rewrite !map_tl, Hc2. reflexivity.
  Qed.

  Lemma sim_run : forall ops m s,
    Inv fl m s -> wf_ops s ops = true ->
    known_classb fl s ops = false ->
    Inv fl (mrun fl m ops) (srun s ops).
  Proof.
    induction ops as [|o r IH]; intros m s HI Hwf Hkc; [exact HI|].
    cbn in Hwf. apply andb_true_iff in Hwf as [Hok Hwf].
    cbn in Hkc. apply orb_false_iff in Hkc as [Hk1 Hk2].
    unfold mrun, srun. cbn [fold_left]. apply IH.
    - apply sim_step; [exact HI | exact Hok | exact Hk1].
    - exact Hwf.
    - exact Hk2.
  Qed.

  Lemma inv_init : forall fd, Inv fl (init_vm fd) (sinit fd).
  Proof.
    intros fd. unfold Inv; cbn. split; [split; reflexivity|]. split; [constructor | left; reflexivity].
  Qed.

  Lemma entries_tail : forall (mr : list frame) (r : list sframe),
    map fr_fn mr = map sf_fn r -> map fr_ip mr = map sf_pos r ->
    map frame_entry mr = map spec_entry (map (fun g => (sf_fn g, spec_position false g)) r).
  Proof.
    induction mr as [|g mr IH]; intros [|f r] H1 H2; try discriminate; [reflexivity|].
    cbn in H1, H2. inversion H1; inversion H2. cbn [map]. f_equal; [|apply IH; assumption].
    unfold frame_entry, spec_entry, spec_position. cbn [fst snd].
    destruct g as [gf gi]; cbn in *. subst. reflexivity.
  Qed.

  (* with an exception in flight, the state the mechanism hands to runtime_error yields the Spec's trace *)
  Lemma inv_uncaught : forall m s,
    Inv fl m s -> s_raised s = true -> muncaught m = spec_uncaught s /\
                                       top_position m = spec_top_position s.
  Proof.
    intros [[mf eip] vip mcs] [sf scs raised blt] [[Hfn Hip] [Hcs Hr]] Hra.
    cbn [fb_frames v_fib s_frames v_callers s_callers s_raised fb_error_ip v_ip s_site] in *.
    subst raised. destruct Hr as [p [Htf [Hpend Hdisj]]].
    destruct sf as [|f r]; [discriminate|]. cbn in Htf.
    destruct (map_eq_cons_l _ _ _ _ _ Hfn) as [g [mr [-> [Hg Hmr]]]]. cbn in Hip.
    assert (Htp : top_position (mkVm (mkFib (g :: mr) eip) vip mcs) = p).
    { unfold top_position; cbn. destruct Hdisj as [E | [E1 [E2 _]]]; [rewrite E | rewrite E1]; auto. }
    split.
    - unfold muncaught, spec_uncaught. cbn [fb_frames v_fib s_frames]. rewrite Htp.
      cbn [set_top_ip spec_positions map]. f_equal. f_equal.
      + unfold frame_entry, spec_entry, spec_position. cbn [fr_fn fr_ip fst snd]. rewrite Htf, Hg. reflexivity.
      + apply entries_tail; assumption.
    - rewrite Htp. unfold spec_top_position, spec_position; cbn. rewrite Htf. reflexivity.
  Qed.

  (* M refines S: for every well-formed history that ends with an exception nobody handles *)
  Theorem mech_refines_spec : forall fd0 ops,
    wf_ops (sinit fd0) ops = true ->
    known_classb fl (sinit fd0) ops = false ->
    s_raised (srun (sinit fd0) ops) = true ->
    muncaught (mrun fl (init_vm fd0) ops) = spec_uncaught (srun (sinit fd0) ops).
  Proof.
    intros fd0 ops Hwf Hkc Hra.
    apply (inv_uncaught _ _ (sim_run ops _ _ (inv_init fd0) Hwf Hkc) Hra).
  Qed.

  (* the position used for the top frame is the failing instruction's (or, after the failing frames
     were discarded, the call that failed) - including histories with caught throws before and
     unwinding through finally-only handlers across frames and fibers *)
  Theorem error_ip_scoped : forall fd0 ops,
    wf_ops (sinit fd0) ops = true ->
    known_classb fl (sinit fd0) ops = false ->
    s_raised (srun (sinit fd0) ops) = true ->
    top_position (mrun fl (init_vm fd0) ops) = spec_top_position (srun (sinit fd0) ops).
  Proof.
    intros fd0 ops Hwf Hkc Hra.
    apply (inv_uncaught _ _ (sim_run ops _ _ (inv_init fd0) Hwf Hkc) Hra).
  Qed.
End Sim.
(* when both failure sites record the position the known class is empty *)
Lemma known_class_empty : forall fl ops s,
  fail_records_vm fl = true -> fail_records_native fl = true -> known_classb fl s ops = false.
Proof.
  intros fl ops. induction ops as [|o r IH]; intros s Hv Hn; [reflexivity|].
  cbn [known_classb]. rewrite (IH _ Hv Hn), orb_false_r.
  destruct o as [| | | st pc | fc [|] cpc | | |]; try reflexivity.
  - cbn. destruct st; cbn; rewrite ?Hv, ?Hn; reflexivity.
  - cbn. destruct (s_site s) as [[|]|]; cbn; rewrite ?Hv, ?Hn, ?andb_false_r; reflexivity.
Qed.

Print Assumptions mech_refines_spec.
Print Assumptions error_ip_scoped.

(* --- the hypotheses are satisfiable by non-trivial histories; refuted variants --- *)
Definition fd_main : fdesc := mkFd "" "main" [1; 2; 3; 4; 5; 6; 7; 8; 9; 10; 11; 12]%N.
Definition fd_g : fdesc := mkFd "g" "main" [1; 2; 3]%N.
Definition fd_h : fdesc := mkFd "h" "lib" [20; 21; 22; 23; 24; 25; 26; 27; 28; 29; 30; 31; 32; 33]%N.
Definition flags_now : flags := mkFlags true true true true.

(* a caught throw on line 2, then main -> g (try/finally around the call to h) -> h, h fails on its
   line 22 by a built-in failure; g's finally re-raises: three steps of unwinding across frames *)
Definition ex_ops : list op :=
  [OThrow 2; OUnwind 1 true 4; OCall 8 fd_g; OCall 2 fd_h; OFail SiteNative 3; OUnwind 2 false 3; ORethrow 3].
Example error_ip_scoped_example :
  wf_ops (sinit fd_main) ex_ops = true /\ known_classb flags_now (sinit fd_main) ex_ops = false /\
  s_raised (srun (sinit fd_main) ex_ops) = true /\
  muncaught (mrun flags_now (init_vm fd_main) ex_ops) = Some [("main", 2, "g"); ("main", 8, "")]%N%string.
Proof. repeat split; vm_compute; reflexivity. Qed.

(* before 60972d3 (clear_on_catch = false): a caught throw on line 2 followed by an uncaught built-in
   failure on line 6 reports line 2 *)
Definition ops_stale : list op := [OThrow 2; OUnwind 1 true 4; OFail SiteVm 6].
Theorem error_ip_scoped_refuted_old :
  exists ops, wf_ops (sinit fd_main) ops = true /\
    known_classb (mkFlags false true false false) (sinit fd_main) ops = false /\
    s_raised (srun (sinit fd_main) ops) = true /\
    top_position (mrun (mkFlags false true false false) (init_vm fd_main) ops)
      <> spec_top_position (srun (sinit fd_main) ops).
Proof. exists ops_stale. repeat split; vm_compute; congruence. Qed.

(* before dbae469 (rebase_on_drop = false): the callee's error position is applied to the caller's
   chunk - here an index outside the caller's line table: runtime_error panics *)
Definition ops_cross : list op := [OCall 3 fd_h; OThrow 14; OUnwind 1 false 5; ORethrow 6].
Theorem error_ip_rebase_refuted_old :
  exists ops, wf_ops (sinit fd_main) ops = true /\
    known_classb (mkFlags true false true true) (sinit fd_main) ops = false /\
    s_raised (srun (sinit fd_main) ops) = true /\
    muncaught (mrun (mkFlags true false true true) (init_vm fd_main) ops) = None /\
    spec_uncaught (srun (sinit fd_main) ops) = Some [("main", 3, "")]%N%string.
Proof. exists ops_cross. repeat split; vm_compute; reflexivity. Qed.

(* OPEN (fail_records = false, the tree of 2026-09-25): a built-in failure on line 2 inside
   try { } finally { } of the same call is reported at the end of the finally block (line 6) *)
Definition ops_builtin_finally : list op := [OFail SiteNative 2; OUnwind 1 false 4; ORethrow 6].
Theorem error_ip_scoped_refuted_builtin :
  exists ops, wf_ops (sinit fd_main) ops = true /\
    known_classb (mkFlags true true true false) (sinit fd_main) ops = true /\
    s_raised (srun (sinit fd_main) ops) = true /\
    top_position (mrun (mkFlags true true true false) (init_vm fd_main) ops) = 6 /\
    spec_top_position (srun (sinit fd_main) ops) = 2 /\
    (* with the failure recorded the same history is right *)
    top_position (mrun (mkFlags true true true true) (init_vm fd_main) ops) = 2.
Proof. exists ops_builtin_finally. repeat split; vm_compute; reflexivity. Qed.

(* a new failure while a finally block is propagating another one (now a well-formed history): when the
   VM site does not record, the stale position of the propagating exception is used for the frame of a
   function called from the finally block - an offset of another chunk (the Rust code panics); this is
   the second half of the known class.  With the position recorded the trace is the Spec's. *)
Definition ops_in_finally : list op := [OThrow 9; OUnwind 1 false 10; OCall 11 fd_g; OFail SiteVm 2].
Example failure_in_finally_uses_stale_position :
  wf_ops (sinit fd_main) ops_in_finally = true /\
  known_classb (mkFlags true true false true) (sinit fd_main) ops_in_finally = true /\
  muncaught (mrun (mkFlags true true false true) (init_vm fd_main) ops_in_finally) = None /\
  known_classb (mkFlags true true true true) (sinit fd_main) ops_in_finally = false /\
  muncaught (mrun (mkFlags true true true true) (init_vm fd_main) ops_in_finally)
    = Some [("main", 2, "g"); ("main", 11, "")]%N%string /\
  spec_uncaught (srun (sinit fd_main) ops_in_finally) = Some [("main", 2, "g"); ("main", 11, "")]%N%string.
Proof. repeat split; vm_compute; reflexivity. Qed.

(* ------------------------------------------------------------------ *)
(** * 4. the index `offset - 1` is in range *)

(* For verified code every reachable pc decodes to an instruction that ends inside the code
   (VerifierProofs.decode_in_bounds).  A saved ip / error_ip / live ip is always the offset `nx` after
   a decoded instruction, so with a line table parallel to the code `lines[nx - 1]` exists. *)
Theorem line_index_in_range : forall b p f a (nm md : string) (lines : list N),
  check_fn b p f a = true ->
  List.length lines = List.length (code f) ->
  forall s, reachable b p f s ->
  exists i nx, decode p f (pc s) = Some (i, nx) /\
               (0 < N.to_nat nx <= List.length lines)%nat /\
               exists l, line_at (mkFd nm md lines) (N.to_nat nx) = Some l.
Proof.
  intros b p f a nm md lines Hc Hlen s Hr.
  destruct (decode_in_bounds b p f a Hc s Hr) as [i [nx [Hd [Hlt Hle]]]].
  exists i, nx. split; [exact Hd|].
  unfold code_len in Hle.
  assert (Hpos : (0 < N.to_nat nx <= List.length lines)%nat) by (rewrite Hlen; lia).
  split; [exact Hpos|].
  unfold line_at. cbn [fd_lines]. destruct (N.to_nat nx) as [|k] eqn:Ek; [lia|].
  destruct (nth_error lines k) as [l|] eqn:En; [exists l; reflexivity|].
  apply nth_error_None in En. lia.
Qed.
Print Assumptions line_index_in_range.

(* hypotheses satisfiable: `var a = 1; print(a + 2);` as the compiler emits it (VerifierExamples.f_ok), with
   a line table that puts every byte on line 1; the saved ip after `Call 1` (offset 18) indexes byte 17 *)
Example line_index_example :
  let f := mkFn [0;1;0; 9;0;0; 8;2;0; 8;0;0; 0;3;0; 20; 51;1; 4; 1; 57]%N [CStr; CNum; CStr; CNum] 1 0 in
  let lines := repeat 1%N 21 in
  (match verify_fn false [f] f with FOk a => check_fn false [f] f a | FReject _ _ => false end) = true /\
  List.length lines = List.length (code f) /\
  line_at (mkFd "" "main" lines) 18 = Some 1%N /\ line_at (mkFd "" "main" lines) 0 = None /\
  line_at (mkFd "" "main" lines) 22 = None.
Proof. vm_compute. repeat split; reflexivity. Qed.

(* ------------------------------------------------------------------ *)
(** * 5. token lines stay inside the source; compile errors *)

Local Open Scope N_scope.

(* number of newline CHARACTERS still to be scanned *)
Definition cnl (cs : list chr) : N := N.of_nat (List.length (filter (fun c => chr_is c "010") cs)).

Lemma cnl_cons : forall c r, cnl (c :: r) = (if chr_is c "010" then 1 else 0) + cnl r.
Proof.
  intros c r. unfold cnl. cbn [filter]. destruct (chr_is c "010"); cbn [List.length]; lia.
Qed.
Lemma cnl_cons_le : forall c r, cnl r <= cnl (c :: r).
Proof. intros; rewrite cnl_cons; destruct (chr_is c "010"); lia. Qed.
Lemma cnl_nil : cnl [] = 0.
Proof. reflexivity. Qed.

(* what one scanning step may do: the token carries a line between the one the scanner was on and the one it is
   on afterwards (the same, except for the two error exits of `string` that count a consumed line break AFTER
   the token was built, /repo e81033c), the line only grows, and it grows by at most the number of newline
   characters consumed *)
Definition good (line : N) (cs : list chr) (t : token) (st' : sstate) : Prop :=
  (line <= tline t <= s_line st') /\ s_line st' + cnl (s_rest st') <= line + cnl cs.

Lemma skip_ws_good : forall cs b pos line,
  let '(cs', _, line') := skip_ws b cs pos line in
  line <= line' /\ line' + cnl cs' <= line + cnl cs.
Proof.
  induction cs as [|c r IH]; intros b pos line; cbn [skip_ws]; [split; lia|].
  pose proof (cnl_cons c r) as Hc.
  destruct b.
  - destruct (chr_is c "010") eqn:E.
    + specialize (IH false (pos + 1)%nat (line + 1)).
      destruct (skip_ws false r (pos + 1) (line + 1)) as [[cs' p'] l']. lia.
    + specialize (IH true (pos + List.length c)%nat line).
      destruct (skip_ws true r (pos + List.length c) line) as [[cs' p'] l']. lia.
  - destruct (chr_is c " " || chr_is c "013" || chr_is c "009") eqn:Ews.
    + specialize (IH false (pos + 1)%nat line).
      destruct (skip_ws false r (pos + 1) line) as [[cs' p'] l'].
      destruct (chr_is c "010"); lia.
    + destruct (chr_is c "010") eqn:E.
      * specialize (IH false (pos + 1)%nat (line + 1)).
        destruct (skip_ws false r (pos + 1) (line + 1)) as [[cs' p'] l']. lia.
      * destruct (chr_is c "/").
        -- destruct r as [|c2 r2]; [split; lia|].
           destruct (chr_is c2 "/").
           ++ specialize (IH true (pos + 1)%nat line).
              destruct (skip_ws true (c2 :: r2) (pos + 1) line) as [[cs' p'] l']. lia.
           ++ split; lia.
        -- split; lia.
Qed.

Lemma span_ident_cnl : forall cs l r, span_ident cs = (l, r) -> cnl r <= cnl cs.
Proof.
  induction cs as [|c cs IH]; intros l r H; cbn [span_ident] in H.
  - inversion H; lia.
  - destruct c as [|b [|b2 c']]; try (inversion H; lia).
    destruct (is_alpha_byte b || is_digit b); [|inversion H; lia].
    destruct (span_ident cs) as [l' r'] eqn:E. inversion H; subst.
    specialize (IH _ _ eq_refl). pose proof (cnl_cons_le [b] cs). lia.
Qed.

Lemma span_digit_cnl : forall cs l r, span_digit_chrs cs = (l, r) -> cnl r <= cnl cs.
Proof.
  induction cs as [|c cs IH]; intros l r H; cbn [span_digit_chrs] in H.
  - inversion H; lia.
  - destruct c as [|b [|b2 c']]; try (inversion H; lia).
    destruct (is_digit b); [|inversion H; lia].
    destruct (span_digit_chrs cs) as [l' r'] eqn:E. inversion H; subst.
    specialize (IH _ _ eq_refl). pose proof (cnl_cons_le [b] cs). lia.
Qed.

Lemma number_tail_cnl : forall cs l r, number_tail cs = (l, r) -> cnl r <= cnl cs.
Proof.
  intros cs l r H. unfold number_tail in H.
  destruct (span_digit_chrs cs) as [ip r1] eqn:E1. pose proof (span_digit_cnl _ _ _ E1) as H1.
  destruct r1 as [|d [|n r2]]; try (inversion H; subst; lia).
  destruct (chr_is d "." && is_digit_chr n); [|inversion H; subst; lia].
  destruct (span_digit_chrs (n :: r2)) as [fp r3] eqn:E3. pose proof (span_digit_cnl _ _ _ E3) as H3.
  inversion H; subst. pose proof (cnl_cons_le d (n :: r2)). lia.
Qed.

Lemma match_chr_cnl : forall cs b ok r, match_chr cs b = (ok, r) -> cnl r <= cnl cs.
Proof.
  intros [|c cs] b ok r H; cbn in H; [inversion H; lia|].
  destruct (chr_is c b); inversion H; subst; [apply cnl_cons_le | lia].
Qed.

Lemma skipn_cnl : forall k cs, cnl (skipn k cs) <= cnl cs.
Proof.
  induction k as [|k IH]; intros cs; [cbn; lia|]. destruct cs as [|c r]; [cbn; lia|].
  cbn [skipn]. pose proof (IH r). pose proof (cnl_cons_le c r). lia.
Qed.

Ltac fin_good :=
  unfold good in *; cbn [tline s_line s_rest error_token] in *; repeat split; lia.

Lemma string_loop_good : forall cs skip buf err pos line parens,
  let '(t, st') := string_loop cs skip buf err pos line parens in good line cs t st'.
Proof.
  induction cs as [|c r IH]; intros skip buf err pos line parens; cbn [string_loop].
  - fin_good.
  - pose proof (cnl_cons_le c r) as Hc.
    destruct skip as [|k].
    + destruct (chr_is c """") eqn:Eq.
      { destruct err; fin_good. }
      destruct (chr_is c "$") eqn:Ed.
      { destruct r as [|c2 r2]; [fin_good|].
        pose proof (cnl_cons_le c2 r2) as Hc2.
        destruct (negb (chr_is c2 "{")); [pose proof (cnl_cons c2 r2) as Hc2'; destruct (chr_is c2 "010"); fin_good|].
        destruct (Nat.leb INTERPOLATION_DEPTH_MAX (List.length parens)); fin_good. }
      destruct (chr_is c "\") eqn:Eb.
      { destruct r as [|c2 r2]; [fin_good|].
        pose proof (cnl_cons_le c2 r2) as Hc2.
        destruct (simple_escape c2).
        { specialize (IH 1%nat (b :: buf) err (pos + 1)%nat line parens).
          destruct (string_loop (c2 :: r2) 1 (b :: buf) err (pos + 1) line parens) as [t st'].
          fin_good. }
        destruct (hex_escape c2) as [[n msg]|].
        { destruct (read_escaped_bytes n r2) as [[l|] k].
          - specialize (IH (1 + k)%nat (rev_append l buf) err (pos + 1)%nat line parens).
            destruct (string_loop (c2 :: r2) (1 + k) (rev_append l buf) err (pos + 1) line parens) as [t st'].
            fin_good.
          - specialize (IH (1 + k)%nat buf (Some msg) (pos + 1)%nat line parens).
            destruct (string_loop (c2 :: r2) (1 + k) buf (Some msg) (pos + 1) line parens) as [t st'].
            fin_good. }
        pose proof (cnl_cons c2 r2) as Hc2'. destruct (chr_is c2 "010"); fin_good. }
      destruct (chr_is c "010") eqn:En.
      { assert (Hc' : cnl (c :: r) = 1 + cnl r) by (rewrite cnl_cons, En; reflexivity).
        specialize (IH 0%nat ("010"%byte :: buf) err (pos + 1)%nat (line + 1) parens).
        destruct (string_loop r 0 ("010"%byte :: buf) err (pos + 1) (line + 1) parens) as [t st'].
        fin_good. }
      specialize (IH 0%nat (rev_append c buf) err (pos + List.length c)%nat line parens).
      destruct (string_loop r 0 (rev_append c buf) err (pos + List.length c) line parens) as [t st'].
      fin_good.
    + (* a character consumed by an escape: a line break among them counts (since /repo 914ba97) *)
      pose proof (cnl_cons c r) as Hc'.
      specialize (IH k buf err (pos + List.length c)%nat (if chr_is c "010" then line + 1 else line) parens).
      destruct (string_loop r k buf err (pos + List.length c) (if chr_is c "010" then line + 1 else line) parens) as [t st'].
      destruct (chr_is c "010"); fin_good.
Qed.

Lemma scan_token_eq : forall st,
  scan_token st = (fst (fst (scan_token_start st)), snd (scan_token_start st)).
Proof. intros st. unfold scan_token. destruct (scan_token_start st) as [[t n] st']. reflexivity. Qed.

Lemma scan_token_good : forall st,
  good (s_line st) (s_rest st) (fst (scan_token st)) (snd (scan_token st)).
Proof.
  intros [rest pos line0 parens]. rewrite scan_token_eq. cbn [fst snd]. unfold scan_token_start.
  cbn [s_rest s_pos s_line s_parens].
  pose proof (skip_ws_good rest false pos line0) as Hs.
  destruct (skip_ws false rest pos line0) as [[cs start] line]. destruct Hs as [Hs1 Hs2].
  destruct cs as [|c r]; [cbn [fst snd]; fin_good|].
  pose proof (cnl_cons_le c r) as Hc.
  cbv beta zeta.
  set (P := fun x : token * nat * sstate => good line0 rest (fst (fst x)) (snd x)).
  match goal with |- good _ _ (fst (fst ?X)) _ => change (P X) end.
  destruct (is_alpha c).
  { destruct (span_ident r) as [l r'] eqn:E. apply span_ident_cnl in E. subst P; cbv beta iota; cbn [fst snd]. fin_good. }
  destruct (is_digit_chr c).
  { destruct (number_tail r) as [l r'] eqn:E. apply number_tail_cnl in E. subst P; cbv beta iota; cbn [fst snd]. fin_good. }
  destruct c as [|b [|b2 c']]; try (subst P; cbv beta iota; cbn [fst snd]; fin_good).
  repeat match goal with
  | |- P (match scan_string ?r0 ?p ?l ?ps with _ => _ end) =>
    pose proof (string_loop_good r0 0%nat [] None p l ps); unfold scan_string;
    destruct (string_loop r0 0 [] None p l ps) as [? ?]
  | |- P (match match_chr ?r0 ?x with _ => _ end) =>
    let E := fresh "E" in destruct (match_chr r0 x) as [? ?] eqn:E; apply match_chr_cnl in E
  | |- P (match ?x with _ => _ end) => destruct x
  end; subst P; cbv beta iota; cbn [fst snd]; fin_good.
Qed.

Lemma scan_loop_lines : forall fuel st t,
  In t (scan_loop fuel st) -> s_line st <= tline t <= s_line st + cnl (s_rest st).
Proof.
  induction fuel as [|f IH]; intros st t Hin; [contradiction|].
  cbn [scan_loop] in Hin.
  pose proof (scan_token_good st) as G. destruct (scan_token st) as [t0 st']. cbn [fst snd] in G.
  destruct G as [[G1 G2] G3].
  assert (H0 : s_line st <= tline t0 <= s_line st + cnl (s_rest st)) by lia.
  destruct (tk t0); cbn [In] in Hin;
    (destruct Hin as [<- | Hin]; [exact H0 | try contradiction; specialize (IH _ _ Hin); lia]).
Qed.

Lemma count_nl_app : forall a b, count_nl (a ++ b) = (count_nl a + count_nl b)%nat.
Proof. intros a b. unfold count_nl. rewrite filter_app, app_length. reflexivity. Qed.

Lemma concat_chars_of : forall l, List.concat (chars_of l) = l.
Proof.
  induction l as [|b r IH]; [reflexivity|]. cbn [chars_of].
  destruct (chars_of r) as [|c cs] eqn:E.
  - cbn in *. rewrite <- IH. reflexivity.
  - destruct (starts_with_cont c); cbn in *; rewrite <- IH; reflexivity.
Qed.

Lemma cnl_le_count : forall cs, cnl cs <= N.of_nat (count_nl (List.concat cs)).
Proof.
  induction cs as [|c r IH]; [cbn; lia|].
  rewrite cnl_cons. cbn [List.concat]. rewrite count_nl_app.
  destruct (chr_is c "010") eqn:E; [|lia].
  destruct c as [|x [|y c']]; try discriminate. cbn in E.
  unfold count_nl at 1. cbn [filter]. unfold is_nl. rewrite E. cbn [List.length]. lia.
Qed.

(* every token the scanner produces - error tokens included - carries a line of the source
   (the EXACT line - 1 + newline bytes before the end of the token - is ScannerLineExact.token_line_exact) *)
Theorem token_lines_in_range : forall src t,
  In t (scan_all src) -> 1 <= tline t <= 1 + N.of_nat (count_nl src).
Proof.
  intros src t Hin. unfold scan_all in Hin. apply scan_loop_lines in Hin.
  cbn [init_sstate s_line s_rest] in Hin.
  pose proof (cnl_le_count (chars_of src)) as H. rewrite concat_chars_of in H. lia.
Qed.
Print Assumptions token_lines_in_range.

(* FULL STATEMENT (not proved):
     compile_error_has_line : forall src l a m,
       parse_source src = PErr l a m -> 1 <= l <= N.of_nat (count_nl src) + 1.
   Missing: an invariant over all (~60) functions of Parser.v saying that every token kept in the
   parser state (p_prev, p_cur, attributes, the opener) is a token of the input; the line of a PErr
   is `tline` of one of them.  What is proved: every token of the input has an in-range line
   (token_lines_in_range; this covers the scanner's own errors, which are Error tokens), hence the
   statement holds for every source on which the decidable side condition `err_line_from_tokenb`
   computes to true; the check evaluates it on every generated program. *)
Theorem compile_error_has_line_partial : forall src l a m,
  err_line_from_tokenb src = true ->
  parse_source src = PErr l a m -> 1 <= l <= N.of_nat (count_nl src) + 1.
Proof.
  intros src l a m Hb Hp. unfold err_line_from_tokenb in Hb. rewrite Hp in Hb.
  apply existsb_exists in Hb as [t [Hin He]]. apply N.eqb_eq in He. subst l.
  pose proof (token_lines_in_range src t Hin). lia.
Qed.
Print Assumptions compile_error_has_line_partial.

(* hypotheses satisfiable: an unterminated string that starts on line 3 and runs to the end (line 4) *)
Example compile_error_example :
  let src := list_byte_of_string ("var a = 1;" ++ String "010" "var b = 2;" ++ String "010" "var c = ""x;"
                                  ++ String "010" "var d;") in
  err_line_from_tokenb src = true /\
  parse_source src = PErr 4 AtNothing "Unterminated string." /\ count_nl src = 3%nat.
Proof. vm_compute. repeat split; reflexivity. Qed.
