(* C17 - Spec (S) of the trace of an uncaught error.  DEFINITIONS ONLY.

   What the property demands, with no saved-ip / error_ip machinery: every active call of the running
   fiber knows the position of the statement it is executing:
     - a call that is waiting for a callee: the call it made;
     - the innermost call: the instruction that raised the error, or - when the frames in which the error
       was raised have been discarded because the error passed a `finally` block of this call - the call
       that raised it.
   The trace has one entry per active call of the running fiber, innermost first (an exception does not
   cross into the fiber that called the running one: DESIGN.md Appendix C). *)
From Coq Require Import List String NArith Bool Arith.
From YV Require Import Lines.
Import ListNotations.

Record sframe := mkSF {
  sf_fn : fdesc;
  sf_pos : nat;               (* the call this activation is executing (0: none yet) *)
  sf_fail : option nat        (* position of the failure this activation is propagating *)
}.

Record sst := mkS {
  s_frames : list sframe;             (* running fiber, innermost first *)
  s_callers : list (list sframe);     (* fibers waiting in `call` *)
  s_raised : bool;                    (* an exception has been raised and is looking for a handler *)
  s_site : option fsite               (* ... raised by the VM / a native (else by `throw`) *)
}.

Definition sinit (fd : fdesc) : sst := mkS [mkSF fd 0 None] [] false None.

Definition set_top_pos (fs : list sframe) (p : nat) : list sframe :=
  match fs with f :: r => mkSF (sf_fn f) p (sf_fail f) :: r | [] => [] end.
Definition set_top_fail (fs : list sframe) (x : option nat) : list sframe :=
  match fs with f :: r => mkSF (sf_fn f) (sf_pos f) x :: r | [] => [] end.
Definition struncate (fc : nat) (fs : list sframe) : list sframe := skipn (List.length fs - fc) fs.
Definition top_fail (fs : list sframe) : option nat :=
  match fs with f :: _ => sf_fail f | [] => None end.
Definition top_pos (fs : list sframe) : nat := match fs with f :: _ => sf_pos f | [] => 0 end.

(* a new exception replaces the one a finally block of this fiber may be propagating *)
Definition clear_fails (fs : list sframe) : list sframe :=
  map (fun f => mkSF (sf_fn f) (sf_pos f) None) fs.

Definition sstep (s : sst) (o : op) : sst :=
  let fs := s_frames s in
  match o with
  | OCall pc fd => mkS (mkSF fd 0 None :: set_top_pos fs pc) (s_callers s) false None
  | OReturn => match fs with _ :: ((_ :: _) as r) => mkS r (s_callers s) false None | _ => s end
  | OThrow pc => mkS (set_top_fail (clear_fails fs) (Some pc)) (s_callers s) true None
  | OFail st pc => mkS (set_top_fail (clear_fails fs) (Some pc)) (s_callers s) true (Some st)
  | OUnwind fc hc _ =>
    if (Nat.leb 1 fc && Nat.leb fc (List.length fs))%bool then
      let kept := struncate fc fs in
      let f := if hc then None
               else if Nat.ltb fc (List.length fs) then Some (top_pos kept)   (* the call that failed *)
               else top_fail kept in
      mkS (set_top_fail kept f) (s_callers s) false None
    else s
  | ORethrow _ => mkS fs (s_callers s) true None
  | OFiberCall pc fd => mkS [mkSF fd 0 None] (set_top_pos fs pc :: s_callers s) false None
  | OFiberEnd => match s_callers s with c :: cs => mkS c cs false None | [] => s end
  end.

Definition srun (s : sst) (ops : list op) : sst := fold_left sstep ops s.

(* the position of each active call of the running fiber, innermost first *)
Definition spec_position (top : bool) (f : sframe) : nat :=
  if top then match sf_fail f with Some p => p | None => sf_pos f end else sf_pos f.
Definition spec_positions (fs : list sframe) : list (fdesc * nat) :=
  match fs with
  | [] => []
  | f :: r => (sf_fn f, spec_position true f) :: map (fun g => (sf_fn g, spec_position false g)) r
  end.
Definition spec_top_position (s : sst) : nat :=
  match s_frames s with f :: _ => spec_position true f | [] => 0 end.

(* the trace the property demands: None when a position has no line (cannot happen for code whose line
   table is parallel to its code: LinesProofs.line_index_in_range) *)
Definition spec_entry (x : fdesc * nat) : option entry :=
  match line_at (fst x) (snd x) with
  | Some l => Some (fd_mod (fst x), l, fd_name (fst x))
  | None => None
  end.
Definition spec_uncaught (s : sst) : option (list entry) :=
  all_some (map spec_entry (spec_positions (s_frames s))).

(* ------------------------------------------------------------------ *)
(* Well-formed histories: what a run of the VM can produce, as far as this model follows it.
   - a raised exception is followed by the handler that takes it (OUnwind) or by nothing (uncaught);
   - OUnwind only answers a raised exception and names a frame count that exists;
   - ORethrow ends a finally block that is propagating a failure of the innermost call;
   - a NEW exception raised while a finally block of this fiber is propagating a failure replaces that
     failure (the model keeps one failure per fiber, like the VM); the propagating call does not return. *)
Definition no_pending (fs : list sframe) : bool :=
  forallb (fun f => match sf_fail f with None => true | Some _ => false end) fs.

Definition op_okb (s : sst) (o : op) : bool :=
  let fs := s_frames s in
  match o with
  | OUnwind fc _ _ => s_raised s && Nat.leb 1 fc && Nat.leb fc (List.length fs)
  | _ =>
    negb (s_raised s) &&
    match o with
    | OCall _ _ | OFiberCall _ _ => match fs with [] => false | _ => true end
    | OReturn => match fs with f :: _ :: _ => match sf_fail f with None => true | _ => false end | _ => false end
    | OThrow _ | OFail _ _ => match fs with [] => false | _ => true end
    | ORethrow _ => match top_fail fs with Some _ => true | None => false end
    | OFiberEnd => match s_callers s with [] => false | _ => true end
    | OUnwind _ _ _ => false
    end
  end.

Fixpoint wf_ops (s : sst) (ops : list op) : bool :=
  match ops with
  | [] => true
  | o :: r => op_okb s o && wf_ops (sstep s o) r
  end.

(* KNOWN CLASS builtin_failure_no_error_ip (a finding while one of the two sites does not record the error
   position): a failure raised at a site that does not record is taken by a finally-only handler of the SAME
   call, or is raised while a finally block is propagating another failure.  Empty when both sites record (LinesProofs.known_class_empty). *)
Definition kc_stepb (fl : flags) (s : sst) (o : op) : bool :=
  match o with
  | OUnwind fc false _ =>
    s_raised s && Nat.eqb fc (List.length (s_frames s))
    && match s_site s with Some st => negb (records fl st) | None => false end
  | OFail st _ =>      (* raised at a site that does not record, while the position of another failure is kept *)
    negb (records fl st) && negb (no_pending (s_frames s))
  | _ => false
  end.
Fixpoint known_classb (fl : flags) (s : sst) (ops : list op) : bool :=
  match ops with
  | [] => false
  | o :: r => kc_stepb fl s o || known_classb fl (sstep s o) r
  end.
