(* C14 - a mini-language of module programs with (a) the Spec evaluator, (b) the Mechanism evaluator
   driving Modules.step event by event, (c) the rendering to yarel sources.  Definitions only.

   A program is a list of at most 5 module sources; index 0 is the main script, index i > 0 is served by
   the host loader under `mod_path i`.  Names are small numbers: variable x -> "x<x>", function f -> "f<f>",
   alias a -> "a<a>" (a < 100) or the default alias of module a-100 (the last path component),
   tag t -> the text "t<t>". *)
From Coq Require Import List String Ascii NArith Bool Arith.
From YV Require Import Show Wire Modules ModuleSpec.
Import ListNotations.
Open Scope string_scope.

Inductive stmt :=
| SPrintTag (t : N)                 (* print("t<t>"); *)
| SPrintVar (x : N)                 (* print(x<x>);            global read *)
| SSet (x n : N)                    (* x<x> = n;               global assignment *)
| SImport (p a : N)                 (* import "<path p>" [as a<a>];   a = 0: default alias *)
| SPrintAttr (a x : N)              (* print(<alias a>.x<x>); *)
| SSetAttr (a x n : N)              (* <alias a>.x<x> = n; *)
| SCall (f : N)                     (* f<f>(); *)
| SCallAttr (a f : N)               (* <alias a>.f<f>(); *)
| SThrow                            (* throw "boom"; *)
| SUseBuiltin (k : N)               (* 0 print(type(1)); 1 print(Vec); 2 print(type(print)); k >= 3: print(<use_name k>); *)
| SFiber (d f : N)                  (* Fiber.new(|| Fiber.new(|| ... f<f>() ...).call()).call();   d nested fibers *)
| STry (body : list stmt)           (* try { body } catch e { print(type(e)); print(message of e); } *)
| SBlock (body : list stmt)         (* { body } *)
| SSetAttrFn (a g f : N)            (* <alias a>.f<g> = f<f>;   a function value leaves its module *)
| SLamCall (body : list stmt)       (* { var l_ = || { body }; l_(); }   a closure created and called at run time *)
| SYield                            (* Fiber.yield();   only at the top level of the body of a function driven by SGen *)
| SGen (a f : N) (between : list stmt).
    (* { var g_ = Fiber.new(<alias a>.f<f>); while !g_.has_finished() { g_.call(); { between } } }     (a = 0: Fiber.new(f<f>))
       the FUNCTION VALUE itself is the fiber's first frame (a function of another module when a <> 0); it runs up to its
       first top-level `Fiber.yield();`, the caller runs `between`, resumes it, ... until it has finished *)

Inductive top :=
| TStmt (s : stmt)
| TDef (x n : N)                    (* var x<x> = n; *)
| TFn (f : N) (body : list stmt).   (* fn f<f>() { body } *)

Inductive modsrc := MOk (ts : list top) | MMissing | MBad (k : N).
Definition program := list modsrc.

(* ---- names ---- *)
Definition mod_path (i : nat) : path :=
  match i with
  | 0 => main_path | 1 => "m1" | 2 => "lib/m2" | 3 => "m3" | 4 => "lib/sub/m4"
  | _ => "none"
  end.

Definition path_index (p : path) : option nat :=
  if String.eqb p "m1" then Some 1 else if String.eqb p "lib/m2" then Some 2
  else if String.eqb p "m3" then Some 3 else if String.eqb p "lib/sub/m4" then Some 4
  else if String.eqb p main_path then Some 0 else None.

(* Path::file_name: the text after the last '/' *)
Fixpoint last_component_aux (s acc : string) : string :=
  match s with
  | EmptyString => acc
  | String c r => if Ascii.eqb c "/" then last_component_aux r EmptyString
                  else last_component_aux r (acc ++ String c EmptyString)
  end.
Definition last_component (s : string) : string := last_component_aux s EmptyString.

Definition var_name (x : N) : name := "x" ++ show_N x.
Definition fn_name (f : N) : name := "f" ++ show_N f.
Definition alias_name (a : N) : name :=
  if N.ltb a 100 then "a" ++ show_N a else last_component (mod_path (N.to_nat (a - 100))).
Definition import_alias (p a : N) : name :=
  if N.eqb a 0 then last_component (mod_path (N.to_nat p)) else "a" ++ show_N a.
Definition tag_text (t : N) : string := "t" ++ show_N t.
Definition fn_key (src : nat) (f : N) : name := show_nat src ++ ":" ++ show_N f.
Definition thrown_text : string := "boom".

(* the start-up names a program may use by number (SUseBuiltin k, k >= 3): what init_built_in_globals installs and what
   core.yl defines, as of the sources this model was written against (the plug-in reports names of the current sources
   that are missing here as "uncovered") *)
Definition use_names : list name :=
  ["RuntimeError"; "clock"; "type"; "print"; "Type"; "Object"; "Nil"; "Bool"; "Num"; "Func"; "BuiltIn"; "Method";
   "BuiltInMethod"; "String"; "Iter"; "MapIter"; "FilterIter"; "Tuple"; "Vec"; "Range"; "HashMap"; "Fiber"; "Error";
   "AttributeError"; "IndexError"; "ImportError"; "NameError"; "TypeError"; "ValueError"; "StopIter"].
Definition use_name (k : N) : name := nth (N.to_nat (k - 3)) use_names "RuntimeError".

Definition bad_source (k : N) : string :=
  match k with
  | 0%N => "var = ;"
  | 1%N => "print(""x"";"
  | _ => "fn { }"
  end.

(* ---- static lookups ---- *)
Fixpoint find_fn_in (ts : list top) (src : nat) (key : name) : option (list stmt) :=
  match ts with
  | [] => None
  | TFn f b :: r => if String.eqb (fn_key src f) key then Some b else find_fn_in r src key
  | _ :: r => find_fn_in r src key
  end.

Fixpoint find_fn_from (prog : program) (i : nat) (key : name) : option (list stmt) :=
  match prog with
  | [] => None
  | MOk ts :: r => match find_fn_in ts i key with Some b => Some b | None => find_fn_from r (S i) key end
  | _ :: r => find_fn_from r (S i) key
  end.
Definition find_fn (prog : program) (key : name) : option (list stmt) := find_fn_from prog 0 key.

(* the body of a generator function, cut at its top-level `Fiber.yield();` statements: n yields, n + 1 segments *)
Fixpoint split_yield (l : list stmt) : list (list stmt) :=
  match l with
  | [] => [[]]
  | SYield :: r => [] :: split_yield r
  | s :: r => match split_yield r with seg :: rest => (s :: seg) :: rest | [] => [[s]] end
  end.

(* ---- the oracles a program defines ---- *)
Section Oracles.
  Variable prog : program.
  Variable cm : list (list (list string)).   (* compile messages of bad source k under path i: cm[i][k] *)

  Definition prog_loader (p : path) : load_result nat :=
    match path_index p with
    | Some (S i) =>
      match nth_error prog (S i) with
      | Some (MOk _) | Some (MBad _) => LoadOk (S i)
      | _ => LoadErr (mkerr KImport [not_found_msg p])
      end
    | _ => LoadErr (mkerr KImport [not_found_msg p])
    end.

  Definition prog_compiler (p : path) (i : nat) : comp_result (list top) :=
    match nth_error prog i with
    | Some (MOk ts) => CompOk ts
    | Some (MBad k) => CompErr (nth (N.to_nat k) (nth i cm []) [])
    | _ => CompErr []
    end.
End Oracles.

(* ---- Display of values ---- *)
Definition builtin_display (b : name) : string :=
  if String.eqb b "print" || String.eqb b "type" || String.eqb b "clock"
  then "<built-in fn " ++ b ++ ">"
  else if String.eqb b "Bool" then "<class Boolean>"      (* the class of the booleans is named Boolean *)
  else "<class " ++ b ++ ">".

Definition kind_class (k : errkind) : string :=
  match k with
  | KAttribute => "AttributeError" | KCompile => "RuntimeError" | KImport => "ImportError"
  | KIndex => "IndexError" | KName => "NameError" | KRuntime => "RuntimeError"
  | KType => "TypeError" | KValue => "ValueError"
  end.
(* new_error_from_value: class -> ErrorKind of an uncaught instance *)
Definition kind_after_roundtrip (k : errkind) : string :=
  match k with KCompile => "RuntimeError" | _ => kind_class k end.

Definition first_line (l : list string) : string := match l with m :: _ => m | [] => "" end.

(* ================================================================================================ *)
(* (b) Mechanism evaluator *)

Definition lenv := list (list (name * value)).

Fixpoint lookup_local (env : lenv) (x : name) : option value :=
  match env with
  | [] => None
  | sc :: r => match alookup sc x with Some v => Some v | None => lookup_local r x end
  end.

Record xst := mkx {
  ms : state;
  xout : list string;     (* printed lines, newest first *)
  hids : list nat;        (* identities of the try statements owning `handlers (ms)`, in parallel *)
  nexth : nat;
  xflags : string         (* "b": a name that only module main has was looked up elsewhere (finding) *)
}.

Definition display_m (st : state) (v : value) : string :=
  match v with
  | VNil => "nil"
  | VNum n => show_N n
  | VStr s => s
  | VMod id => "<module """ ++ m_path (getmod st id) ++ """>"
  | VFn _ f => "<fn " ++ f ++ ">"
  | VBuiltin b => builtin_display b
  end.

(* what a run shows: compared between Mechanism, Spec and implementation *)
Inductive obs_result := ObOk | ObDead (kind first : string) | ObFuel | ObIll (w : string).
Record obs := mkobs { ob_out : list string; ob_loads : list path; ob_res : obs_result }.

Inductive res :=
| RNormal (env : lenv) (x : xst)
| RUnwound (hid : nat) (e : exc) (x : xst)
| RDead (e : exc) (x : xst)
| RFuel
| RIll (why : string).

Inductive sres :=
| SOk (x : xst) (o : outcome (list top))
| SUnw (hid : nat) (e : exc) (x : xst)
| SDead (e : exc) (x : xst).

Section Mech.
  Variable prog : program.
  Variable cm : list (list (list string)).
  Variable builtin_names : list name.
  Variable frames_max : nat.
  Variable hit_checks_loading : bool.
  Variable builtins_guarded : bool.
  Variable loading_walks_chain : bool.
  Variable closure_takes_active : bool.

  Definition mstep := step nat (list top) (prog_loader prog) (prog_compiler prog cm) builtin_names frames_max
                           hit_checks_loading builtins_guarded loading_walks_chain.

  Definition with_ms (x : xst) (s : state) : xst := mkx s (xout x) (hids x) (nexth x) (xflags x).
  Definition emit (x : xst) (l : string) : xst := mkx (ms x) (l :: xout x) (hids x) (nexth x) (xflags x).
  Definition flag (x : xst) (f : string) : xst := mkx (ms x) (xout x) (hids x) (nexth x) (xflags x ++ f).

  Definition do_step (x : xst) (e : event) : sres :=
    let '(s', o) := mstep (ms x) e in
    match o with
    | OCaught ex =>
      match hids x with
      | h :: hs => SUnw h ex (mkx s' (xout x) hs (nexth x) (xflags x))
      | [] => SDead ex (with_ms x s')
      end
    | ODead ex => SDead ex (with_ms x s')
    | _ => SOk (with_ms x s') o
    end.

  (* sequencing helpers *)
  Definition bind_s (r : sres) (k : xst -> outcome (list top) -> res) : res :=
    match r with
    | SOk x o => k x o
    | SUnw h e x => RUnwound h e x
    | SDead e x => RDead e x
    end.

  Definition get_global (x : xst) (nm : name) (k : xst -> value -> res) : res :=
    bind_s (do_step x (EGetGlobal nm)) (fun x' o => match o with OValue v => k x' v | _ => RIll "get" end).

  Definition resolve (env : lenv) (x : xst) (nm : name) (k : xst -> value -> res) : res :=
    match lookup_local env nm with
    | Some v => k x v
    | None => get_global x nm k
    end.

  Definition bind_alias (env : lenv) (x : xst) (nm : name) (v : value) : res :=
    match env with
    | [] => bind_s (do_step x (EDefineGlobal nm v)) (fun x' _ => RNormal [] x')
    | sc :: r => RNormal (((nm, v) :: sc) :: r) x
    end.

  (* closure_impl: the `module` field of a closure created now.  The code: Vm.active_module.  Variant (false): the
     module REGISTERED under the path of the running code's module (the same object unless that load failed and
     the path was loaded again) *)
  Definition closure_mod (x : xst) : nat :=
    if closure_takes_active then active (ms x)
    else match alookup (reg (ms x)) (m_path (getmod (ms x) (active (ms x)))) with
         | Some id => id
         | None => active (ms x)
         end.

  Definition src_of_mod (x : xst) (id : nat) : nat :=
    match path_index (m_path (getmod (ms x) id)) with Some i => i | None => 0 end.

  Definition note_main_only (x : xst) (nm : name) : xst :=
    if Nat.eqb (active (ms x)) 0 then x
    else match alookup (attrs_of (ms x) (active (ms x))) nm with
         | Some _ => x
         | None => flag x "b"
         end.

  (* one structural fixpoint over the fuel; the four mutually recursive evaluators are its four tasks *)
  Inductive task :=
  | TkExec (ss : list stmt) (env : lenv)          (* a statement list *)
  | TkExec1 (s : stmt) (env : lenv)               (* one statement *)
  | TkCall (env : lenv) (w : value)               (* call_value *)
  | TkFiber (k : nat) (f : N) (env : lenv)        (* call f<f> through k more nested fibers *)
  | TkTops (ts : list top) (src : nat)            (* the top level of module source `src` *)
  | TkGen (m : nat) (segs : list (list stmt)) (fenv : lenv) (between : list stmt) (env : lenv).
      (* a fiber whose first frame is a function of module object m: resume it for its next segment, then `between` *)

  Fixpoint run_task (fuel : nat) (tk : task) (x : xst) {struct fuel} : res :=
    match fuel with
    | O => RFuel
    | S fuel' =>
      match tk with
      | TkExec ss env =>
        match ss with
        | [] => RNormal env x
        | s :: rest =>
          match run_task fuel' (TkExec1 s env) x with
          | RNormal env' x' => run_task fuel' (TkExec rest env') x'
          | r => r
          end
        end
      | TkExec1 s env =>
        match s with
        | SPrintTag t =>
          get_global x "print" (fun x1 _ => RNormal env (emit x1 (tag_text t)))
        | SPrintVar v =>
          get_global x "print" (fun x1 _ =>
          get_global x1 (var_name v) (fun x2 w => RNormal env (emit x2 (display_m (ms x2) w))))
        | SSet v n =>
          bind_s (do_step x (ESetGlobal (var_name v) (VNum n))) (fun x1 _ => RNormal env x1)
        | SImport p a =>
          let nm := import_alias p a in
          bind_s (do_step x (EStartImport (mod_path (N.to_nat p)))) (fun x1 o =>
            match o with
            | OModule id => bind_alias env x1 nm (VMod id)
            | OEntered id body =>
              match run_task fuel' (TkTops body (src_of_mod x1 id)) x1 with
              | RNormal _ x2 =>
                bind_s (do_step x2 EReturn) (fun x3 _ => bind_alias env x3 nm (VMod id))
              | r => r
              end
            | _ => RIll "import"
            end)
        | SPrintAttr a v =>
          get_global x "print" (fun x1 _ =>
          resolve env x1 (alias_name a) (fun x2 w =>
            match w with
            | VMod id => bind_s (do_step x2 (EGetAttr id (var_name v))) (fun x3 o =>
                           match o with OValue u => RNormal env (emit x3 (display_m (ms x3) u)) | _ => RIll "getattr" end)
            | _ => RIll "not a module"
            end))
        | SSetAttr a v n =>
          resolve env x (alias_name a) (fun x1 w =>
            match w with
            | VMod id => bind_s (do_step x1 (ESetAttr id (var_name v) (VNum n))) (fun x2 _ => RNormal env x2)
            | _ => RIll "not a module"
            end)
        | SCall f =>
          get_global x (fn_name f) (fun x1 w => run_task fuel' (TkCall env w) x1)
        | SCallAttr a f =>
          resolve env x (alias_name a) (fun x1 w =>
            match w with
            | VMod id => bind_s (do_step x1 (EGetAttr id (fn_name f))) (fun x2 o =>
                           match o with OValue u => run_task fuel' (TkCall env u) x2 | _ => RIll "invoke" end)
            | _ => RIll "not a module"
            end)
        | SThrow => bind_s (do_step x (EThrow (VStr thrown_text))) (fun _ _ => RIll "throw returned")
        | SUseBuiltin k =>
          get_global x "print" (fun x1 _ =>
            match k with
            | 0%N => get_global x1 "type" (fun x2 _ => RNormal env (emit x2 "<class Num>"))
            | 1%N => get_global x1 "Vec" (fun x2 w => RNormal env (emit x2 (display_m (ms x2) w)))
            | 2%N => get_global x1 "type" (fun x2 _ => get_global x2 "print" (fun x3 _ => RNormal env (emit x3 "<class BuiltIn>")))
            | _ => let x1' := note_main_only x1 (use_name k) in
                   get_global x1' (use_name k) (fun x2 w => RNormal env (emit x2 (display_m (ms x2) w)))
            end)
        | SFiber d f => run_task fuel' (TkFiber (N.to_nat d) f env) x
        | STry body =>
          let hid := nexth x in
          bind_s (do_step x EPushHandler) (fun x1 _ =>
            let x1' := mkx (ms x1) (xout x1) (hid :: hids x1) (S (nexth x1)) (xflags x1) in
            match run_task fuel' (TkExec body ([] :: env)) x1' with
            | RNormal _ x2 =>
              bind_s (do_step x2 EPopHandler) (fun x3 _ =>
                RNormal env (mkx (ms x3) (xout x3) (tl (hids x3)) (nexth x3) (xflags x3)))
            | RUnwound h e x2 =>
              if Nat.eqb h hid then
                (* catch e { print(type(e)); if type(e) == String { print(e); } else { print(e.context); } } *)
                get_global x2 "print" (fun x3 _ => get_global x3 "type" (fun x4 _ =>
                  let cls := match e with XErr er => kind_class (e_kind er) | XVal _ => "String" end in
                  let x5 := emit x4 ("<class " ++ cls ++ ">") in
                  get_global x5 "type" (fun x6 _ => get_global x6 "String" (fun x7 _ =>
                  get_global x7 "print" (fun x8 _ =>
                    let msg := match e with XErr er => first_line (e_msgs er) | XVal v => display_m (ms x8) v end in
                    RNormal env (emit x8 msg))))))
              else RUnwound h e x2
            | r => r
            end)
        | SBlock body =>
          match run_task fuel' (TkExec body ([] :: env)) x with
          | RNormal _ x1 => RNormal env x1
          | r => r
          end
        | SSetAttrFn a g f =>
          resolve env x (alias_name a) (fun x1 w =>
            match w with
            | VMod id => get_global x1 (fn_name f) (fun x2 u =>
                           bind_s (do_step x2 (ESetAttr id (fn_name g) u)) (fun x3 _ => RNormal env x3))
            | _ => RIll "not a module"
            end)
        | SLamCall body =>
          (* the closure is created by closure_impl and called at once: a frame of its module; the enclosing
             locals are its upvalues *)
          bind_s (do_step x (ECall (closure_mod x))) (fun x1 _ =>
            match run_task fuel' (TkExec body ([] :: env)) x1 with
            | RNormal _ x2 => bind_s (do_step x2 EReturn) (fun x3 _ => RNormal env x3)
            | r => r
            end)
        | SYield => RIll "yield outside a generator"
        | SGen a f between =>
          (* Fiber.new(<function value>): GetGlobal Fiber, then the function value, then the fiber is driven *)
          get_global x "Fiber" (fun x1 _ =>
            let k := fun (x2 : xst) (u : value) =>
              match u with
              | VFn m key =>
                match find_fn prog key with
                | Some body => run_task fuel' (TkGen m (split_yield body) [[]] between env) x2
                | None => RIll "no such function"
                end
              | _ => RIll "not a function"
              end in
            if N.eqb a 0 then get_global x1 (fn_name f) k
            else resolve env x1 (alias_name a) (fun x2 w =>
              match w with
              | VMod id => bind_s (do_step x2 (EGetAttr id (fn_name f))) (fun x3 o =>
                             match o with OValue u => k x3 u | _ => RIll "getattr" end)
              | _ => RIll "not a module"
              end))
        end
      | TkCall env w =>
        match w with
        | VFn m key =>
          match find_fn prog key with
          | Some body =>
            bind_s (do_step x (ECall m)) (fun x1 _ =>
              match run_task fuel' (TkExec body [[]]) x1 with
              | RNormal _ x2 => bind_s (do_step x2 EReturn) (fun x3 _ => RNormal env x3)
              | r => r
              end)
          | None => RIll "no such function"
          end
        | _ => RIll "not a function"
        end
      | TkFiber k f env =>
        match k with
        | O => get_global x (fn_name f) (fun x1 w => run_task fuel' (TkCall env w) x1)
        | S k' =>
          (* Fiber.new(|| ...).call(): the lambda is a closure of the active module; its frame is the first frame of
             a new fiber; when it returns the fiber is finished and the caller resumes *)
          get_global x "Fiber" (fun x1 _ =>
          bind_s (do_step x1 (EFiberCall (closure_mod x1))) (fun x2 _ =>
            match run_task fuel' (TkFiber k' f env) x2 with
            | RNormal _ x3 => bind_s (do_step x3 EReturn) (fun x4 _ => RNormal env x4)
            | r => r
            end))
        end
      | TkTops ts src =>
        match ts with
        | [] => RNormal [] x
        | t :: rest =>
          let r :=
            match t with
            | TStmt s => run_task fuel' (TkExec1 s []) x
            | TDef v n => bind_s (do_step x (EDefineGlobal (var_name v) (VNum n))) (fun x1 _ => RNormal [] x1)
            | TFn f _ =>
              (* closure_impl: the closure remembers Vm.active_module *)
              bind_s (do_step x (EDefineGlobal (fn_name f) (VFn (closure_mod x) (fn_key src f)))) (fun x1 _ => RNormal [] x1)
            end in
          match r with
          | RNormal _ x' => run_task fuel' (TkTops rest src) x'
          | r' => r'
          end
        end
      | TkGen m segs fenv between env =>
        match segs with
        | [] => RNormal env x
        | seg :: rest =>
          (* load_fiber (new or resumed): the fiber's frame - a frame of module m - is on top; Fiber.yield / the end of
             the function: unload_fiber, the caller's frame is on top again.  A single-frame fiber without handlers:
             for the module machinery a resumption is what a first call is, a yield is what finishing is *)
          bind_s (do_step x (EFiberCall m)) (fun x1 _ =>
            match run_task fuel' (TkExec seg fenv) x1 with
            | RNormal fenv' x2 =>
              bind_s (do_step x2 EReturn) (fun x3 _ =>
                match run_task fuel' (TkExec between ([] :: env)) x3 with
                | RNormal _ x4 => run_task fuel' (TkGen m rest fenv' between env) x4
                | r => r
                end)
            | r => r
            end)
        end
      end
    end.

  Definition exec (fuel : nat) (ss : list stmt) (env : lenv) (x : xst) : res := run_task fuel (TkExec ss env) x.
  Definition exec_tops (fuel : nat) (ts : list top) (src : nat) (x : xst) : res := run_task fuel (TkTops ts src) x.

  Definition main_attrs (core_names : list name) : list (name * value) :=
    builtin_attrs (builtin_names ++ core_names).

  Definition mech_init (core_names : list name) : xst :=
    mkx (init_state (main_attrs core_names)) [] [] 0 "".

  Definition show_lines (l : list string) : string := show_sep "$" (fun s => s) l.

  Definition dead_messages (e : exc) : list string :=
    match e with
    | XErr er => ("Unhandled " ++ kind_class (e_kind er) ++ ": " ++ first_line (e_msgs er)) :: tl (e_msgs er)
    | XVal v => ["Unhandled exception: " ++ display_m (init_state []) v]
    end.
  Definition dead_kind (e : exc) : string :=
    match e with XErr er => kind_after_roundtrip (e_kind er) | XVal _ => "RuntimeError" end.

  Definition show_mech (x : xst) (result : string) : string :=
    show_lines (rev (xout x)) ++ "#" ++ show_sep "," (fun s => s) (rev (loads (ms x))) ++ "#" ++ result
    ++ "#" ++ xflags x.

  Definition eval_mech (fuel : nat) (core_names : list name) : string :=
    match prog with
    | MOk ts :: _ =>
      match exec_tops fuel ts 0 (mech_init core_names) with
      | RNormal _ x => show_mech x "ok"
      | RDead e x => show_mech x ("dead " ++ dead_kind e ++ "$" ++ show_lines (dead_messages e))
      | RUnwound _ _ x => show_mech x "ILL unwound past the script"
      | RFuel => "FUEL"
      | RIll w => "ILL " ++ w
      end
    | _ => "ILL no main"
    end.

  (* the observation of a run: printed lines, loader calls, outcome (error kind + first message line) *)
  Definition mech_obs (fuel : nat) (core_names : list name) : obs :=
    match prog with
    | MOk ts :: _ =>
      match exec_tops fuel ts 0 (mech_init core_names) with
      | RNormal _ x => mkobs (rev (xout x)) (rev (loads (ms x))) ObOk
      | RDead e x => mkobs (rev (xout x)) (rev (loads (ms x))) (ObDead (dead_kind e) (first_line (dead_messages e)))
      | RUnwound _ _ x => mkobs [] [] (ObIll "unwound past the script")
      | RFuel => mkobs [] [] ObFuel
      | RIll w => mkobs [] [] (ObIll w)
      end
    | _ => mkobs [] [] (ObIll "no main")
    end.

  (* the trace of the run as a final machine state: used by ModulesProofs (every run of the
     evaluator is a run of the event machine) *)
  Definition final_state (fuel : nat) (core_names : list name) : option state :=
    match prog with
    | MOk ts :: _ =>
      match exec_tops fuel ts 0 (mech_init core_names) with
      | RNormal _ x | RDead _ x | RUnwound _ _ x => Some (ms x)
      | _ => None
      end
    | _ => None
    end.
End Mech.

(* ================================================================================================ *)
(* (a) Spec evaluator: lexical module of the running code = `cur`; exceptions propagate structurally *)

Definition senv := list (list (name * svalue)).

Fixpoint slookup_local (env : senv) (x : name) : option svalue :=
  match env with
  | [] => None
  | sc :: r => match alookup sc x with Some v => Some v | None => slookup_local r x end
  end.

Record sx := mksx { ss : sstate; sout : list string; sfl : string }.
(* sfl: reserved for flags of the Spec run (none at present) *)

Inductive sresult :=
| QNormal (env : senv) (x : sx)
| QRaised (e : sexc) (x : sx)
| QFatal (e : sexc) (x : sx)       (* an exception that left a fiber: nothing can catch it, the run is over *)
| QFuel
| QIll (why : string).

Definition display_s (v : svalue) : string :=
  match v with
  | SNil => "nil"
  | SNum n => show_N n
  | SStr s => s
  | SMod p => "<module """ ++ p ++ """>"
  | SFn _ f => "<fn " ++ f ++ ">"
  | SBuiltin b => builtin_display b
  end.

Section SpecEval.
  Variable prog : program.
  Variable startup_names : list name.
  Variable frames_max : nat.

  Definition s_import := spec_import nat (list top) (prog_loader prog) (prog_compiler prog []).
  Definition s_begin := spec_begin startup_names.

  Definition semit (x : sx) (l : string) : sx := mksx (ss x) (l :: sout x) (sfl x).
  Definition raise_s (x : sx) (k : errkind) (m : string) : sresult := QRaised (SXErr (mkerr k [m])) x.

  Definition sget (cur : path) (x : sx) (nm : name) (k : svalue -> sresult) : sresult :=
    match alookup (sglobals (ss x) cur) nm with
    | Some v => k v
    | None => raise_s x KName (undefined_variable nm)
    end.

  Definition sresolve (cur : path) (env : senv) (x : sx) (nm : name) (k : svalue -> sresult) : sresult :=
    match slookup_local env nm with
    | Some v => k v
    | None => sget cur x nm k
    end.

  Definition sbind (cur : path) (env : senv) (x : sx) (nm : name) (v : svalue) : sresult :=
    match env with
    | [] => QNormal [] (mksx (set_sglobal (ss x) cur nm v) (sout x) (sfl x))
    | sc :: r => QNormal (((nm, v) :: sc) :: r) x
    end.

  (* one structural fixpoint, the same four tasks as the Mechanism evaluator (so that the two can be compared
     fuel level by fuel level).  `cur` = the module whose source text contains the running code;
     `depth` = number of active calls and module bodies (the main script counts). *)
  Inductive stask :=
  | SkExec (l : list stmt) (env : senv)
  | SkExec1 (s : stmt) (env : senv)
  | SkCall (env : senv) (w : svalue)
  | SkFiber (k : nat) (f : N) (env : senv)
  | SkTops (ts : list top) (src : nat)
  | SkGen (p : path) (segs : list (list stmt)) (fenv : senv) (between : list stmt) (env : senv).

  Definition sset (cur : path) (x : sx) (nm : name) (v : svalue) : sx :=
    mksx (set_sglobal (ss x) cur nm v) (sout x) (sfl x).

  Fixpoint srun_task (fuel : nat) (cur : path) (depth : nat) (tk : stask) (x : sx) {struct fuel} : sresult :=
    match fuel with
    | O => QFuel
    | S fuel' =>
      match tk with
      | SkExec l env =>
        match l with
        | [] => QNormal env x
        | s :: rest =>
          match srun_task fuel' cur depth (SkExec1 s env) x with
          | QNormal env' x' => srun_task fuel' cur depth (SkExec rest env') x'
          | r => r
          end
        end
      | SkExec1 s env =>
        match s with
        | SPrintTag t => sget cur x "print" (fun _ => QNormal env (semit x (tag_text t)))
        | SPrintVar v =>
          sget cur x "print" (fun _ => sget cur x (var_name v) (fun w => QNormal env (semit x (display_s w))))
        | SSet v n => sget cur x (var_name v) (fun _ => QNormal env (sset cur x (var_name v) (SNum n)))
        | SImport p a =>
          let nm := import_alias p a in
          let pth := mod_path (N.to_nat p) in
          let '(st1, d) := s_import (ss x) pth in
          let x1 := mksx st1 (sout x) (sfl x) in
          match d with
          | DSame => sbind cur env x1 nm (SMod pth)
          | DRaise e => QRaised (SXErr e) x1
          | DRun body =>
            if Nat.eqb depth frames_max then QRaised (SXErr (mkerr KIndex [stack_overflow_msg])) x1
            else
              let x1' := mksx (s_begin (ss x1) pth) (sout x1) (sfl x1) in
              match srun_task fuel' pth (S depth) (SkTops body (N.to_nat p)) x1' with
              | QNormal _ x2 => sbind cur env (mksx (spec_finish (ss x2) pth true) (sout x2) (sfl x2)) nm (SMod pth)
              | QRaised e x2 => QRaised e (mksx (spec_finish (ss x2) pth false) (sout x2) (sfl x2))
              | r => r
              end
          end
        | SPrintAttr a v =>
          sget cur x "print" (fun _ =>
          sresolve cur env x (alias_name a) (fun w =>
            match w with
            | SMod p =>
              match alookup (sglobals (ss x) p) (var_name v) with
              | Some u => QNormal env (semit x (display_s u))
              | None => raise_s x KAttribute (undefined_property (var_name v))
              end
            | _ => QIll "not a module"
            end))
        | SSetAttr a v n =>
          sresolve cur env x (alias_name a) (fun w =>
            match w with
            | SMod p => QNormal env (sset p x (var_name v) (SNum n))
            | _ => QIll "not a module"
            end)
        | SCall f => sget cur x (fn_name f) (fun w => srun_task fuel' cur depth (SkCall env w) x)
        | SCallAttr a f =>
          sresolve cur env x (alias_name a) (fun w =>
            match w with
            | SMod p =>
              match alookup (sglobals (ss x) p) (fn_name f) with
              | Some u => srun_task fuel' cur depth (SkCall env u) x
              | None => raise_s x KAttribute (undefined_property (fn_name f))
              end
            | _ => QIll "not a module"
            end)
        | SThrow => QRaised (SXVal (SStr thrown_text)) x
        | SUseBuiltin k =>
          sget cur x "print" (fun _ =>
            match k with
            | 0%N => sget cur x "type" (fun _ => QNormal env (semit x "<class Num>"))
            | 1%N => sget cur x "Vec" (fun w => QNormal env (semit x (display_s w)))
            | 2%N => sget cur x "type" (fun _ => sget cur x "print" (fun _ => QNormal env (semit x "<class BuiltIn>")))
            | _ => sget cur x (use_name k) (fun w => QNormal env (semit x (display_s w)))
            end)
        | SFiber d f => srun_task fuel' cur depth (SkFiber (N.to_nat d) f env) x
        | STry body =>
          match srun_task fuel' cur depth (SkExec body ([] :: env)) x with
          | QNormal _ x1 => QNormal env x1
          | QRaised e x1 =>
            sget cur x1 "print" (fun _ => sget cur x1 "type" (fun _ =>
              let cls := match e with SXErr er => kind_class (e_kind er) | SXVal _ => "String" end in
              let x2 := semit x1 ("<class " ++ cls ++ ">") in
              sget cur x2 "type" (fun _ => sget cur x2 "String" (fun _ => sget cur x2 "print" (fun _ =>
                let msg := match e with SXErr er => first_line (e_msgs er) | SXVal v => display_s v end in
                QNormal env (semit x2 msg))))))
          | r => r
          end
        | SBlock body =>
          match srun_task fuel' cur depth (SkExec body ([] :: env)) x with
          | QNormal _ x1 => QNormal env x1
          | r => r
          end
        | SSetAttrFn a g f =>
          sresolve cur env x (alias_name a) (fun w =>
            match w with
            | SMod p => sget cur x (fn_name f) (fun u => QNormal env (sset p x (fn_name g) u))
            | _ => QIll "not a module"
            end)
        | SLamCall body =>
          (* a function of the module whose code this is (`cur`: a module or a retired instance), called at once *)
          if Nat.eqb depth frames_max then raise_s x KIndex stack_overflow_msg
          else
            match srun_task fuel' cur (S depth) (SkExec body ([] :: env)) x with
            | QNormal _ x1 => QNormal env x1
            | r => r
            end
        | SYield => QIll "yield outside a generator"
        | SGen a f between =>
          sget cur x "Fiber" (fun _ =>
            let k := fun (u : svalue) =>
              match u with
              | SFn p key =>
                match find_fn prog key with
                | Some body => srun_task fuel' cur depth (SkGen p (split_yield body) [[]] between env) x
                | None => QIll "no such function"
                end
              | _ => QIll "not a function"
              end in
            if N.eqb a 0 then sget cur x (fn_name f) k
            else sresolve cur env x (alias_name a) (fun w =>
              match w with
              | SMod p =>
                match alookup (sglobals (ss x) p) (fn_name f) with
                | Some u => k u
                | None => raise_s x KAttribute (undefined_property (fn_name f))
                end
              | _ => QIll "not a module"
              end))
        end
      | SkCall env w =>
        match w with
        | SFn p key =>
          match find_fn prog key with
          | Some body =>
            if Nat.eqb depth frames_max then raise_s x KIndex stack_overflow_msg
            else
              (* the function runs in the module it was DEFINED in *)
              match srun_task fuel' p (S depth) (SkExec body [[]]) x with
              | QNormal _ x1 => QNormal env x1
              | r => r
              end
          | None => QIll "no such function"
          end
        | _ => QIll "not a function"
        end
      | SkFiber k f env =>
        match k with
        | O => sget cur x (fn_name f) (fun w => srun_task fuel' cur depth (SkCall env w) x)
        | S k' =>
          (* a new fiber: its own nesting depth (the lambda is its first frame); an exception that is not caught
             inside the fiber ends the run *)
          sget cur x "Fiber" (fun _ =>
            match srun_task fuel' cur 1 (SkFiber k' f env) x with
            | QNormal _ x1 => QNormal env x1
            | QRaised e x1 => QFatal e x1
            | r => r
            end)
        end
      | SkTops ts src =>
        match ts with
        | [] => QNormal [] x
        | t :: rest =>
          let r :=
            match t with
            | TStmt s => srun_task fuel' cur depth (SkExec1 s []) x
            | TDef v n => QNormal [] (sset cur x (var_name v) (SNum n))
            | TFn f _ => QNormal [] (sset cur x (fn_name f) (SFn cur (fn_key src f)))
            end in
          match r with
          | QNormal _ x' => srun_task fuel' cur depth (SkTops rest src) x'
          | r' => r'
          end
        end
      | SkGen p segs fenv between env =>
        match segs with
        | [] => QNormal env x
        | seg :: rest =>
          (* the generator's code runs in the module it was DEFINED in (p), with its own nesting depth and its own
             locals; what it does not catch ends the run; then the caller goes on in ITS module (cur) *)
          match srun_task fuel' p 1 (SkExec seg fenv) x with
          | QNormal fenv' x1 =>
            match srun_task fuel' cur depth (SkExec between ([] :: env)) x1 with
            | QNormal _ x2 => srun_task fuel' cur depth (SkGen p rest fenv' between env) x2
            | r => r
            end
          | QRaised e x1 => QFatal e x1
          | r => r
          end
        end
      end
    end.

  Definition sexec_tops (fuel : nat) (cur : path) (ts : list top) (src : nat) (x : sx) : sresult :=
    srun_task fuel cur 1 (SkTops ts src) x.

  Definition show_spec (x : sx) (result : string) : string :=
    show_sep "$" (fun s => s) (rev (sout x)) ++ "#" ++ show_sep "," (fun s => s) (rev (s_loads (ss x))) ++ "#" ++ result ++ "#" ++ sfl x.

  Definition eval_spec (fuel : nat) : string :=
    match prog with
    | MOk ts :: _ =>
      match sexec_tops fuel main_path ts 0 (mksx (spec_init startup_names) [] "") with
      | QNormal _ x => show_spec x "ok"
      | QRaised (SXErr er) x | QFatal (SXErr er) x =>
        show_spec x ("dead " ++ kind_after_roundtrip (e_kind er) ++ "$Unhandled " ++ kind_class (e_kind er) ++ ": " ++ first_line (e_msgs er))
      | QRaised (SXVal v) x | QFatal (SXVal v) x => show_spec x ("dead RuntimeError$Unhandled exception: " ++ display_s v)
      | QFuel => "FUEL"
      | QIll w => "ILL " ++ w
      end
    | _ => "ILL no main"
    end.
Definition spec_obs (fuel : nat) : obs :=
    match prog with
    | MOk ts :: _ =>
      match sexec_tops fuel main_path ts 0 (mksx (spec_init startup_names) [] "") with
      | QNormal _ x => mkobs (rev (sout x)) (rev (s_loads (ss x))) ObOk
      | QRaised (SXErr er) x | QFatal (SXErr er) x =>
        mkobs (rev (sout x)) (rev (s_loads (ss x)))
              (ObDead (kind_after_roundtrip (e_kind er)) ("Unhandled " ++ kind_class (e_kind er) ++ ": " ++ first_line (e_msgs er)))
      | QRaised (SXVal v) x | QFatal (SXVal v) x =>
        mkobs (rev (sout x)) (rev (s_loads (ss x))) (ObDead "RuntimeError" ("Unhandled exception: " ++ display_s v))
      | QFuel => mkobs [] [] ObFuel
      | QIll w => mkobs [] [] (ObIll w)
      end
    | _ => mkobs [] [] (ObIll "no main")
    end.
End SpecEval.

(* ================================================================================================ *)
(* (c) rendering to yarel *)

Definition catch_text : string :=
  "catch e { print(type(e)); if type(e) == String { print(e); } else { print(e.context); } }".

Fixpoint render_fiber (k : nat) (inner : string) : string :=
  match k with
  | O => inner
  | S k' => "Fiber.new(|| " ++ render_fiber k' inner ++ ").call()"
  end.

Fixpoint render_stmt (s : stmt) : string :=
  let fix render_list (l : list stmt) : string :=
    match l with
    | [] => ""
    | a :: r => render_stmt a ++ " " ++ render_list r
    end in
  match s with
  | SPrintTag t => "print(""" ++ tag_text t ++ """);"
  | SPrintVar x => "print(" ++ var_name x ++ ");"
  | SSet x n => var_name x ++ " = " ++ show_N n ++ ";"
  | SImport p a =>
    "import """ ++ mod_path (N.to_nat p) ++ """" ++ (if N.eqb a 0 then "" else " as a" ++ show_N a) ++ ";"
  | SPrintAttr a x => "print(" ++ alias_name a ++ "." ++ var_name x ++ ");"
  | SSetAttr a x n => alias_name a ++ "." ++ var_name x ++ " = " ++ show_N n ++ ";"
  | SCall f => fn_name f ++ "();"
  | SCallAttr a f => alias_name a ++ "." ++ fn_name f ++ "();"
  | SThrow => "throw """ ++ thrown_text ++ """;"
  | SUseBuiltin k =>
    match k with
    | 0%N => "print(type(1));" | 1%N => "print(Vec);" | 2%N => "print(type(print));"
    | _ => "print(" ++ use_name k ++ ");"
    end
  | SFiber d f => render_fiber (N.to_nat d) (fn_name f ++ "()") ++ ";"
  | STry body => "try { " ++ render_list body ++ "} " ++ catch_text
  | SBlock body => "{ " ++ render_list body ++ "}"
  | SSetAttrFn a g f => alias_name a ++ "." ++ fn_name g ++ " = " ++ fn_name f ++ ";"
  | SLamCall body => "{ var l_ = || { " ++ render_list body ++ "}; l_(); }"
  | SYield => "Fiber.yield();"
  | SGen a f between =>
    "{ var g_ = Fiber.new(" ++ (if N.eqb a 0 then "" else alias_name a ++ ".") ++ fn_name f
    ++ "); while !g_.has_finished() { g_.call(); { " ++ render_list between ++ "} } }"
  end.

Fixpoint render_stmts (l : list stmt) : string :=
  match l with
  | [] => ""
  | a :: r => render_stmt a ++ " " ++ render_stmts r
  end.

Definition render_top (t : top) : string :=
  match t with
  | TStmt s => render_stmt s
  | TDef x n => "var " ++ var_name x ++ " = " ++ show_N n ++ ";"
  | TFn f body => "fn " ++ fn_name f ++ "() { " ++ render_stmts body ++ "}"
  end.

Fixpoint render_tops (l : list top) : string :=
  match l with
  | [] => ""
  | a :: r => render_top a ++ " " ++ render_tops r
  end.

Fixpoint render_mods (l : list modsrc) (i : nat) : string :=
  match l with
  | [] => ""
  | MOk ts :: r => "~" ++ mod_path i ++ "^" ++ render_tops ts ++ render_mods r (S i)
  | MBad k :: r => "~" ++ mod_path i ++ "^" ++ bad_source k ++ render_mods r (S i)
  | MMissing :: r => render_mods r (S i)
  end.

(* main source ~ path ^ source ~ path ^ source ... *)
Definition render (prog : program) : string :=
  match prog with
  | MOk ts :: r => render_tops ts ++ render_mods r 1
  | _ => ""
  end.

(* ================================================================================================ *)
(* static well-formedness: what the generator guarantees and the evaluators rely on *)

Fixpoint dup_alias (seen : list name) (l : list stmt) : bool :=
  match l with
  | [] => false
  | SImport p a :: r =>
    let nm := import_alias p a in
    if existsb (String.eqb nm) seen then true else dup_alias (nm :: seen) r
  | _ :: r => dup_alias seen r
  end.

Fixpoint wf_stmt (nmods : nat) (s : stmt) : bool :=
  let fix wf_list (l : list stmt) : bool :=
    match l with [] => true | a :: r => wf_stmt nmods a && wf_list r end in
  match s with
  | SImport p a => negb (N.eqb p 0) && Nat.ltb (N.to_nat p) 5 && N.ltb a 100
  | STry body | SBlock body | SLamCall body => wf_list body && negb (dup_alias [] body)
  | SGen _ _ body => wf_list body && negb (dup_alias [] body)
  | SYield => false                 (* allowed only where wf_top says so: at the top level of a function body *)
  | SUseBuiltin k => N.ltb k 33
  | SFiber d _ => N.ltb d 8
  | _ => true
  end.

Definition wf_top (nmods : nat) (t : top) : bool :=
  match t with
  | TStmt s => wf_stmt nmods s
  | TDef _ _ => true
  | TFn _ body => forallb (fun s => match s with SYield => true | _ => wf_stmt nmods s end) body && negb (dup_alias [] body)
  end.

Fixpoint fn_names (ts : list top) : list N :=
  match ts with [] => [] | TFn f _ :: r => f :: fn_names r | _ :: r => fn_names r end.
Fixpoint nodup_N (l : list N) : bool :=
  match l with [] => true | a :: r => negb (existsb (N.eqb a) r) && nodup_N r end.

Definition wf_mod (nmods : nat) (m : modsrc) : bool :=
  match m with
  | MOk ts => forallb (wf_top nmods) ts && nodup_N (fn_names ts)
  | MBad k => N.ltb k 3
  | MMissing => true
  end.

Definition wf_prog (prog : program) : bool :=
  match prog with
  | MOk _ :: _ => Nat.leb (List.length prog) 5 && forallb (wf_mod (List.length prog)) prog
  | _ => false
  end.

(* ================================================================================================ *)
(* wire format: one ';'-group per module: kind (0 ok, 1 missing, 2+k bad source k) then the statements
     1 t | 3 x | 4 x n | 5 p a | 7 a x | 8 a x n | 10 f | 11 a f | 12 | 15 k | 16 d f | 13 <stmts> 0 | 14 <stmts> 0
     17 a g f | 18 <stmts> 0 (closure created and called) | 19 (yield) | 22 a f <stmts> 0 (generator fiber driven to its end)
     20 x n (var) | 21 f <stmts> 0 (fn) *)
Fixpoint parse_stmts (fuel : nat) (l : list N) : list stmt * list N :=
  match fuel with
  | O => ([], [])
  | S fuel' =>
    match l with
    | [] => ([], [])
    | 0%N :: r => ([], r)
    | 1%N :: t :: r => let '(ss, r') := parse_stmts fuel' r in (SPrintTag t :: ss, r')
    | 3%N :: x :: r => let '(ss, r') := parse_stmts fuel' r in (SPrintVar x :: ss, r')
    | 4%N :: x :: n :: r => let '(ss, r') := parse_stmts fuel' r in (SSet x n :: ss, r')
    | 5%N :: p :: a :: r => let '(ss, r') := parse_stmts fuel' r in (SImport p a :: ss, r')
    | 7%N :: a :: x :: r => let '(ss, r') := parse_stmts fuel' r in (SPrintAttr a x :: ss, r')
    | 8%N :: a :: x :: n :: r => let '(ss, r') := parse_stmts fuel' r in (SSetAttr a x n :: ss, r')
    | 10%N :: f :: r => let '(ss, r') := parse_stmts fuel' r in (SCall f :: ss, r')
    | 11%N :: a :: f :: r => let '(ss, r') := parse_stmts fuel' r in (SCallAttr a f :: ss, r')
    | 12%N :: r => let '(ss, r') := parse_stmts fuel' r in (SThrow :: ss, r')
    | 15%N :: k :: r => let '(ss, r') := parse_stmts fuel' r in (SUseBuiltin k :: ss, r')
    | 16%N :: d :: f :: r => let '(ss, r') := parse_stmts fuel' r in (SFiber d f :: ss, r')
    | 17%N :: a :: g :: f :: r => let '(ss, r') := parse_stmts fuel' r in (SSetAttrFn a g f :: ss, r')
    | 18%N :: r =>
      let '(body, r1) := parse_stmts fuel' r in
      let '(ss, r2) := parse_stmts fuel' r1 in (SLamCall body :: ss, r2)
    | 19%N :: r => let '(ss, r') := parse_stmts fuel' r in (SYield :: ss, r')
    | 22%N :: a :: f :: r =>
      let '(body, r1) := parse_stmts fuel' r in
      let '(ss, r2) := parse_stmts fuel' r1 in (SGen a f body :: ss, r2)
    | 13%N :: r =>
      let '(body, r1) := parse_stmts fuel' r in
      let '(ss, r2) := parse_stmts fuel' r1 in (STry body :: ss, r2)
    | 14%N :: r =>
      let '(body, r1) := parse_stmts fuel' r in
      let '(ss, r2) := parse_stmts fuel' r1 in (SBlock body :: ss, r2)
    | _ => ([], [])
    end
  end.

Definition parse_one (fuel' : nat) (l : list N) : option (stmt * list N) :=
    match l with
    | 1%N :: t :: r => Some (SPrintTag t, r)
    | 3%N :: x :: r => Some (SPrintVar x, r)
    | 4%N :: x :: n :: r => Some (SSet x n, r)
    | 5%N :: p :: a :: r => Some (SImport p a, r)
    | 7%N :: a :: x :: r => Some (SPrintAttr a x, r)
    | 8%N :: a :: x :: n :: r => Some (SSetAttr a x n, r)
    | 10%N :: f :: r => Some (SCall f, r)
    | 11%N :: a :: f :: r => Some (SCallAttr a f, r)
    | 12%N :: r => Some (SThrow, r)
    | 15%N :: k :: r => Some (SUseBuiltin k, r)
    | 16%N :: d :: f :: r => Some (SFiber d f, r)
    | 17%N :: a :: g :: f :: r => Some (SSetAttrFn a g f, r)
    | 18%N :: r => let '(body, r1) := parse_stmts fuel' r in Some (SLamCall body, r1)
    | 19%N :: r => Some (SYield, r)
    | 22%N :: a :: f :: r => let '(body, r1) := parse_stmts fuel' r in Some (SGen a f body, r1)
    | 13%N :: r => let '(body, r1) := parse_stmts fuel' r in Some (STry body, r1)
    | 14%N :: r => let '(body, r1) := parse_stmts fuel' r in Some (SBlock body, r1)
    | _ => None
    end.

Fixpoint parse_tops (fuel : nat) (l : list N) : list top :=
  match fuel with
  | O => []
  | S fuel' =>
    match l with
    | [] => []
    | 20%N :: x :: n :: r => TDef x n :: parse_tops fuel' r
    | 21%N :: f :: r => let '(body, r1) := parse_stmts fuel' r in TFn f body :: parse_tops fuel' r1
    | _ =>
      (* exactly one statement: parse a list and keep its head; the rest is re-parsed *)
      match parse_one fuel' l with
      | Some (s, r) => TStmt s :: parse_tops fuel' r
      | None => []
      end
    end
  end.

Definition parse_mod (g : list N) : modsrc :=
  match g with
  | 0%N :: r => MOk (parse_tops (S (List.length r)) r)
  | 1%N :: _ => MMissing
  | k :: _ => MBad (k - 2)
  | [] => MMissing
  end.

Definition parse_prog (w : string) : program := map parse_mod (parse_nss w).

Definition default_fuel : nat := 3000.

(* one case of the correspondence check:  mech @ spec @ rendered sources *)
Definition run_case (cm : list (list (list string))) (builtin_names core_names : list name) (frames_max : N)
           (hit_checks_loading builtins_guarded loading_walks_chain closure_takes_active : bool) (w : string) : string :=
  let prog := parse_prog w in
  if wf_prog prog then
    eval_mech prog cm builtin_names (N.to_nat frames_max) hit_checks_loading builtins_guarded loading_walks_chain closure_takes_active
              default_fuel core_names
    ++ "@" ++ eval_spec prog (builtin_names ++ core_names) (N.to_nat frames_max) default_fuel
    ++ "@" ++ render prog
  else "ILLFORMED".
